(* Model/Errors.v -- C17: exception-flow model of the code that runs OUTSIDE
   _STIXBase._check_property's generic `except Exception -> InvalidValueError`
   wrapper, over arbitrary JSON kinds, every dynamic operation typed.

   The model is set-valued (list monad): a function returns every outcome the
   code may produce; property cleaning is a black box that may return or raise
   anything and is seen only through the wrapper (`wrapped_clean`).  The
   implementation is tied by REFINEMENT: its outcome must be in the set.

   No proofs in this file.  Mirrors (pinned tree):
     stix2/exceptions.py                 -> kexn, kparent
     stix2/base.py  _check_property      -> check_property_wrapper
     stix2/utils.py _get_dict            -> get_dict
     stix2/utils.py detect_spec_version  -> detect
     stix2/registry.py class_for_type    -> class_for_type
     stix2/parsing.py                    -> dict_to_stix2, parse, parse_observable
     stix2/base.py  _STIXBase.__init__   -> base_init (ext_scan, custom_properties, ...)
     stix2/base.py  _Observable          -> check_ref, generate_id_outcomes
     stix2/markings/utils.py             -> validate_raw, check_tlp
     v20/v21 __init__ / _check_object_constraints overrides -> prehook / conshook
     stix2/datastore/memory.py _add      -> store_add                              *)
From Coq Require Import NArith ZArith List String Bool Ascii.
From V Require Import Base.UString Base.Json.
Import ListNotations.
Open Scope string_scope.

(* ------------------------------------------------------------------ *)
(* 1. exception classes                                                 *)

Inductive kexn :=
| K_BaseException | K_Exception | K_KeyboardInterrupt | K_SystemExit | K_GeneratorExit
| K_ValueError | K_UnicodeError | K_UnicodeDecodeError | K_UnicodeEncodeError | K_JSONDecodeError
| K_TypeError | K_AttributeError | K_LookupError | K_KeyError | K_IndexError
| K_RuntimeError | K_RecursionError | K_NotImplementedError | K_NameError | K_UnboundLocalError
| K_ArithmeticError | K_OverflowError | K_ZeroDivisionError | K_AssertionError | K_StopIteration
| K_OSError | K_MemoryError | K_Warning | K_DeprecationWarning
(* stix2/exceptions.py *)
| K_STIXError | K_ObjectConfigurationError | K_InvalidValueError | K_PropertyPresenceError
| K_MissingPropertiesError | K_ExtraPropertiesError | K_MutuallyExclusivePropertiesError
| K_DependentPropertiesError | K_AtLeastOnePropertyError | K_DictionaryKeyError | K_InvalidObjRefError
| K_InvalidSelectorError | K_TLPMarkingDefinitionError | K_ImmutableError | K_VersioningError
| K_UnmodifiablePropertyError | K_TypeNotVersionableError | K_ObjectNotVersionableError | K_RevokeError
| K_ParseError | K_CustomContentError | K_MarkingNotFoundError | K_STIXDeprecationWarning
| K_DuplicateRegistrationError.

Scheme Equality for kexn.

Definition kparent (k : kexn) : option kexn :=
  match k with
  | K_BaseException => None
  | K_Exception | K_KeyboardInterrupt | K_SystemExit | K_GeneratorExit => Some K_BaseException
  | K_ValueError | K_TypeError | K_AttributeError | K_LookupError | K_RuntimeError | K_NameError
  | K_ArithmeticError | K_AssertionError | K_StopIteration | K_OSError | K_MemoryError | K_Warning
  | K_STIXError => Some K_Exception
  | K_UnicodeError | K_JSONDecodeError => Some K_ValueError
  | K_UnicodeDecodeError | K_UnicodeEncodeError => Some K_UnicodeError
  | K_KeyError | K_IndexError => Some K_LookupError
  | K_RecursionError | K_NotImplementedError => Some K_RuntimeError
  | K_UnboundLocalError => Some K_NameError
  | K_OverflowError | K_ZeroDivisionError => Some K_ArithmeticError
  | K_DeprecationWarning => Some K_Warning
  | K_STIXDeprecationWarning => Some K_DeprecationWarning
  | K_ObjectConfigurationError | K_ImmutableError | K_VersioningError | K_RevokeError | K_ParseError
  | K_CustomContentError | K_MarkingNotFoundError | K_DuplicateRegistrationError => Some K_STIXError
  | K_InvalidValueError | K_PropertyPresenceError | K_DictionaryKeyError | K_InvalidObjRefError
  | K_InvalidSelectorError | K_TLPMarkingDefinitionError => Some K_ObjectConfigurationError
  | K_MissingPropertiesError | K_ExtraPropertiesError | K_MutuallyExclusivePropertiesError
  | K_DependentPropertiesError | K_AtLeastOnePropertyError => Some K_PropertyPresenceError
  | K_UnmodifiablePropertyError | K_TypeNotVersionableError | K_ObjectNotVersionableError => Some K_VersioningError
  end.

Definition kname (k : kexn) : string :=
  match k with
  | K_BaseException => "BaseException" | K_Exception => "Exception" | K_KeyboardInterrupt => "KeyboardInterrupt"
  | K_SystemExit => "SystemExit" | K_GeneratorExit => "GeneratorExit" | K_ValueError => "ValueError"
  | K_UnicodeError => "UnicodeError" | K_UnicodeDecodeError => "UnicodeDecodeError"
  | K_UnicodeEncodeError => "UnicodeEncodeError" | K_JSONDecodeError => "JSONDecodeError"
  | K_TypeError => "TypeError" | K_AttributeError => "AttributeError" | K_LookupError => "LookupError"
  | K_KeyError => "KeyError" | K_IndexError => "IndexError" | K_RuntimeError => "RuntimeError"
  | K_RecursionError => "RecursionError" | K_NotImplementedError => "NotImplementedError"
  | K_NameError => "NameError" | K_UnboundLocalError => "UnboundLocalError"
  | K_ArithmeticError => "ArithmeticError" | K_OverflowError => "OverflowError"
  | K_ZeroDivisionError => "ZeroDivisionError" | K_AssertionError => "AssertionError"
  | K_StopIteration => "StopIteration" | K_OSError => "OSError" | K_MemoryError => "MemoryError"
  | K_Warning => "Warning" | K_DeprecationWarning => "DeprecationWarning"
  | K_STIXError => "STIXError" | K_ObjectConfigurationError => "ObjectConfigurationError"
  | K_InvalidValueError => "InvalidValueError" | K_PropertyPresenceError => "PropertyPresenceError"
  | K_MissingPropertiesError => "MissingPropertiesError" | K_ExtraPropertiesError => "ExtraPropertiesError"
  | K_MutuallyExclusivePropertiesError => "MutuallyExclusivePropertiesError"
  | K_DependentPropertiesError => "DependentPropertiesError" | K_AtLeastOnePropertyError => "AtLeastOnePropertyError"
  | K_DictionaryKeyError => "DictionaryKeyError" | K_InvalidObjRefError => "InvalidObjRefError"
  | K_InvalidSelectorError => "InvalidSelectorError" | K_TLPMarkingDefinitionError => "TLPMarkingDefinitionError"
  | K_ImmutableError => "ImmutableError" | K_VersioningError => "VersioningError"
  | K_UnmodifiablePropertyError => "UnmodifiablePropertyError" | K_TypeNotVersionableError => "TypeNotVersionableError"
  | K_ObjectNotVersionableError => "ObjectNotVersionableError" | K_RevokeError => "RevokeError"
  | K_ParseError => "ParseError" | K_CustomContentError => "CustomContentError"
  | K_MarkingNotFoundError => "MarkingNotFoundError" | K_STIXDeprecationWarning => "STIXDeprecationWarning"
  | K_DuplicateRegistrationError => "DuplicateRegistrationError"
  end.

Definition all_kexn : list kexn :=
  [K_BaseException; K_Exception; K_KeyboardInterrupt; K_SystemExit; K_GeneratorExit; K_ValueError; K_UnicodeError;
   K_UnicodeDecodeError; K_UnicodeEncodeError; K_JSONDecodeError; K_TypeError; K_AttributeError; K_LookupError;
   K_KeyError; K_IndexError; K_RuntimeError; K_RecursionError; K_NotImplementedError; K_NameError;
   K_UnboundLocalError; K_ArithmeticError; K_OverflowError; K_ZeroDivisionError; K_AssertionError; K_StopIteration;
   K_OSError; K_MemoryError; K_Warning; K_DeprecationWarning; K_STIXError; K_ObjectConfigurationError;
   K_InvalidValueError; K_PropertyPresenceError; K_MissingPropertiesError; K_ExtraPropertiesError;
   K_MutuallyExclusivePropertiesError; K_DependentPropertiesError; K_AtLeastOnePropertyError; K_DictionaryKeyError;
   K_InvalidObjRefError; K_InvalidSelectorError; K_TLPMarkingDefinitionError; K_ImmutableError; K_VersioningError;
   K_UnmodifiablePropertyError; K_TypeNotVersionableError; K_ObjectNotVersionableError; K_RevokeError; K_ParseError;
   K_CustomContentError; K_MarkingNotFoundError; K_STIXDeprecationWarning; K_DuplicateRegistrationError].

(* An exception class is a known class or ANY class (user-defined, third
   party) derived from another class: the theorems quantify over all of them. *)
Inductive exn :=
| Known (k : kexn)
| Derived (name : N) (base : exn).

Fixpoint ksub_n (n : nat) (c a : kexn) : bool :=
  kexn_beq c a ||
  match n with
  | O => false
  | S n' => match kparent c with Some p => ksub_n n' p a | None => false end
  end.
Definition ksub := ksub_n 6.

Fixpoint subclass (c : exn) (a : kexn) : bool :=
  match c with
  | Known k => ksub k a
  | Derived _ b => subclass b a
  end.

(* the documented family: STIX error classes, ValueError (+subclasses), TypeError *)
Definition family (c : exn) : bool :=
  subclass c K_STIXError || subclass c K_ValueError || subclass c K_TypeError.

Definition is_exception (c : exn) : bool := subclass c K_Exception.

(* ------------------------------------------------------------------ *)
(* 2. sites: where an exception originates.  S_lib = an explicit raise of
   a family class or a typed builtin failure inside the family.  The others
   are the operations on raw input that can fail outside the family.      *)

Inductive site :=
| S_lib
| S_init_extensions_items      (* base.py __init__: extensions.items() *)
| S_init_extension_entry       (* base.py __init__: ext.get("extension_type") *)
| S_init_toplevel_props        (* base.py __init__: registered_ext_class._toplevel_properties *)
| S_init_custom_props_keys     (* base.py __init__: custom_props.keys() *)
| S_cons_custom_gm             (* base.py _check_object_constraints: m.get('selectors') on an uncleaned value *)
| S_ms20_precision             (* v20/common.py _should_set_millisecond: cr.precision *)
| S_d2s_extensions_items       (* parsing.py dict_to_stix2: stix_dict.get('extensions', {}).items() *)
| S_d2s_extension_entry        (* parsing.py dict_to_stix2: ext_def.get('extension_type', '') *)
| S_detect_objects             (* utils.py detect_spec_version: stix_dict["objects"] *)
| S_detect_type                (* utils.py detect_spec_version: stix_dict["type"] on a nested object *)
| S_tlp_definition             (* markings/utils.py check_tlp_marking: marking_obj["definition"] *)
| S_validator_crash20          (* v20/sdo.py Indicator: run_validator(pattern) outside the wrapper *)
| S_validator_crash21          (* v21/sdo.py Indicator: run_validator(pattern) outside the wrapper *)
| S_store.                     (* datastore/memory.py _add: the store's own code, after/around construction *)

Scheme Equality for site.

Definition site_fn (s : site) : string :=
  match s with
  | S_lib => ""
  | S_init_extensions_items | S_init_extension_entry | S_init_toplevel_props | S_init_custom_props_keys =>
      "base._STIXBase.__init__"
  | S_cons_custom_gm => "base._STIXBase._check_object_constraints"
  | S_ms20_precision => "v20.common._should_set_millisecond"
  | S_d2s_extensions_items | S_d2s_extension_entry => "parsing.dict_to_stix2"
  | S_detect_objects | S_detect_type => "utils.detect_spec_version"
  | S_tlp_definition => "markings.utils.check_tlp_marking"
  | S_validator_crash20 => "v20.sdo.Indicator._check_object_constraints"
  | S_validator_crash21 => "v21.sdo.Indicator._check_object_constraints"
  | S_store => "datastore.memory._add"
  end.

Definition site_tag (s : site) : string :=
  match s with
  | S_lib => "lib"
  | S_init_extensions_items => "init-extensions-nondict"
  | S_init_extension_entry => "init-extension-entry-nondict"
  | S_init_toplevel_props => "init-toplevel-props-missing"
  | S_init_custom_props_keys => "init-custom-properties-falsy-nondict"
  | S_cons_custom_gm => "constraints-custom-granular-markings"
  | S_ms20_precision => "v20-marking-created-precision"
  | S_d2s_extensions_items => "dict-to-stix2-extensions-nondict"
  | S_d2s_extension_entry => "dict-to-stix2-extension-entry-nondict"
  | S_detect_objects => "detect-bundle-without-objects"
  | S_detect_type => "detect-nested-object-without-type"
  | S_tlp_definition => "tlp-without-definition"
  | S_validator_crash20 => "indicator20-empty-pattern-validator-crash"
  | S_validator_crash21 => "indicator21-empty-pattern-validator-crash"
  | S_store => "store"
  end.

(* variant = which sites are guarded (true = repaired as in proposed_fixes/C17-*.diff) *)
Record variant := {
  g_ext_items : bool; g_ext_entry : bool; g_toplevel : bool; g_custom_props : bool; g_gm : bool;
  g_ms20 : bool; g_d2s_items : bool; g_d2s_entry : bool; g_det_objects : bool; g_det_type : bool;
  g_tlp : bool; g_validator20 : bool; g_validator21 : bool }.

Definition pinned : variant := Build_variant false false false false false false false false false false false false false.
Definition repaired : variant := Build_variant true true true true true true true true true true true true true.

Definition guarded (V : variant) (s : site) : bool :=
  match s with
  | S_lib => true
  | S_init_extensions_items => g_ext_items V
  | S_init_extension_entry => g_ext_entry V
  | S_init_toplevel_props => g_toplevel V
  | S_init_custom_props_keys => g_custom_props V
  | S_cons_custom_gm => g_gm V
  | S_ms20_precision => g_ms20 V
  | S_d2s_extensions_items => g_d2s_items V
  | S_d2s_extension_entry => g_d2s_entry V
  | S_detect_objects => g_det_objects V
  | S_detect_type => g_det_type V
  | S_tlp_definition => g_tlp V
  | S_validator_crash20 => g_validator20 V
  | S_validator_crash21 => g_validator21 V
  | S_store => true
  end.

Definition all_guarded (V : variant) : bool :=
  g_ext_items V && g_ext_entry V && g_toplevel V && g_custom_props V && g_gm V && g_ms20 V && g_d2s_items V &&
  g_d2s_entry V && g_det_objects V && g_det_type V && g_tlp V && g_validator20 V && g_validator21 V.

(* ------------------------------------------------------------------ *)
(* 3. outcome sets                                                       *)

Inductive res (A : Type) :=
| Val (a : A)
| Exc (e : exn) (s : site).
Arguments Val {A} a.
Arguments Exc {A} e s.

Definition M (A : Type) := list (res A).

Definition ret {A} (a : A) : M A := [Val a].
Definition raise {A} (k : kexn) (s : site) : M A := [Exc (Known k) s].
Definition fail {A} (k : kexn) : M A := raise k S_lib.      (* a raise inside the family *)
Definition bind {A B} (m : M A) (f : A -> M B) : M B :=
  flat_map (fun r => match r with Val a => f a | Exc e s => [Exc e s] end) m.
Definition seq {A} (m : M unit) (k : M A) : M A := bind m (fun _ => k).
(* continue, or raise one of the listed family classes *)
Definition may (ks : list kexn) : M unit := Val tt :: map (fun k => Exc (Known k) S_lib) ks.
Definition when (b : bool) (m : M unit) : M unit := if b then m else ret tt.
Definition lift {A} (r : res A) : M A := [r].

Notation "x <- m ;; k" := (bind m (fun x => k)) (at level 61, m at next level, right associativity).
Notation "m ;;; k" := (seq m k) (at level 61, right associativity).

(* ------------------------------------------------------------------ *)
(* 4. _check_property's wrapper (base.py)                                 *)

Inductive clean_result := CleanOk | CleanRaise (e : exn).

(* try: clean() / except InvalidValueError: raise / except Exception: raise InvalidValueError *)
Definition check_property_wrapper (r : clean_result) : res unit :=
  match r with
  | CleanOk => Val tt
  | CleanRaise e =>
      if subclass e K_InvalidValueError then Exc e S_lib
      else if is_exception e then Exc (Known K_InvalidValueError) S_lib
      else Exc e S_lib      (* KeyboardInterrupt etc. are not caught *)
  end.

(* what the rest of the model uses for a cleaned slot: Ok or InvalidValueError *)
Definition wrapped_clean : M unit := may [K_InvalidValueError].

(* ------------------------------------------------------------------ *)
(* 5. typed dynamic operations on raw JSON                                *)

Definition us (s : string) : ustring := u s.

Definition is_obj (j : jvalue) : bool := match j with JObj _ => true | _ => false end.
Definition is_str (j : jvalue) : bool := match j with JStr _ => true | _ => false end.
Definition hashable (j : jvalue) : bool := match j with JArr _ | JObj _ => false | _ => true end.

Definition float_is_zero (r : ustring) : bool :=
  ustr_eqb r (us "0.0") || ustr_eqb r (us "-0.0").

Definition truthy (j : jvalue) : bool :=
  match j with
  | JNull => false
  | JBool b => b
  | JInt z => negb (Z.eqb z 0)
  | JFloat r => negb (float_is_zero r)
  | JStr s => match s with [] => false | _ => true end
  | JArr l => match l with [] => false | _ => true end
  | JObj m => match m with [] => false | _ => true end
  end.

Definition str_is (j : jvalue) (s : ustring) : bool :=
  match j with JStr t => ustr_eqb t s | _ => false end.

Fixpoint ustr_contains_n (fuel : nat) (needle s : ustring) : bool :=
  ustr_prefix needle s ||
  match fuel, s with
  | S f, _ :: s' => ustr_contains_n f needle s'
  | _, _ => false
  end.
Definition ustr_contains (needle s : ustring) : bool := ustr_contains_n (List.length s) needle s.

Definition mem_key (k : ustring) (m : list (ustring * jvalue)) : bool :=
  match jlookup k m with Some _ => true | None => false end.

Definition mem_name (k : ustring) (l : list ustring) : bool := existsb (ustr_eqb k) l.

(* `"lit" in x` *)
Definition py_in (lit : ustring) (x : jvalue) : M bool :=
  match x with
  | JObj m => ret (mem_key lit m)
  | JArr l => ret (existsb (fun e => str_is e lit) l)
  | JStr s => ret (ustr_contains lit s)
  | _ => fail K_TypeError
  end.

(* `x["lit"]`; a missing key raises KeyError at site s *)
Definition py_subscript (x : jvalue) (lit : ustring) (s : site) : M jvalue :=
  match x with
  | JObj m => match jlookup lit m with Some v => ret v | None => raise K_KeyError s end
  | _ => fail K_TypeError
  end.

(* iteration *)
Definition py_iter (x : jvalue) : M (list jvalue) :=
  match x with
  | JArr l => ret l
  | JStr s => ret (map (fun c => JStr [c]) s)
  | JObj m => ret (map (fun kv => JStr (fst kv)) m)
  | _ => fail K_TypeError
  end.

(* `v not in (None, [])` *)
Definition kept (v : jvalue) : bool :=
  match v with JNull => false | JArr [] => false | _ => true end.

Fixpoint remove_key (k : ustring) (m : list (ustring * jvalue)) : list (ustring * jvalue) :=
  match m with
  | [] => []
  | (k', v) :: r => if ustr_eqb k k' then remove_key k r else (k', v) :: remove_key k r
  end.

Definition set_key (k : ustring) (v : jvalue) (m : list (ustring * jvalue)) : list (ustring * jvalue) :=
  if mem_key k m then map (fun kv => if ustr_eqb (fst kv) k then (k, v) else kv) m else m ++ [(k, v)].

(* ------------------------------------------------------------------ *)
(* 6. class descriptors and registries (instances are GENERATED from the
      live classes into Gen/C17Classes.v on every run)                    *)

Inductive refkind := RefNone | RefOne | RefMany.

Record slot := { s_name : ustring; s_required : bool; s_default : bool; s_ref : refkind }.

Inductive bkind := BPlain | BObs20 | BObs21.

(* __init__ overrides (v20/v21), keyed by the defining class *)
Inductive prehook :=
| PreMarkingDef20            (* v20/common.py MarkingDefinition.__init__ *)
| PreMarkingDef21            (* v21/common.py MarkingDefinition.__init__ *)
| PreAliases (names : list ustring)   (* named parameters that are copied back only when truthy:
                                         StatementMarking(statement), Relationship(source_ref, relationship_type,
                                         target_ref), Sighting(sighting_of_ref) *)
| PreNoop                    (* Bundle (positional args), Indicator 2.1 (pattern_version default), ObservedData 2.1 (warning) *)
| PreUnknown.                (* an __init__ override the model does not know: assumed to stay in the family *)

(* _check_object_constraints overrides, keyed by the defining class *)
Inductive conshook :=
| ConsBase                   (* base.py _STIXBase: granular marking selectors *)
| ConsExtension              (* base.py _Extension: at least one property *)
| ConsAtLeastOne (names : list ustring)
| ConsAtLeastOneDefault
| ConsGranularMarking21
| ConsMarkingDef20
| ConsMarkingDef21
| ConsArtifact
| ConsEmailMessage
| ConsExternalReference21
| ConsProcess
| ConsSocketExt
| ConsNetworkTraffic21
| ConsOrdered (a b : ustring)      (* `if a and b and b < a: raise ValueError` on two cleaned timestamps *)
| ConsIndicator20
| ConsIndicator21
| ConsLocation
| ConsMalware
| ConsObservedData21
| ConsUnknown.               (* an override the model does not know: assumed to stay in the family *)

Record cls := {
  c_key : string;             (* e.g. "v21.sdo.Identity" *)
  c_ver20 : bool;
  c_kind : bkind;
  c_slots : list slot;
  c_pre : list prehook;       (* most derived first *)
  c_cons : list conshook;     (* most derived first; every known hook except ConsIndicator20 calls super first *)
  c_idcontrib : list ustring }.

Record extreg := { x_name : ustring; x_toplevel : option (list slot) }.   (* None: no _toplevel_properties attribute *)

Record registry := {
  r_objects20 : list (ustring * cls); r_observables20 : list (ustring * cls); r_markings20 : list (ustring * cls);
  r_objects21 : list (ustring * cls); r_observables21 : list (ustring * cls); r_markings21 : list (ustring * cls);
  r_extensions21 : list extreg }.

Fixpoint alookup {A} (k : ustring) (l : list (ustring * A)) : option A :=
  match l with
  | [] => None
  | (k', v) :: r => if ustr_eqb k k' then Some v else alookup k r
  end.

Inductive category := CatObjects | CatObservables.

(* registry.py class_for_type(stix_type, stix_version, category): both
   arguments are raw values here (version may come from a spec_version property) *)
Definition class_for_type (R : registry) (ty ver : jvalue) (cat : category) : M (option cls) :=
  if negb (hashable ver) then fail K_TypeError
  else
    let tbl := if str_is ver (us "2.0") then Some (match cat with CatObjects => r_objects20 R | CatObservables => r_observables20 R end)
               else if str_is ver (us "2.1") then Some (match cat with CatObjects => r_objects21 R | CatObservables => r_observables21 R end)
               else None in
    match tbl with
    | None => ret None
    | Some t =>
        if negb (hashable ty) then fail K_TypeError
        else match ty with JStr s => ret (alookup s t) | _ => ret None end
    end.

(* ------------------------------------------------------------------ *)
(* 7. utils.py _get_dict                                                  *)

Definition decoder := ustring -> option jvalue.   (* json.loads on a text: None = JSONDecodeError *)

Definition pair_of (e : jvalue) : option (jvalue * jvalue) :=
  match e with
  | JStr [a; b] => Some (JStr [a], JStr [b])
  | JArr [a; b] => Some (a, b)
  | JObj [(k1, _); (k2, _)] => Some (JStr k1, JStr k2)
  | _ => None
  end.

(* dict(list of pairs): None = ValueError/TypeError (both reported as ValueError by _get_dict) *)
Fixpoint dict_of_pairs (l : list jvalue) (acc : list (ustring * jvalue)) (nonstr : bool)
  : option (list (ustring * jvalue) * bool) :=
  match l with
  | [] => Some (acc, nonstr)
  | e :: r =>
      match pair_of e with
      | None => None
      | Some (k, v) =>
          if negb (hashable k) then None
          else match k with
               | JStr s => dict_of_pairs r (set_key s v acc) nonstr
               | _ => dict_of_pairs r acc true
               end
      end
  end.

(* value, and whether the dict has a key that is not a string (then `**d` is a TypeError) *)
Definition get_dict (dec : decoder) (x : jvalue) : M (jvalue * bool) :=
  match x with
  | JObj _ => ret (x, false)
  | JStr s => match dec s with Some j => ret (j, false) | None => fail K_JSONDecodeError end
  | JArr l => match dict_of_pairs l [] false with
              | Some (m, ns) => ret (JObj m, ns)
              | None => fail K_ValueError
              end
  | _ => fail K_ValueError
  end.

(* ------------------------------------------------------------------ *)
(* 8. utils.py detect_spec_version                                        *)

(* max() of two version values: strings compare by code point; any other
   combination either is a TypeError or (numbers, lists) picks one of them *)
Definition py_max2 (a b : jvalue) : M jvalue :=
  match a, b with
  | JStr x, JStr y => ret (if ustr_ltb x y then b else a)
  | _, _ => [Exc (Known K_TypeError) S_lib; Val a; Val b]
  end.

Section Detect.
  Variable V : variant.
  Variable R : registry.

  Definition detect_head (j : jvalue) : M jvalue :=
    match j with
    | JObj m => match jlookup (us "type") m with
                | Some t => ret t
                | None => if g_det_type V then fail K_ParseError else raise K_KeyError S_detect_type
                end
    | _ => fail K_TypeError
    end.

  (* fold of max() over the generator: elements are evaluated and compared one at a time *)
  Fixpoint max_fold (f : jvalue -> M jvalue) (l : list jvalue) (acc : option jvalue) : M (option jvalue) :=
    match l with
    | [] => ret acc
    | e :: r =>
        v <- f e ;;
        match acc with
        | None => max_fold f r (Some v)
        | Some a => w <- py_max2 a v ;; max_fold f r (Some w)
        end
    end.

  Fixpoint detect (j : jvalue) : M jvalue :=
    match j with
    | JObj m =>
        ty <- detect_head j ;;
        if mem_key (us "spec_version") m then
          (if str_is ty (us "bundle") then ret (JStr (us "2.0"))
           else match jlookup (us "spec_version") m with Some v => ret v | None => ret JNull end)
        else if negb (mem_key (us "id") m) then ret (JStr (us "2.0"))
        else if str_is ty (us "bundle") then
          match jlookup (us "objects") m with
          | None => if g_det_objects V then ret (JStr (us "2.1")) else raise K_KeyError S_detect_objects
          | Some objs =>
              let elems :=
                match objs with
                | JArr l => Some (map detect l)
                | JStr s => Some (map (fun _ => fail K_TypeError) s)       (* "c"["type"] *)
                | JObj mm => Some (map (fun _ => fail K_TypeError) mm)     (* iterating keys: strings *)
                | _ => None
                end in
              match elems with
              | None => fail K_TypeError
              | Some rs =>
                  inner <- (fix go (rs : list (M jvalue)) (acc : option jvalue) : M (option jvalue) :=
                              match rs with
                              | [] => ret acc
                              | r :: rest =>
                                  v <- r ;;
                                  match acc with
                                  | None => go rest (Some v)
                                  | Some a => w <- py_max2 a v ;; go rest (Some w)
                                  end
                              end) rs None ;;
                  match inner with
                  | None => if g_det_objects V then ret (JStr (us "2.1")) else fail K_ValueError   (* max() of nothing *)
                  | Some (JStr x) => ret (JStr (if ustr_ltb (us "2.1") x then x else us "2.1"))
                  | Some _ => fail K_TypeError
                  end
              end
          end
        else if negb (hashable ty) then fail K_TypeError
        else match ty with
             | JStr s => ret (JStr (us (match alookup s (r_observables21 R) with Some _ => "2.1" | None => "2.0" end)))
             | _ => ret (JStr (us "2.0"))
             end
    | _ => fail K_TypeError    (* stix_dict["type"] on a str / list / number *)
    end.
End Detect.

(* Model/Store.v -- executable model of the data stores (properties C11, C18).
   No proofs in this file.

   Mirrors, branch by branch:
     stix2/datastore/memory.py      _add, _ObjectFamily.add, MemorySource.get /
                                    all_versions / query, save_to_file / load_from_file
     stix2/datastore/filesystem.py  FileSystemSink._check_path_and_write / add,
                                    _find_search_optimizations (the `=` branches on
                                    type and id), _get_matching_dir_entries,
                                    _is_versioned_type_dir, _search_versioned,
                                    _search_unversioned, FileSystemSource.get /
                                    all_versions / query
     stix2/utils.py                 deduplicate, get_type_from_id
     stix2/datastore/__init__.py    CompositeDataSource.get / all_versions / query /
                                    relationships / related_to,
                                    DataSource.relationships / related_to / creator_of
     stix2/environment.py           Environment wiring (composite over store.source
                                    and source; sink = store.sink)

   What an object is here.  A stored object is a record of what the stores look
   at: its id, its type, its `modified` and `created` values, the string-valued
   properties navigation reads (source_ref, target_ref, relationship_type,
   created_by_ref) and a payload number that identifies the copy (two objects
   with the same id and version but different content have different
   payloads).  `modified` is
     VInst t   a datetime (registered types: the parser produced a STIXdatetime);
               t is the instant in microseconds, already truncated the way the
               class does it (2.0: milliseconds),
     VNaive t  a datetime without time zone (an object constructed from a naive
               Python datetime keeps it; Python refuses to order it against
               an aware one, and never finds the two equal),
     VText s   a string (content of an unregistered type stays a dictionary and
               its `modified` stays text),
     VNone     absent (SCOs, marking definitions, dictionaries without it).
   The file round trip (serialize, write, read, parse) is taken to give back the
   same record: that is property C01's subject, not this one's.

   Filters.  Per-object filter evaluation is property C12's subject.  Here a
   filter is `FType t` (Filter("type","=",t)), `FId i` (Filter("id","=",i)) --
   the two shapes the filesystem search optimiser acts on in this model -- or
   `FOther h` for ANY other filter, h being its per-object verdict.            *)
From Coq Require Import NArith ZArith List String Bool.
From V Require Import Base.UString.
Import ListNotations.
Open Scope list_scope.

Inductive vkey := VInst (t : Z) | VNaive (t : Z) | VText (s : ustring) | VNone.

Record obj := mkObj {
  oid : ustring; otype : ustring; omod : vkey; ocre : vkey; opay : N;
  oprops : list (ustring * ustring) }.

(* exceptions, by the place they come from *)
Inductive err :=
| EParse      (* the parser refused the item (any STIXError / KeyError on a malformed item) *)
| EKind       (* memory: a versioned object arrives for an id that maps to a plain object: AttributeError *)
| EType       (* ordering a str against a datetime / None: TypeError *)
| EKey        (* k['modified'] on an object without it: KeyError *)
| EOverwrite  (* filesystem sink: DataSourceError "Attempted to overwrite file" *)
| ETime       (* _timestamp2filename on text that is not a timestamp: ValueError *)
| EAttr       (* composite without data sources / r.source_ref missing: AttributeError *)
| EValue.     (* source_only and target_only both set: ValueError *)

Inductive res (A : Type) := Ok (a : A) | Err (e : err).
Arguments Ok {A} a.
Arguments Err {A} e.

Definition rbind {A B} (r : res A) (f : A -> res B) : res B :=
  match r with Ok a => f a | Err e => Err e end.

(* ---- Python dict as an insertion-ordered association list ---- *)
Section Dict.
  Variables K V : Type.
  Variable keqb : K -> K -> bool.
  Fixpoint dict_get (d : list (K * V)) (k : K) : option V :=
    match d with
    | [] => None
    | (k', v) :: r => if keqb k' k then Some v else dict_get r k
    end.
  (* d[k] = v : an existing key keeps its position, a new key goes last *)
  Fixpoint dict_set (d : list (K * V)) (k : K) (v : V) : list (K * V) :=
    match d with
    | [] => [(k, v)]
    | (k', v') :: r => if keqb k' k then (k', v) :: r else (k', v') :: dict_set r k v
    end.
End Dict.
Arguments dict_get {K V} keqb d k.
Arguments dict_set {K V} keqb d k v.

(* == on `modified` values: datetime == datetime compares instants, str == str
   compares text, a str never equals a datetime *)
Definition vkey_eqb (a b : vkey) : bool :=
  match a, b with
  | VInst x, VInst y => Z.eqb x y
  | VNaive x, VNaive y => Z.eqb x y
  | VText x, VText y => ustr_eqb x y
  | VNone, VNone => true
  | _, _ => false
  end.

(* a > b on `modified` values; None = TypeError *)
Definition vgt (a b : vkey) : option bool :=
  match a, b with
  | VInst x, VInst y => Some (Z.ltb y x)
  | VNaive x, VNaive y => Some (Z.ltb y x)
  | VText x, VText y => Some (ustr_ltb y x)
  | _, _ => None
  end.

Definition is_vnone (k : vkey) : bool := match k with VNone => true | _ => false end.

(* stix_id.split('--', 1)[0] *)
Fixpoint type_of_id (s : ustring) : ustring :=
  match s with
  | [] => []
  | c :: r =>
    match r with
    | d :: _ => if (N.eqb c 45 && N.eqb d 45)%bool then [] else c :: type_of_id r
    | [] => [c]
    end
  end.

Definition prop_get (k : ustring) (o : obj) : option ustring := dict_get ustr_eqb (oprops o) k.
Definition prop_is (k v : ustring) (o : obj) : bool :=
  match prop_get k o with Some x => ustr_eqb x v | None => false end.

(* ---- filters ---- *)
Inductive sfilter := FType (t : ustring) | FId (i : ustring) | FOther (h : obj -> bool).

(* _check_filter for the three shapes *)
Definition sholds (f : sfilter) (o : obj) : bool :=
  match f with
  | FType t => ustr_eqb (otype o) t
  | FId i => ustr_eqb (oid o) i
  | FOther h => h o
  end.
(* apply_common_filters: every filter must match *)
Definition all_hold (fl : list sfilter) (o : obj) : bool := forallb (fun f => sholds f o) fl.

(* how text-valued `modified` is treated: TextOrder is what the code does (text
   is compared and hashed as text); Chrono is the repaired behaviour in which a
   timestamp text counts as the instant it denotes *)
Inductive text_mode := TextOrder | Chrono.

(* Bad: the parser refuses it.  BadLate: the parser lets it through (a dictionary
   of an unregistered type without "id") and the store fails on it (KeyError) *)
Inductive item := Good (o : obj) | Bad | BadLate.

(* one store.add(x) call, flattened: segments in order; a segment is the content
   of one top-level element; atomic = it was a dictionary/JSON-text bundle, which
   the filesystem sink parses as a whole before storing anything *)
Definition segment := (bool * list item)%type.

Section Store.
  Variable mode : text_mode.
  Variable inst_of_text : ustring -> option Z.   (* parse_into_datetime on a str; None = ValueError *)
  Variable ts2fn : Z -> ustring.                 (* _timestamp2filename of an instant *)

  Definition norm_v (k : vkey) : vkey :=
    match mode, k with
    | Chrono, VText s => match inst_of_text s with Some t => VInst t | None => k end
    | _, _ => k
    end.
  Definition norm_obj (o : obj) : obj :=
    mkObj (oid o) (otype o) (norm_v (omod o)) (norm_v (ocre o)) (opay o) (oprops o).

  (* what serialising and parsing back does to a naive datetime: it comes back aware (UTC) *)
  Definition aware_v (k : vkey) : vkey := match k with VNaive t => VInst t | _ => k end.
  Definition aware_obj (o : obj) : obj :=
    mkObj (oid o) (otype o) (aware_v (omod o)) (aware_v (ocre o)) (opay o) (oprops o).

  (* ================= memory store ================= *)

  (* _data : id -> _ObjectFamily {all_versions : modified -> obj ; latest_version} | obj *)
  Inductive entry := EFam (vers : list (vkey * obj)) (latest : option obj) | EOne (o : obj).
  Definition mem := list (ustring * entry).

  (* _ObjectFamily.add *)
  Definition fam_add (vs : list (vkey * obj)) (lat : option obj) (o : obj) : entry * option err :=
    let vs' := dict_set vkey_eqb vs (omod o) o in
    match lat with
    | None => (EFam vs' (Some o), None)
    | Some l =>
      match vgt (omod o) (omod l) with
      | None => (EFam vs' lat, Some EType)          (* all_versions already updated *)
      | Some true => (EFam vs' (Some o), None)
      | Some false => (EFam vs' lat, None)
      end
    end.

  (* _add, the branch for a single non-bundle object (after parse) *)
  Definition mem_add1 (o0 : obj) (m : mem) : mem * option err :=
    let o := norm_obj o0 in
    if is_vnone (omod o) then (dict_set ustr_eqb m (oid o) (EOne o), None)
    else
      match dict_get ustr_eqb m (oid o) with
      | Some (EOne _) => (m, Some EKind)
      | Some (EFam vs lat) =>
          let (e, r) := fam_add vs lat o in (dict_set ustr_eqb m (oid o) e, r)
      | None =>
          let (e, r) := fam_add [] None o in (dict_set ustr_eqb m (oid o) e, r)
      end.

  (* _add on a list / bundle: items in order, the first exception ends it *)
  Fixpoint mem_add_items (its : list item) (m : mem) : mem * option err :=
    match its with
    | [] => (m, None)
    | Bad :: _ => (m, Some EParse)
    | BadLate :: _ => (m, Some EParse)
    | Good o :: r =>
      let (m', e) := mem_add1 o m in
      match e with None => mem_add_items r m' | Some _ => (m', e) end
    end.

  Fixpoint mem_add_segs (segs : list segment) (m : mem) : mem * option err :=
    match segs with
    | [] => (m, None)
    | (_, its) :: r =>
      let (m', e) := mem_add_items its m in
      match e with None => mem_add_segs r m' | Some _ => (m', e) end
    end.

  Definition entry_objs (e : entry) : list obj :=
    match e with EFam vs _ => map snd vs | EOne o => [o] end.

  (* every stored object, in the order query() walks _data *)
  Definition mem_objs (m : mem) : list obj := flat_map (fun kv => entry_objs (snd kv)) m.

  (* MemorySource.get ; fl = composite filters + attached filters *)
  Definition mem_get (fl : list sfilter) (id : ustring) (m : mem) : option obj :=
    match dict_get ustr_eqb m id with
    | Some (EFam _ (Some l)) => if all_hold fl l then Some l else None
    | Some (EFam _ None) => None
    | Some (EOne o) => if all_hold fl o then Some o else None
    | None => None
    end.

  (* MemorySource.all_versions *)
  Definition mem_all (fl : list sfilter) (id : ustring) (m : mem) : list obj :=
    match dict_get ustr_eqb m id with
    | Some e => filter (all_hold fl) (entry_objs e)
    | None => []
    end.

  (* MemorySource.query *)
  Definition mem_query (fl : list sfilter) (m : mem) : list obj := filter (all_hold fl) (mem_objs m).

  (* save_to_file then load_from_file into a store m0: the bundle holds every
     stored object; loading is _add on the dictionary bundle *)
  Definition mem_load_saved (saved : mem) (m0 : mem) : mem * option err :=
    mem_add_items (map (fun o => Good (aware_obj o)) (mem_objs saved)) m0.

  (* ================= filesystem store ================= *)

  (* one regular file <root>/<ftype>/[<fdir>/]<fname>.json holding fobj *)
  Record fsfile := mkFile { ftype : ustring; fdir : option ustring; fname : ustring; fobj : obj }.
  Definition fs := list fsfile.    (* in creation order; directories are implicit *)

  Definition opt_ustr_eqb (a b : option ustring) : bool :=
    match a, b with
    | Some x, Some y => ustr_eqb x y
    | None, None => true
    | _, _ => false
    end.
  Definition same_path (t : ustring) (d : option ustring) (n : ustring) (f : fsfile) : bool :=
    ustr_eqb (ftype f) t && opt_ustr_eqb (fdir f) d && ustr_eqb (fname f) n.

  (* _check_path_and_write: where the object goes *)
  Definition fs_path (o : obj) : res (ustring * option ustring * ustring) :=
    match omod o with
    | VNone => Ok (otype o, None, oid o)
    | VInst t => Ok (otype o, Some (oid o), ts2fn t)
    | VNaive t => Ok (otype o, Some (oid o), ts2fn t)      (* format_datetime assumes UTC *)
    | VText s =>
      match inst_of_text s with
      | Some t => Ok (otype o, Some (oid o), ts2fn t)
      | None => Err ETime
      end
    end.

  Definition fs_add1 (o0 : obj) (s : fs) : fs * option err :=
    let o := norm_obj o0 in
    match fs_path o with
    | Err e => (s, Some e)
    | Ok (t, d, n) =>
      if existsb (same_path t d n) s then (s, Some EOverwrite)
      else (s ++ [mkFile t d n (aware_obj o)], None)     (* what reading the file back gives *)
    end.

  Fixpoint fs_add_items (its : list item) (s : fs) : fs * option err :=
    match its with
    | [] => (s, None)
    | Bad :: _ => (s, Some EParse)
    | BadLate :: _ => (s, Some EParse)
    | Good o :: r =>
      let (s', e) := fs_add1 o s in
      match e with None => fs_add_items r s' | Some _ => (s', e) end
    end.

  Definition is_bad (i : item) : bool := match i with Bad => true | _ => false end.

  Fixpoint fs_add_segs (segs : list segment) (s : fs) : fs * option err :=
    match segs with
    | [] => (s, None)
    | (atomic, its) :: r =>
      if atomic && existsb is_bad its then (s, Some EParse)
      else
        let (s', e) := fs_add_items its s in
        match e with None => fs_add_segs r s' | Some _ => (s', e) end
    end.

  (* --- _is_versioned_type_dir: ^<type>--8-4-4-4-12 hex$ with re.I --- *)
  Definition lower (c : N) : N := if (N.leb 65 c && N.leb c 90)%bool then (c + 32)%N else c.
  Definition is_hex (c : N) : bool :=
    ((N.leb 48 c && N.leb c 57) || (N.leb 97 (lower c) && N.leb (lower c) 102))%bool.
  Fixpoint strip_ci (p s : ustring) : option ustring :=
    match p, s with
    | [], _ => Some s
    | x :: p', y :: s' => if N.eqb (lower x) (lower y) then strip_ci p' s' else None
    | _ :: _, [] => None
    end.
  Fixpoint take_hex (n : nat) (s : ustring) : option ustring :=
    match n, s with
    | O, _ => Some s
    | S n', c :: r => if is_hex c then take_hex n' r else None
    | S _, [] => None
    end.
  Definition take_dash (s : ustring) : option ustring :=
    match s with c :: r => if N.eqb c 45 then Some r else None | [] => None end.
  Definition obind {A B} (x : option A) (f : A -> option B) : option B :=
    match x with Some a => f a | None => None end.
  Definition id_like (type_name entry : ustring) : bool :=
    match obind (strip_ci type_name entry) (fun r =>
          obind (take_dash r) (fun r => obind (take_dash r) (fun r =>
          obind (take_hex 8 r) (fun r => obind (take_dash r) (fun r =>
          obind (take_hex 4 r) (fun r => obind (take_dash r) (fun r =>
          obind (take_hex 4 r) (fun r => obind (take_dash r) (fun r =>
          obind (take_hex 4 r) (fun r => obind (take_dash r) (fun r =>
          take_hex 12 r))))))))))) with
    | Some [] => true
    | Some [c] => N.eqb c 10          (* `$` also matches before a final newline *)
    | _ => false
    end.

  Definition is_versioned_dir (s : fs) (t : ustring) : bool :=
    existsb (fun f => ustr_eqb (ftype f) t &&
                      match fdir f with Some d => id_like t d | None => false end) s.

  (* --- _find_search_optimizations, `=` filters on type and id ---
     a whitelist is Some l (l without repetitions), "anything" is None *)
  Definition update_allow (a : option (list ustring)) (v : ustring) : option (list ustring) :=
    match a with
    | None => Some [v]
    | Some l => Some (filter (ustr_eqb v) l)
    end.
  Definition opt_step (acc : option (list ustring) * option (list ustring)) (f : sfilter) :=
    let (ats, ais) := acc in
    match f with
    | FType t => (update_allow ats t, ais)
    | FId i => (update_allow ats (type_of_id i), update_allow ais i)
    | FOther _ => acc
    end.
  Definition find_opts (fl : list sfilter) : option (list ustring) * option (list ustring) :=
    let (ats, ais) := fold_left opt_step fl (None, None) in
    match ats, ais with
    | Some ts, Some ids =>
      let ts' := filter (fun t => existsb (fun i => ustr_eqb (type_of_id i) t) ids) ts in
      let ids' := filter (fun i => existsb (ustr_eqb (type_of_id i)) ts') ids in
      (Some ts', Some ids')
    | _, _ => (ats, ais)
    end.
  (* _get_matching_dir_entries: is this name let through *)
  Definition allowed (a : option (list ustring)) (v : ustring) : bool :=
    match a with None => true | Some l => existsb (ustr_eqb v) l end.

  (* which files the walk of query() opens *)
  Definition visited (ats ais : option (list ustring)) (s : fs) (f : fsfile) : bool :=
    allowed ats (ftype f) &&
    match fdir f with
    | Some d => is_versioned_dir s (ftype f) && allowed ais d
    | None => allowed ais (fname f)
    end.

  Definition in_id_dir (f : fsfile) : bool := match fdir f with Some _ => true | None => false end.

  (* FileSystemSource.query ; fl = query + attached + composite filters.
     Within a type directory the versioned files come before the plain ones;
     the order among directories is the OS's and is not modelled (results are
     compared as multisets). *)
  Definition fs_query (fl : list sfilter) (s : fs) : list obj :=
    let (ats, ais) := find_opts fl in
    let hit := filter (fun f => visited ats ais s f && all_hold fl (fobj f)) s in
    map fobj (filter in_id_dir hit ++ filter (fun f => negb (in_id_dir f)) hit).

  (* FileSystemSource.all_versions *)
  Definition fs_all (fl : list sfilter) (id : ustring) (s : fs) : list obj := fs_query (FId id :: fl) s.

  (* sorted(all_data, key=modified)[-1]: the last of the greatest *)
  Fixpoint last_max (best : obj) (l : list obj) : res obj :=
    match l with
    | [] => Ok best
    | o :: r =>
      match vgt (omod best) (omod o) with
      | None => Err EType
      | Some true => last_max best r
      | Some false => last_max o r
      end
    end.

  (* FileSystemSource.get *)
  Definition fs_get (fl : list sfilter) (id : ustring) (s : fs) : res (option obj) :=
    match fs_all fl id s with
    | [] => Ok None
    | o0 :: r =>
      if is_vnone (omod o0) then Ok (Some o0)
      else if existsb (fun o => is_vnone (omod o)) r then Err EKey
      else match last_max o0 r with Ok o => Ok (Some o) | Err e => Err e end
    end.

  (* ================= sources, composite, navigation ================= *)

  Definition k_relationship : ustring := u "relationship".
  Definition k_relationship_type : ustring := u "relationship_type".
  Definition k_source_ref : ustring := u "source_ref".
  Definition k_target_ref : ustring := u "target_ref".
  Definition k_created_by_ref : ustring := u "created_by_ref".

  (* self.query(filters) as the navigation methods call it (no composite filters) *)
  Definition queryfn := list sfilter -> res (list obj).

  (* DataSource.relationships(obj_id, relationship_type, source_only, target_only) *)
  Definition rel_base (rt : option ustring) : list sfilter :=
    FType k_relationship ::
    match rt with
    | Some (c :: r) => [FOther (prop_is k_relationship_type (c :: r))]
    | _ => []                                   (* `if relationship_type:` *)
    end.
  Definition relationships (qf : queryfn) (a : ustring) (rt : option ustring) (so to : bool) : res (list obj) :=
    if so && to then Err EValue
    else
      rbind (if negb to then qf (rel_base rt ++ [FOther (prop_is k_source_ref a)]) else Ok []) (fun r1 =>
      rbind (if negb so then qf (rel_base rt ++ [FOther (prop_is k_target_ref a)]) else Ok []) (fun r2 =>
      Ok (r1 ++ r2))).

  Fixpoint add_new (x : ustring) (l : list ustring) : list ustring :=
    match l with
    | [] => [x]
    | y :: r => if ustr_eqb y x then l else y :: add_new x r
    end.

  (* ids.update((r.source_ref, r.target_ref)) for every r; None = attribute missing.
     A Python set: the iteration order is not specified, the model keeps first
     occurrences (results are compared as multisets). *)
  Fixpoint endpoint_ids (rels : list obj) (acc : list ustring) : option (list ustring) :=
    match rels with
    | [] => Some acc
    | r :: rest =>
      match prop_get k_source_ref r, prop_get k_target_ref r with
      | Some s, Some t => endpoint_ids rest (add_new t (add_new s acc))
      | _, _ => None
      end
    end.

  Fixpoint query_each (qf : queryfn) (fl : list sfilter) (ids : list ustring) : res (list obj) :=
    match ids with
    | [] => Ok []
    | i :: r => rbind (qf (fl ++ [FId i])) (fun x => rbind (query_each qf fl r) (fun y => Ok (x ++ y)))
    end.

  (* ids.discard(obj_id) and the look-up loop *)
  Definition lookup_related (qf : queryfn) (a : ustring) (fl : list sfilter) (rels : list obj) : res (list obj) :=
    match endpoint_ids rels [] with
    | None => Err EAttr
    | Some ids => query_each qf fl (filter (fun i => negb (ustr_eqb i a)) ids)
    end.

  (* DataSource.related_to, given the relationships method it calls (self.relationships) *)
  Definition related_to (relf : ustring -> option ustring -> bool -> bool -> res (list obj))
             (qf : queryfn) (a : ustring) (rt : option ustring) (so to : bool)
             (fl : list sfilter) : res (list obj) :=
    rbind (relf a rt so to) (lookup_related qf a fl).

  (* a DataSource: get / all_versions / query (each taking _composite_filters
     first) and the two navigation methods a subclass may override *)
  Record source := mkSource {
    s_get : list sfilter -> ustring -> res (option obj);
    s_all : list sfilter -> ustring -> res (list obj);
    s_query : list sfilter -> list sfilter -> res (list obj);
    s_rels : ustring -> option ustring -> bool -> bool -> res (list obj);
    s_related : ustring -> option ustring -> bool -> bool -> list sfilter -> res (list obj) }.

  (* a source that inherits navigation from DataSource *)
  Definition plain_source (g : list sfilter -> ustring -> res (option obj))
             (a : list sfilter -> ustring -> res (list obj))
             (q : list sfilter -> list sfilter -> res (list obj)) : source :=
    mkSource g a q (relationships (q [])) (related_to (relationships (q [])) (q [])).

  (* DataSource.creator_of *)
  Definition creator_of (src : source) (o : obj) : res (option obj) :=
    match prop_get k_created_by_ref o with
    | Some (c :: r) => s_get src [] (c :: r)
    | _ => Ok None
    end.

  (* a MemorySource with attached filters af *)
  Definition mem_source (af : list sfilter) (m : mem) : source :=
    plain_source (fun cf id => Ok (mem_get (cf ++ af) id m))
                 (fun cf id => Ok (mem_all (cf ++ af) id m))
                 (fun cf q => Ok (mem_query (q ++ af ++ cf) m)).

  Definition fs_source (af : list sfilter) (s : fs) : source :=
    plain_source (fun cf id => fs_get (af ++ cf) id s)
                 (fun cf id => Ok (fs_all (af ++ cf) id s))
                 (fun cf q => Ok (fs_query (q ++ af ++ cf) s)).

  (* obj.get("modified") or obj.get("created") *)
  Definition truthy_v (k : vkey) : bool :=
    match k with VInst _ => true | VNaive _ => true | VText (_ :: _) => true | _ => false end.
  Definition ver_of (o : obj) : vkey := if truthy_v (omod o) then omod o else ocre o.

  (* utils.deduplicate: key id when there is no version, (id, version) otherwise;
     the last object with a key wins, at the position of the first *)
  Inductive dkey := DId (i : ustring) | DVer (i : ustring) (v : vkey).
  Definition dkey_of (o : obj) : dkey :=
    if is_vnone (ver_of o) then DId (oid o) else DVer (oid o) (ver_of o).
  Definition dkey_eqb (a b : dkey) : bool :=
    match a, b with
    | DId x, DId y => ustr_eqb x y
    | DVer x v, DVer y w => ustr_eqb x y && vkey_eqb v w
    | _, _ => false
    end.
  Definition dedupe (l : list obj) : list obj :=
    map snd (fold_left (fun d o => dict_set dkey_eqb d (dkey_of o) o) l []).

  (* run one call on every member; the first exception propagates *)
  Fixpoint collect {A} (f : source -> res A) (ms : list source) : res (list A) :=
    match ms with
    | [] => Ok []
    | m :: r => rbind (f m) (fun a => rbind (collect f r) (fun l => Ok (a :: l)))
    end.

  (* the "Search for latest version" loop of CompositeDataSource.get *)
  Fixpoint cget_loop (cur : option (obj * vkey)) (l : list obj) : res (option obj) :=
    match l with
    | [] => Ok (match cur with Some (o, _) => Some o | None => None end)
    | o :: r =>
      let ver := ver_of o in
      match cur with
      | None => cget_loop (Some (o, ver)) r
      | Some (_, latest_ver) =>
        if is_vnone ver then cget_loop (Some (o, ver)) r
        else match vgt ver latest_ver with
             | None => Err EType
             | Some true => cget_loop (Some (o, ver)) r
             | Some false => cget_loop cur r
             end
      end
    end.

  Definition somes {A} (l : list (option A)) : list A :=
    flat_map (fun x => match x with Some a => [a] | None => [] end) l.

  (* CompositeDataSource.get ; af = filters attached to the composite *)
  Definition cget (af : list sfilter) (ms : list source) (cf : list sfilter) (id : ustring) : res (option obj) :=
    match ms with
    | [] => Err EAttr
    | _ => rbind (collect (fun m => s_get m (af ++ cf) id) ms) (fun rs => cget_loop None (somes rs))
    end.

  Definition call (af : list sfilter) (ms : list source) (cf : list sfilter) (id : ustring) : res (list obj) :=
    match ms with
    | [] => Err EAttr
    | _ => rbind (collect (fun m => s_all m (af ++ cf) id) ms) (fun rs => Ok (dedupe (List.concat rs)))
    end.

  Definition cquery (af : list sfilter) (ms : list source) (cf q : list sfilter) : res (list obj) :=
    match ms with
    | [] => Err EAttr
    | _ => rbind (collect (fun m => s_query m (af ++ cf) q) ms) (fun rs => Ok (dedupe (List.concat rs)))
    end.

  (* CompositeDataSource.relationships: every member's own answer, de-duplicated *)
  Definition crelationships (ms : list source) (a : ustring) (rt : option ustring) (so to : bool) : res (list obj) :=
    match ms with
    | [] => Err EAttr
    | _ => rbind (collect (fun m => s_rels m a rt so to) ms) (fun rs => Ok (dedupe (List.concat rs)))
    end.

  (* CompositeDataSource.related_to.  PerMember is the code as it is: each member
     navigates within its own data.  Federated is the repaired behaviour: the
     generic DataSource.related_to run on the composite itself, so that both the
     relationship search and the id look-ups reach every member. *)
  Inductive related_mode := PerMember | Federated.

  Definition crelated_to (rm : related_mode) (af : list sfilter) (ms : list source) (a : ustring)
             (rt : option ustring) (so to : bool) (fl : list sfilter) : res (list obj) :=
    match ms with
    | [] => Err EAttr
    | _ =>
      match rm with
      | PerMember =>
        rbind (collect (fun m => s_related m a rt so to fl) ms) (fun rs => Ok (dedupe (List.concat rs)))
      | Federated =>
        related_to (crelationships ms) (cquery af ms []) a rt so to fl
      end
    end.

  (* a composite is itself a DataSource (it can be attached to another one) *)
  Definition composite_source (rm : related_mode) (af : list sfilter) (ms : list source) : source :=
    mkSource (cget af ms) (call af ms) (cquery af ms) (crelationships ms) (crelated_to rm af ms).

  (* Environment(store=S, source=X): reads go to a CompositeDataSource over
     S.source and X (in that order), Environment.add_filter attaches to that
     composite, writes go to S.sink, Environment.creator_of is
     self.get(created_by_ref), i.e. creator_of on the composite. *)
  Definition env_source (rm : related_mode) (af : list sfilter) (ms : list source) : source :=
    composite_source rm af ms.

End Store.

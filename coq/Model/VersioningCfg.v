(* Model/VersioningCfg.v -- the choices stix2/versioning.py makes, as data: what
   translators/tr_versioning_src.py reads from the SOURCE TEXT (ast) of _fudge_modified,
   new_version, revoke and _check_versionable_object, and the arithmetic those choices denote.
   `model_cfg` is what the hand-written model (Model/Versioning.v) hard-codes.  No proofs.   *)
From Coq Require Import ZArith List String Bool.
From V Require Import Base.UString Model.Timestamp.
Import ListNotations.
Open Scope Z_scope.

Inductive cmp := CLt | CLe | CGt | CGe | CEq | CNe.

Definition cmp_holds (c : cmp) (a b : Z) : bool :=
  match c with
  | CLt => a <? b | CLe => a <=? b | CGt => b <? a | CGe => b <=? a | CEq => a =? b | CNe => negb (a =? b)
  end.

Record vsrc := mkSrc {
  (* _fudge_modified, use_stix21 branch: `if new <cmp> old: new = old + timedelta(push)` *)
  s_f21_cmp : cmp;  s_f21_push : Z;
  (* else branch: `if new - old <cmp> threshold: new = old + push` (microseconds) *)
  s_f20_cmp : cmp;  s_f20_threshold : Z;  s_f20_push : Z;
  (* whether an aware old time is moved to UTC before that arithmetic (it does not change the instants;
     without it, arithmetic in a zone with a variable offset forgets `fold`) *)
  s_fudge_utc_first : bool;
  (* new_version: positions (statement index in the function body, -1 = absent) of the steps *)
  s_i_check : Z;          (* stix_version = _check_versionable_object(data) *)
  s_i_revoked : Z;        (* if data.get('revoked'): raise RevokeError *)
  s_i_copy : Z;           (* copy.deepcopy of the object's properties *)
  s_i_unmod : Z;          (* for prop in chain(STIX_UNMOD_PROPERTIES, sco_locked_props): if prop in kwargs ... raise *)
  s_i_parse_old : Z;      (* old_modified = parse_into_datetime(data.get("modified") or data.get("created"), ...) *)
  s_i_branch : Z;         (* if 'modified' in kwargs: ... else: ... *)
  s_i_update : Z;         (* new_obj_inner.update(kwargs) *)
  s_unmod_lists : list string;        (* the iterables chained in the unmodifiable loop *)
  s_unmod_test : string;              (* the test of that loop: "prop in kwargs" *)
  s_old_sources : list string;        (* data.get(..) or data.get(..): ["modified"; "created"] *)
  s_parse_precision : list string;    (* precision= of the two parse_into_datetime calls *)
  s_parse_constraint : list string;   (* precision_constraint= of the two calls *)
  s_constraint_21 : string;  s_constraint_test : string;  s_constraint_else : string;   (* "min" if stix_version == "2.1" else "exact" *)
  s_supplied_cmp : cmp;               (* if new_modified <cmp> old_modified: raise InvalidValueError *)
  s_supplied_raises : string;
  s_fudge_flag : string;              (* third argument of _fudge_modified: stix_version != "2.0" *)
  s_clock : string;                   (* get_timestamp *)
  s_none_filter : string;             (* the filter of the final dict comprehension: "v is not None" *)
  s_sco_version : string;  s_sco_uuid_test : string;      (* is_sco(data, "2.1"); uuid_.variant == uuid.RFC_4122 and uuid_.version == 5 *)
  (* revoke *)
  s_revoke_tests : list string;       (* the guards, in order, with what they raise *)
  s_revoke_call : string;             (* new_version(data, revoked=True) *)
  (* _check_versionable_object *)
  s_cvo : list string                 (* tests and raises, in order *)
}.

(* the arithmetic the text of _fudge_modified denotes, on UTC instants *)
Definition fudge21_src (S : vsrc) (o n : Z) : Z := if cmp_holds (s_f21_cmp S) n o then o + s_f21_push S else n.
Definition fudge20_src (S : vsrc) (o n : Z) : Z :=
  if cmp_holds (s_f20_cmp S) (n - o) (s_f20_threshold S) then o + s_f20_push S else n.
(* a supplied modified time is accepted unless the test holds *)
Definition supplied_accepted_src (S : vsrc) (new old : Z) : bool := negb (cmp_holds (s_supplied_cmp S) new old).

(* decidable conditions under which those choices give a strictly later serialized time *)
Definition fudge21_ok (S : vsrc) : bool :=
  match s_f21_cmp S with CLe => 0 <? s_f21_push S | _ => false end.
Definition fudge20_ok (S : vsrc) : bool :=
  (match s_f20_cmp S with CLt => 1000 <=? s_f20_threshold S | CLe => 999 <=? s_f20_threshold S | _ => false end)
  && (1000 <=? s_f20_push S).
Definition supplied_ok (S : vsrc) : bool := match s_supplied_cmp S with CLe => true | _ => false end.

(* the order of the steps of new_version that the refusal theorems rely on: version check, revoked
   test, unmodifiable test, all before anything is parsed, and the update last *)
Definition order_ok (S : vsrc) : bool :=
  (0 <=? s_i_check S) && (s_i_check S <? s_i_revoked S) && (s_i_revoked S <? s_i_unmod S) &&
  (s_i_unmod S <? s_i_parse_old S) && (s_i_parse_old S <? s_i_branch S) && (s_i_branch S <? s_i_update S) &&
  (s_i_revoked S <? s_i_copy S).

Open Scope string_scope.
(* what Model/Versioning.v mirrors *)
Definition model_cfg : vsrc := {|
  s_f21_cmp := CLe; s_f21_push := 1;
  s_f20_cmp := CLt; s_f20_threshold := 1000; s_f20_push := 1000;
  s_fudge_utc_first := false;
  s_i_check := 0; s_i_revoked := 1; s_i_copy := 2; s_i_unmod := 6; s_i_parse_old := 10; s_i_branch := 12; s_i_update := 13;
  s_unmod_lists := ["STIX_UNMOD_PROPERTIES"; "sco_locked_props"];
  s_unmod_test := "prop in kwargs";
  s_old_sources := ["modified"; "created"];
  s_parse_precision := ["millisecond"; "millisecond"];
  s_parse_constraint := ["precision_constraint"; "precision_constraint"];
  s_constraint_21 := "min"; s_constraint_test := "stix_version == '2.1'"; s_constraint_else := "exact";
  s_supplied_cmp := CLe; s_supplied_raises := "InvalidValueError";
  s_fudge_flag := "stix_version != '2.0'";
  s_clock := "get_timestamp";
  s_none_filter := "v is not None";
  s_sco_version := "2.1"; s_sco_uuid_test := "uuid_.variant == uuid.RFC_4122 and uuid_.version == 5";
  s_revoke_tests := ["not isinstance(data, Mapping) -> ValueError"; "data.get('revoked') -> RevokeError"];
  s_revoke_call := "new_version(data, revoked=True)";
  s_cvo := ["isinstance(data, Mapping)"; "data.keys() >= _VERSIONING_PROPERTIES"; "_get_stix_version(data)";
            "else"; "_is_versionable_type(data)"; "is_versionable_type"; "'created' in data";
            "not is_versionable -> ObjectNotVersionableError"; "else -> TypeNotVersionableError";
            "else -> TypeNotVersionableError"]
|}.

(* a configuration without the statement positions (they move with any harmless edit; their ORDER is what
   order_ok checks) *)
Definition strip (S : vsrc) : vsrc :=
  {| s_f21_cmp := s_f21_cmp S; s_f21_push := s_f21_push S;
     s_f20_cmp := s_f20_cmp S; s_f20_threshold := s_f20_threshold S; s_f20_push := s_f20_push S;
     s_fudge_utc_first := false;
     s_i_check := 0; s_i_revoked := 0; s_i_copy := 0; s_i_unmod := 0; s_i_parse_old := 0; s_i_branch := 0; s_i_update := 0;
     s_unmod_lists := s_unmod_lists S; s_unmod_test := s_unmod_test S; s_old_sources := s_old_sources S;
     s_parse_precision := s_parse_precision S; s_parse_constraint := s_parse_constraint S;
     s_constraint_21 := s_constraint_21 S; s_constraint_test := s_constraint_test S; s_constraint_else := s_constraint_else S;
     s_supplied_cmp := s_supplied_cmp S; s_supplied_raises := s_supplied_raises S;
     s_fudge_flag := s_fudge_flag S; s_clock := s_clock S; s_none_filter := s_none_filter S;
     s_sco_version := s_sco_version S; s_sco_uuid_test := s_sco_uuid_test S;
     s_revoke_tests := s_revoke_tests S; s_revoke_call := s_revoke_call S; s_cvo := s_cvo S |}.

(* Model/Schema.v -- executable model of the generic object machinery:
     stix2/properties.py   every Property.clean            -> clean_kind
     stix2/base.py         _STIXBase.__init__, _check_*    -> construct
     stix2/parsing.py      parse / dict_to_stix2 / parse_observable
     stix2/utils.py        detect_spec_version, is_sdo/is_sco/is_sro/is_object
     stix2/serialization.py STIXJSONEncoder (both flavours) -> encode
   over JSON-like input (Base.Json.jvalue) and an arbitrary class table
   (SchemaTypes.world; the harness instantiates it with Gen/Tables.v, which is
   regenerated from /repo on every run).  No proofs here.

   Inputs that the real code hands to a CPython coercion this model does not
   restate (json.loads of a string given where a dictionary is expected,
   repr of containers, lenient strptime spellings, non-ASCII digits) yield
   `Unmodelled`; the harness counts and skips them.                          *)
From Coq Require Import NArith ZArith List String Bool.
From V Require Import Base.UString Base.Json Model.SchemaTypes Model.PyBase.
Import ListNotations.

(* ------------------------------------------------------------------ values *)

Inductive pval :=
| PJ (j : jvalue)                         (* plain JSON-like value (strings, numbers, raw custom content) *)
| PTime (us : Z) (text : ustring)         (* STIXdatetime: instant and the text it serializes to *)
| PArr (l : list pval)
| PMap (m : list (ustring * pval))        (* dict-valued property (hashes, dictionary, extensions, objects) *)
| PObject (cid : ustring) (inner : list (ustring * pval)) (defaulted : list ustring) (hc : bool).


Fixpoint encode (incl : bool) (v : pval) : jvalue :=
  match v with
  | PJ j => j
  | PTime _ t => JStr t
  | PArr l => JArr ((fix go (l : list pval) : list jvalue :=
                       match l with [] => [] | x :: r => encode incl x :: go r end) l)
  | PMap m => JObj ((fix go (m : list (ustring * pval)) : list (ustring * jvalue) :=
                       match m with [] => [] | (k, x) :: r => (k, encode incl x) :: go r end) m)
  | PObject _ inner dfl _ =>
    JObj ((fix go (m : list (ustring * pval)) : list (ustring * jvalue) :=
             match m with
             | [] => []
             | (k, x) :: r => if incl || negb (mem_ustr k dfl) then (k, encode incl x) :: go r else go r
             end) inner)
  end.

Definition ptruthy (v : pval) : bool :=
  match v with
  | PJ j => truthy j
  | PTime _ _ => true
  | PArr l => match l with [] => false | _ => true end
  | PMap m => match m with [] => false | _ => true end
  | PObject _ inner _ _ => match inner with [] => false | _ => true end
  end.

Definition pval_has_custom (v : pval) : bool :=
  match v with PObject _ _ _ hc => hc | _ => false end.

(* ------------------------------------------------------------ assoc lists *)
Section Assoc.
  Context {A : Type}.
  Fixpoint alookup (k : ustring) (m : list (ustring * A)) : option A :=
    match m with [] => None | (k', v) :: r => if ustr_eqb k k' then Some v else alookup k r end.
  Definition amem (k : ustring) (m : list (ustring * A)) : bool :=
    match alookup k m with Some _ => true | None => false end.
  (* dict[k] = v : in place if present, else appended *)
  Fixpoint aset (k : ustring) (v : A) (m : list (ustring * A)) : list (ustring * A) :=
    match m with
    | [] => [(k, v)]
    | (k', v') :: r => if ustr_eqb k k' then (k, v) :: r else (k', v') :: aset k v r
    end.
  Fixpoint aremove (k : ustring) (m : list (ustring * A)) : list (ustring * A) :=
    match m with [] => [] | (k', v) :: r => if ustr_eqb k k' then r else (k', v) :: aremove k r end.
End Assoc.

Definition akeys {A} (m : list (ustring * A)) : list ustring := map fst m.

(* sorted() on strings: insertion sort by code points *)
Fixpoint uinsert (x : ustring) (l : list ustring) : list ustring :=
  match l with
  | [] => [x]
  | y :: r => if ustr_ltb y x then y :: uinsert x r else x :: l
  end.
Definition usort (l : list ustring) : list ustring := fold_right uinsert [] l.

Fixpoint udedup (l : list ustring) : list ustring :=
  match l with [] => [] | x :: r => if mem_ustr x r then udedup r else x :: udedup r end.

(* -------------------------------------------------- registries, type tests *)
Section World.
  Variable vr : variant.       (* which of the C02 defect variants the code under test matches *)
  Variable ev : env.           (* clock reading, uuid4 and uuid5 texts *)
  Variable w : world.
  (* oracles: the pattern validator of the stix2patterns package and granular-marking
     selector validation (restated by the C08 model) *)
  Variable pattern_ok : ver -> ustring -> bool.
  Variable selectors_ok : list (ustring * pval) -> pval -> result bool.

  Definition class_for (t : ustring) (v : ver) (cat : N) : option ustring :=
    let r := reg_of w v in
    match cat with
    | 0%N => assoc t (robjects r)
    | 1%N => assoc t (robservables r)
    | 2%N => assoc t (rextensions r)
    | _ => assoc t (rmarkings r)
    end.

  Definition is_sdo (t : ustring) (v : ver) : bool :=
    match assoc t (robjects (reg_of w v)) with
    | Some _ => negb (mem_ustr t (map u ["relationship"; "sighting"; "marking-definition"; "bundle"; "language-content"]%string))
    | None => false
    end.
  Definition is_sco (t : ustring) (v : ver) : bool :=
    match assoc t (robservables (reg_of w v)) with Some _ => true | None => false end.
  Definition is_sro (t : ustring) : bool := mem_ustr t (map u ["sighting"; "relationship"]%string).
  Definition is_object (t : ustring) (v : ver) : bool :=
    match assoc t (robservables (reg_of w v)), assoc t (robjects (reg_of w v)) with
    | None, None => false
    | _, _ => true
    end.

  (* is_stix_type(obj_type, version, *generics) with generics drawn from SDO/SCO/SRO *)
  Definition is_stix_type (t : ustring) (v : ver) (generics : list ustring) : bool :=
    existsb (fun g => if ustr_eqb g (u "SDO") then is_sdo t v
                      else if ustr_eqb g (u "SCO") then is_sco t v
                      else if ustr_eqb g (u "SRO") then is_sro t else false) generics.

  Definition all_generics : list ustring := map u ["SDO"; "SCO"; "SRO"]%string.

  (* detect_spec_version on a JSON dict; KeyError / TypeError paths are errors *)
  Fixpoint ver_max (l : list ver) : ver :=
    match l with [] => V20 | V21 :: _ => V21 | V20 :: r => ver_max r end.

  (* max("2.1", max(detect_spec_version(obj) for obj in objects)) given the detector `g` for one member *)
  Fixpoint detect_members (g : list (ustring * jvalue) -> result (option ver)) (nonempty : bool) (l : list jvalue)
    : result (option ver) :=
    match l with
    | [] => if nonempty then Ok (Some V21)
            else if vr_detect_default vr then Ok (Some V21) else Err EValueError
    | JObj o :: r => do mv <- g o;
                     match mv with Some _ => detect_members g nonempty r | None => Unmodelled end   (* max() over arbitrary values *)
    | _ :: _ => Err ETypeError
    end.

  Fixpoint detect_version (fuel : nat) (d : list (ustring * jvalue)) : result (option ver) :=
    match fuel with
    | O => Err EOutOfFuel
    | S f =>
      match alookup (u "type") d with
      | None => if vr_detect_notype_parse vr then Err EParse else Err EKeyError
      | Some ty =>
        match alookup (u "spec_version") d with
        | Some sv =>
          if jvalue_eqb ty (JStr (u "bundle")) then Ok (Some V20)
          else match sv with
               | JStr s => if ustr_eqb s (u "2.1") then Ok (Some V21) else if ustr_eqb s (u "2.0") then Ok (Some V20)
                           else Ok None         (* an unknown version is a registry key that finds nothing *)
               | JArr _ | JObj _ => Err ETypeError      (* unhashable registry key *)
               | _ => Ok None
               end
        | None =>
          if negb (amem (u "id") d) then Ok (Some V20)
          else if jvalue_eqb ty (JStr (u "bundle")) then
            match alookup (u "objects") d with
            | None => if vr_detect_default vr then Ok (Some V21) else Err EKeyError
            | Some (JArr objs) =>
              detect_members (detect_version f) (match objs with [] => false | _ => true end) objs
            | Some _ => Unmodelled
            end
          else match ty with
               | JStr t => Ok (Some (if amem t (robservables (wreg21 w)) then V21 else V20))
               | JArr _ | JObj _ => Err ETypeError
               | _ => Ok (Some V20)
               end
        end
      end
    end.

  (* ------------------------------------------------- per-kind cleaning *)
  (* rec_construct cid allow interop kwargs : constructor of a class by id *)
  Variable rec_construct : ustring -> bool -> bool -> list (ustring * jvalue) -> result pval.
  (* rec_parse allow interop dict : dict_to_stix2 (version detected) ; rec_parse_obs : parse_observable *)
  Variable rec_parse : bool -> bool -> list (ustring * jvalue) -> result pval.
  Variable rec_parse_obs : ver -> list (ustring * ustring) -> bool -> list (ustring * jvalue) -> result pval.

  Definition clean_string (v : jvalue) : result (pval * bool) :=
    do s <- py_str v; Ok (PJ (JStr s), false).

  Definition dict_key_ok (vv : ver) (k : ustring) : bool :=
    let n := List.length k in
    (match vv with
     | V20 => Nat.leb 3 n && Nat.leb n 256
     | V21 => Nat.leb n 250
     end) && re_dict_key (vr_key_z vr) k.

  Fixpoint clean_dict_keys (vv : ver) (d : list (ustring * jvalue)) : result unit :=
    match d with
    | [] => Ok tt
    | (k, _) :: r => if dict_key_ok vv k then clean_dict_keys vv r else Err EDictionaryKey
    end.

  (* _get_dict on JSON kinds: a dict is itself; a string is json-decoded (Unmodelled);
     a list goes through dict(list) (Unmodelled unless it cannot matter); scalars fail *)
  Definition get_dict (v : jvalue) : result (list (ustring * jvalue)) :=
    match v with
    | JObj m => Ok m
    | JStr _ => Unmodelled
    | JArr _ => Unmodelled
    | _ => Err EValueError
    end.

  Definition clean_dictionary (vv : ver) (v : jvalue) : result (list (ustring * jvalue)) :=
    do d <- get_dict v;
    do _ <- clean_dict_keys vv d;
    match d with [] => Err EValueError | _ => Ok d end.

  (* the spec name for an algorithm: the last spec name that infers to it *)
  Definition hash_spec_name (names : list ustring) (alg : ustring) : option ustring :=
    find (fun n => match infer_hash n with Some a => ustr_eqb a alg | None => false end) (rev names).

  Fixpoint hashes_loop (names : list ustring) (allow : bool) (l : list (ustring * jvalue))
           (acc : list (ustring * pval)) (hc : bool) : result (pval * bool) :=
    match l with
    | [] => Ok (PMap acc, hc)
    | (k, hv) :: r =>
      match infer_hash k with
      | Some alg =>
        match hv with
        | JStr s =>
          if negb (check_hash (vr_hash_z vr) alg s) then Err EValueError else
          let '(name, hc') := match hash_spec_name names alg with Some n => (n, hc) | None => (k, true) end in
          if negb allow && hc' then Err ECustomContent else hashes_loop names allow r (aset name (PJ hv) acc) hc'
        | _ => Err ETypeError       (* regex.match on a non-string *)
        end
      | None =>
        let hc' := hc || negb (mem_ustr k names) in
        if negb allow && hc' then Err ECustomContent else hashes_loop names allow r (aset k (PJ hv) acc) hc'
      end
    end.

  Definition clean_hashes (names : list ustring) (vv : ver) (allow : bool) (v : jvalue) : result (pval * bool) :=
    do d <- clean_dictionary vv v;
    hashes_loop names allow d [] false.

  Definition clean_reference (white : bool) (generics specifics : list ustring) (vv : ver)
             (allow interop : bool) (v : jvalue) : result (pval * bool) :=
    do s <- py_str v;
    do _ <- validate_id vr s vv None interop;
    let t := fst (split_dashdash s) in
    let flip := allow && white && (match generics with [] => false | _ => true end)
                && (if vr_ref_flip_unreg vr then negb (is_object t vv) else true) in
    let white' := if flip then false else white in
    let generics' := if flip then filter (fun g => negb (mem_ustr g generics)) all_generics else generics in
    let specifics' := if flip then [] else specifics in
    let exceptions := if flip then specifics else [] in
    let type_ok :=
        if white' then is_stix_type t vv generics' || mem_ustr t specifics'
        else (negb (is_stix_type t vv generics') && negb (mem_ustr t specifics')) || mem_ustr t exceptions in
    let hc := negb (is_object t vv) || ustr_prefix (u "x-") t in
    if negb type_ok then Err EValueError
    else if negb allow && hc then Err ECustomContent
    else Ok (PJ (JStr s), hc).

  (* float(value) with integral bounds; the cleaned float is carried by its repr text *)
  Definition clean_float (mn mx : option Z) (v : jvalue) : result (pval * bool) :=
    let bounds (me : Z * Z) : bool :=
        (match mn with Some b => match dec_cmp_int me b with Lt => false | _ => true end | None => true end) &&
        (match mx with Some b => match dec_cmp_int me b with Gt => false | _ => true end | None => true end) in
    match v with
    | JFloat r =>
      match dec_of_repr r with
      | Some me => if bounds me then Ok (PJ (JFloat r), false) else Err EValueError
      | None => Unmodelled        (* inf / nan compare false with everything: accepted by the code *)
      end
    | JInt z =>
      if (Z.abs z <? 10 ^ 16)%Z then
        if bounds (z, 0%Z) then Ok (PJ (JFloat (ustr_of_Z z ++ u ".0")), false) else Err EValueError
      else Unmodelled
    | JBool b => let z := (if b then 1 else 0)%Z in
                 if bounds (z, 0%Z) then Ok (PJ (JFloat (ustr_of_Z z ++ u ".0")), false) else Err EValueError
    | JStr _ => Unmodelled
    | _ => Err EValueError
    end.

  Definition clean_bool (v : jvalue) : result (pval * bool) :=
    let ret (b : bool) := Ok (PJ (JBool b), false) in
    match v with
    | JBool b => ret b
    | JInt z => if (z =? 1)%Z then ret true else if (z =? 0)%Z then ret false else Err EValueError
    | JFloat r => match dec_of_repr r with
                  | Some me => match dec_cmp_int me 1 with
                               | Eq => ret true
                               | _ => match dec_cmp_int me 0 with Eq => ret false | _ => Err EValueError end
                               end
                  | None => Err EValueError
                  end
    | JStr s =>
      if negb (all_ascii s) then Unmodelled else
      let l := ulower s in
      if mem_ustr l (map u ["true"; "t"; "1"]%string) then ret true
      else if mem_ustr l (map u ["false"; "f"; "0"]%string) then ret false
      else Err EValueError
    | _ => Err EValueError
    end.

  Definition reserved_kw (d : list (ustring * jvalue)) : result unit :=
    if amem (u "allow_custom") d then Err ETypeError
    else if amem (u "interoperability") d || amem (u "self") d then Unmodelled
    else Ok tt.

  (* ListProperty: what iter(value) yields on JSON kinds *)
  Definition list_items (v : jvalue) : result (list jvalue) :=
    match v with
    | JArr l => Ok l
    | JStr _ => Ok [v]
    | JObj m => Ok (map (fun kv => JStr (fst kv)) m)
    | _ => Err EValueError
    end.

  (* the items of a list cleaned by the contained property *)
  Fixpoint clean_items (f : jvalue -> result (pval * bool)) (l : list jvalue) : result (list pval * bool) :=
    match l with
    | [] => Ok ([], false)
    | x :: r =>
      do cx <- f x;
      do rest <- clean_items f r;
      Ok (fst cx :: fst rest, snd cx || snd rest)
    end.

  (* the items of a list of embedded objects *)
  Fixpoint listof_items (cid : ustring) (allow interop : bool) (l : list jvalue) : result (list pval * bool) :=
    match l with
    | [] => Ok ([], false)
    | JObj d :: r =>
      do _ <- reserved_kw d;
      do o <- rec_construct cid allow interop d;
      do rest <- listof_items cid allow interop r;
      Ok (o :: fst rest, pval_has_custom o || snd rest)
    | _ :: _ => Err EValueError
    end.

  Definition finish_list (allow : bool) (r : list pval * bool) : result (pval * bool) :=
    let '(res, hc) := r in
    if negb allow && hc then Err ECustomContent
    else match res with [] => Err EValueError | _ => Ok (PArr res, hc) end.

  (* ObservableProperty: valid_refs = {k: v['type']}: a member that is not a dict, or has no type, fails first *)
  Fixpoint obs_refs (l : list (ustring * jvalue)) : result (list (ustring * ustring)) :=
    match l with
    | [] => Ok []
    | (key, JObj o) :: r =>
      match alookup (u "type") o with
      | Some (JStr t) => do rest <- obs_refs r; Ok ((key, t) :: rest)
      | Some _ => Unmodelled
      | None => Err EKeyError
      end
    | (_, _) :: _ => Err ETypeError
    end.

  Fixpoint obs_loop (vv : ver) (refs : list (ustring * ustring)) (allow : bool) (l : list (ustring * jvalue))
           (acc : list (ustring * pval)) (hc : bool) : result (pval * bool) :=
    match l with
    | [] => Ok (PMap acc, hc)
    | (key, JObj o) :: r =>
      do p <- rec_parse_obs vv refs allow o;
      let hc' := hc || match p with PObject _ _ _ h => h | _ => true end in
      if negb allow && hc' then Err ECustomContent else obs_loop vv refs allow r (acc ++ [(key, p)]) hc'
    | _ => Err ETypeError
    end.

  Fixpoint ext_loop (vv : ver) (allow interop : bool) (l : list (ustring * jvalue))
           (acc : list (ustring * pval)) (hc : bool) : result (pval * bool) :=
    match l with
    | [] => Ok (PMap acc, hc)
    | (key, sub) :: r =>
      match class_for key vv 2%N with
      | Some cid =>
        match sub with
        | JObj sd =>
          do _ <- reserved_kw sd;
          do e <- rec_construct cid allow interop sd;
          let hc' := hc || pval_has_custom e in
          if negb allow && hc' then Err ECustomContent else ext_loop vv allow interop r (acc ++ [(key, e)]) hc'
        | _ => Err ETypeError
        end
      | None =>
        if ustr_prefix (u "extension-definition--") key then
          do _ <- validate_id vr key vv (Some (u "extension-definition--")) false;
          ext_loop vv allow interop r (acc ++ [(key, PJ sub)]) hc
        else if allow then ext_loop vv allow interop r (acc ++ [(key, PJ sub)]) true
        else Err ECustomContent
      end
    end.

  Fixpoint clean_kind (k : pkind) (allow interop : bool) (v : jvalue) {struct k} : result (pval * bool) :=
    match k with
    | KString | KPattern | KObjRef _ => clean_string v
    | KFixed fv allowed =>
      if jvalue_eqb v (JStr fv) then Ok (PJ v, false) else Err EValueError
    | KId prefix vv =>
      match v with
      | JStr s => do _ <- validate_id vr s vv (Some prefix) interop; Ok (PJ v, false)
      | _ => Err EAttributeError
      end
    | KInt mn mx =>
      match py_int v with
      | Ok z =>
        if (match mn with Some b => (z <? b)%Z | None => false end) then Err EValueError
        else if (match mx with Some b => (b <? z)%Z | None => false end) then Err EValueError
        else Ok (PJ (JInt z), false)
      | Unmodelled => Unmodelled
      | Err _ => Err EValueError
      end
    | KFloat mn mx => clean_float mn mx v
    | KBool => clean_bool v
    | KTime p c =>
      match v with
      | JStr s => do r <- ts_clean (vr_year_pad vr) p c s; Ok (PTime (fst r) (snd r), false)
      | _ => Err ETypeError
      end
    | KDict vv => do d <- clean_dictionary vv v; Ok (PJ (JObj d), false)
    | KHashes names vv => clean_hashes names vv allow v
    | KBinary =>
      match v with
      | JStr s =>
        (* b64decode of a str: non-ASCII text is a ValueError, otherwise binascii's non-strict scan *)
        if all_ascii s && (if vr_b64_strict vr then b64_strict s else b64_ok s) then Ok (PJ v, false) else Err EValueError
      | _ => Err EValueError        (* TypeError from b64decode, re-raised as ValueError *)
      end
    | KHex =>
      match v with
      | JStr s => if re_hex_pairs (vr_hex_z vr) s then Ok (PJ v, false) else Err EValueError
      | _ => Err ETypeError
      end
    | KRef white generics specifics vv => clean_reference white generics specifics vv allow interop v
    | KSelector =>
      match v with
      | JStr s => if negb (all_ascii s) then Unmodelled
                  else if re_selector (vr_sel_z vr) (vr_sel_upper vr) s then Ok (PJ v, false) else Err EValueError
      | _ => Err ETypeError
      end
    | KEmbedded cid =>
      match v with
      | JObj d =>
        do _ <- reserved_kw d;
        do o <- rec_construct cid allow false d;
        let hc := pval_has_custom o in
        if negb allow && hc then Err ECustomContent else Ok (o, hc)
      | _ => Err EValueError
      end
    | KEnum allowed =>
      do s <- py_str v; if mem_ustr s allowed then Ok (PJ (JStr s), false) else Err EValueError
    | KOpenVocab _ => clean_string v
    | KObservable vv =>
      do d <- get_dict v;
      match d with
      | [] => Err EValueError
      | _ => do refs <- obs_refs d; obs_loop vv refs allow d [] false
      end
    | KExtensions vv =>
      do d <- get_dict v;
      match d with
      | [] => if vr_ext_nonempty vr then Err EValueError else Ok (PMap [], false)
      | _ => ext_loop vv allow interop d [] false
      end
    | KStixObject vv =>
      do d <- get_dict v;
      match d with
      | [] => Err EValueError
      | _ =>
        if jvalue_eqb (match alookup (u "type") d with Some t => t | None => JNull end) (JStr (u "bundle"))
        then Err EValueError
        else if amem (u "spec_version") d && match vv with V20 => true | V21 => false end then Err EValueError
        else
          do p <- rec_parse allow interop d;
          if vr_bundle20_recheck vr && (match vv with V20 => true | V21 => false end) &&
             (match p with
              | PObject _ inner _ _ => amem (u "spec_version") inner
              | PJ (JObj m) => amem (u "spec_version") m
              | _ => false
              end)
          then Err EValueError else
          let hc := match p with PObject _ _ _ h => h | _ => true end in
          if negb allow && hc then Err ECustomContent else Ok (p, hc)
      end
    | KMarking _ =>
      (* MarkingProperty accepts only instances of registered marking classes; a JSON value
         reaches it only if the class __init__ did not wrap it (handled in construct) *)
      Err EValueError
    | KList k' =>
      do l <- list_items v;
      do r <- clean_items (clean_kind k' allow interop) l;
      finish_list allow r
    | KListOf cid =>
      do l <- list_items v;
      do r <- listof_items cid allow interop l;
      finish_list allow r
    | KAny => Ok (PJ v, false)
    end.

  (* ------------------------------------------------------ constraints *)
  Definition pget (p : ustring) (inner : list (ustring * pval)) : option pval := alookup p inner.

  Definition time_of (v : option pval) : option Z :=
    match v with Some (PTime us _) => Some us | _ => None end.

  Fixpoint eval_ccond (c : ccond) (inner : list (ustring * pval)) : result bool :=
    match c with
    | QTruthy p => Ok (match pget p inner with Some v => ptruthy v | None => false end)
    | QIsTrue p => Ok (match pget p inner with Some (PJ (JBool true)) => true | _ => false end)
    | QIsNotFalse p => Ok (match pget p inner with Some (PJ (JBool false)) => false | _ => true end)
    | QIsNotNone p => Ok (amem p inner)
    | QHas p => Ok (amem p inner)
    | QLt a b => match time_of (pget a inner), time_of (pget b inner) with
                 | Some x, Some y => Ok (x <? y)%Z
                 | _, _ => Unmodelled
                 end
    | QLe a b => match time_of (pget a inner), time_of (pget b inner) with
                 | Some x, Some y => Ok (x <=? y)%Z
                 | _, _ => Unmodelled
                 end
    | QAnd c1 c2 => do b <- eval_ccond c1 inner; if b then eval_ccond c2 inner else Ok false
    | QOr c1 c2 => do b <- eval_ccond c1 inner; if b then Ok true else eval_ccond c2 inner
    | QNot c1 => do b <- eval_ccond c1 inner; Ok (negb b)
    end.

  Definition default_checked (c : cls) : list ustring :=
    let exc := map u ["extensions"; "type"]%string ++
               match cfamily c with FSco => map u ["id"; "defanged"; "spec_version"]%string | _ => [] end in
    filter (fun n => negb (mem_ustr n exc)) (map sname (cslots c)).

  Definition at_least_one (ps : list ustring) (inner : list (ustring * pval)) : result unit :=
    match ps with
    | [] => Ok tt
    | _ => if existsb (fun p => amem p inner) ps then Ok tt else Err EAtLeastOne
    end.

  Definition depends_ok (ps ds : list ustring) (inner : list (ustring * pval)) : bool :=
    forallb (fun p => forallb (fun dp =>
      if negb (amem p inner) && amem dp inner then false
      else match pget p inner with
           | Some (PJ (JBool false)) => negb (amem dp inner)
           | _ => true
           end) ds) ps.

  Definition socket_prefixes : list ustring :=
    map u ["SO_"; "ICMP_"; "ICMP6_"; "IP_"; "IPV6_"; "MCAST_"; "TCP_"; "IRLMP_"]%string.

  Definition tlp_ids : list (ustring * ustring) :=
    [ (u "white", u "marking-definition--613f2e26-407d-48c7-9eca-b8e91df99dc9");
      (u "green", u "marking-definition--34098fce-860f-48ae-8e50-ebd3cc5e41da");
      (u "amber", u "marking-definition--f88d31f6-486f-44da-b317-01333bde0b82");
      (u "red", u "marking-definition--5e57c739-391a-4eb3-b6be-7d15ca92d5ed") ].
  Definition tlp_created_text : ustring := u "2017-01-20T00:00:00.000Z".

  (* check_tlp_marking *)
  Definition check_tlp (inner : list (ustring * pval)) : result unit :=
    match pget (u "definition_type") inner with
    | Some (PJ (JStr dt)) =>
      if negb (ustr_eqb dt (u "tlp")) then Ok tt else
      match pget (u "definition") inner with
      | Some (PObject _ dinner _ _) =>
        match pget (u "tlp") dinner with
        | Some (PJ (JStr color)) =>
          match alookup color tlp_ids with
          | Some id =>
            match pget (u "id") inner, pget (u "created") inner with
            | Some (PJ (JStr i)), Some (PTime us txt) =>
              (* format_datetime(created), i.e. the text written with the stored precision *)
              if negb (ustr_eqb i id) then Err ETLPMarkingDefinition
              else if ustr_eqb txt tlp_created_text then Ok tt
              else Err ETLPMarkingDefinition
            | _, _ => Unmodelled
            end
          | None => Err ETLPMarkingDefinition      (* "Does not match any TLP Marking definition" *)
          end
        | _ => Err EKeyError
        end
      | _ => Err EKeyError
      end
    | _ => Ok tt
    end.

  (* every constraint of a list, in order, stopping at the first that raises *)
  Fixpoint constr_all (g : constr -> result unit) (l : list constr) : result unit :=
    match l with [] => Ok tt | x :: r => do _ <- g x; constr_all g r end.

  Fixpoint eval_constr (fuel : nat) (c : cls) (inner : list (ustring * pval)) (k : constr) : result unit :=
    match fuel with
    | O => Err EOutOfFuel
    | S f =>
      match k with
      | CAtLeastOne ps => at_least_one ps inner
      | CAtLeastOneDefault => at_least_one (default_checked c) inner
      | CMutEx ps =>
        let n := List.length (filter (fun p => amem p inner) (udedup ps)) in
        if Nat.ltb 1 n || Nat.eqb n 0 then Err EMutuallyExclusive else Ok tt
      | CDepends ps ds => if depends_ok ps ds inner then Ok tt else Err EDependentProperties
      | CRaiseIf q e => do b <- eval_ccond q inner; if b then Err e else Ok tt
      | CWhen q body =>
        do b <- eval_ccond q inner;
        if b then constr_all (eval_constr f c inner) body else Ok tt
      | CTlp _ => check_tlp inner
      | CPatternValidator vv =>
        (* v20: always; v21: only when pattern_type == 'stix', with pattern_version *)
        match vv with
        | V20 => match pget (u "pattern") inner with
                 | Some (PJ (JStr p)) => if pattern_ok V20 p then Ok tt else Err EInvalidValue
                 | _ => Unmodelled
                 end
        | V21 =>
          match pget (u "pattern_type") inner with
          | Some (PJ (JStr pt)) =>
            if negb (ustr_eqb pt (u "stix")) then Ok tt else
            match pget (u "pattern") inner, pget (u "pattern_version") inner with
            | Some (PJ (JStr p)), Some (PJ (JStr pv)) =>
              if ustr_eqb pv (u "2.1") then (if pattern_ok V21 p then Ok tt else Err EInvalidValue)
              else if ustr_eqb pv (u "2.0") then (if pattern_ok V20 p then Ok tt else Err EInvalidValue)
              else Unmodelled
            | _, _ => Unmodelled
            end
          | _ => Ok tt
          end
        end
      | CLegalHashes names =>
        match pget (u "hashes") inner with
        | Some (PMap m) => if forallb (fun kv => mem_ustr (fst kv) names) m then Ok tt else Err EInvalidValue
        | Some _ => Unmodelled
        | None => Ok tt
        end
      | CSocketOptions =>
        match pget (u "options") inner with
        | None => Ok tt
        | Some (PJ (JObj m)) =>
          if forallb (fun kv =>
               let key := fst kv in
               let pre := match ufind [95%N] key O with Some i => utake (S i) key | None => [] end in
               mem_ustr pre socket_prefixes &&
               match snd kv with JInt _ => true | JBool _ => negb (vr_sock_int vr) | _ => false end) m
          then Ok tt else Err EValueError
        | Some _ => Unmodelled
        end
      | CProcessExt =>
        (* at least one property; the windows-process-ext fallback only matters when nothing else is set *)
        match at_least_one (default_checked c) inner with
        | Ok _ => Ok tt          (* a nested windows-process-ext was validated by its own constructor *)
        | _ => if negb (amem (u "extensions") inner) then Err EAtLeastOne else Ok tt
        end
      | CSkipBaseCheck => Ok tt
      | COpaque _ => Unmodelled
      end
    end.

  (* --------------------------------------------------------- construct *)
  Definition slot_of (c : cls) (n : ustring) : option slot :=
    find (fun s => ustr_eqb (sname s) n) (cslots c).

  (* _check_property for one name; `setting` already holds the raw value if one was given.
     Three steps: the default (if nothing was given), clean of the value present, and -- v20 observables --
     the check that object references name members of the enclosing container.                          *)

  (* a default value goes through clean() like a given one; the clock reading is a datetime:
     (setting', the value just put in is the cleaned clock reading) *)
  Definition default_value (s : slot) (setting : list (ustring * pval)) : result (list (ustring * pval) * bool) :=
    let n := sname s in
    match alookup n setting with
    | Some _ => Ok (setting, false)
    | None =>
      match sdef s with
      | DNone => Ok (setting, false)
      | DFixed => match skind s with
                  | KFixed fv _ => Ok (aset n (PJ (JStr fv)) setting, false)
                  | _ => Unmodelled
                  end
      | DNow => match skind s with
                | KTime p c => do r <- ts_clean_now (vr_year_pad vr) p c (e_now ev);
                               Ok (aset n (PTime (fst r) (snd r)) setting, true)
                | _ => Unmodelled
                end
      | DUuid4 => match skind s with
                  | KId prefix _ => Ok (aset n (PJ (JStr (prefix ++ e_uuid4 ev))) setting, false)
                  | _ => Unmodelled
                  end
      | DConst j => Ok (aset n (PJ j) setting, false)
      end
    end.

  (* v20 _Observable._check_property / _check_ref *)
  Definition ref_check (refs : list (ustring * ustring)) (allowed : list ustring) (r : pval) : result unit :=
    match r with
    | PJ (JStr key) =>
      match alookup key refs with
      | None => Err EInvalidObjRef
      | Some t => match allowed with
                  | [] => Ok tt
                  | _ => if mem_ustr t allowed then Ok tt else Err EInvalidObjRef
                  end
      end
    | _ => Unmodelled
    end.

  Fixpoint ref_check_all (refs : list (ustring * ustring)) (allowed : list ustring) (l : list pval) : result unit :=
    match l with [] => Ok tt | x :: r => do _ <- ref_check refs allowed x; ref_check_all refs allowed r end.

  Definition refs_ok (c : cls) (s : slot) (valid_refs : option (list (ustring * ustring))) (v : pval) : result unit :=
    let n := sname s in
    match cfamily c, cver c, valid_refs with
    | FSco, V20, Some refs =>
      match skind s, v with
      | KObjRef allowed, _ => if ustr_prefix (rev (u "_ref")) (rev n) then ref_check refs allowed v else Ok tt
      | KList (KObjRef allowed), PArr l =>
        if ustr_prefix (rev (u "_refs")) (rev n) then ref_check_all refs allowed l else Ok tt
      | _, _ => Ok tt
      end
    | _, _, _ => Ok tt
    end.

  (* prop.clean on the value present (a raw JSON value; an object wrapped by the class __init__ is kept) *)
  Definition clean_present (c : cls) (s : slot) (allow interop : bool) (valid_refs : option (list (ustring * ustring)))
             (setting1 : list (ustring * pval)) (isnow : bool) : result (list (ustring * pval) * bool) :=
    let n := sname s in
    match alookup n setting1 with
    | None => Ok (setting1, false)
    | Some raw =>
      if isnow then Ok (setting1, false) else
      match raw with
      | PJ j =>
        match clean_kind (skind s) allow interop j with
        | Ok (v, hc) => do _ <- refs_ok c s valid_refs v; Ok (aset n v setting1, hc)
        | Err e => Err EInvalidValue
        | Unmodelled => Unmodelled
        end
      | _ =>
        (* already an object (wrapped by the class __init__): MarkingProperty.clean on an instance *)
        if vr_marking_flag vr then
          (if negb allow && pval_has_custom raw then Err EInvalidValue else Ok (setting1, pval_has_custom raw))
        else Ok (setting1, false)
      end
    end.

  Definition check_property (c : cls) (s : slot) (allow interop : bool) (valid_refs : option (list (ustring * ustring)))
             (setting : list (ustring * pval)) : result (list (ustring * pval) * bool) :=
    do sd <- default_value s setting;
    clean_present c s allow interop valid_refs (fst sd) (snd sd).

  Definition ext_is_toplevel (e : jvalue) : result bool :=
    match e with
    | JObj m => Ok (jvalue_eqb (match alookup (u "extension_type") m with Some t => t | None => JNull end)
                               (JStr (u "toplevel-property-extension")))
    | _ => if vr_ext_scan_guard vr then Ok false else Err EAttributeError
    end.

  (* the scan of `extensions` at the top of __init__: is there an unregistered toplevel-property-extension *)
  Fixpoint ext_scan (has_slot : bool) (l : list (ustring * jvalue)) : result bool :=
    match l with
    | [] => Ok false
    | (eid, e) :: r =>
      do t <- ext_is_toplevel e;
      if t then
        match class_for eid V21 2%N with
        | Some _ => if vr_ext_scan_guard vr then ext_scan has_slot r
                    else Err EAttributeError     (* built-in extension classes have no _toplevel_properties *)
        | None => do rest <- ext_scan has_slot r;
                  Ok (if vr_toplevel_needs_slot vr then has_slot || rest else true)
        end
      else ext_scan has_slot r
    end.

  (* the value assigned to a property name: keyword arguments first, then custom_properties; None and [] count as absent *)
  Definition assign_raw (kwargs custom_props : list (ustring * jvalue)) (pre : list (ustring * pval))
             (n : ustring) (setting : list (ustring * pval)) : list (ustring * pval) :=
    match alookup n pre with
    | Some v => aset n v setting
    | None =>
      match (match alookup n kwargs with Some v => Some v | None => alookup n custom_props end) with
      | Some JNull => setting
      | Some (JArr []) => setting
      | Some v => aset n (PJ v) setting
      | None => setting
      end
    end.

  (* the loop over property_order *)
  Fixpoint assign_loop (c : cls) (allow interop : bool) (valid_refs : option (list (ustring * ustring)))
           (kwargs custom_props : list (ustring * jvalue)) (pre : list (ustring * pval))
           (l : list ustring) (setting : list (ustring * pval)) (hc : bool)
    : result (list (ustring * pval) * bool) :=
    match l with
    | [] => Ok (setting, hc)
    | n :: rest =>
      let setting1 := assign_raw kwargs custom_props pre n setting in
      match slot_of c n with
      | Some s =>
        do r <- check_property c s allow interop valid_refs setting1;
        assign_loop c allow interop valid_refs kwargs custom_props pre rest (fst r) (hc || snd r)
      | None => assign_loop c allow interop valid_refs kwargs custom_props pre rest setting1 hc
      end
    end.

  (* base _check_object_constraints: the selectors of every granular marking address something *)
  Fixpoint granular_check (setting : list (ustring * pval)) (l : list pval) : result unit :=
    match l with
    | [] => Ok tt
    | PObject _ ginner _ _ :: r =>
      match alookup (u "selectors") ginner with
      | Some sels => do ok <- selectors_ok setting sels;
                     if ok then granular_check setting r else Err EInvalidSelector
      | None => Unmodelled
      end
    | _ :: _ => Unmodelled
    end.

  Definition defaulted_names (c : cls) (setting : list (ustring * pval)) : list ustring :=
    map sname (filter (fun s =>
      negb (sreq s) &&
      match sdef s with
      | DConst j => match alookup (sname s) setting with
                    | Some (PJ j') => jvalue_eqb j j'
                    | Some (PArr l) => jvalue_eqb j (encode true (PArr l))
                    | _ => false
                    end
      | _ => false
      end) (cslots c)).

  Definition construct_generic (fuel : nat) (c : cls) (allow0 interop : bool) (kwargs0 : list (ustring * jvalue))
             (pre : list (ustring * pval))         (* values already wrapped by the class __init__ *)
             (valid_refs : option (list (ustring * ustring))) : result pval :=
    (* custom_properties *)
    let custom_props_v := alookup (u "custom_properties") kwargs0 in
    let kwargs := aremove (u "custom_properties") kwargs0 in
    do custom_props <-
       match custom_props_v with
       | None => Ok []
       | Some (JObj m) => Ok m
       | Some v => if truthy v then Err EValueError else
                   match v with JNull => Err EAttributeError | _ => Err EAttributeError end
       end;
    (* extension scan *)
    do has_unreg_toplevel <-
       match alookup (u "extensions") kwargs with
       | None => Ok false
       | Some ev =>
         if negb (truthy ev) then Ok false else
         match ev with
         | JObj exts => ext_scan (mem_ustr (u "extensions") (map sname (cslots c))) exts
         | _ => if vr_ext_scan_guard vr then Ok false else Err EAttributeError
         end
       end;
    let prop_names := map sname (cslots c) in
    let extra := filter (fun k => negb (mem_ustr k prop_names)) (akeys kwargs) in
    let custom_kwargs := if has_unreg_toplevel then [] else extra in
    match custom_kwargs, allow0 with
    | _ :: _, false => Err EExtra
    | _, _ =>
      let allow := match custom_props with [] => allow0 | _ => true end in
      let all_custom := udedup (filter (fun k => negb (mem_ustr k prop_names)) (custom_kwargs ++ akeys custom_props)) in
      if (match cver c with V21 => negb (forallb re_prefix21 all_custom) | V20 => false end) then Err EInvalidValue else
      let toplevel_ext := if has_unreg_toplevel then usort extra else [] in   (* a Python set: order canonicalised *)
      let order := prop_names ++
                   (if vr_ext_order_sorted vr && has_unreg_toplevel then usort (udedup (extra ++ all_custom))
                    else toplevel_ext ++ usort all_custom) in
      do r <- assign_loop c allow interop valid_refs kwargs custom_props pre order []
                          (if vr_flag_from_stored vr then false else match all_custom with [] => false | _ => true end);
      let '(setting, hc0) := r in
      (* only custom properties that made it into the object count (repaired variant) *)
      let hc := hc0 || (vr_flag_from_stored vr && existsb (fun n => amem n setting) all_custom) in
      if existsb (fun s => sreq s && negb (amem (sname s) setting)) (cslots c) then Err EMissing else
      let defaulted := defaulted_names c setting in
      (* base _check_object_constraints: granular marking selectors *)
      do _ <- match (if existsb (fun k => match k with CSkipBaseCheck => true | _ => false end) (ccons c)
                      then None else alookup (u "granular_markings") setting) with
              | Some (PArr gms) => granular_check setting gms
              | Some _ => Unmodelled
              | None => Ok tt
              end;
      do _ <- constr_all (eval_constr fuel c setting)
                         ((match cfamily c with FExt => [CAtLeastOneDefault] | _ => [] end) ++ ccons c);
      (* `allow_custom` was rebound to True by the custom_properties loophole *)
      if allow then Ok (PObject (cid c) setting defaulted hc)
      else if hc then Err ESTIXError else Ok (PObject (cid c) setting defaulted false)
    end.
End World.

(* dict_to_stix2, unregistered type under allow_custom=False: an extension-definition entry that is not a
   property extension lets the dictionary through *)
Fixpoint d2s_ext_scan (guard : bool) (d : list (ustring * jvalue)) (l : list (ustring * jvalue)) : result pval :=
  match l with
  | [] => Err EParse
  | (k, JObj e) :: rest =>
    if ustr_prefix (u "extension-definition--") k then
      match alookup (u "extension_type") e with
      | None => Ok (PJ (JObj d))
      | Some (JStr et) =>
        match ufind (u "property-extension") et O with
        | Some _ => d2s_ext_scan guard d rest
        | None => Ok (PJ (JObj d))
        end
      | Some _ => Err ETypeError
      end
    else d2s_ext_scan guard d rest
  | (k, _) :: rest =>
    if ustr_prefix (u "extension-definition--") k && negb guard then Err EAttributeError
    else d2s_ext_scan guard d rest
  end.

(* ------------------------------------------------------------- the knot *)
Inductive request :=
| RConstruct (cid : ustring) (allow interop : bool) (kwargs : list (ustring * jvalue))
             (valid_refs : option (list (ustring * ustring)))
| RParse (allow interop : bool) (version : option ver) (d : list (ustring * jvalue))
| RParseObs (vv : option ver) (refs : list (ustring * ustring)) (allow interop : bool) (d : list (ustring * jvalue)).

Section Knot.
  Variable vr : variant.
  Variable ev : env.
  Variable w : world.
  Variable pattern_ok : ver -> ustring -> bool.
  Variable selectors_ok : list (ustring * pval) -> pval -> result bool.

  Definition refs_json (refs : list (ustring * ustring)) : jvalue :=
    match refs with
    | [] => JArr []
    | _ => JObj (map (fun kv => (fst kv, JStr (snd kv))) refs)
    end.

  Fixpoint run (fuel : nat) (r : request) {struct fuel} : result pval :=
    match fuel with
    | O => Err EOutOfFuel
    | S f =>
      let recc := fun k a i kw => run f (RConstruct k a i kw None) in
      let recp := fun a i d => run f (RParse a i None d) in
      let reco := fun vv refs a d => run f (RParseObs (Some vv) refs a false d) in
      match r with
      | RConstruct kid allow interop kwargs0 valid_refs0 =>
        match find_class (wclasses w) kid with
        | None => Err EOutOfFuel
        | Some c =>
          (* _Observable.__init__ pops _valid_refs from the keyword arguments *)
          if amem (u "_valid_refs") kwargs0 || amem (u "allow_custom") kwargs0 || amem (u "interoperability") kwargs0
             || amem (u "self") kwargs0 then Unmodelled else
          let valid_refs := match cfamily c with
                            | FSco => Some (match valid_refs0 with Some r => r | None => [] end)
                            | _ => None
                            end in
          let generic := construct_generic vr ev w pattern_ok selectors_ok recc recp reco fuel in
          do obj <-
            match cinit c with
            | INone | IObservedDataWarn | IBundleObjects => generic c allow interop kwargs0 [] valid_refs
            | IPositional names =>
              (* named parameters swallow these keys; falsy values are then dropped *)
              let kw := filter (fun kv => negb (mem_ustr (fst kv) names) ||
                                          (if vr_positional_none vr then negb (jvalue_eqb (snd kv) JNull) else truthy (snd kv)))
                               kwargs0 in
              generic c allow interop kw [] valid_refs
            | IIndicatorPatternVersion =>
              let g (k : string) := alookup (u k) kwargs0 in
              let kw :=
                  if (match g "pattern"%string with Some v => truthy v | None => false end)
                     && jvalue_eqb (match g "pattern_type"%string with Some v => v | None => JNull end) (JStr (u "stix"))
                     && negb (match g "pattern_version"%string with Some v => truthy v | None => false end)
                  then aset (u "pattern_version") (JStr (u "2.1")) kwargs0 else kwargs0 in
              generic c allow interop kw [] valid_refs
            | IMarkingDefinition vv =>
              match alookup (u "definition_type") kwargs0, alookup (u "definition") kwargs0 with
              | Some dt, Some dv =>
                match dt with
                | JStr t =>
                  match class_for w t vv 3%N with
                  | None => Err EValueError
                  | Some mcid =>
                    (* v20: the precision of `created` is switched per instance *)
                    let c_ms :=
                        {| cid := cid c; cver := cver c; ctype := ctype c; cfamily := cfamily c;
                           cslots := map (fun s => if ustr_eqb (sname s) (u "created")
                                                   then {| sname := sname s; skind := KTime PMilli CExact; sreq := sreq s; sdef := sdef s |}
                                                   else s) (cslots c);
                           ccons := ccons c; cinit := cinit c; cidcontrib := cidcontrib c;
                           cserialize_tlp := cserialize_tlp c |} in
                    let c' :=
                        match vv, alookup (u "created") kwargs0 with
                        | V20, Some cr =>
                          let ms := ustr_eqb t (u "tlp") ||
                                    match cr with JStr s => existsb (N.eqb 46) s | _ => false end in
                          if ms then c_ms else c
                        | V20, None => if vr_md20_default_ms vr then c_ms else c
                        | _, _ => c
                        end in
                    let unmodelled_created :=
                        match vv, alookup (u "created") kwargs0 with
                        | V20, Some (JStr _) => false
                        | V20, Some _ => negb (ustr_eqb t (u "tlp"))    (* cr.precision on a non-datetime *)
                        | _, _ => false
                        end in
                    if unmodelled_created then Err EAttributeError else
                    do dd <- get_dict dv;
                    if amem (u "allow_custom") dd || amem (u "interoperability") dd || amem (u "self") dd then Unmodelled else
                    do m <- run f (RConstruct mcid false false dd None);
                    generic c' allow interop (aremove (u "definition") kwargs0) [(u "definition", m)] valid_refs
                  end
                | JArr _ | JObj _ => Err ETypeError        (* unhashable dictionary key *)
                | _ => Err EValueError                      (* KeyError -> ValueError *)
                end
              | _, _ => generic c allow interop kwargs0 [] valid_refs
              end
            | IOpaque _ => Unmodelled
            end;
          (* v21 _Observable.__init__: deterministic id when none was given *)
          match obj, cfamily c, cver c with
          | PObject ocid inner dfl hc, FSco, V21 =>
            if amem (u "id") kwargs0 then Ok obj
            else if existsb (fun p => amem p inner) (cidcontrib c) then
              match ctype c with
              | Some t => Ok (PObject ocid (aset (u "id") (PJ (JStr (t ++ u "--" ++ e_uuid5 ev))) inner) dfl hc)
              | None => Unmodelled
              end
            else Ok obj
          | _, _, _ => Ok obj
          end
        end
      | RParse allow interop version d =>
        match alookup (u "type") d with
        | None => Err EParse
        | Some ty =>
          do ovv <- match version with Some v => Ok (Some v) | None => detect_version vr w (S f) d end;
          match ty with
          | JArr _ | JObj _ => Err ETypeError       (* unhashable registry key *)
          | _ =>
            let found := match ty, ovv with
                         | JStr t, Some vv => match class_for w t vv 0%N with Some c => Some c | None => class_for w t vv 1%N end
                         | _, _ => None              (* a non-string type / an unknown version finds no class *)
                         end in
            match found with
            | Some k =>
              do o <- run f (RConstruct k allow interop d None);
              if vr_parse_guard_custom vr && negb allow && pval_has_custom o then Err ECustomContent else Ok o
            | None =>
              if allow then Ok (PJ (JObj d)) else
              match alookup (u "extensions") d with
              | None => Err EParse
              | Some (JObj exts) => d2s_ext_scan (vr_d2s_ext_guard vr) d exts
              | Some _ => if vr_d2s_ext_guard vr then Err EParse else Err EAttributeError
              end
            end
          end
        end
      | RParseObs version refs allow interop d =>
        match alookup (u "type") d with
        | None => Err EParse
        | Some ty =>
          do ovv <- match version with Some v => Ok (Some v) | None => detect_version vr w (S f) d end;
          match ty with
          | JArr _ | JObj _ => Err ETypeError
          | _ =>
            match (match ty, ovv with JStr t, Some vv => class_for w t vv 1%N | _, _ => None end) with
            | Some k =>
              if amem (u "_valid_refs") d then Unmodelled else
              do o <- run f (RConstruct k allow interop d (Some refs));
              if vr_parse_guard_custom vr && negb allow && pval_has_custom o then Err ECustomContent else Ok o
            | None =>
              if allow then Ok (PJ (JObj (aset (u "_valid_refs") (refs_json refs) d))) else Err EParse
            end
          end
        end
      end
    end.
End Knot.

(* ---------------------------------------------------------- rendering *)
Definition show_err (e : errclass) : string :=
  match e with
  | EValueError => "ValueError" | EDependentProperties => "DependentPropertiesError"
  | EPropertyPresence => "PropertyPresenceError" | EInvalidValue => "InvalidValueError"
  | EAtLeastOne => "AtLeastOnePropertyError" | EMutuallyExclusive => "MutuallyExclusivePropertiesError"
  | EMissing => "MissingPropertiesError" | EExtra => "ExtraPropertiesError"
  | ECustomContent => "CustomContentError" | EInvalidSelector => "InvalidSelectorError"
  | ETLPMarkingDefinition => "TLPMarkingDefinitionError" | EOther n => show_ustr n
  end.

Definition show_result_obj (r : result pval) : string :=
  match r with
  | Ok v => append "OK " (append (show_jvalue (encode false v))
              (append " | " (append (show_jvalue (encode true v))
              (append " | hc=" (show_bool (pval_has_custom v))))))
  | Err e => append "ERR " (show_err e)
  | Unmodelled => "UNMODELLED"
  end.

Definition show_result_clean (r : result (pval * bool)) : string :=
  match r with
  | Ok (v, hc) => append "OK " (append (show_jvalue (encode true v)) (append " | hc=" (show_bool hc)))
  | Err e => "ERR"
  | Unmodelled => "UNMODELLED"
  end.

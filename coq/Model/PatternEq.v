(* Model/PatternEq.v -- executable model of stix2/equivalence/pattern (C09).

   No proofs in this file.  Every definition says which Python function it
   mirrors.  Sources (all under stix2/equivalence/pattern/ unless said):
     compare/__init__.py      generic_cmp, iter_lex_cmp, iter_in
     compare/comparison.py    constant / path / operator / expression comparators
     compare/observation.py   qualifier and observation-expression comparators
     transform/__init__.py    ChainTransformer, SettleTransformer
     transform/comparison.py  Flatten, OrderDedupe, Absorption, DNF, SpecialValueCanonicalization
     transform/observation.py Flatten, OrderDedupe, Absorption, DNF, NormalizeComparisonExpressions
     transform/specials.py    ipv4_addr, ipv6_addr, windows_reg_key, _path_is, _mask_bytes
     __init__.py              _get_pattern_normalizer, equivalent_patterns, find_equivalent_patterns
     stix2/patterns.py        _BooleanExpression.__init__ (the root_types rule used by DNF)

   Two AST layers.  `cexpr0`/`oexpr0` are what pattern_visitor builds (with
   ParentheticalExpression nodes).  The first transformer applied at each
   level (SpecialValueCanonicalization resp. NormalizeComparisonExpressions)
   drops every parenthetical node, so all later passes and the comparators
   work on `cexpr`/`oexpr`, which have no such constructor (the Paren branch
   of the later transformers' generic `transform` is dead code there).

   The Python code mutates the AST in place.  The model is functional; that
   is faithful because no node is shared between two parents where a later
   pass looks (comparison-level DNF duplicates with _dupe_ast; observation-
   level DNF shares only leaf ObservationExpressions, which no later pass
   enters), and because every callback that returns a different object also
   reports changed=True (so `if this_changed: ast.operands[i] = result`
   never loses a result).

   Set literals hold primitive constants only (grammar: setLiteral contains
   primitiveLiterals), so `const` is two-level instead of recursive.
   Numbers: an IntegerConstant is KInt z; a FloatConstant is the decimal
   m * 10^-e of its literal (exact rational comparison; the harness restricts
   float literals to <= 15 significant digits, where this coincides with the
   comparison of the doubles).                                              *)
From Coq Require Import NArith ZArith List String Ascii Bool.
From V Require Import Base.UString.
Import ListNotations.
Open Scope Z_scope.

(* ------------------------------------------------------------------ *)
(* outcomes                                                            *)

Inductive perr := EAttribute | EValue | EType | EFuel | EUnmodelled.
Inductive res (A : Type) : Type := Ok (a : A) | Err (e : perr).
Arguments Ok {A} a.
Arguments Err {A} e.

Definition bind {A B} (r : res A) (f : A -> res B) : res B :=
  match r with Ok a => f a | Err e => Err e end.
Notation "x <- r ;; k" := (bind r (fun x => k)) (at level 61, r at next level, right associativity).
Notation "' p <- r ;; k" := (bind r (fun p => k)) (at level 61, p pattern, r at next level, right associativity).

(* left-to-right, first exception wins *)
Definition mapM {A B} (f : A -> res B) : list A -> res (list B) :=
  fix go l := match l with
              | [] => Ok []
              | x :: r => match f x with
                          | Err e => Err e
                          | Ok y => match go r with Err e => Err e | Ok ys => Ok (y :: ys) end
                          end
              end.

Definition is_eq (c : comparison) : bool := match c with Eq => true | _ => false end.

(* ------------------------------------------------------------------ *)
(* constants                                                           *)

Inductive prim :=
| PInt (z : Z)                 (* IntegerConstant *)
| PFloat (m : Z) (e : N)       (* FloatConstant: the decimal m * 10^-e *)
| PStr (s : ustring)           (* StringConstant: raw text between the quotes (never unescaped by the visitor) *)
| PBool (b : bool)             (* BooleanConstant *)
| PTime (us : Z)               (* TimestampConstant: microseconds since 1970-01-01T00:00:00Z *)
| PHex (s : ustring)           (* HexConstant: the hex text *)
| PBin (s : ustring).          (* BinaryConstant: the base64 text *)

Inductive const :=
| KP (p : prim)
| KList (l : list prim).       (* ListConstant *)

(* bytes.fromhex on text the HexConstant constructor accepted ([0-9a-fA-F]{2})+ ;
   outside that domain (unreachable) a bad digit counts 0 and an odd tail is dropped *)
Definition nibble (c : N) : N :=
  (if (48 <=? c) && (c <=? 57) then c - 48
   else if (65 <=? c) && (c <=? 70) then c - 55
   else if (97 <=? c) && (c <=? 102) then c - 87 else 0)%N.

Fixpoint hex_decode (s : ustring) : list N :=
  match s with
  | a :: b :: r => (nibble a * 16 + nibble b)%N :: hex_decode r
  | _ => []
  end.

(* base64.standard_b64decode on grammar-valid base64 text: characters outside
   the alphabet are discarded (binascii non-strict mode), decoding stops at '=' *)
Definition b64val (c : N) : option N :=
  (if (65 <=? c) && (c <=? 90) then Some (c - 65)
   else if (97 <=? c) && (c <=? 122) then Some (c - 71)
   else if (48 <=? c) && (c <=? 57) then Some (c + 4)
   else if c =? 43 then Some 62 else if c =? 47 then Some 63 else None)%N.

(* acc = pending bits value, nb = number of pending bits (0,2,4,6) *)
Fixpoint b64_go (s : ustring) (acc nb : N) : list N :=
  match s with
  | [] => []
  | c :: r =>
    if (c =? 61)%N then []
    else match b64val c with
         | None => b64_go r acc nb
         | Some v =>
           let acc' := (acc * 64 + v)%N in
           let nb' := (nb + 6)%N in
           if (8 <=? nb')%N then
             let sh := (nb' - 8)%N in
             (acc' / 2 ^ sh)%N :: b64_go r (acc' mod 2 ^ sh)%N sh
           else b64_go r acc' nb'
         end
  end.
Definition b64_decode (s : ustring) : list N := b64_go s 0%N 0%N.

(* generic_cmp on two numbers: exact comparison of m1*10^-e1 and m2*10^-e2 *)
Definition num_cmp (m1 : Z) (e1 : N) (m2 : Z) (e2 : N) : comparison :=
  Z.compare (m1 * 10 ^ Z.of_N e2) (m2 * 10 ^ Z.of_N e1).

(* bool_cmp: equal if same truth value, True < False *)
Definition bool_cmp (a b : bool) : comparison :=
  match a, b with
  | true, true | false, false => Eq
  | true, false => Lt
  | false, true => Gt
  end.

(* index in _CONSTANT_TYPE_ORDER, with numbers (special-cased first in constant_cmp) at 0 *)
Definition prim_rank (p : prim) : N :=
  match p with
  | PInt _ | PFloat _ _ => 0 | PStr _ => 1 | PBool _ => 2 | PTime _ => 3 | PHex _ => 4 | PBin _ => 5
  end%N.

(* constant_cmp restricted to non-list constants *)
Definition prim_cmp (a b : prim) : comparison :=
  match a, b with
  | PInt x, PInt y => num_cmp x 0 y 0
  | PInt x, PFloat m e => num_cmp x 0 m e
  | PFloat m e, PInt y => num_cmp m e y 0
  | PFloat m1 e1, PFloat m2 e2 => num_cmp m1 e1 m2 e2
  | PStr x, PStr y => ustr_compare x y                             (* generic_constant_cmp *)
  | PBool x, PBool y => bool_cmp x y                               (* bool_cmp *)
  | PTime x, PTime y => Z.compare x y                              (* generic_constant_cmp on datetimes *)
  | PHex x, PHex y => ustr_compare (hex_decode x) (hex_decode y)   (* hex_cmp *)
  | PBin x, PBin y => ustr_compare (b64_decode x) (b64_decode y)   (* bin_cmp *)
  | _, _ => N.compare (prim_rank a) (prim_rank b)
  end.

(* iter_lex_cmp *)
Definition cmp_lex {A} (cmp : A -> A -> comparison) : list A -> list A -> comparison :=
  fix go l1 l2 :=
    match l1, l2 with
    | [], [] => Eq
    | [], _ :: _ => Lt
    | _ :: _, [] => Gt
    | x :: r1, y :: r2 => match cmp x y with Eq => go r1 r2 | c => c end
    end.

(* sorted(.., key=cmp_to_key(cmp)): the stable sort (insertion from the right,
   an element goes before the first element it is not greater than) *)
Fixpoint insert {A} (cmp : A -> A -> comparison) (x : A) (l : list A) : list A :=
  match l with
  | [] => [x]
  | y :: r => match cmp x y with Gt => y :: insert cmp x r | _ => x :: l end
  end.
Definition isort {A} (cmp : A -> A -> comparison) (l : list A) : list A := fold_right (insert cmp) [] l.

(* [k.obj for k, _ in itertools.groupby(sorted, key=cmp_to_key(cmp))]:
   keep the first element of every run of elements equal to the run's first *)
Fixpoint dedupe_from {A} (cmp : A -> A -> comparison) (first : A) (l : list A) : list A :=
  match l with
  | [] => []
  | y :: r => if is_eq (cmp first y) then dedupe_from cmp first r else y :: dedupe_from cmp y r
  end.
Definition dedupe {A} (cmp : A -> A -> comparison) (l : list A) : list A :=
  match l with [] => [] | x :: r => x :: dedupe_from cmp x r end.

(* iter_in(value, seq, cmp) *)
Definition in_cmp {A} (cmp : A -> A -> comparison) (x : A) (l : list A) : bool :=
  existsb (fun y => is_eq (cmp x y)) l.

(* list_cmp *)
Definition list_cmp (l1 l2 : list prim) : comparison :=
  cmp_lex prim_cmp (isort prim_cmp l1) (isort prim_cmp l2).

(* constant_cmp *)
Definition const_cmp (a b : const) : comparison :=
  match a, b with
  | KP x, KP y => prim_cmp x y
  | KP _, KList _ => Lt          (* numbers first; otherwise ListConstant is last in _CONSTANT_TYPE_ORDER *)
  | KList _, KP _ => Gt
  | KList x, KList y => list_cmp x y
  end.

(* ------------------------------------------------------------------ *)
(* comparison expressions                                              *)

(* the values object_path_to_raw_values yields: str (also "*") or int *)
Inductive step := SKey (s : ustring) | SIdx (z : Z).

(* _COMPARISON_OP_ORDER *)
Inductive cop := OpEq | OpNeq | OpNeq2 | OpLt | OpLe | OpGt | OpGe | OpIn | OpLike | OpMatches | OpSubset | OpSuperset.
Definition cop_index (o : cop) : N :=
  match o with
  | OpEq => 0 | OpNeq => 1 | OpNeq2 => 2 | OpLt => 3 | OpLe => 4 | OpGt => 5 | OpGe => 6
  | OpIn => 7 | OpLike => 8 | OpMatches => 9 | OpSubset => 10 | OpSuperset => 11
  end%N.

(* _ComparisonExpression *)
Record atom := mkAtom { a_type : ustring; a_path : list step; a_op : cop; a_neg : bool; a_rhs : const }.

(* as built by the visitor *)
Inductive cexpr0 :=
| Atom0 (a : atom)
| And0 (l : list cexpr0)      (* AndBooleanExpression *)
| Or0 (l : list cexpr0)       (* OrBooleanExpression *)
| Paren0 (e : cexpr0).        (* ParentheticalExpression *)

(* after the first pass *)
Inductive cexpr :=
| Atom (a : atom)
| CAnd (l : list cexpr)
| COr (l : list cexpr).

(* object_path_component_cmp *)
Definition step_cmp (a b : step) : comparison :=
  match a, b with
  | SIdx x, SIdx y => Z.compare x y
  | SKey x, SKey y => ustr_compare x y
  | SIdx _, SKey _ => Lt
  | SKey _, SIdx _ => Gt
  end.

(* object_path_cmp *)
Definition path_cmp (t1 : ustring) (p1 : list step) (t2 : ustring) (p2 : list step) : comparison :=
  match ustr_compare t1 t2 with
  | Eq => cmp_lex step_cmp p1 p2
  | c => c
  end.

(* comparison_operator_cmp *)
Definition cop_cmp (a b : cop) : comparison := N.compare (cop_index a) (cop_index b).

(* the "negated" step of simple_comparison_expression_cmp: non-negated < negated *)
Definition neg_cmp (a b : bool) : comparison :=
  match a, b with
  | false, true => Lt
  | true, false => Gt
  | _, _ => Eq
  end.

(* simple_comparison_expression_cmp *)
Definition atom_cmp (x y : atom) : comparison :=
  match path_cmp (a_type x) (a_path x) (a_type y) (a_path y) with
  | Eq => match cop_cmp (a_op x) (a_op y) with
          | Eq => match neg_cmp (a_neg x) (a_neg y) with
                  | Eq => const_cmp (a_rhs x) (a_rhs y)
                  | c => c
                  end
          | c => c
          end
  | c => c
  end.

(* comparison_expression_cmp *)
Fixpoint ccmp (a b : cexpr) : comparison :=
  match a, b with
  | Atom x, Atom y => atom_cmp x y
  | Atom _, _ => Lt
  | _, Atom _ => Gt
  | CAnd _, COr _ => Lt
  | COr _, CAnd _ => Gt
  | CAnd l1, CAnd l2 => cmp_lex ccmp l1 l2
  | COr l1, COr l2 => cmp_lex ccmp l1 l2
  end.

Inductive bop := BAnd | BOr.
Definition mkb (o : bop) (l : list cexpr) : cexpr := match o with BAnd => CAnd l | BOr => COr l end.
(* operands of e if e is a _BooleanExpression with operator o *)
Definition ops_of (o : bop) (e : cexpr) : option (list cexpr) :=
  match o, e with
  | BAnd, CAnd l => Some l
  | BOr, COr l => Some l
  | _, _ => None
  end.

(* ---- transform/comparison.py: FlattenTransformer ---- *)
Fixpoint cflatten_ops (o : bop) (l : list cexpr) : list cexpr * bool :=
  match l with
  | [] => ([], false)
  | x :: r =>
    let (r', ch) := cflatten_ops o r in
    match ops_of o x with
    | Some xs => (xs ++ r', true)
    | None => (x :: r', ch)
    end
  end.

(* FlattenTransformer.__transform on a node whose operands are already transformed *)
Definition cflatten_node (o : bop) (l : list cexpr) : cexpr * bool :=
  match l with
  | [x] => (x, true)
  | _ => let (l', ch) := cflatten_ops o l in (mkb o l', ch)
  end.

(* ComparisonExpressionTransformer.transform specialised to FlattenTransformer *)
Fixpoint cflatten (e : cexpr) : cexpr * bool :=
  match e with
  | Atom _ => (e, false)
  | CAnd l => let rs := map cflatten l in
              let (e', ch) := cflatten_node BAnd (map fst rs) in (e', existsb snd rs || ch)
  | COr l => let rs := map cflatten l in
             let (e', ch) := cflatten_node BOr (map fst rs) in (e', existsb snd rs || ch)
  end.

(* ---- OrderDedupeTransformer ---- *)
Definition corder_node (o : bop) (l : list cexpr) : cexpr * bool :=
  let d := dedupe ccmp (isort ccmp l) in
  (mkb o d, negb (is_eq (cmp_lex ccmp l d))).

Fixpoint corder (e : cexpr) : cexpr * bool :=
  match e with
  | Atom _ => (e, false)
  | CAnd l => let rs := map corder l in
              let (e', ch) := corder_node BAnd (map fst rs) in (e', existsb snd rs || ch)
  | COr l => let rs := map corder l in
             let (e', ch) := corder_node BOr (map fst rs) in (e', existsb snd rs || ch)
  end.

(* ---- AbsorptionTransformer (the deletion loop is shared with the observation level) ---- *)

(* inner loop for a fixed i: mark every j <> i, not yet marked, that child i absorbs *)
Fixpoint mark_from {A} (absorbs : A -> A -> bool) (ci : A) (i j : nat) (ops : list A) (del : list bool) : list bool :=
  match ops, del with
  | cj :: ops', d :: del' =>
    (if d then true else if Nat.eqb i j then false else absorbs ci cj)
      :: mark_from absorbs ci i (S j) ops' del'
  | _, _ => []
  end.

(* outer loop over i = 0, 1, ...; `rest` is the suffix of `all` starting at i *)
Fixpoint absorb_loop {A} (absorbs : A -> A -> bool) (all : list A) (i : nat) (rest : list A) (del : list bool) : list bool :=
  match rest with
  | [] => del
  | ci :: rest' =>
    let del' := if nth i del false then del else mark_from absorbs ci i 0 all del in
    absorb_loop absorbs all (S i) rest' del'
  end.

Definition absorb_marks {A} (absorbs : A -> A -> bool) (ops : list A) : list bool :=
  absorb_loop absorbs ops 0 ops (map (fun _ => false) ops).

Fixpoint remove_marked {A} (ops : list A) (del : list bool) : list A :=
  match ops, del with
  | x :: ops', d :: del' => if d then remove_marked ops' del' else x :: remove_marked ops' del'
  | _, _ => []
  end.

(* may child2 be deleted because of child1?  sec = the secondary operator *)
Definition cabsorbs (sec : bop) (c1 c2 : cexpr) : bool :=
  match ops_of sec c2 with
  | None => false
  | Some ops2 =>
    if in_cmp ccmp c1 ops2 then true
    else match ops_of sec c1 with
         | Some ops1 => forallb (fun x => in_cmp ccmp x ops2) ops1
         | None => false
         end
  end.

Definition other_op (o : bop) : bop := match o with BAnd => BOr | BOr => BAnd end.

Definition cabsorb_node (o : bop) (l : list cexpr) : cexpr * bool :=
  let del := absorb_marks (cabsorbs (other_op o)) l in
  (mkb o (remove_marked l del), existsb (fun d => d) del).

Fixpoint cabsorb (e : cexpr) : cexpr * bool :=
  match e with
  | Atom _ => (e, false)
  | CAnd l => let rs := map cabsorb l in
              let (e', ch) := cabsorb_node BAnd (map fst rs) in (e', existsb snd rs || ch)
  | COr l => let rs := map cabsorb l in
             let (e', ch) := cabsorb_node BOr (map fst rs) in (e', existsb snd rs || ch)
  end.

(* ---- ChainTransformer(flatten, order, absorb) ---- *)
Definition csimplify (e : cexpr) : cexpr * bool :=
  let (e1, c1) := cflatten e in
  let (e2, c2) := corder e1 in
  let (e3, c3) := cabsorb e2 in
  (e3, c1 || c2 || c3).

(* ---- SettleTransformer: repeat until a pass reports no change ---- *)
Fixpoint settle_loop {A} (fuel : nat) (f : A -> res (A * bool)) (a : A) (changed : bool) : res (A * bool) :=
  match fuel with
  | O => Err EFuel
  | S n => match f a with
           | Err e => Err e
           | Ok (a', ch) => if ch then settle_loop n f a' true else Ok (a', changed)
           end
  end.
Definition settle {A} (fuel : nat) (f : A -> res (A * bool)) (a : A) : res (A * bool) :=
  settle_loop fuel f a false.

(* ---- the root_types rule of patterns._BooleanExpression.__init__, as it
        applies to the duplicates DNF constructs.  A set of type names is a
        list; None = the object has no root_types attribute (an
        OrBooleanExpression/AndBooleanExpression constructed from an empty
        operand list) ---- *)
Definition rtset := option (list ustring).

Definition mem_ustr (x : ustring) (l : list ustring) : bool := existsb (ustr_eqb x) l.
Definition inter_ustr (a b : list ustring) : list ustring := filter (fun x => mem_ustr x b) a.
Definition union_ustr (a b : list ustring) : list ustring := a ++ filter (fun x => negb (mem_ustr x a)) b.

(* one iteration of `for arg in self.operands` *)
Definition rt_step (o : bop) (cur : rtset) (arg : rtset) : res rtset :=
  match arg with
  | None => Err EAttribute                      (* arg.root_types *)
  | Some s =>
    let nw := match cur with
              | None => s                       (* not hasattr(self, "root_types") *)
              | Some c => match o with BAnd => inter_ustr c s | BOr => union_ustr c s end
              end in
    match nw with
    | [] => Err EValue                          (* if not self.root_types: raise ValueError *)
    | _ => Ok (Some nw)
    end
  end.

Fixpoint rt_fold (o : bop) (cur : rtset) (args : list rtset) : res rtset :=
  match args with
  | [] => Ok cur
  | a :: r => match rt_step o cur a with Err e => Err e | Ok cur' => rt_fold o cur' r end
  end.

(* root_types of _dupe_ast(e): all operands are duplicated first (left to
   right, first exception wins), then the constructor loop runs *)
Fixpoint rt_dupe (e : cexpr) : res rtset :=
  match e with
  | Atom a => Ok (Some [a_type a])
  | CAnd l => match mapM rt_dupe l with Err e => Err e | Ok rs => rt_fold BAnd None rs end
  | COr l => match mapM rt_dupe l with Err e => Err e | Ok rs => rt_fold BOr None rs end
  end.

(* ---- DNFTransformer ---- *)

(* itertools.product over the lists ls *)
Fixpoint product {A} (ls : list (list A)) : list (list A) :=
  match ls with
  | [] => [[]]
  | l :: r => flat_map (fun x => map (cons x) (product r)) l
  end.

(* the two piles of transform_and *)
Fixpoint split_or (l : list cexpr) : list (list cexpr) * list cexpr :=
  match l with
  | [] => ([], [])
  | x :: r => let (ors, others) := split_or r in
              match x with
              | COr ops => (ops :: ors, others)
              | _ => (ors, x :: others)
              end
  end.

(* try: AndBooleanExpression(_dupe_ast(arg) for arg in set) except ValueError: pass *)
Fixpoint dnf_prune (sets : list (list cexpr)) : res (list cexpr) :=
  match sets with
  | [] => Ok []
  | s :: r =>
    match rt_dupe (CAnd s) with
    | Err EValue => dnf_prune r
    | Err e => Err e
    | Ok _ => match dnf_prune r with Err e => Err e | Ok k => Ok (CAnd s :: k) end
    end
  end.

Definition is_empty_or (e : cexpr) : bool := match e with COr [] => true | _ => false end.

(* ComparisonExpressionTransformer.transform specialised to DNFTransformer.
   transform_and calls self.transform on the nodes it has just built, so the
   recursion is not structural: fuel bounds the nesting of calls. *)
Fixpoint cdnf (fuel : nat) (e : cexpr) : res (cexpr * bool) :=
  match fuel with
  | O => Err EFuel
  | S f =>
    match e with
    | Atom _ => Ok (e, false)
    | COr l => rs <- mapM (cdnf f) l ;; Ok (COr (map fst rs), existsb snd rs)
    | CAnd l =>
      rs <- mapM (cdnf f) l ;;
      let l' := map fst rs in
      let (ors, others) := split_or l' in
      match ors with
      | [] => Ok (CAnd l', existsb snd rs)
      | _ =>
        kept <- dnf_prune (map (fun p => others ++ p) (product ors)) ;;
        kids <- mapM (fun c => r <- cdnf f c ;; Ok (fst r)) kept ;;
        (* OrBooleanExpression(distributed_children): a child that is an Or
           constructed from no operands has no root_types attribute *)
        if existsb is_empty_or kids then Err EAttribute else Ok (COr kids, true)
      end
    end
  end.

(* ------------------------------------------------------------------ *)
(* transform/specials.py                                               *)

Definition cp (a : ascii) : N := N_of_ascii a.

Fixpoint find_cp (c : N) (s : ustring) : option (ustring * ustring) :=   (* split at the first c *)
  match s with
  | [] => None
  | x :: r => if (x =? c)%N then Some ([], r)
              else match find_cp c r with Some (a, b) => Some (x :: a, b) | None => None end
  end.

Definition is_digit (c : N) : bool := ((48 <=? c) && (c <=? 57))%N.
Definition is_xdigit (c : N) : bool := (is_digit c || ((65 <=? c) && (c <=? 70)) || ((97 <=? c) && (c <=? 102)))%N.
Definition is_odigit (c : N) : bool := ((48 <=? c) && (c <=? 55))%N.
Definition c_isspace (c : N) : bool := (((9 <=? c) && (c <=? 13)) || (c =? 32))%N.

(* consume the longest prefix of digits satisfying ok, in the given base *)
Fixpoint take_num (ok : N -> bool) (base : Z) (acc : Z) (s : ustring) : Z * ustring :=
  match s with
  | c :: r => if ok c then take_num ok base (acc * base + Z.of_N (nibble c)) r else (acc, s)
  | [] => (acc, s)
  end.

(* strtoul(cp, &endp, 0) at a position whose first character is a digit *)
Definition strtoul0 (s : ustring) : Z * ustring :=
  match s with
  | 48%N :: x :: h :: r =>
    if ((x =? 120) || (x =? 88))%N && is_xdigit h then take_num is_xdigit 16 0 (h :: r)
    else take_num is_odigit 8 0 s
  | 48%N :: _ => take_num is_odigit 8 0 s
  | _ => take_num is_digit 10 0 s
  end.

Inductive aton := AtonNul | AtonFail | AtonOk (bytes : list N).

Definition be_bytes (n : nat) (v : Z) : list N :=     (* v as n big-endian bytes *)
  map (fun k => Z.to_N ((v / 256 ^ Z.of_nat k) mod 256)) (rev (seq 0 n)).

(* glibc inet_aton (resolv/inet_addr.c, inet_aton_end), `parts` = bytes stored so far *)
Fixpoint aton_go (fuel : nat) (s : ustring) (parts : list N) : aton :=
  match fuel with
  | O => AtonFail
  | S f =>
    match s with
    | [] => AtonFail
    | c :: _ =>
      if negb (is_digit c) then AtonFail
      else
        let (val, rest) := strtoul0 s in
        if 4294967295 <? val then AtonFail
        else match rest with
             | 46%N :: rest' =>                       (* '.' *)
               if (2 <? List.length parts)%nat || (255 <? val) then AtonFail
               else aton_go f rest' (parts ++ [Z.to_N val])
             | _ =>
               let trailing_ok := match rest with [] => true | d :: _ => (d <? 128)%N && c_isspace d end in
               if negb trailing_ok then AtonFail
               else
                 let n := List.length parts in
                 let mx := match n with O => 4294967295 | 1%nat => 16777215 | 2%nat => 65535 | _ => 255 end in
                 if mx <? val then AtonFail
                 else AtonOk (parts ++ be_bytes (4 - n) val)
             end
    end
  end.

(* socket.inet_aton: an embedded NUL makes the argument conversion raise ValueError *)
Definition inet_aton (s : ustring) : aton :=
  if existsb (fun c => (c =? 0)%N) s then AtonNul else aton_go 5 s [].

Definition dot : ustring := [46%N].
Fixpoint join_dots (l : list ustring) : ustring :=
  match l with [] => [] | [x] => x | x :: r => x ++ dot ++ join_dots r end.
(* socket.inet_ntoa *)
Definition inet_ntoa (bs : list N) : ustring := join_dots (map (fun b => ustr_of_Z (Z.of_N b)) bs).

(* glibc inet_pton4: strict dotted decimal, no leading zeros; returns 4 bytes *)
Fixpoint pton4_go (s : ustring) (cur : option N) (done : list N) : option (list N) :=
  match s with
  | [] => match cur with
          | Some v => if (List.length done =? 3)%nat then Some (done ++ [v]) else None
          | None => None
          end
  | c :: r =>
    if is_digit c then
      match cur with
      | None => if (3 <? List.length done)%nat then None else pton4_go r (Some (c - 48)%N) done
      | Some v => if (v =? 0)%N then None
                  else let nv := (v * 10 + (c - 48))%N in
                       if (255 <? nv)%N then None else pton4_go r (Some nv) done
      end
    else if (c =? 46)%N then
      match cur with
      | Some v => if (List.length done =? 3)%nat then None else pton4_go r None (done ++ [v])
      | None => None
      end
    else None
  end.
Definition inet_pton4 (s : ustring) : option (list N) := pton4_go s None [].

(* glibc inet_pton6.  State: tp = bytes written so far, colonp = position of
   "::" in tp if seen, curtok = text of the current token, val/seen = hex
   digits of the current group *)
Fixpoint pton6_go (s : ustring) (curtok : ustring) (tp : list N) (colonp : option nat)
         (val : N) (seen : nat) : option (list N * option nat * N * nat) :=
  match s with
  | [] => Some (tp, colonp, val, seen)
  | ch :: r =>
    if is_xdigit ch then
      if (seen =? 4)%nat then None
      else pton6_go r curtok tp colonp (val * 16 + nibble ch)%N (S seen)
    else if (ch =? 58)%N then                                   (* ':' *)
      match seen with
      | O => match colonp with
             | Some _ => None
             | None => pton6_go r r tp (Some (List.length tp)) val seen
             end
      | _ => match r with
             | [] => None
             | _ => if (16 <? List.length tp + 2)%nat then None
                    else pton6_go r r (tp ++ [(val / 256)%N; (val mod 256)%N]) colonp 0%N O
             end
      end
    else if (ch =? 46)%N && (List.length tp + 4 <=? 16)%nat then     (* '.': the rest of curtok must be an IPv4 address *)
      match inet_pton4 curtok with
      | Some b4 => Some (tp ++ b4, colonp, 0%N, O)
      | None => None
      end
    else None
  end.

Definition inet_pton6_raw (s : ustring) : option (list N) :=
  let start := match s with
               | [] => None
               | 58%N :: r => match r with 58%N :: _ => Some r | _ => None end
               | _ => Some s
               end in
  match start with
  | None => None
  | Some s1 =>
    match pton6_go s1 s1 [] None 0%N O with
    | None => None
    | Some (tp, colonp, val, seen) =>
      let tp1 := match seen with
                 | O => Some tp
                 | _ => if (16 <? List.length tp + 2)%nat then None else Some (tp ++ [(val / 256)%N; (val mod 256)%N])
                 end in
      match tp1 with
      | None => None
      | Some tp2 =>
        match colonp with
        | Some k =>
          if (List.length tp2 =? 16)%nat then None
          else Some (firstn k tp2 ++ repeat 0%N (16 - List.length tp2) ++ skipn k tp2)
        | None => if (List.length tp2 =? 16)%nat then Some tp2 else None
        end
      end
    end
  end.

Inductive pton := PtonNul | PtonFail | PtonOk (bytes : list N).
(* socket.inet_pton(AF_INET6, s) *)
Definition inet_pton6 (s : ustring) : pton :=
  if existsb (fun c => (c =? 0)%N) s then PtonNul
  else match inet_pton6_raw s with Some b => PtonOk b | None => PtonFail end.

Fixpoint words_of (bs : list N) : list N :=
  match bs with a :: b :: r => (a * 256 + b)%N :: words_of r | _ => [] end.

Definition hexchar (n : N) : N := (if n <? 10 then 48 + n else 87 + n)%N.
Definition show_hex16 (w : N) : ustring :=            (* sprintf("%x", w), w < 65536 *)
  let d3 := (w / 4096)%N in let d2 := (w / 256 mod 16)%N in let d1 := (w / 16 mod 16)%N in let d0 := (w mod 16)%N in
  if (0 <? d3)%N then [hexchar d3; hexchar d2; hexchar d1; hexchar d0]
  else if (0 <? d2)%N then [hexchar d2; hexchar d1; hexchar d0]
  else if (0 <? d1)%N then [hexchar d1; hexchar d0]
  else [hexchar d0].

(* the longest run of zero words (first one wins), as (base, len); glibc inet_ntop6 *)
Fixpoint best_run (ws : list N) (i : nat) (cur : option (nat * nat)) (best : option (nat * nat)) : option (nat * nat) :=
  let close cur best :=
      match cur with
      | None => best
      | Some (cb, cl) => match best with
                         | None => cur
                         | Some (_, bl) => if (bl <? cl)%nat then cur else best
                         end
      end in
  match ws with
  | [] => close cur best
  | w :: r =>
    if (w =? 0)%N then
      best_run r (S i) (match cur with None => Some (i, 1%nat) | Some (cb, cl) => Some (cb, S cl) end) best
    else best_run r (S i) None (close cur best)
  end.

Definition colon : ustring := [58%N].

Fixpoint ntop6_go (ws : list N) (i : nat) (best : option (nat * nat)) (last4 : list N) (w5 : N) : ustring :=
  match ws with
  | [] => []
  | w :: r =>
    let inside := match best with Some (b, l) => (b <=? i)%nat && (i <? b + l)%nat | None => false end in
    if inside then
      (match best with Some (b, _) => if (i =? b)%nat then colon else [] | None => [] end) ++ ntop6_go r (S i) best last4 w5
    else
      (if (i =? 0)%nat then [] else colon) ++
      (if (i =? 6)%nat &&
          match best with
          | Some (O, l) => (l =? 6)%nat || ((l =? 5)%nat && (w5 =? 65535)%N)
          | _ => false
          end
       then inet_ntoa last4
       else show_hex16 w ++ ntop6_go r (S i) best last4 w5)
  end.

(* socket.inet_ntop(AF_INET6, 16 bytes) *)
Definition inet_ntop6 (bs : list N) : ustring :=
  let ws := words_of bs in
  let best := match best_run ws 0 None None with
              | Some (b, l) => if (l <? 2)%nat then None else Some (b, l)
              | None => None
              end in
  ntop6_go ws 0 best (skipn 12 bs) (nth 5 ws 0%N)
  ++ match best with Some (b, l) => if (b + l =? 8)%nat then colon else [] | None => [] end.

(* int(str): whitespace set depends on whether the string is pure ASCII;
   decimal digits beyond ASCII are NOT modelled (they make the model fail where Python converts) *)
Definition uni_isspace (c : N) : bool :=
  (((9 <=? c) && (c <=? 13)) || ((28 <=? c) && (c <=? 32)) || (c =? 133) || (c =? 160) || (c =? 5760)
   || ((8192 <=? c) && (c <=? 8202)) || (c =? 8232) || (c =? 8233) || (c =? 8239) || (c =? 8287) || (c =? 12288))%N.

Fixpoint drop_while (p : N -> bool) (s : ustring) : ustring :=
  match s with c :: r => if p c then drop_while p r else s | [] => [] end.

(* digits with single underscores between them *)
Fixpoint int_digits (s : ustring) (acc : Z) (prev_digit : bool) : option Z :=
  match s with
  | [] => if prev_digit then Some acc else None
  | c :: r => if is_digit c then int_digits r (acc * 10 + Z.of_N (c - 48)) true
              else if (c =? 95)%N && prev_digit then
                     match r with d :: _ => if is_digit d then int_digits r acc false else None | [] => None end
              else None
  end.

Definition py_int (s : ustring) : option Z :=
  let sp := if forallb (fun c => (c <? 128)%N) s then c_isspace else uni_isspace in
  let s1 := drop_while sp s in
  let s2 := rev (drop_while sp (rev s1)) in
  match s2 with
  | 43%N :: r => int_digits r 0 false
  | 45%N :: r => match int_digits r 0 false with Some v => Some (- v) | None => None end
  | _ => int_digits s2 0 false
  end.

(* _mask_bytes *)
Definition mask_bytes (bs : list N) (prefix : Z) : list N :=
  let nbytes := Z.of_nat (List.length bs) in
  let nbits := 8 * nbytes in
  let num_fixed := prefix / 8 in
  let num_zero := (nbits - prefix) / 8 in
  let bs1 := if 0 <? num_zero
             then firstn (Z.to_nat (nbytes - num_zero)) bs ++ repeat 0%N (Z.to_nat num_zero)
             else bs in
  if negb (num_fixed + num_zero =? nbytes) then
    let n1 := prefix mod 8 in
    let mask := Z.to_N ((2 ^ n1 - 1) * 2 ^ (8 - n1)) in
    let k := Z.to_nat num_fixed in
    firstn k bs1 ++ match skipn k bs1 with b :: r => N.land b mask :: r | [] => [] end
  else bs1.

Definition slash : ustring := [47%N].

Inductive canon := CanonNul | CanonKeep | CanonTo (s : ustring).

(* ipv4_addr / ipv6_addr on the text of the constant (bits = 32 or 128) *)
Definition ip_canon (v6 : bool) (value : ustring) : canon :=
  let sp := find_cp 47%N value in
  let ip_str := match sp with Some (a, _) => a | None => value end in
  let parsed := if v6 then match inet_pton6 ip_str with PtonNul => AtonNul | PtonFail => AtonFail | PtonOk b => AtonOk b end
                else inet_aton ip_str in
  let ntoa := if v6 then inet_ntop6 else inet_ntoa in
  let bits := if v6 then 128 else 32 in
  match parsed with
  | AtonNul => CanonNul
  | AtonFail => CanonKeep
  | AtonOk bytes =>
    match sp with
    | None => CanonTo (ntoa bytes)
    | Some (_, suffix) =>
      match py_int suffix with
      | None => CanonKeep
      | Some n =>
        if (n <? 0) || (bits <? n) then CanonKeep
        else if n =? bits then CanonTo (ntoa bytes)
        else CanonTo (ntoa (mask_bytes bytes n) ++ slash ++ ustr_of_Z n)
      end
    end
  end.

(* str.lower(): exact below U+0100; code points above are left unchanged (stated limit) *)
Definition lower_cp (c : N) : N :=
  (if (65 <=? c) && (c <=? 90) then c + 32
   else if (192 <=? c) && (c <=? 222) && negb (c =? 215) then c + 32 else c)%N.
Definition lower (s : ustring) : ustring := map lower_cp s.

(* _path_is(path, ("key",)), ("values", _ANY_IDX, "name"), ("value",) *)
Definition step_is_key (s : step) (k : string) : bool := match s with SKey x => ustr_eqb x (u k) | SIdx _ => false end.
Definition step_is_any_idx (s : step) : bool := match s with SIdx _ => true | SKey x => ustr_eqb x (u "*") end.
Definition path_is1 (p : list step) (k : string) : bool := match p with [s] => step_is_key s k | _ => false end.
Definition path_is_values_name (p : list step) : bool :=
  match p with [a; i; b] => step_is_key a "values" && step_is_any_idx i && step_is_key b "name" | _ => false end.

(* defect variants of the special-value pass (see special_atom).
   special_mode: Unguarded = the pinned code: .find/.lower are called on whatever the
     constant holds, and only OSError is caught around inet_aton/inet_pton;
     Guarded = proposed_fixes/C09-specials-guards.diff: constants that are not
     StringConstant are left alone and ValueError is caught as well.
   regex_mode: LowerRegex = the pinned code rewrites the constant of every operator
     on a special path, MATCHES included (a regular expression is lower-cased on a
     registry-key path, replaced by a canonical address on an IP path); KeepRegex =
     proposed_fixes/C09-specials-matches.diff leaves the regular expression alone. *)
Inductive special_mode := Unguarded | Guarded.
Inductive regex_mode := LowerRegex | KeepRegex.
Record variant := mkVariant { v_special : special_mode; v_regex : regex_mode }.
Definition is_matches (o : cop) : bool := match o with OpMatches => true | _ => false end.

(* which canonicalisation applies to an object path *)
Inductive sp_kind := SpNone | SpReg | SpIp (v6 : bool).

Definition special_kind (t : ustring) (p : list step) : sp_kind :=
  if ustr_eqb t (u "windows-registry-key") then
    if path_is1 p "key" || path_is_values_name p then SpReg else SpNone
  else if ustr_eqb t (u "ipv4-addr") then (if path_is1 p "value" then SpIp false else SpNone)
  else if ustr_eqb t (u "ipv6-addr") then (if path_is1 p "value" then SpIp true else SpNone)
  else SpNone.

(* the rewriting of the text `s` held in the constant's .value; mk rebuilds the constant.
   strict = the constant is not a StringConstant (HexConstant / BinaryConstant, whose
   .value is a str too, so the pinned code rewrites the hex / base64 TEXT): lower-casing
   keeps such a text well-formed, an address rewrite does not (the later bytes.fromhex /
   b64decode may raise, depending on what the constant is compared with) -- that case is
   outside the model. *)
Definition special_text (m : special_mode) (k : sp_kind) (strict : bool) (s : ustring) : res (option ustring) :=
  match k with
  | SpNone => Ok None
  | SpReg => Ok (Some (lower s))
  | SpIp v6 =>
    match ip_canon v6 s with
    | CanonNul => match m with Unguarded => Err EValue | Guarded => Ok None end
    | CanonKeep => Ok None
    | CanonTo s' => if strict then (if ustr_eqb s' s then Ok None else Err EUnmodelled) else Ok (Some s')
    end
  end.

(* SpecialValueCanonicalization.transform_comparison *)
Definition special_atom (v : variant) (a : atom) : res atom :=
  let m := v_special v in
  let set_rhs k := mkAtom (a_type a) (a_path a) (a_op a) (a_neg a) k in
  let kind := match v_regex v with
              | KeepRegex => if is_matches (a_op a) then SpNone else special_kind (a_type a) (a_path a)
              | LowerRegex => special_kind (a_type a) (a_path a)
              end in
  match kind with
  | SpNone => Ok a
  | _ =>
    match a_rhs a with
    | KP (PStr s) =>
      t <- special_text m kind false s ;;
      Ok (match t with Some s' => set_rhs (KP (PStr s')) | None => a end)
    | KP (PHex s) =>
      match m with
      | Guarded => Ok a
      | Unguarded => t <- special_text m kind true s ;;
                     Ok (match t with Some s' => set_rhs (KP (PHex s')) | None => a end)
      end
    | KP (PBin s) =>
      match m with
      | Guarded => Ok a
      | Unguarded => t <- special_text m kind true s ;;
                     Ok (match t with Some s' => set_rhs (KP (PBin s')) | None => a end)
      end
    | _ => match m with Unguarded => Err EAttribute | Guarded => Ok a end
    end
  end.

(* ComparisonExpressionTransformer.transform specialised to
   SpecialValueCanonicalization; this first pass is also where parenthetical
   nodes disappear.  Its `changed` result is always False. *)
Fixpoint cspecial (m : variant) (e : cexpr0) : res cexpr :=
  match e with
  | Atom0 a => a' <- special_atom m a ;; Ok (Atom a')
  | And0 l => l' <- mapM (cspecial m) l ;; Ok (CAnd l')
  | Or0 l => l' <- mapM (cspecial m) l ;; Ok (COr l')
  | Paren0 e' => cspecial m e'
  end.

(* NormalizeComparisonExpressionsTransformer.__comp_normalize =
   ChainTransformer(comp_special, settle_simplify, comp_dnf, settle_simplify) *)
Definition csettle (fuel : nat) (e : cexpr) : res (cexpr * bool) := settle fuel (fun x => Ok (csimplify x)) e.

Definition cnormalize (m : variant) (fuel : nat) (e0 : cexpr0) : res (cexpr * bool) :=
  e <- cspecial m e0 ;;
  ' (e1, c1) <- csettle fuel e ;;
  ' (e2, c2) <- cdnf fuel e1 ;;
  ' (e3, c3) <- csettle fuel e2 ;;
  Ok (e3, c1 || c2 || c3).

(* ------------------------------------------------------------------ *)
(* observation expressions                                             *)

Inductive qual :=
| QRepeat (n : Z)              (* RepeatQualifier(IntegerConstant) *)
| QWithin (m : Z) (e : N)      (* WithinQualifier(IntegerConstant | FloatConstant): the decimal m * 10^-e seconds *)
| QStartStop (s t : Z).        (* StartStopQualifier(TimestampConstant, TimestampConstant), microseconds *)

Inductive oexpr0 :=
| Obs0 (c : cexpr0)            (* ObservationExpression *)
| OAnd0 (l : list oexpr0)
| OOr0 (l : list oexpr0)
| OFby0 (l : list oexpr0)
| OQual0 (e : oexpr0) (q : qual)
| OParen0 (e : oexpr0).

Inductive oexpr :=
| Obs (c : cexpr)
| OAnd (l : list oexpr)
| OOr (l : list oexpr)
| OFby (l : list oexpr)
| OQual (e : oexpr) (q : qual).

(* _QUALIFIER_TYPE_ORDER, repeats_cmp, within_cmp, startstop_cmp *)
Definition qual_cmp (a b : qual) : comparison :=
  match a, b with
  | QRepeat x, QRepeat y => Z.compare x y
  | QWithin m1 e1, QWithin m2 e2 => num_cmp m1 e1 m2 e2          (* generic_constant_cmp on int/float values *)
  | QStartStop s1 t1, QStartStop s2 t2 => match Z.compare s1 s2 with Eq => Z.compare t1 t2 | c => c end
  | QRepeat _, _ => Lt
  | _, QRepeat _ => Gt
  | QWithin _ _, _ => Lt
  | _, QWithin _ _ => Gt
  end.

(* _OBSERVATION_EXPRESSION_TYPE_ORDER *)
Definition otype_index (e : oexpr) : N :=
  match e with Obs _ => 0 | OAnd _ => 1 | OOr _ => 2 | OFby _ => 3 | OQual _ _ => 4 end%N.

(* observation_expression_cmp *)
Fixpoint ocmp (a b : oexpr) : comparison :=
  match a, b with
  | Obs x, Obs y => ccmp x y
  | OAnd l1, OAnd l2 => cmp_lex ocmp l1 l2
  | OOr l1, OOr l2 => cmp_lex ocmp l1 l2
  | OFby l1, OFby l2 => cmp_lex ocmp l1 l2
  | OQual e1 q1, OQual e2 q2 => match qual_cmp q1 q2 with Eq => ocmp e1 e2 | c => c end
  | _, _ => N.compare (otype_index a) (otype_index b)
  end.

Inductive oop := OpAnd | OpOr | OpFby.
Definition mko (o : oop) (l : list oexpr) : oexpr :=
  match o with OpAnd => OAnd l | OpOr => OOr l | OpFby => OFby l end.
Definition oops_of (o : oop) (e : oexpr) : option (list oexpr) :=
  match o, e with
  | OpAnd, OAnd l => Some l
  | OpOr, OOr l => Some l
  | OpFby, OFby l => Some l
  | _, _ => None
  end.

(* ---- NormalizeComparisonExpressionsTransformer (an
        ObservationExpressionTransformer whose only callback is
        transform_observation); parenthetical nodes are dropped here and
        dropping one counts as a change ---- *)
Fixpoint onormcmp (m : variant) (fuel : nat) (e : oexpr0) : res (oexpr * bool) :=
  match e with
  | Obs0 c => ' (c', ch) <- cnormalize m fuel c ;; Ok (Obs c', ch)
  | OAnd0 l => rs <- mapM (onormcmp m fuel) l ;; Ok (OAnd (map fst rs), existsb snd rs)
  | OOr0 l => rs <- mapM (onormcmp m fuel) l ;; Ok (OOr (map fst rs), existsb snd rs)
  | OFby0 l => rs <- mapM (onormcmp m fuel) l ;; Ok (OFby (map fst rs), existsb snd rs)
  | OQual0 e' q => ' (r, ch) <- onormcmp m fuel e' ;; Ok (OQual r q, ch)
  | OParen0 e' => ' (r, _) <- onormcmp m fuel e' ;; Ok (r, true)
  end.

(* ---- transform/observation.py: FlattenTransformer ---- *)
Fixpoint oflatten_ops (o : oop) (l : list oexpr) : list oexpr * bool :=
  match l with
  | [] => ([], false)
  | x :: r =>
    let (r', ch) := oflatten_ops o r in
    match oops_of o x with
    | Some xs => (xs ++ r', true)
    | None => (x :: r', ch)
    end
  end.

Definition oflatten_node (o : oop) (l : list oexpr) : oexpr * bool :=
  match l with
  | [x] => (x, true)
  | _ => let (l', ch) := oflatten_ops o l in (mko o l', ch)
  end.

Fixpoint oflatten (e : oexpr) : oexpr * bool :=
  match e with
  | Obs _ => (e, false)
  | OAnd l => let rs := map oflatten l in
              let (e', ch) := oflatten_node OpAnd (map fst rs) in (e', existsb snd rs || ch)
  | OOr l => let rs := map oflatten l in
             let (e', ch) := oflatten_node OpOr (map fst rs) in (e', existsb snd rs || ch)
  | OFby l => let rs := map oflatten l in
              let (e', ch) := oflatten_node OpFby (map fst rs) in (e', existsb snd rs || ch)
  | OQual e' q => let (r, ch) := oflatten e' in (OQual r q, ch)
  end.

(* ---- OrderDedupeTransformer: sort AND and OR, dedupe OR only; FOLLOWEDBY untouched ---- *)
Definition oorder_node (o : oop) (l : list oexpr) : oexpr * bool :=
  let s := isort ocmp l in
  let d := match o with OpOr => dedupe ocmp s | _ => s end in
  (mko o d, negb (is_eq (cmp_lex ocmp l d))).

Fixpoint oorder (e : oexpr) : oexpr * bool :=
  match e with
  | Obs _ => (e, false)
  | OAnd l => let rs := map oorder l in
              let (e', ch) := oorder_node OpAnd (map fst rs) in (e', existsb snd rs || ch)
  | OOr l => let rs := map oorder l in
             let (e', ch) := oorder_node OpOr (map fst rs) in (e', existsb snd rs || ch)
  | OFby l => let rs := map oorder l in (OFby (map fst rs), existsb snd rs)
  | OQual e' q => let (r, ch) := oorder e' in (OQual r q, ch)
  end.

(* ---- AbsorptionTransformer ---- *)

(* __is_contained_and: every containee has its own equal element in the container *)
Fixpoint remove_first {A} (p : A -> bool) (l : list A) : option (list A) :=
  match l with
  | [] => None
  | x :: r => if p x then Some r
              else match remove_first p r with Some r' => Some (x :: r') | None => None end
  end.
Fixpoint contained_and {A} (cmp : A -> A -> comparison) (ees container : list A) : bool :=
  match ees with
  | [] => true
  | ee :: r => match remove_first (fun er => is_eq (cmp ee er)) container with
               | None => false
               | Some c' => contained_and cmp r c'
               end
  end.

(* __is_contained_followedby: the containee is a subsequence of the container *)
Fixpoint drop_until {A} (p : A -> bool) (l : list A) : option (list A) :=
  match l with
  | [] => None
  | x :: r => if p x then Some r else drop_until p r
  end.
Fixpoint contained_fby {A} (cmp : A -> A -> comparison) (ees ers : list A) : bool :=
  match ees with
  | [] => true
  | ee :: r => match drop_until (fun er => is_eq (cmp ee er)) ers with
               | None => false
               | Some ers' => contained_fby cmp r ers'
               end
  end.

(* transform_or: may child2 be deleted because of child1? *)
Definition oabsorbs (c1 c2 : oexpr) : bool :=
  match c1 with
  | OQual _ _ => false                       (* "The simplification doesn't work across qualifiers" *)
  | _ =>
    match c2 with
    | OAnd ops2 =>
      if in_cmp ocmp c1 ops2 then true
      else match c1 with OAnd ops1 => contained_and ocmp ops1 ops2 | _ => false end
    | OFby ops2 =>
      if in_cmp ocmp c1 ops2 then true
      else match c1 with OFby ops1 => contained_fby ocmp ops1 ops2 | _ => false end
    | _ => false
    end
  end.

Definition oabsorb_node (l : list oexpr) : oexpr * bool :=
  let del := absorb_marks oabsorbs l in
  (OOr (remove_marked l del), existsb (fun d => d) del).

Fixpoint oabsorb (e : oexpr) : oexpr * bool :=
  match e with
  | Obs _ => (e, false)
  | OAnd l => let rs := map oabsorb l in (OAnd (map fst rs), existsb snd rs)
  | OOr l => let rs := map oabsorb l in
             let (e', ch) := oabsorb_node (map fst rs) in (e', existsb snd rs || ch)
  | OFby l => let rs := map oabsorb l in (OFby (map fst rs), existsb snd rs)
  | OQual e' q => let (r, ch) := oabsorb e' in (OQual r q, ch)
  end.

Definition osimplify (e : oexpr) : oexpr * bool :=
  let (e1, c1) := oflatten e in
  let (e2, c2) := oorder e1 in
  let (e3, c3) := oabsorb e2 in
  (e3, c1 || c2 || c3).

Definition osettle (fuel : nat) (e : oexpr) : res (oexpr * bool) := settle fuel (fun x => Ok (osimplify x)) e.

(* ---- DNFTransformer (observation level) ---- *)
Definition is_oor (e : oexpr) : bool := match e with OOr _ => true | _ => false end.
Definition or_iterable (e : oexpr) : list oexpr := match e with OOr ops => ops | _ => [e] end.

Fixpoint odnf (fuel : nat) (e : oexpr) : res (oexpr * bool) :=
  match fuel with
  | O => Err EFuel
  | S f =>
    let node (o : oop) (l : list oexpr) :=
        rs <- mapM (odnf f) l ;;
        let l' := map fst rs in
        if existsb is_oor l' then
          kids <- mapM (fun c => r <- odnf f c ;; Ok (fst r)) (map (mko o) (product (map or_iterable l'))) ;;
          Ok (OOr kids, true)
        else Ok (mko o l', existsb snd rs) in
    match e with
    | Obs _ => Ok (e, false)
    | OAnd l => node OpAnd l
    | OFby l => node OpFby l
    | OOr l => rs <- mapM (odnf f) l ;; Ok (OOr (map fst rs), existsb snd rs)
    | OQual e' q => ' (r, ch) <- odnf f e' ;; Ok (OQual r q, ch)
    end
  end.

(* ---- _get_pattern_normalizer():
        ChainTransformer(normalize_comp_expr, obs_settle_simplify, obs_dnf, obs_settle_simplify) ---- *)
Definition onormalize (m : variant) (fuel : nat) (p : oexpr0) : res oexpr :=
  ' (e0, _) <- onormcmp m fuel p ;;
  ' (e1, _) <- osettle fuel e0 ;;
  ' (e2, _) <- odnf fuel e1 ;;
  ' (e3, _) <- osettle fuel e2 ;;
  Ok e3.

(* equivalent_patterns on the two parsed patterns *)
Definition equiv (m : variant) (fuel : nat) (p q : oexpr0) : res bool :=
  n1 <- onormalize m fuel p ;;
  n2 <- onormalize m fuel q ;;
  Ok (is_eq (ocmp n1 n2)).

(* find_equivalent_patterns: positions of the members reported equivalent.
   (The generator raises at the first member that fails, after having yielded
   the earlier matches; consuming it with list() loses those, as here.) *)
Fixpoint find_go (m : variant) (fuel : nat) (n : oexpr) (i : nat) (ps : list oexpr0) : res (list nat) :=
  match ps with
  | [] => Ok []
  | p :: r =>
    np <- onormalize m fuel p ;;
    rest <- find_go m fuel n (S i) r ;;
    Ok (if is_eq (ocmp n np) then i :: rest else rest)
  end.
Definition find_equiv (m : variant) (fuel : nat) (p : oexpr0) (ps : list oexpr0) : res (list nat) :=
  n <- onormalize m fuel p ;; find_go m fuel n 0 ps.

(* ------------------------------------------------------------------ *)
(* rendering (one line per result; the harness renders the implementation's
   dump in the same syntax)                                            *)
Open Scope string_scope.

Definition q (s : ustring) : string := """" ++ show_ustr s ++ """".

Fixpoint strip10 (fuel : nat) (m : Z) (e : N) : Z * N :=    (* canonical decimal: no trailing zero digit while e > 0 *)
  match fuel with
  | O => (m, e)
  | S f => if (0 <? e)%N && (m mod 10 =? 0)%Z then strip10 f (m / 10)%Z (e - 1)%N else (m, e)
  end.

Definition show_prim (p : prim) : string :=
  match p with
  | PInt z => "i" ++ show_Z z
  | PFloat m e => let (m', e') := strip10 400 m e in "f" ++ show_Z m' ++ "e" ++ show_N e'
  | PStr s => "s" ++ q s
  | PBool b => if b then "bT" else "bF"
  | PTime t => "t" ++ show_Z t
  | PHex s => "h" ++ q s
  | PBin s => "b" ++ q s
  end.

Definition join (sep : string) (l : list string) : string :=
  match l with
  | [] => ""
  | x :: r => fold_left (fun acc y => acc ++ sep ++ y) r x
  end.

Definition show_const (k : const) : string :=
  match k with
  | KP p => show_prim p
  | KList l => "L(" ++ join "," (map show_prim l) ++ ")"
  end.

Definition show_step (s : step) : string :=
  match s with SKey k => "k" ++ q k | SIdx z => "x" ++ show_Z z end.

Definition show_cop (o : cop) : string :=
  match o with
  | OpEq => "=" | OpNeq => "!=" | OpNeq2 => "<>" | OpLt => "<" | OpLe => "<=" | OpGt => ">" | OpGe => ">="
  | OpIn => "IN" | OpLike => "LIKE" | OpMatches => "MATCHES" | OpSubset => "ISSUBSET" | OpSuperset => "ISSUPERSET"
  end.

Definition show_atom (a : atom) : string :=
  "A(" ++ q (a_type a) ++ ";" ++ join "," (map show_step (a_path a)) ++ ";" ++ show_cop (a_op a) ++ ";"
       ++ (if a_neg a then "N" else "P") ++ ";" ++ show_const (a_rhs a) ++ ")".

Fixpoint show_cexpr (e : cexpr) : string :=
  match e with
  | Atom a => show_atom a
  | CAnd l => "AND(" ++ join "," (map show_cexpr l) ++ ")"
  | COr l => "OR(" ++ join "," (map show_cexpr l) ++ ")"
  end.

Definition show_qual (x : qual) : string :=
  match x with
  | QRepeat n => "R" ++ show_Z n
  | QWithin m e => let (m', e') := strip10 400 m e in
                   if (e' =? 0)%N then "W" ++ show_Z m' else "Wf" ++ show_Z m' ++ "e" ++ show_N e'
  | QStartStop s t => "S" ++ show_Z s ++ "/" ++ show_Z t
  end.

Fixpoint show_oexpr (e : oexpr) : string :=
  match e with
  | Obs c => "[" ++ show_cexpr c ++ "]"
  | OAnd l => "oAND(" ++ join "," (map show_oexpr l) ++ ")"
  | OOr l => "oOR(" ++ join "," (map show_oexpr l) ++ ")"
  | OFby l => "oFBY(" ++ join "," (map show_oexpr l) ++ ")"
  | OQual e' x => "Q(" ++ show_oexpr e' ++ ";" ++ show_qual x ++ ")"
  end.

Definition show_perr (e : perr) : string :=
  match e with
  | EAttribute => "AttributeError" | EValue => "ValueError" | EType => "TypeError"
  | EFuel => "FUEL" | EUnmodelled => "UNMODELLED"
  end.

Definition show_res {A} (sh : A -> string) (r : res A) : string :=
  match r with Ok a => "OK " ++ sh a | Err e => "ERR " ++ show_perr e end.

Definition show_nats (l : list nat) : string := join "," (map show_nat l).

(* the three kinds of result line *)
Definition line_norm (m : variant) (fuel : nat) (p : oexpr0) : string := show_res show_oexpr (onormalize m fuel p).
Definition line_equiv (m : variant) (fuel : nat) (p p' : oexpr0) : string := show_res show_bool (equiv m fuel p p').
Definition line_find (m : variant) (fuel : nat) (p : oexpr0) (ps : list oexpr0) : string :=
  show_res show_nats (find_equiv m fuel p ps).

(* Model/Heap.v -- an explicit store for property C13 (no mutation of
   arguments or of existing objects).  A purely functional model cannot
   observe mutation, so Python's mutable containers are nodes of a heap and
   every Python statement that writes a container is a primitive here.

     heap   = list of nodes, a location is an index; allocation appends, so
              "fresh" means  length h <= l  and no location is ever reused
     node   = dict (insertion ordered) | list | library object (class name +
              instance attributes, `_inner` being the wrapped mapping) |
              store table (the private `_data` of a memory store)
     val    = immutable atom | reference to a node

   Mirrors (CPython, trusted):  d[k] = v, del d[k], d.update(m), l.append(x),
   copy.copy, copy.deepcopy (without the memo: a copy of a DAG is a tree --
   _STIXBase.__deepcopy__ itself ignores the memo), the call f(STARSTAR m) (a fresh shallow
   copy of m).  No proofs in this file.                                       *)
From Coq Require Import NArith ZArith String Bool Arith List.
From V Require Export Base.UString.
Import ListNotations.
Open Scope nat_scope.

Inductive atom :=
| ANone
| ABool (b : bool)
| AInt (z : Z)
| AStr (s : ustring)
| AFloat (r : ustring).

Inductive val :=
| VA (a : atom)
| VR (l : nat).

Inductive node :=
| NDict (m : list (ustring * val))
| NList (xs : list val)
| NObj (cls : ustring) (fs : list (ustring * val))
| NStore (m : list (ustring * val)).

Definition heap := list node.

Inductive res :=
| RVal (v : val)
| RExc (e : string)      (* a Python exception, by class name *)
| RFuel.                 (* out of fuel: never treated as success *)

Definition get (h : heap) (l : nat) : option node := nth_error h l.

Fixpoint upd (h : heap) (l : nat) (n : node) : heap :=
  match h, l with
  | [], _ => []
  | _ :: t, O => n :: t
  | x :: t, S l' => x :: upd t l' n
  end.

Definition alloc (h : heap) (n : node) : heap * nat := (h ++ [n], length h).

(* ---- association lists with Python dict behaviour ---- *)
Fixpoint assoc (k : ustring) (m : list (ustring * val)) : option val :=
  match m with
  | [] => None
  | (k', v) :: r => if ustr_eqb k k' then Some v else assoc k r
  end.

Fixpoint assoc_set (k : ustring) (v : val) (m : list (ustring * val)) : list (ustring * val) :=
  match m with
  | [] => [(k, v)]
  | (k', v') :: r => if ustr_eqb k k' then (k', v) :: r else (k', v') :: assoc_set k v r
  end.

Fixpoint assoc_del (k : ustring) (m : list (ustring * val)) : list (ustring * val) :=
  match m with
  | [] => []
  | (k', v') :: r => if ustr_eqb k k' then r else (k', v') :: assoc_del k r
  end.

Fixpoint mem_ustr (k : ustring) (ks : list ustring) : bool :=
  match ks with [] => false | k' :: r => ustr_eqb k k' || mem_ustr k r end.

(* ---- primitives that WRITE an existing node (None = TypeError/KeyError) ---- *)

(* d[k] = v *)
Definition set_item (h : heap) (l : nat) (k : ustring) (v : val) : option heap :=
  match get h l with
  | Some (NDict m) => Some (upd h l (NDict (assoc_set k v m)))
  | Some (NStore m) => Some (upd h l (NStore (assoc_set k v m)))
  | _ => None
  end.

(* del d[k]  /  d.pop(k) *)
Definition del_item (h : heap) (l : nat) (k : ustring) : option heap :=
  match get h l with
  | Some (NDict m) => match assoc k m with Some _ => Some (upd h l (NDict (assoc_del k m))) | None => None end
  | _ => None
  end.

(* xs.append(v) *)
Definition append_item (h : heap) (l : nat) (v : val) : option heap :=
  match get h l with
  | Some (NList xs) => Some (upd h l (NList (xs ++ [v])))
  | _ => None
  end.

(* d.update(m)  (m already read out as a list of members) *)
Fixpoint update_items (h : heap) (l : nat) (m : list (ustring * val)) : option heap :=
  match m with
  | [] => match get h l with Some (NDict _) => Some h | Some (NStore _) => Some h | _ => None end
  | (k, v) :: r => match set_item h l k v with Some h1 => update_items h1 l r | None => None end
  end.

(* xs.extend(ys) *)
Fixpoint extend_items (h : heap) (l : nat) (ys : list val) : option heap :=
  match ys with
  | [] => match get h l with Some (NList _) => Some h | _ => None end
  | y :: r => match append_item h l y with Some h1 => extend_items h1 l r | None => None end
  end.

(* object.__setattr__ (the unguarded one: the guard is in HeapOps.py_setattr) *)
Definition set_field (h : heap) (l : nat) (k : ustring) (v : val) : option heap :=
  match get h l with
  | Some (NObj c fs) => Some (upd h l (NObj c (assoc_set k v fs)))
  | _ => None
  end.

Definition del_field (h : heap) (l : nat) (k : ustring) : option heap :=
  match get h l with
  | Some (NObj c fs) => match assoc k fs with Some _ => Some (upd h l (NObj c (assoc_del k fs))) | None => None end
  | _ => None
  end.

(* ---- children and shapes ---- *)
Definition kids (n : node) : list val :=
  match n with
  | NDict m => map snd m
  | NList xs => xs
  | NObj _ fs => map snd fs
  | NStore m => map snd m
  end.

Inductive shape :=
| SDict (ks : list ustring)
| SList
| SObj (c : ustring) (ks : list ustring).

(* a store table has no value: it is private state of the store *)
Definition shape_of (n : node) : option shape :=
  match n with
  | NDict m => Some (SDict (map fst m))
  | NList _ => Some SList
  | NObj c fs => Some (SObj c (map fst fs))
  | NStore _ => None
  end.

Definition rebuild (s : shape) (vs : list val) : node :=
  match s with
  | SDict ks => NDict (combine ks vs)
  | SList => NList vs
  | SObj c ks => NObj c (combine ks vs)
  end.

(* deep value of something on the heap *)
Inductive tree :=
| TA (a : atom)
| TN (s : shape) (ts : list tree).

Fixpoint map_opt {A B : Type} (f : A -> option B) (xs : list A) : option (list B) :=
  match xs with
  | [] => Some []
  | x :: r => match f x with
              | Some y => match map_opt f r with Some ys => Some (y :: ys) | None => None end
              | None => None
              end
  end.

Fixpoint value (n : nat) (h : heap) (v : val) : option tree :=
  match v with
  | VA a => Some (TA a)
  | VR l =>
    match n with
    | O => None
    | S n' =>
      match get h l with
      | None => None
      | Some nd =>
        match shape_of nd with
        | None => None
        | Some s => match map_opt (value n' h) (kids nd) with Some ts => Some (TN s ts) | None => None end
        end
      end
    end
  end.

(* ---- threading a heap through a list ---- *)
Fixpoint mapM (f : val -> heap -> heap * res) (vs : list val) (h : heap) : heap * (list val + res) :=
  match vs with
  | [] => (h, inl [])
  | v :: r =>
    match f v h with
    | (h1, RVal c) =>
      match mapM f r h1 with
      | (h2, inl cs) => (h2, inl (c :: cs))
      | (h2, inr e) => (h2, inr e)
      end
    | (h1, e) => (h1, inr e)
    end
  end.

(* copy.deepcopy: every container reachable from v is rebuilt in fresh
   locations; atoms are returned as they are.  A library object is rebuilt
   from a deep copy of its attributes (_STIXBase.__deepcopy__: deep copy of
   `_inner`, then the class is instantiated again; the re-validation is not
   modelled, cleaned values are fixed points of clean -- see C01).          *)
Fixpoint deepcopy (n : nat) (v : val) (h : heap) : heap * res :=
  match v with
  | VA _ => (h, RVal v)
  | VR l =>
    match n with
    | O => (h, RFuel)
    | S n' =>
      match get h l with
      | None => (h, RExc "DanglingReference")
      | Some nd =>
        match shape_of nd with
        | None => (h, RExc "TypeError")
        | Some s =>
          match mapM (deepcopy n') (kids nd) h with
          | (h1, inl vs) => let (h2, l2) := alloc h1 (rebuild s vs) in (h2, RVal (VR l2))
          | (h1, inr e) => (h1, e)
          end
        end
      end
    end
  end.

(* copy.copy of a container / what a STARSTAR-call does with m *)
Definition shallow_copy (v : val) (h : heap) : heap * res :=
  match v with
  | VA _ => (h, RVal v)
  | VR l =>
    match get h l with
    | Some (NStore _) => (h, RExc "TypeError")
    | Some nd => let (h1, l1) := alloc h nd in (h1, RVal (VR l1))
    | None => (h, RExc "DanglingReference")
    end
  end.

Inductive copy_mode := Deep | Shallow | NoCopy.

Definition copy_at (cm : copy_mode) (n : nat) (v : val) (h : heap) : heap * res :=
  match cm with
  | Deep => deepcopy n v h
  | Shallow => shallow_copy v h
  | NoCopy => (h, RVal v)
  end.

(* ---- reachability (relation for the theorems, function for the reports) ---- *)
Inductive reaches (h : heap) : val -> nat -> Prop :=
| reach_here : forall l nd, get h l = Some nd -> reaches h (VR l) l
| reach_kid : forall l nd v l', get h l = Some nd -> In v (kids nd) -> reaches h v l' -> reaches h (VR l) l'.

Definition is_store (n : node) : bool := match n with NStore _ => true | _ => false end.

(* (location, access path) of every node reachable from v, not entering store
   tables; an object is entered through its attributes with the leading
   class-private prefix dropped by the harness on the Python side            *)
Definition slash : ustring := [47%N].

Fixpoint paths (n : nat) (h : heap) (p : ustring) (v : val) : list (nat * ustring) :=
  match v with
  | VA _ => []
  | VR l =>
    match n with
    | O => []
    | S n' =>
      match get h l with
      | None => []
      | Some (NStore _) => []
      | Some (NDict m) => (l, p) :: flat_map (fun kv => paths n' h (p ++ slash ++ fst kv) (snd kv)) m
      | Some (NObj _ fs) => (l, p) :: flat_map (fun kv => paths n' h (p ++ slash ++ fst kv) (snd kv)) fs
      | Some (NList xs) =>
          (l, p) :: (fix go (i : nat) (xs : list val) : list (nat * ustring) :=
                       match xs with
                       | [] => []
                       | x :: r => paths n' h (p ++ slash ++ ustr_of_Z (Z.of_nat i)) x ++ go (S i) r
                       end) 0 xs
      end
    end
  end.

(* ---- small Python notions used by the skeletons ---- *)
Definition is_nil {A : Type} (xs : list A) : bool := match xs with [] => true | _ => false end.

Definition truthy (h : heap) (v : val) : bool :=
  match v with
  | VA ANone => false
  | VA (ABool b) => b
  | VA (AInt z) => negb (Z.eqb z 0)
  | VA (AStr s) => negb (is_nil s)
  | VA (AFloat _) => true
  | VR l => match get h l with
            | Some (NDict m) => negb (is_nil m)
            | Some (NList xs) => negb (is_nil xs)
            | _ => true
            end
  end.

(* `x not in (None, [])` of _STIXBase.__init__ *)
Definition none_or_empty_list (h : heap) (v : val) : bool :=
  match v with
  | VA ANone => true
  | VA _ => false
  | VR l => match get h l with Some (NList []) => true | _ => false end
  end.

Definition atom_eqb (a b : atom) : bool :=
  match a, b with
  | ANone, ANone => true
  | ABool x, ABool y => Bool.eqb x y
  | AInt x, AInt y => Z.eqb x y
  | AStr x, AStr y => ustr_eqb x y
  | AFloat x, AFloat y => ustr_eqb x y
  | _, _ => false
  end.

Definition shape_eqb (a b : shape) : bool :=
  match a, b with
  | SDict x, SDict y => (fix go (x y : list ustring) := match x, y with [], [] => true | a :: x', b :: y' => ustr_eqb a b && go x' y' | _, _ => false end) x y
  | SList, SList => true
  | SObj c x, SObj d y => ustr_eqb c d && (fix go (x y : list ustring) := match x, y with [], [] => true | a :: x', b :: y' => ustr_eqb a b && go x' y' | _, _ => false end) x y
  | _, _ => false
  end.

Fixpoint tree_eqb (a b : tree) : bool :=
  match a, b with
  | TA x, TA y => atom_eqb x y
  | TN s xs, TN s' ys =>
      shape_eqb s s' && (fix go (xs ys : list tree) : bool :=
                           match xs, ys with
                           | [], [] => true
                           | x :: xs', y :: ys' => tree_eqb x y && go xs' ys'
                           | _, _ => false
                           end) xs ys
  | _, _ => false
  end.

Definition opt_tree_eqb (a b : option tree) : bool :=
  match a, b with
  | Some x, Some y => tree_eqb x y
  | None, None => true
  | _, _ => false
  end.

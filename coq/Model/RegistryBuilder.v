(* Model/RegistryBuilder.v -- the class TABLE a Custom* decorator builds, in the
   vocabulary of the schema family (Model/SchemaTypes.v: slot, cls, world), so
   that the generic schema theorems (stated for an arbitrary class table /
   world) can be instantiated at registered custom types.  No proofs here.

   Mirrors:
     stix2/v20/sdo.py, v21/sdo.py            CustomObject.wrapper      (_properties list)
     stix2/v20/observables.py, v21/...       CustomObservable.wrapper, CustomExtension
     stix2/v20/common.py, v21/common.py      CustomMarking
     stix2/custom.py                         _custom_*_builder (OrderedDict(properties), _type, base class,
                                             extension_type / nested properties)
   The decorated class is assumed to have an empty body (no __init__, no
   _check_object_constraints of its own) and `extension_name=` is not used
   (its effect -- an extension instance added after construction -- is outside
   the `cls` record).  A toplevel-property-extension's `_toplevel_properties`
   have no place in the `cls` record either: only its nested properties are.

   Tie to the source: harness/impl/c19_dump.py registers generated custom types
   in a fresh interpreter, dumps the live classes with the functions of
   translators/dump_tables.py, and the check compares them with `custom_cls`
   (rendered by show_cls below).                                              *)
From Coq Require Import NArith ZArith List String Bool.
From V Require Import Base.UString Base.Json Model.SchemaTypes.
From V Require Model.Registry.
Import ListNotations.

Inductive ckind := CObject | CObservable | CMarking | CExtension.

(* variant of the source (BUILDING.md, "Defects of the unchanged code"): the v21 CustomObject wrapper writes
   `confidence` as IntegerProperty() (false: the code as found) or IntegerProperty(min=0, max=100) (true: after
   the C02 fix d647a25).  The harness reads it off a dumped live class. *)
Record bvar := { b_conf_range : bool }.

Definition ver_text (V : ver) : ustring := match V with V20 => u "2.0" | V21 => u "2.1" end.

Definition mk_slot (n : ustring) (k : pkind) (r : bool) (d : dflt) : slot :=
  {| sname := n; skind := k; sreq := r; sdef := d |}.

(* ---- the standard properties, as the decorators write them ---- *)

Definition s_type (n : ustring) : slot := mk_slot (u "type") (KFixed n []) false DFixed.             (* TypeProperty(type, spec_version) *)
Definition s_spec_version : slot := mk_slot (u "spec_version") (KFixed (u "2.1") []) false DFixed.   (* StringProperty(fixed='2.1') *)
Definition s_id (n : ustring) (V : ver) : slot :=                                                    (* IDProperty(type, spec_version) *)
  mk_slot (u "id") (KId (n ++ u "--") V) false DUuid4.
Definition s_created_by_ref (V : ver) : slot :=
  mk_slot (u "created_by_ref") (KRef true [] [u "identity"] V) false DNone.
Definition time_kind (V : ver) : pkind := KTime PMilli (match V with V20 => CExact | V21 => CMin end).
Definition s_created (V : ver) : slot := mk_slot (u "created") (time_kind V) false DNow.
Definition s_modified (V : ver) : slot := mk_slot (u "modified") (time_kind V) false DNow.
Definition s_revoked : slot := mk_slot (u "revoked") KBool false (DConst (JBool false)).
Definition s_labels : slot := mk_slot (u "labels") (KList KString) false DNone.
Definition s_confidence (bv : bvar) : slot :=
  mk_slot (u "confidence") (if b_conf_range bv then KInt (Some 0%Z) (Some 100%Z) else KInt None None) false DNone.
Definition s_lang : slot := mk_slot (u "lang") KString false DNone.
Definition s_external_references (V : ver) : slot :=
  mk_slot (u "external_references") (KListOf (ver_text V ++ u "/ExternalReference")) false DNone.
Definition s_object_marking_refs (V : ver) : slot :=
  mk_slot (u "object_marking_refs") (KList (KRef true [] [u "marking-definition"] V)) false DNone.
Definition s_granular_markings (V : ver) : slot :=
  mk_slot (u "granular_markings") (KListOf (ver_text V ++ u "/GranularMarking")) false DNone.
Definition s_defanged : slot := mk_slot (u "defanged") KBool false (DConst (JBool false)).
Definition s_extensions (V : ver) : slot := mk_slot (u "extensions") (KExtensions V) false DNone.

Definition sdo_pre (V : ver) (n : ustring) : list slot :=
  match V with
  | V20 => [s_type n; s_id n V20; s_created_by_ref V20; s_created V20; s_modified V20]
  | V21 => [s_type n; s_spec_version; s_id n V21; s_created_by_ref V21; s_created V21; s_modified V21]
  end.
Definition sdo_post (bv : bvar) (V : ver) : list slot :=
  match V with
  | V20 => [s_revoked; s_labels; s_external_references V20; s_object_marking_refs V20; s_granular_markings V20]
  | V21 => [s_revoked; s_labels; s_confidence bv; s_lang; s_external_references V21; s_object_marking_refs V21;
            s_granular_markings V21; s_extensions V21]
  end.
Definition sco_pre (V : ver) (n : ustring) : list slot :=
  match V with
  | V20 => [s_type n]
  | V21 => [s_type n; s_spec_version; s_id n V21]
  end.
Definition sco_post (V : ver) : list slot :=
  match V with
  | V20 => [s_extensions V20]
  | V21 => [s_object_marking_refs V21; s_granular_markings V21; s_defanged; s_extensions V21]
  end.

(* ---- sorted(xs, key=lambda x: x[0]): a stable sort on the name (code-point order) ---- *)

Fixpoint insert_by_name (s : slot) (l : list slot) : list slot :=
  match l with
  | [] => [s]
  | t :: r => if ustr_ltb (sname t) (sname s) then t :: insert_by_name s r else s :: t :: r
  end.
(* inserting from the right, in front of equal names, keeps equal names in their original order *)
Definition sort_by_name (l : list slot) : list slot := fold_right insert_by_name [] l.

Definition starts_x (s : slot) : bool := ustr_prefix (u "x_") (sname s).

(* ---- OrderedDict(list of pairs): a repeated name keeps its first position and takes the last value ---- *)

Fixpoint slot_set (d : list slot) (s : slot) : list slot :=
  match d with
  | [] => [s]
  | t :: r => if ustr_eqb (sname s) (sname t) then s :: r else t :: slot_set r s
  end.
Definition slots_update (d pairs : list slot) : list slot := fold_left slot_set pairs d.
Definition ordered_dict (pairs : list slot) : list slot := slots_update [] pairs.

(* ---- the property lists the wrappers assemble ---- *)

Definition object_pairs (bv : bvar) (V : ver) (n : ustring) (user : list slot) : list slot :=
  sdo_pre V n ++ filter (fun s => negb (starts_x s)) user ++ sdo_post bv V ++ sort_by_name (filter starts_x user).

Definition observable_pairs (V : ver) (n : ustring) (user : list slot) : list slot :=
  sco_pre V n ++ user ++ sco_post V.

Definition exttype_text (x : Registry.exttype) : ustring :=
  match x with
  | Registry.XNewSdo => u "new-sdo" | Registry.XNewSco => u "new-sco" | Registry.XNewSro => u "new-sro"
  | Registry.XPropertyExt => u "property-extension" | Registry.XToplevel => u "toplevel-property-extension"
  end.

Definition extension_type_allowed : list ustring :=
  [u "new-sdo"; u "new-sco"; u "new-sro"; u "property-extension"; u "toplevel-property-extension"].

(* EnumProperty([...], required=False, fixed=extension_type) *)
Definition s_extension_type (x : Registry.exttype) : slot :=
  mk_slot (u "extension_type") (KFixed (exttype_text x) extension_type_allowed) false DFixed.

(* _custom_extension_builder: nested_properties (a plain dict; .update(properties)) *)
Definition extension_slots (xt : option Registry.exttype) (user : list slot) : list slot :=
  match xt with
  | None => ordered_dict user
  | Some Registry.XToplevel => [s_extension_type Registry.XToplevel]
  | Some x => slots_update [s_extension_type x] (ordered_dict user)
  end.

Definition custom_slots (bv : bvar) (k : ckind) (V : ver) (n : ustring) (xt : option Registry.exttype) (user : list slot) : list slot :=
  match k with
  | CObject => ordered_dict (object_pairs bv V n user)
  | CObservable => ordered_dict (observable_pairs V n user)
  | CMarking => ordered_dict user
  | CExtension => extension_slots xt user
  end.

Definition custom_family (k : ckind) : family :=
  match k with CObject => FSdo | CObservable => FSco | CMarking => FOther | CExtension => FExt end.

(* id of the class in a world: the text harness and model agree on for a custom class *)
Definition custom_cid (clsname : ustring) : ustring := u "stix2.custom." ++ clsname.

Definition custom_cls (bv : bvar) (k : ckind) (V : ver) (n : ustring) (xt : option Registry.exttype) (user : list slot)
           (clsname : ustring) : cls :=
  {| cid := custom_cid clsname; cver := V; ctype := Some n; cfamily := custom_family k;
     cslots := custom_slots bv k V n xt user;
     ccons := []; cinit := INone; cidcontrib := []; cserialize_tlp := false |}.

(* ---- what the `cls` record has no place for, as data ---- *)

(* _custom_observable_builder: `if version != '2.0': _id_contributing_properties = id_contrib_props` *)
Definition with_contrib (c : cls) (contrib : list ustring) : cls :=
  {| cid := cid c; cver := cver c; ctype := ctype c; cfamily := cfamily c; cslots := cslots c; ccons := ccons c;
     cinit := cinit c;
     cidcontrib := match cfamily c, cver c with FSco, V21 => contrib | _, _ => [] end;
     cserialize_tlp := cserialize_tlp c |}.

Definition set_cid (c : cls) (id : ustring) : cls :=
  {| cid := id; cver := cver c; ctype := ctype c; cfamily := cfamily c; cslots := cslots c; ccons := ccons c;
     cinit := cinit c; cidcontrib := cidcontrib c; cserialize_tlp := cserialize_tlp c |}.

Record custom_info := {
  ci_cls : cls;                          (* the class itself *)
  ci_toplevel : list slot;               (* _toplevel_properties of a toplevel-property-extension *)
  ci_with_extension : option ustring;    (* cls.with_extension: extension_name= of the v21 CustomObject / CustomObservable;
                                            every instance gets extensions[<it>] = <the side class>() after construction *)
  ci_side : option cls                   (* the NameExtension class registered on the side under that name *)
}.

Definition custom_info_of (bv : bvar) (k : ckind) (V : ver) (n : ustring) (xt : option Registry.exttype) (user : list slot)
           (clsname : ustring) (contrib : list ustring) (extname : option ustring) : custom_info :=
  let side_type := match k with CObservable => Registry.XNewSco | _ => Registry.XNewSdo end in
  let named := match k, V, extname with
               | CObject, V21, Some (c :: en) | CObservable, V21, Some (c :: en) => Some (c :: en)
               | _, _, _ => None
               end in
  {| ci_cls := with_contrib (custom_cls bv k V n xt user clsname) contrib;
     ci_toplevel := match k, xt with CExtension, Some Registry.XToplevel => ordered_dict user | _, _ => [] end;
     ci_with_extension := named;
     ci_side := match named with
                | Some en => Some (set_cid (custom_cls bv CExtension V21 en (Some side_type) [] []) (Registry.extname_class en))
                | None => None
                end |}.

(* ---- adding a class and its registry row to a world ---- *)

Definition reg_add (k : ckind) (r : registry) (n cid : ustring) : registry :=
  match k with
  | CObject => {| robjects := robjects r ++ [(n, cid)]; robservables := robservables r;
                  rextensions := rextensions r; rmarkings := rmarkings r |}
  | CObservable => {| robjects := robjects r; robservables := robservables r ++ [(n, cid)];
                      rextensions := rextensions r; rmarkings := rmarkings r |}
  | CExtension => {| robjects := robjects r; robservables := robservables r;
                     rextensions := rextensions r ++ [(n, cid)]; rmarkings := rmarkings r |}
  | CMarking => {| robjects := robjects r; robservables := robservables r;
                   rextensions := rextensions r; rmarkings := rmarkings r ++ [(n, cid)] |}
  end.

Definition world_add (w : world) (k : ckind) (V : ver) (n : ustring) (c : cls) : world :=
  {| wclasses := wclasses w ++ [c];
     wreg20 := match V with V20 => reg_add k (wreg20 w) n (cid c) | V21 => wreg20 w end;
     wreg21 := match V with V21 => reg_add k (wreg21 w) n (cid c) | V20 => wreg21 w end;
     wtlp20 := wtlp20 w; wtlp21 := wtlp21 w |}.

(* ---- link to the registration model (Model/Registry.v) ---- *)

Definition category_of_ckind (k : ckind) : Registry.category :=
  match k with
  | CObject => Registry.Objects | CObservable => Registry.Observables
  | CMarking => Registry.Markings | CExtension => Registry.Extensions
  end.
Definition version_of_ver (V : ver) : Registry.version := match V with V20 => Registry.V20 | V21 => Registry.V21 end.

(* what registration looks at in a property object *)
Definition propkind_of (k : pkind) : Registry.propkind :=
  match k with
  | KRef _ _ _ _ => Registry.KRef
  | KObjRef _ => Registry.KObjRef
  | KList (KRef _ _ _ _) => Registry.KRefList
  | KList (KObjRef _) => Registry.KObjRefList
  | KList _ | KListOf _ => Registry.KListPlain
  | _ => Registry.KPlain
  end.

Definition regreq_of (k : ckind) (V : ver) (n : ustring) (xt : option Registry.exttype) (user : list slot)
           (clsname : ustring) : Registry.regreq :=
  {| Registry.r_kind := category_of_ckind k; Registry.r_ver := version_of_ver V; Registry.r_name := n;
     Registry.r_props := map (fun s => (sname s, propkind_of (skind s))) user;
     Registry.r_cls := custom_cid clsname; Registry.r_exttype := xt; Registry.r_extname := None |}.

(* ---- rendering (one line per class; the harness renders the dumped live class the same way) ---- *)

Open Scope string_scope.
Definition show_ver (V : ver) : string := match V with V20 => "2.0" | V21 => "2.1" end.
Definition show_ulist (l : list ustring) : string := "[" ++ String.concat "," (map show_ustr l) ++ "]".
Definition show_optZ (z : option Z) : string := match z with None => "-" | Some x => show_Z x end.

Fixpoint show_pkind (k : pkind) : string :=
  match k with
  | KString => "string"
  | KPattern => "pattern"
  | KObjRef vt => "objref" ++ show_ulist vt
  | KFixed v a => "fixed(" ++ show_ustr v ++ ")" ++ show_ulist a
  | KId p V => "id(" ++ show_ustr p ++ "," ++ show_ver V ++ ")"
  | KInt a b => "int(" ++ show_optZ a ++ "," ++ show_optZ b ++ ")"
  | KFloat a b => "float(" ++ show_optZ a ++ "," ++ show_optZ b ++ ")"
  | KBool => "bool"
  | KTime p c => "time(" ++ match p with PAny => "any" | PSecond => "second" | PMilli => "millisecond" end ++ ","
                 ++ match c with CExact => "exact" | CMin => "min" end ++ ")"
  | KDict V => "dict(" ++ show_ver V ++ ")"
  | KHashes n V => "hashes" ++ show_ulist n ++ "(" ++ show_ver V ++ ")"
  | KBinary => "binary"
  | KHex => "hex"
  | KRef w g s V => "ref(" ++ show_bool w ++ "," ++ show_ulist g ++ "," ++ show_ulist s ++ "," ++ show_ver V ++ ")"
  | KSelector => "selector"
  | KEmbedded c => "embedded(" ++ show_ustr c ++ ")"
  | KEnum a => "enum" ++ show_ulist a
  | KOpenVocab a => "openvocab" ++ show_ulist a
  | KObservable V => "observable(" ++ show_ver V ++ ")"
  | KExtensions V => "extensions(" ++ show_ver V ++ ")"
  | KStixObject V => "stixobject(" ++ show_ver V ++ ")"
  | KMarking V => "marking(" ++ show_ver V ++ ")"
  | KList k' => "list<" ++ show_pkind k' ++ ">"
  | KListOf c => "listof(" ++ show_ustr c ++ ")"
  | KAny => "any"
  end.

Definition show_dflt (d : dflt) : string :=
  match d with
  | DNone => "none" | DFixed => "fixed" | DNow => "now" | DUuid4 => "uuid4"
  | DConst (JBool b) => "const:" ++ show_bool b
  | DConst (JStr s) => "const:'" ++ show_ustr s ++ "'"
  | DConst (JInt z) => "const:" ++ show_Z z
  | DConst JNull => "const:null"
  | DConst _ => "const:?"
  end.

Definition show_slot (s : slot) : string :=
  show_ustr (sname s) ++ ":" ++ show_pkind (skind s) ++ ":" ++ show_bool (sreq s) ++ ":" ++ show_dflt (sdef s).

Definition show_family (f : family) : string :=
  match f with FSdo => "sdo" | FSro => "sro" | FSco => "sco" | FExt => "ext" | FOther => "other" end.

Definition show_cls (c : cls) : string :=
  show_ustr (cid c) ++ " " ++ show_ver (cver c) ++ " "
  ++ match ctype c with Some t => show_ustr t | None => "-" end ++ " " ++ show_family (cfamily c) ++ " "
  ++ "contrib" ++ show_ulist (cidcontrib c) ++ " "
  ++ String.concat " ; " (map show_slot (cslots c)).
Definition show_info (i : custom_info) : string :=
  show_cls (ci_cls i)
  ++ " | toplevel " ++ String.concat " ; " (map show_slot (ci_toplevel i))
  ++ " | with_extension " ++ match ci_with_extension i with Some e => show_ustr e | None => "-" end
  ++ " | side " ++ match ci_side i with Some c => show_cls c | None => "-" end.
Close Scope string_scope.

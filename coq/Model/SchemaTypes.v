(* Model/SchemaTypes.v -- the vocabulary in which translators/tr_tables.py
   writes the class tables of stix2.v20 / stix2.v21 (Gen/Tables.v) and in which
   the frozen specification tables are written (Gen/SpecTables.v, generated
   from /verif/spec).  Types only.                                            *)
From Coq Require Import NArith ZArith List String Bool.
From V Require Import Base.UString Base.Json.
Import ListNotations.

Inductive ver := V20 | V21.
Inductive prec := PAny | PSecond | PMilli.
Inductive pconstr := CExact | CMin.

(* one constructor per Property class of stix2/properties.py, with the
   parameters its clean() depends on *)
Inductive pkind :=
| KString                                   (* StringProperty *)
| KPattern                                  (* PatternProperty (a StringProperty) *)
| KObjRef (valid_types : list ustring)      (* ObjectReferenceProperty (a StringProperty); [] = any type *)
| KFixed (v : ustring) (allowed : list ustring)  (* fixed=...: TypeProperty, fixed strings, fixed enum *)
| KId (prefix : ustring) (v : ver)          (* IDProperty *)
| KInt (mn mx : option Z)                   (* IntegerProperty *)
| KFloat (mn mx : option Z)                 (* FloatProperty (integral bounds) *)
| KBool                                     (* BooleanProperty *)
| KTime (p : prec) (c : pconstr)            (* TimestampProperty *)
| KDict (v : ver)                           (* DictionaryProperty *)
| KHashes (names : list ustring) (v : ver)  (* HashesProperty *)
| KBinary | KHex
| KRef (white : bool) (generics specifics : list ustring) (v : ver)   (* ReferenceProperty *)
| KSelector
| KEmbedded (cls : ustring)                 (* EmbeddedObjectProperty(type=cls) *)
| KEnum (allowed : list ustring)
| KOpenVocab (allowed : list ustring)
| KObservable (v : ver)                     (* ObservableProperty: dict of SCOs *)
| KExtensions (v : ver)                     (* ExtensionsProperty *)
| KStixObject (v : ver)                     (* STIXObjectProperty: bundle members *)
| KMarking (v : ver)                        (* MarkingProperty: definition of a marking-definition *)
| KList (k : pkind)                         (* ListProperty(contained Property) *)
| KListOf (cls : ustring)                   (* ListProperty(contained _STIXBase class) *)
| KAny.                                     (* plain Property() *)

Inductive dflt := DNone | DFixed | DNow | DUuid4 | DConst (j : jvalue).

Record slot := { sname : ustring; skind : pkind; sreq : bool; sdef : dflt }.

(* conditions over an object's stored properties, as the constraint methods read them *)
Inductive ccond :=
| QTruthy (p : ustring)            (* self.get('p') in a boolean context *)
| QIsTrue (p : ustring)            (* self.get('p') is True *)
| QIsNotFalse (p : ustring)        (* self.get('p') is not False *)
| QIsNotNone (p : ustring)         (* self.get('p') is not None *)
| QHas (p : ustring)               (* 'p' in self *)
| QLt (a b : ustring)              (* self.get('a') < self.get('b') on timestamps *)
| QLe (a b : ustring)
| QAnd (c1 c2 : ccond) | QOr (c1 c2 : ccond) | QNot (c : ccond).

Inductive errclass :=
| EValueError | EDependentProperties | EPropertyPresence | EInvalidValue
| EAtLeastOne | EMutuallyExclusive | EMissing | EExtra | ECustomContent
| EInvalidSelector | ETLPMarkingDefinition | EOther (name : ustring).

Inductive constr :=
| CAtLeastOne (ps : list ustring)
| CAtLeastOneDefault                     (* _check_at_least_one_property() with the default list *)
| CMutEx (ps : list ustring)             (* _check_mutually_exclusive_properties(ps) (at_least_one=True) *)
| CDepends (ps ds : list ustring)        (* _check_properties_dependency(ps, ds) *)
| CRaiseIf (c : ccond) (e : errclass)
| CWhen (c : ccond) (body : list constr)
| CTlp (v : ver)                         (* check_tlp_marking(self, v) *)
| CPatternValidator (v : ver)            (* run_validator on 'pattern' (an oracle) *)
| CLegalHashes (names : list ustring)    (* v21 ExternalReference: hash names must be in the list *)
| CSocketOptions                         (* v21 SocketExt options check *)
| CProcessExt                            (* Process: at-least-one with the windows-process-ext fallback *)
| CSkipBaseCheck                         (* the override does not call super()._check_object_constraints():
                                            granular-marking selectors are not validated (v20 Indicator) *)
| COpaque (src : ustring).               (* anything the translator does not understand *)

Inductive family := FSdo | FSro | FSco | FExt | FOther.

(* what a class-specific __init__ does to the keyword arguments before the generic constructor *)
Inductive preinit :=
| INone
| IPositional (names : list ustring)     (* positional-to-keyword defaults: Relationship, Sighting, StatementMarking *)
| IIndicatorPatternVersion               (* v21 Indicator: pattern_version defaults to "2.1" for stix patterns *)
| IBundleObjects                         (* Bundle with positional arguments: positional object lists *)
| IMarkingDefinition (v : ver)           (* wrap 'definition' into the registered marking class *)
| IObservedDataWarn                      (* deprecation warning only *)
| IOpaque (src : ustring).

Record cls := {
  cid : ustring;            (* "2.1/Indicator" *)
  cver : ver;
  ctype : option ustring;   (* _type *)
  cfamily : family;
  cslots : list slot;
  ccons : list constr;      (* _check_object_constraints, own part (the base part validates granular markings) *)
  cinit : preinit;
  cidcontrib : list ustring;
  cserialize_tlp : bool     (* serialize() re-checks the TLP instance (MarkingDefinition) *)
}.

Record registry := {
  robjects : list (ustring * ustring);       (* type name -> class id *)
  robservables : list (ustring * ustring);
  rextensions : list (ustring * ustring);
  rmarkings : list (ustring * ustring)
}.

Record world := {
  wclasses : list cls;
  wreg20 : registry;
  wreg21 : registry;
  wtlp20 : list jvalue;     (* the four TLP instances as serialized *)
  wtlp21 : list jvalue
}.

(* Variant parameters (BUILDING.md, "Defects of the unchanged code"): places where the
   pinned code deviates from C02; false = the pinned behaviour, true = the repaired one.
   The harness detects which one the code under test matches, per field.              *)
Record variant := {
  vr_hex_z : bool;        (* HexProperty regex ends in \Z (true) or $ (false: also matches before a final newline) *)
  vr_key_z : bool;        (* dictionary-key regex *)
  vr_sel_z : bool;        (* SELECTOR_REGEX *)
  vr_hash_z : bool;       (* the value regexes of stix2/hashes.py *)
  vr_interop_z : bool;    (* ID_REGEX_interoperability *)
  vr_uuid_canon : bool;   (* _check_uuid insists on the 8-4-4-4-12 text (true) or takes whatever uuid.UUID() takes (false) *)
  vr_year_pad : bool;     (* format_datetime writes years below 1000 with four digits (true; C15) *)
  vr_sel_upper : bool;    (* SELECTOR_REGEX admits A-Z in the segments after the first (true; C08) *)
  vr_ref_flip_unreg : bool;     (* ReferenceProperty inverts a generic whitelist under allow_custom only for
                                   unregistered types (true) or for every type (false; C04) *)
  vr_parse_guard_custom : bool; (* dict_to_stix2 / parse_observable refuse an object that came out customised
                                   when allow_custom=False (true) or return it (false; C04) *)
  vr_ext_scan_guard : bool;     (* _STIXBase.__init__ skips non-mapping `extensions` / entries in its scan and
                                   tolerates a registered class without _toplevel_properties (true; C17) *)
  vr_detect_default : bool;     (* detect_spec_version: a bundle without (or with empty) `objects` is 2.1 (true)
                                   or raises KeyError / ValueError (false; C17) *)
  vr_d2s_ext_guard : bool;      (* dict_to_stix2's extension scan skips non-dict values (true) or crashes (false; C17) *)
  vr_toplevel_needs_slot : bool;(* an UNREGISTERED toplevel-property-extension vouches for extra properties only on a type
                                   that has an `extensions` property (true) or on every type (false; C02) *)
  vr_ext_nonempty : bool;       (* ExtensionsProperty refuses an empty dictionary (true) or lets it through (false; C02) *)
  vr_marking_flag : bool;       (* MarkingProperty.clean reports / refuses the has_custom flag of an already wrapped
                                   marking object (true) or always answers False (false; C04) *)
  vr_flag_from_stored : bool;   (* has_custom counts only custom properties that were stored (true) or every custom
                                   keyword, None / [] included (false; C04) *)
  vr_sock_int : bool;           (* socket-ext `options` values must be integers proper (true) or isinstance(v, int),
                                   which lets True / False through (false; C02) *)
  vr_positional_none : bool;    (* Relationship / Sighting / StatementMarking __init__ drop a named argument only when it
                                   is None (true) or whenever it is falsy, e.g. "" (false; C03) *)
  vr_bundle20_recheck : bool;   (* a 2.0 bundle also refuses a member whose PARSED object carries spec_version (true;
                                   C01) or only looks at the given dictionary (false) *)
  vr_md20_default_ms : bool;    (* v20 MarkingDefinition: the clock default of `created` is kept at millisecond
                                   precision too (true) or only a given `created` is (false) *)
  vr_ext_order_sorted : bool;   (* with an unregistered toplevel-property-extension the extra and custom properties
                                   form one sorted run (true) or a set's iteration order then the sorted custom
                                   names (false: modelled sorted; C01) *)
  vr_b64_strict : bool;         (* BinaryProperty decodes with validate=True: only RFC 4648 base64 text (true) or
                                   whatever the lenient decoder takes, characters outside the alphabet skipped
                                   (false; C02) *)
  vr_detect_notype_parse : bool (* detect_spec_version on a dictionary without `type` (a bundle member): ParseError
                                   (true; 3b082cc) or KeyError (false) *)
}.
Definition variant_pinned : variant :=
  {| vr_hex_z := false; vr_key_z := false; vr_sel_z := false; vr_hash_z := false; vr_interop_z := false; vr_uuid_canon := false; vr_year_pad := false;
     vr_sel_upper := false; vr_ref_flip_unreg := false; vr_parse_guard_custom := false; vr_ext_scan_guard := false;
     vr_detect_default := false; vr_d2s_ext_guard := false; vr_toplevel_needs_slot := false; vr_ext_nonempty := false;
     vr_marking_flag := false; vr_flag_from_stored := false; vr_sock_int := false;
     vr_positional_none := false; vr_bundle20_recheck := false; vr_md20_default_ms := false;
     vr_ext_order_sorted := false; vr_b64_strict := false; vr_detect_notype_parse := false |}.
Definition variant_repaired : variant :=
  {| vr_hex_z := true; vr_key_z := true; vr_sel_z := true; vr_hash_z := true; vr_interop_z := true; vr_uuid_canon := true; vr_year_pad := true;
     vr_sel_upper := true; vr_ref_flip_unreg := true; vr_parse_guard_custom := true; vr_ext_scan_guard := true;
     vr_detect_default := true; vr_d2s_ext_guard := true; vr_toplevel_needs_slot := true; vr_ext_nonempty := true;
     vr_marking_flag := true; vr_flag_from_stored := true; vr_sock_int := true;
     vr_positional_none := true; vr_bundle20_recheck := true; vr_md20_default_ms := true;
     vr_ext_order_sorted := true; vr_b64_strict := true; vr_detect_notype_parse := true |}.

(* What the constructor draws from outside: its clock reading (one per constructor call: microseconds
   since 0001-01-01T00:00:00Z), the text of uuid.uuid4() and the text of the uuid5 of a 2.1 observable's
   contributing properties (abstract here; C06 is about its argument).                              *)
Record env := { e_now : Z; e_uuid4 : ustring; e_uuid5 : ustring }.

Fixpoint find_class (cs : list cls) (id : ustring) : option cls :=
  match cs with
  | [] => None
  | c :: rest => if ustr_eqb (cid c) id then Some c else find_class rest id
  end.

Fixpoint assoc (k : ustring) (m : list (ustring * ustring)) : option ustring :=
  match m with
  | [] => None
  | (k', v) :: rest => if ustr_eqb k k' then Some v else assoc k rest
  end.

Definition reg_of (w : world) (v : ver) : registry := match v with V20 => wreg20 w | V21 => wreg21 w end.

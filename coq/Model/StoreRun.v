(* Model/StoreRun.v -- histories: a store after a sequence of single-object
   additions, each call's exception (if any) ignored by the caller, as a
   program that keeps using the store does.  No proofs.                        *)
From Coq Require Import NArith ZArith List String Bool.
From V Require Import Base.UString Model.Store.
Import ListNotations.
Open Scope list_scope.

Section Run.
  Variable mode : text_mode.
  Variable iot : ustring -> option Z.
  Variable ts2fn : Z -> ustring.

  Definition madd (m : mem) (o : obj) : mem := fst (mem_add1 mode iot o m).
  Definition mem_run (L : list obj) : mem := fold_left madd L [].
  (* the outcomes of the calls, in order *)
  Fixpoint mem_outcomes (L : list obj) (m : mem) : list (option err) :=
    match L with
    | [] => []
    | o :: r => snd (mem_add1 mode iot o m) :: mem_outcomes r (madd m o)
    end.

  Definition fadd (s : fs) (o : obj) : fs := fst (fs_add1 mode iot ts2fn o s).
  Definition fs_run (L : list obj) : fs := fold_left fadd L [].
  Fixpoint fs_outcomes (L : list obj) (s : fs) : list (option err) :=
    match L with
    | [] => []
    | o :: r => snd (fs_add1 mode iot ts2fn o s) :: fs_outcomes r (fadd s o)
    end.

  (* one add() call in any of the input forms (segments), from a given state,
     then the next call, ... *)
  Definition mem_calls (calls : list (list segment)) : mem :=
    fold_left (fun m segs => fst (mem_add_segs mode iot segs m)) calls [].
  Definition fs_calls (calls : list (list segment)) : fs :=
    fold_left (fun s segs => fst (fs_add_segs mode iot ts2fn segs s)) calls [].

  (* what a call hands to the store before its first exception: the items of
     the segments in order up to the first item that is not an object *)
  Fixpoint goods_prefix (its : list item) : list obj * bool :=   (* (objects, reached the end) *)
    match its with
    | [] => ([], true)
    | Good o :: r => let (l, b) := goods_prefix r in (o :: l, b)
    | _ :: _ => ([], false)
    end.
  Definition call_items (segs : list segment) : list item := flat_map snd segs.
End Run.

(* Model/ScoIdRun.v -- the model of Model/ScoId.v bound to the tables regenerated
   from /repo (Gen/ScoIdTables.v): registry lookup of the observable type, its
   _id_contributing_properties, the preference chain of _choose_one_hash.
   Entry points of the correspondence run.  No proofs here.                     *)
From Coq Require Import String NArith List.
From V Require Import Base.UString Base.Json Model.JcsText Model.Jcs Model.ScoId Gen.ScoIdTables.
Import ListNotations.

Definition sco_types : list ustring := map fst gen_sco_table.
Definition sco_contrib (ty : ustring) : option (list ustring) := plookup ty gen_sco_table.

(* uuid5 := identity: the harness applies Python's uuid5 to the data string *)
Definition run_id (hp : hash_pick) (ty : ustring) (obj : list (ustring * pval)) : string :=
  match sco_contrib ty with
  | Some c => show_id_result (gen_id (fun d => d) gen_hash_prefs hp ty c obj)
  | None => "NOTYPE"%string
  end.

(* stix2/custom.py : _custom_observable_builder -- `if id_contrib_props is None: id_contrib_props = []`,
   then the class attribute _id_contributing_properties = id_contrib_props *)
Definition custom_contrib (given : option (list ustring)) : list ustring :=
  match given with None => [] | Some l => l end.

Definition run_id_custom (hp : hash_pick) (ty : ustring) (given : option (list ustring)) (obj : list (ustring * pval)) : string :=
  show_id_result (gen_id (fun d => d) gen_hash_prefs hp ty (custom_contrib given) obj).

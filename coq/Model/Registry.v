(* Model/Registry.v -- executable model of custom type registration
   (property C19).  No proofs here.

   Mirrors, branch by branch:
     stix2/properties.py    _validate_type, TYPE_REGEX, TYPE_21_REGEX
     stix2/utils.py         PREFIX_21_REGEX, detect_spec_version (non-bundle part)
     stix2/registration.py  _validate_props, _validate_ref_props, _register_object,
                            _register_observable, _register_marking, _register_extension
     stix2/custom.py        _custom_object_builder, _custom_observable_builder,
                            _custom_marking_builder, _custom_extension_builder
     stix2/v20/sdo.py, v21/sdo.py, v20/observables.py, v21/observables.py,
     v20/common.py, v21/common.py   the Custom* decorators (property lists
                            assembled around the user's; `extension_name=`)
     stix2/registry.py      STIX2_OBJ_MAPS, class_for_type
     stix2/parsing.py       dict_to_stix2, parse_observable (the dispatch part)
     v2x/common.py          MarkingDefinition.__init__ (OBJ_MAP_MARKING lookup)
     stix2/properties.py    ExtensionsProperty.clean (the dispatch part)

   Python `re.match(R, s)` is restated per regex as a structurally recursive
   recogniser.  `$` (no MULTILINE flag) matches at the very end and also just
   before a newline that is the last character; `\Z` only at the very end:
   that is the `end_mode` parameter.  The regex texts these recognisers stand
   for are listed in `known_*_texts` below and tied to the current source by
   Gen/Regexes.v + the obligations of Props/C19.v.                           *)
From Coq Require Import NArith List String Bool Arith.
From V Require Export Base.UString.
Import ListNotations.
Open Scope N_scope.

(* ------------------------------------------------------------------ *)
(* variants (DESIGN 2.3)                                               *)

Inductive end_mode := Dollar | Strict.            (* `$` vs `\Z` *)
Inductive prop_mode := FirstCharOnly | FullRule.  (* _validate_props as found vs with the naming rule *)
Inductive hyphen_mode := AnyHyphens | SingleHyphens.  (* TYPE_21_REGEX as found admits "--"; repaired: single hyphens *)
Inductive extid_mode := ViaTypeRegex | OwnRegex.  (* 2.1 `extension-definition--...` names: through _validate_type, or
                                                     through EXTENSION_DEFINITION_ID_REGEX of the repaired _register_extension *)

Record variant := { end20 : end_mode; end21 : end_mode; pmode : prop_mode; hyph21 : hyphen_mode; extid : extid_mode }.

Definition as_found : variant :=
  {| end20 := Dollar; end21 := Dollar; pmode := FirstCharOnly; hyph21 := AnyHyphens; extid := ViaTypeRegex |}.
Definition repaired : variant :=
  {| end20 := Strict; end21 := Strict; pmode := FullRule; hyph21 := SingleHyphens; extid := OwnRegex |}.

(* ------------------------------------------------------------------ *)
(* character classes                                                   *)

Definition is_lower (c : N) : bool := (97 <=? c) && (c <=? 122).     (* [a-z] *)
Definition is_digit (c : N) : bool := (48 <=? c) && (c <=? 57).      (* [0-9] *)
Definition is_alnum (c : N) : bool := is_lower c || is_digit c.      (* [a-z0-9] *)
Definition is_hyphen (c : N) : bool := c =? 45.
Definition is_newline (c : N) : bool := c =? 10.
Definition is_type_char (c : N) : bool := is_alnum c || is_hyphen c. (* [a-z0-9-] *)
Definition is_prop_char (c : N) : bool := is_alnum c || (c =? 95).   (* [a-z0-9_] *)

Definition is_nil {A} (l : list A) : bool := match l with [] => true | _ => false end.
Definition dollar (m : end_mode) : bool := match m with Dollar => true | Strict => false end.

(* ------------------------------------------------------------------ *)
(* `$` without the MULTILINE flag: "matches at the end of the string or just
   before the newline at the end of the string"; `\Z`: only at the end.  So
   re.match(R$, s) succeeds iff s itself, or s without its final newline, is
   in the language of R.                                                     *)
Fixpoint strip_nl (s : ustring) : option ustring :=     (* Some w  iff  s = w ++ "\n" *)
  match s with
  | [] => None
  | c :: t => match t with
              | [] => if is_newline c then Some [] else None
              | _ :: _ => match strip_nl t with Some w => Some (c :: w) | None => None end
              end
  end.

Definition with_end (m : end_mode) (lang : ustring -> bool) (s : ustring) : bool :=
  lang s || (dollar m && match strip_nl s with Some w => lang w | None => false end).

(* TYPE_REGEX  ^-?[a-z0-9]+(-[a-z0-9]+)*-?  as a four-state automaton *)

Inductive st20 :=
| Q0     (* nothing read *)
| QLead  (* the optional leading hyphen read, a run must follow *)
| QRun   (* inside a run [a-z0-9]+ *)
| QHyp.  (* a hyphen after a run: either the start of `-[a-z0-9]+` or the final `-?` *)

Definition accepting20 (q : st20) : bool := match q with QRun | QHyp => true | _ => false end.

Fixpoint lang20_from (q : st20) (s : ustring) : bool :=
  match s with
  | [] => accepting20 q
  | c :: t =>
      if is_alnum c then lang20_from QRun t
      else if is_hyphen c then
        match q with
        | Q0 => lang20_from QLead t
        | QRun => lang20_from QHyp t
        | _ => false
        end
      else false
  end.

Definition lang20 (s : ustring) : bool := lang20_from Q0 s.
Definition re_type20 (m : end_mode) (s : ustring) : bool := with_end m lang20 s.

(* TYPE_21_REGEX (text in known_type21_texts below: one or more groups "a
   letter then letters/digits", then any number of groups over [a-z0-9-], then
   an optional hyphen): a letter, then any characters of [a-z0-9-] -- the
   first group can stop after the first letter and the second group takes
   any mixture of the three classes.                                          *)
Definition lang21_any (s : ustring) : bool :=
  match s with
  | [] => false
  | c :: t => is_lower c && forallb is_type_char t
  end.

(* repaired TYPE_21_REGEX  ^[a-z][a-z0-9]*(-[a-z0-9]+)*-?  : a letter, after which the
   automaton of TYPE_REGEX continues from inside its first run *)
Definition lang21_single (s : ustring) : bool :=
  match s with
  | [] => false
  | c :: t => is_lower c && lang20_from QRun t
  end.

Definition lang21 (h : hyphen_mode) : ustring -> bool :=
  match h with AnyHyphens => lang21_any | SingleHyphens => lang21_single end.

Definition re_type21 (m : end_mode) (h : hyphen_mode) (s : ustring) : bool := with_end m (lang21 h) s.

(* PREFIX_21_REGEX  ^[a-z].*  -- `.*` takes whatever follows (match, not fullmatch) *)
Definition re_prefix21 (s : ustring) : bool :=
  match s with
  | [] => false
  | c :: _ => is_lower c
  end.

(* PROPERTY_NAME_REGEX (repaired variant only)  ^[a-z0-9_]{3,250}\Z *)
Definition re_propname (s : ustring) : bool :=
  forallb is_prop_char s && (3 <=? List.length s)%nat && (List.length s <=? 250)%nat.

(* the texts these recognisers restate *)
Open Scope string_scope.
Definition known_type20_texts : list (string * end_mode) :=
  [ ("^-?[a-z0-9]+(-[a-z0-9]+)*-?$", Dollar);
    ("^-?[a-z0-9]+(-[a-z0-9]+)*-?\Z", Strict) ].
Definition known_type21_texts : list (string * (end_mode * hyphen_mode)) :=
  [ ("^([a-z][a-z0-9]*)+([a-z0-9-]+)*-?$", (Dollar, AnyHyphens));
    ("^([a-z][a-z0-9]*)+([a-z0-9-]+)*-?\Z", (Strict, AnyHyphens));
    ("^[a-z][a-z0-9-]*$", (Dollar, AnyHyphens));
    ("^[a-z][a-z0-9-]*\Z", (Strict, AnyHyphens));
    ("^[a-z][a-z0-9]*(-[a-z0-9]+)*-?$", (Dollar, SingleHyphens));
    ("^[a-z][a-z0-9]*(-[a-z0-9]+)*-?\Z", (Strict, SingleHyphens)) ].
Definition known_prefix21_texts : list string := [ "^[a-z].*" ].
Definition known_propname_texts : list (option string * prop_mode) :=
  [ (None, FirstCharOnly);
    (Some "^[a-z0-9_]{3,250}\Z", FullRule) ].
Definition known_extid_texts : list (option string * extid_mode) :=
  [ (None, ViaTypeRegex);
    (Some "^extension-definition--[a-z0-9-]*\Z", OwnRegex) ].

Fixpoint assoc_str {A} (k : string) (l : list (string * A)) : option A :=
  match l with
  | [] => None
  | (k', a) :: r => if String.eqb k k' then Some a else assoc_str k r
  end.

Definition opt_str_eqb (a b : option string) : bool :=
  match a, b with
  | None, None => true
  | Some x, Some y => String.eqb x y
  | _, _ => false
  end.

Fixpoint assoc_optstr {A} (k : option string) (l : list (option string * A)) : option A :=
  match l with
  | [] => None
  | (k', a) :: r => if opt_str_eqb k k' then Some a else assoc_optstr k r
  end.

(* which variant a set of regex texts denotes (None: a text the recognisers were not written for) *)
Definition variant_of_texts (t20 t21 pfx : string) (pname extidt : option string) : option variant :=
  match assoc_str t20 known_type20_texts, assoc_str t21 known_type21_texts,
        existsb (String.eqb pfx) known_prefix21_texts, assoc_optstr pname known_propname_texts,
        assoc_optstr extidt known_extid_texts with
  | Some e20, Some (e21, h21), true, Some pm, Some xm =>
      Some {| end20 := e20; end21 := e21; pmode := pm; hyph21 := h21; extid := xm |}
  | _, _, _, _, _ => None
  end.
Close Scope string_scope.

(* ------------------------------------------------------------------ *)
(* _validate_type                                                      *)

Inductive version := V20 | V21.

Definition version_eqb (a b : version) : bool :=
  match a, b with V20, V20 | V21, V21 => true | _, _ => false end.

Definition type_len_min : nat := 3.
Definition type_len_max : nat := 250.

(* if spec_version == "2.0": TYPE_REGEX else TYPE_21_REGEX; then the length test *)
Definition validate_type (vt : variant) (V : version) (s : ustring) : bool :=
  (match V with
   | V20 => re_type20 (end20 vt) s
   | V21 => re_type21 (end21 vt) (hyph21 vt) s
   end)
  && (type_len_min <=? List.length s)%nat && (List.length s <=? type_len_max)%nat.

(* ------------------------------------------------------------------ *)
(* _validate_props / _validate_ref_props                               *)

(* what registration looks at in a Property instance *)
Inductive propkind :=
| KPlain        (* any property that is neither a reference nor a list *)
| KRef          (* ReferenceProperty *)
| KRefList      (* ListProperty(ReferenceProperty) *)
| KObjRef       (* ObjectReferenceProperty *)
| KObjRefList   (* ListProperty(ObjectReferenceProperty) *)
| KListPlain.   (* ListProperty of anything else *)

Definition propkind_eqb (a b : propkind) : bool :=
  match a, b with
  | KPlain, KPlain | KRef, KRef | KRefList, KRefList | KObjRef, KObjRef
  | KObjRefList, KObjRefList | KListPlain, KListPlain => true
  | _, _ => false
  end.

Definition id_name : ustring := [105; 100].                           (* "id" *)

Definition validate_prop_name (vt : variant) (V : version) (s : ustring) : bool :=
  (match V with V20 => true | V21 => re_prefix21 s end)                (* if version != "2.0": PREFIX_21_REGEX *)
  && (match pmode vt with
      | FirstCharOnly => true
      | FullRule => ustr_eqb s id_name || re_propname s                (* the repaired tree's extra loop *)
      end).

(* prop_name.rsplit("_", 1)[-1] : what follows the last underscore (everything if there is none) *)
Fixpoint tail_us (s : ustring) : ustring :=
  match s with
  | [] => []
  | c :: t => if existsb (N.eqb 95) t then tail_us t
              else if c =? 95 then t else c :: t
  end.

Definition s_ref : ustring := [114; 101; 102].            (* "ref" *)
Definition s_refs : ustring := [114; 101; 102; 115].      (* "refs" *)

Definition ref_ok (obs20 : bool) (name : ustring) (k : propkind) : bool :=
  let tl := tail_us name in
  if ustr_eqb tl s_ref then propkind_eqb k (if obs20 then KObjRef else KRef)
  else if ustr_eqb tl s_refs then propkind_eqb k (if obs20 then KObjRefList else KRefList)
  else true.

Definition propmap := list (ustring * propkind).     (* an insertion-ordered dict *)

Fixpoint dict_set (d : propmap) (k : ustring) (v : propkind) : propmap :=
  match d with
  | [] => [(k, v)]
  | (k', v') :: r => if ustr_eqb k k' then (k', v) :: r else (k', v') :: dict_set r k v
  end.

(* OrderedDict(pairs) / d.update(pairs) *)
Definition dict_update (d : propmap) (pairs : list (ustring * propkind)) : propmap :=
  fold_left (fun acc kv => dict_set acc (fst kv) (snd kv)) pairs d.
Definition dict_of_pairs (pairs : list (ustring * propkind)) : propmap := dict_update [] pairs.

Definition validate_props (vt : variant) (V : version) (obs20 : bool) (d : propmap) : bool :=
  forallb (fun kv => validate_prop_name vt V (fst kv)) d
  && forallb (fun kv => ref_ok obs20 (fst kv) (snd kv)) d.

(* ------------------------------------------------------------------ *)
(* the registry                                                        *)

Inductive category := Objects | Observables | Markings | Extensions.

Definition category_eqb (a b : category) : bool :=
  match a, b with
  | Objects, Objects | Observables, Observables | Markings, Markings | Extensions, Extensions => true
  | _, _ => false
  end.

Definition classid := ustring.                       (* "<module>.<class name>" *)

Record entry := { e_ver : version; e_cat : category; e_name : ustring; e_cls : classid }.

(* STIX2_OBJ_MAPS[version][category][name]; entries in registration order *)
Definition registry := list entry.

Definition entry_at (V : version) (c : category) (n : ustring) (e : entry) : bool :=
  version_eqb V (e_ver e) && category_eqb c (e_cat e) && ustr_eqb n (e_name e).

Fixpoint lookup (r : registry) (V : version) (c : category) (n : ustring) : option classid :=
  match r with
  | [] => None
  | e :: r' => if entry_at V c n e then Some (e_cls e) else lookup r' V c n
  end.

Inductive exn := EValue | EDuplicate | EIndex | EParse | ECustomContent.

Inductive result (A : Type) := Ok (a : A) | Raise (e : exn).
Arguments Ok {A} a.
Arguments Raise {A} e.

(* `if name in MAP.keys(): raise DuplicateRegistrationError` / `MAP[name] = cls` *)
Definition reg_insert (r : registry) (V : version) (c : category) (n : ustring) (cls : classid) : result registry :=
  match lookup r V c n with
  | Some _ => Raise EDuplicate
  | None => Ok (r ++ [ {| e_ver := V; e_cat := c; e_name := n; e_cls := cls |} ])
  end.

(* ------------------------------------------------------------------ *)
(* the property lists the decorators assemble                          *)

Definition plain (s : string) : ustring * propkind := (u s, KPlain).

Definition sdo21_pre : list (ustring * propkind) :=
  [ plain "type"; plain "spec_version"; plain "id"; (u "created_by_ref", KRef); plain "created"; plain "modified" ].
Definition sdo21_post : list (ustring * propkind) :=
  [ plain "revoked"; (u "labels", KListPlain); plain "confidence"; plain "lang";
    (u "external_references", KListPlain); (u "object_marking_refs", KRefList);
    (u "granular_markings", KListPlain); plain "extensions" ].
Definition sdo20_pre : list (ustring * propkind) :=
  [ plain "type"; plain "id"; (u "created_by_ref", KRef); plain "created"; plain "modified" ].
Definition sdo20_post : list (ustring * propkind) :=
  [ plain "revoked"; (u "labels", KListPlain); (u "external_references", KListPlain);
    (u "object_marking_refs", KRefList); (u "granular_markings", KListPlain) ].
Definition sco21_pre : list (ustring * propkind) := [ plain "type"; plain "spec_version"; plain "id" ].
Definition sco21_post : list (ustring * propkind) :=
  [ (u "object_marking_refs", KRefList); (u "granular_markings", KListPlain); plain "defanged"; plain "extensions" ].
Definition sco20_pre : list (ustring * propkind) := [ plain "type" ].
Definition sco20_post : list (ustring * propkind) := [ plain "extensions" ].

Definition x_prefix : ustring := [120; 95].           (* "x_" *)
Definition starts_x (kv : ustring * propkind) : bool := ustr_prefix x_prefix (fst kv).

(* CustomObject.wrapper: standard ++ [non x_] ++ standard ++ sorted([x_ ...]).
   The sort is stable and keyed by the name, so which occurrence of a repeated
   name comes last -- all that OrderedDict(...) keeps of it -- is unchanged;
   the model leaves the x_ properties in the user's order.                   *)
Definition object_props (V : version) (user : list (ustring * propkind)) : list (ustring * propkind) :=
  let nonx := filter (fun kv => negb (starts_x kv)) user in
  let xs := filter starts_x user in
  match V with
  | V20 => sdo20_pre ++ nonx ++ sdo20_post ++ xs
  | V21 => sdo21_pre ++ nonx ++ sdo21_post ++ xs
  end.

Definition observable_props (V : version) (user : list (ustring * propkind)) : list (ustring * propkind) :=
  match V with
  | V20 => sco20_pre ++ user ++ sco20_post
  | V21 => sco21_pre ++ user ++ sco21_post
  end.

(* ------------------------------------------------------------------ *)
(* _register_*                                                         *)

Definition register_object (vt : variant) (r : registry) (V : version) (n : ustring) (d : propmap) (cls : classid)
  : result registry :=
  if negb (validate_props vt V false d) then Raise EValue
  else reg_insert r V Objects n cls.

Definition register_observable (vt : variant) (r : registry) (V : version) (n : ustring) (d : propmap) (cls : classid)
  : result registry :=
  if negb (validate_props vt V (version_eqb V V20) d) then Raise EValue
  else reg_insert r V Observables n cls.

Definition register_marking (vt : variant) (r : registry) (V : version) (n : ustring) (d : propmap) (cls : classid)
  : result registry :=
  if negb (validate_type vt V n) then Raise EValue
  else if negb (validate_props vt V false d) then Raise EValue
  else reg_insert r V Markings n cls.

Fixpoint ustr_suffix (suf s : ustring) : bool :=
  ustr_eqb suf s || match s with [] => false | _ :: t => ustr_suffix suf t end.

Definition s_dash_ext : ustring := [45; 101; 120; 116].                                 (* "-ext" *)
Definition s_extdef : ustring :=                                                        (* "extension-definition--" *)
  [101;120;116;101;110;115;105;111;110;45;100;101;102;105;110;105;116;105;111;110;45;45].
Definition s_extension_type : ustring := [101;120;116;101;110;115;105;111;110;95;116;121;112;101].  (* "extension_type" *)

(* the first check of _register_extension.  As found: _validate_type.  Repaired
   (proposed_fixes/C19-type-name-double-hyphen-21.diff): in 2.1 a name that starts
   with "extension-definition--" is matched against EXTENSION_DEFINITION_ID_REGEX
   (^extension-definition--[a-z0-9-]*\Z) and may be at most 250 characters long;
   every other name goes through _validate_type                                *)
Definition validate_ext_name (vt : variant) (V : version) (n : ustring) : bool :=
  match extid vt, V with
  | OwnRegex, V21 =>
      if ustr_prefix s_extdef n
      then forallb is_type_char (skipn (List.length s_extdef) n) && (List.length n <=? type_len_max)%nat
      else validate_type vt V n
  | _, _ => validate_type vt V n
  end.

(* class attribute `extension_type` of the decorated class *)
Inductive exttype := XNewSdo | XNewSco | XNewSro | XPropertyExt | XToplevel.

(* _custom_extension_builder + _register_extension *)
Definition register_extension (vt : variant) (r : registry) (V : version) (n : ustring)
           (xt : option exttype) (user : list (ustring * propkind)) (cls : classid) : result registry :=
  let props := dict_of_pairs user in
  let nested := match xt with
                | None => props
                | Some XToplevel => [(s_extension_type, KPlain)]
                | Some _ => dict_update [(s_extension_type, KPlain)] props
                end in
  let toplevel := match xt with Some XToplevel => Some props | _ => None end in
  if negb (validate_ext_name vt V n) then Raise EValue
  else if version_eqb V V21 && negb (ustr_suffix s_dash_ext n || ustr_prefix s_extdef n) then Raise EValue
  else if is_nil nested || match toplevel with Some [] => true | _ => false end then Raise EValue
  else
    let combined := dict_update nested (match toplevel with Some t => t | None => [] end) in
    if negb (validate_props vt V false combined) then Raise EValue
    else reg_insert r V Extensions n cls.

(* ------------------------------------------------------------------ *)
(* the decorators                                                      *)

(* text between the first and the second "--" : extension_name.split('--')[1] *)
Fixpoint until_dd (s : ustring) : ustring :=
  match s with
  | [] => []
  | c :: t => match t with
              | c2 :: _ => if is_hyphen c && is_hyphen c2 then [] else c :: until_dd t
              | [] => [c]
              end
  end.

Fixpoint after_dd (s : ustring) : option ustring :=
  match s with
  | [] => None
  | c :: t => match t with
              | c2 :: t2 => if is_hyphen c && is_hyphen c2 then Some t2 else after_dd t
              | [] => None
              end
  end.

Definition split_dd_1 (s : ustring) : option ustring :=
  match after_dd s with Some rest => Some (until_dd rest) | None => None end.

Definition s_custom_mod : ustring := u "stix2.custom.".
Definition s_extdef_cls : ustring := u "stix2.custom.ExtensionDefinition".
Definition s_nameext_cls : ustring := u "stix2.custom.NameExtension".

(* class of the extension that `extension_name=` registers: its __name__ is
   rewritten after registration when the name has a "--"                     *)
Definition extname_class (extname : ustring) : classid :=
  match split_dd_1 extname with
  | Some seg => s_extdef_cls ++ filter (fun c => negb (is_hyphen c)) seg
  | None => s_nameext_cls
  end.

Record regreq := {
  r_kind : category;                          (* which decorator *)
  r_ver : version;                            (* from stix2.v20 or stix2.v21 *)
  r_name : ustring;                           (* type= *)
  r_props : list (ustring * propkind);        (* properties= *)
  r_cls : classid;                            (* stix2.custom.<name of the decorated class> *)
  r_exttype : option exttype;                 (* CustomExtension: class attribute extension_type *)
  r_extname : option ustring                  (* v21 CustomObject/CustomObservable: extension_name= *)
}.

Inductive outcome := Done | Failed (e : exn).

(* `if extension_name:` block of the v21 CustomObject / CustomObservable wrappers *)
Definition with_extension_name (vt : variant) (r : registry) (V : version) (extname : option ustring) (xt : exttype)
  : registry * outcome :=
  match V, extname with
  | V21, Some (c :: en) =>
      let en := c :: en in
      match register_extension vt r V21 en (Some xt) [] (extname_class en) with
      | Raise e => (r, Failed e)
      | Ok r1 => match split_dd_1 en with
                 | None => (r1, Failed EIndex)           (* registered, then split('--')[1] fails *)
                 | Some _ => (r1, Done)
                 end
      end
  | _, _ => (r, Done)                                    (* v20 has no such parameter; None / "" are falsy *)
  end.

Definition finish (r0 : registry) (x : result registry) : registry * outcome :=
  match x with Ok r1 => (r1, Done) | Raise e => (r0, Failed e) end.

Definition decorate (vt : variant) (r : registry) (q : regreq) : registry * outcome :=
  let V := r_ver q in
  match r_kind q with
  | Objects =>
      (* TypeProperty(type, spec_version) validates the name first *)
      if negb (validate_type vt V (r_name q)) then (r, Failed EValue)
      else match with_extension_name vt r V (r_extname q) XNewSdo with
           | (r1, Failed e) => (r1, Failed e)
           | (r1, Done) =>
               finish r1 (register_object vt r1 V (r_name q) (dict_of_pairs (object_props V (r_props q))) (r_cls q))
           end
  | Observables =>
      if negb (validate_type vt V (r_name q)) then (r, Failed EValue)
      else match with_extension_name vt r V (r_extname q) XNewSco with
           | (r1, Failed e) => (r1, Failed e)
           | (r1, Done) =>
               finish r1 (register_observable vt r1 V (r_name q) (dict_of_pairs (observable_props V (r_props q))) (r_cls q))
           end
  | Markings => finish r (register_marking vt r V (r_name q) (dict_of_pairs (r_props q)) (r_cls q))
  | Extensions => finish r (register_extension vt r V (r_name q) (r_exttype q) (r_props q) (r_cls q))
  end.

(* ------------------------------------------------------------------ *)
(* lookups: class_for_type, parse dispatch                             *)

Definition version_of (s : ustring) : option version :=
  if ustr_eqb s [50; 46; 48] then Some V20
  else if ustr_eqb s [50; 46; 49] then Some V21
  else None.

Definition category_of (s : ustring) : option category :=
  if ustr_eqb s (u "objects") then Some Objects
  else if ustr_eqb s (u "observables") then Some Observables
  else if ustr_eqb s (u "markings") then Some Markings
  else if ustr_eqb s (u "extensions") then Some Extensions
  else None.

Definition orelse {A} (a b : option A) : option A := match a with Some _ => a | None => b end.

(* registry.class_for_type(stix_type, stix_version, category=None) *)
Definition class_for_type (r : registry) (n : ustring) (ver : ustring) (cat : option ustring) : option classid :=
  match version_of ver with
  | None => None                                             (* STIX2_OBJ_MAPS.get(version) is None *)
  | Some V =>
      match cat with
      | Some (c :: cs) =>                                    (* `if category:` *)
          match category_of (c :: cs) with
          | Some k => lookup r V k n
          | None => None                                     (* cat_map.get(category) is None *)
          end
      | _ =>
          orelse (lookup r V Objects n) (orelse (lookup r V Observables n)
                 (orelse (lookup r V Markings n) (lookup r V Extensions n)))
      end
  end.

Definition s_bundle : ustring := u "bundle".
Definition s_v20 : ustring := [50; 46; 48].
Definition s_v21 : ustring := [50; 46; 49].

(* what a lookup operation shows *)
Inductive dispatch :=
| DClass (c : classid)      (* an instance of c is built (or c's constructor refuses the body) *)
| DNone                     (* class_for_type returned None *)
| DDict                     (* the dictionary is handed back as it is *)
| DExc (e : exn)
| DUnmodelled.              (* outside the modelled part (bundle version detection) *)

(* utils.detect_spec_version for a non-bundle dictionary *)
Definition detect_spec_version (r : registry) (n : ustring) (specv : option ustring) (has_id : bool) : option ustring :=
  match specv with
  | Some v => if ustr_eqb n s_bundle then Some s_v20 else Some v
  | None =>
      if negb has_id then Some s_v20
      else if ustr_eqb n s_bundle then None
      else match lookup r V21 Observables n with
           | Some _ => Some s_v21
           | None => Some s_v20
           end
  end.

Fixpoint ustr_infix (p s : ustring) : bool :=
  ustr_prefix p s || match s with [] => false | _ :: t => ustr_infix p t end.

Definition s_property_extension : ustring := u "property-extension".

(* one member of the body's `extensions` dictionary: key and its extension_type ("" if absent) *)
Definition ext_member := (ustring * ustring)%type.

(* the loop of dict_to_stix2 that lets unregistered new-object extensions through *)
Definition loophole (exts : list ext_member) : bool :=
  existsb (fun kv => ustr_prefix s_extdef (fst kv) && negb (ustr_infix s_property_extension (snd kv))) exts.

Definition effective_version (r : registry) (n : ustring) (specv : option ustring) (has_id : bool)
           (version : option ustring) : option ustring :=
  match version with
  | Some (c :: v) => Some (c :: v)                          (* `if not version:` *)
  | _ => detect_spec_version r n specv has_id
  end.

(* parsing.dict_to_stix2 *)
Definition parse_dispatch (r : registry) (n : ustring) (specv : option ustring) (has_id : bool)
           (version : option ustring) (allow_custom : bool) (exts : list ext_member) : dispatch :=
  match effective_version r n specv has_id version with
  | None => DUnmodelled
  | Some v =>
      match orelse (class_for_type r n v (Some (u "objects"))) (class_for_type r n v (Some (u "observables"))) with
      | Some c => DClass c
      | None => if allow_custom then DDict
                else if loophole exts then DDict
                else DExc EParse
      end
  end.

(* parsing.parse_observable *)
Definition parse_observable_dispatch (r : registry) (n : ustring) (specv : option ustring) (has_id : bool)
           (version : option ustring) (allow_custom : bool) : dispatch :=
  match effective_version r n specv has_id version with
  | None => DUnmodelled
  | Some v =>
      match class_for_type r n v (Some (u "observables")) with
      | Some c => DClass c
      | None => if allow_custom then DDict else DExc EParse
      end
  end.

(* MarkingDefinition.__init__ of version V: OBJ_MAP_MARKING[definition_type] *)
Definition marking_dispatch (r : registry) (V : version) (n : ustring) : dispatch :=
  match lookup r V Markings n with
  | Some c => DClass c
  | None => DExc EValue
  end.

(* ExtensionsProperty(spec_version=V).clean for one key whose value is a dict;
   uuid_ok: the text after "extension-definition--" is a UUID the version accepts *)
Definition extension_dispatch (r : registry) (V : version) (n : ustring) (allow_custom uuid_ok : bool) : dispatch :=
  match lookup r V Extensions n with
  | Some c => DClass c
  | None =>
      if ustr_prefix s_extdef n then (if uuid_ok then DDict else DExc EValue)
      else if allow_custom then DDict
      else DExc ECustomContent
  end.

(* ------------------------------------------------------------------ *)
(* histories                                                           *)

Inductive op :=
| Register (q : regreq)
| ClassForType (n ver : ustring) (cat : option ustring)
| Parse (n : ustring) (specv : option ustring) (has_id : bool) (version : option ustring) (allow_custom : bool)
        (exts : list ext_member)
| ParseObservable (n : ustring) (specv : option ustring) (has_id : bool) (version : option ustring) (allow_custom : bool)
| MarkingDispatch (V : version) (n : ustring)
| ExtensionDispatch (V : version) (n : ustring) (allow_custom uuid_ok : bool).

Inductive observation :=
| ORegistered (o : outcome)
| OLookup (d : dispatch).

Definition step (vt : variant) (r : registry) (o : op) : registry * observation :=
  match o with
  | Register q => let (r', out) := decorate vt r q in (r', ORegistered out)
  | ClassForType n ver cat =>
      (r, OLookup match class_for_type r n ver cat with Some c => DClass c | None => DNone end)
  | Parse n specv has_id version ac exts => (r, OLookup (parse_dispatch r n specv has_id version ac exts))
  | ParseObservable n specv has_id version ac => (r, OLookup (parse_observable_dispatch r n specv has_id version ac))
  | MarkingDispatch V n => (r, OLookup (marking_dispatch r V n))
  | ExtensionDispatch V n ac ok => (r, OLookup (extension_dispatch r V n ac ok))
  end.

Fixpoint run (vt : variant) (r : registry) (ops : list op) : registry * list observation :=
  match ops with
  | [] => (r, [])
  | o :: rest =>
      let (r1, ob) := step vt r o in
      let (r2, obs) := run vt r1 rest in
      (r2, ob :: obs)
  end.

Definition state_after (vt : variant) (r : registry) (ops : list op) : registry := fst (run vt r ops).

(* ------------------------------------------------------------------ *)
(* the initial registry from the generated rows                        *)

Definition entry_of_row (row : string * string * string * string) : option entry :=
  let '(v, c, n, cls) := row in
  match version_of (u v), category_of (u c) with
  | Some V, Some k => Some {| e_ver := V; e_cat := k; e_name := u n; e_cls := u cls |}
  | _, _ => None
  end.

Fixpoint registry_of_rows (rows : list (string * string * string * string)) : option registry :=
  match rows with
  | [] => Some []
  | row :: rest =>
      match entry_of_row row, registry_of_rows rest with
      | Some e, Some r => Some (e :: r)
      | _, _ => None
      end
  end.

(* no (version, category, name) listed twice *)
Fixpoint keys_distinct (r : registry) : bool :=
  match r with
  | [] => true
  | e :: r' => negb (existsb (entry_at (e_ver e) (e_cat e) (e_name e)) r') && keys_distinct r'
  end.

(* ------------------------------------------------------------------ *)
(* rendering (one line per history)                                    *)

Open Scope string_scope.
Definition show_exn (e : exn) : string :=
  match e with
  | EValue => "ValueError"
  | EDuplicate => "DuplicateRegistrationError"
  | EIndex => "IndexError"
  | EParse => "ParseError"
  | ECustomContent => "CustomContentError"
  end.

Definition show_observation (o : observation) : string :=
  match o with
  | ORegistered Done => "ok"
  | ORegistered (Failed e) => "exc:" ++ show_exn e
  | OLookup (DClass c) => "cls:" ++ show_ustr c
  | OLookup DNone => "none"
  | OLookup DDict => "dict"
  | OLookup (DExc e) => "exc:" ++ show_exn e
  | OLookup DUnmodelled => "UNMODELLED"
  end.

Definition show_history (vt : variant) (r : registry) (ops : list op) : string :=
  String.concat "|" (map show_observation (snd (run vt r ops))).

(* one line for a name: type 2.0, type 2.1, property 2.0, property 2.1 *)
Definition show_name_verdicts (vt : variant) (s : ustring) : string :=
  show_bool (validate_type vt V20 s) ++ " " ++ show_bool (validate_type vt V21 s) ++ " "
  ++ show_bool (validate_prop_name vt V20 s) ++ " " ++ show_bool (validate_prop_name vt V21 s).
Close Scope string_scope.

(* Model/PyBase.v -- the Python-level helpers the schema interpreter needs:
   results, truthiness, int()/str() on JSON kinds, the regular-expression
   recognisers of stix2/properties.py and stix2/hashes.py (each reproducing
   Python re.match semantics incl. `$` matching before a final newline),
   uuid.UUID text parsing, a strict timestamp reader/writer.  No proofs.     *)
From Coq Require Import NArith ZArith List String Bool Ascii.
From V Require Import Base.UString Base.Json Model.SchemaTypes.
From V Require Model.Calendar Model.Timestamp.
Import ListNotations.
Open Scope N_scope.


Inductive result (A : Type) :=
| Ok (a : A)
| Err (e : errclass)
| Unmodelled.        (* the code hands the value to a CPython coercion this model does not restate *)
Arguments Ok {A} a.
Arguments Err {A} e.
Arguments Unmodelled {A}.

Definition bind {A B} (r : result A) (f : A -> result B) : result B :=
  match r with Ok a => f a | Err e => Err e | Unmodelled => Unmodelled end.
Notation "'do' x <- r ; k" := (bind r (fun x => k)) (at level 200, x pattern, r at level 100, k at level 200).

Definition ETypeError := EOther (u "TypeError").
Definition EAttributeError := EOther (u "AttributeError").
Definition EKeyError := EOther (u "KeyError").
Definition EDictionaryKey := EOther (u "DictionaryKeyError").
Definition EParse := EOther (u "ParseError").
Definition ESTIXError := EOther (u "STIXError").
Definition EInvalidObjRef := EOther (u "InvalidObjRefError").
Definition EOutOfFuel := EOther (u "OUT-OF-FUEL").

(* ---------- characters ---------- *)
Definition is_digit (c : N) := (48 <=? c) && (c <=? 57).
Definition is_lower (c : N) := (97 <=? c) && (c <=? 122).
Definition is_upper (c : N) := (65 <=? c) && (c <=? 90).
Definition is_hexdigit (c : N) := is_digit c || ((97 <=? c) && (c <=? 102)) || ((65 <=? c) && (c <=? 70)).
Definition is_lower_hexdigit (c : N) := is_digit c || ((97 <=? c) && (c <=? 102)).
Definition to_lower (c : N) := if is_upper c then c + 32 else c.
Definition to_upper (c : N) := if is_lower c then c - 32 else c.
Definition is_ascii (c : N) := c <? 128.
Definition ulower (s : ustring) := map to_lower s.
Definition uupper (s : ustring) := map to_upper s.
Definition all_ascii (s : ustring) := forallb is_ascii s.

Definition hexdigit_val (c : N) : N :=
  if is_digit c then c - 48 else if (97 <=? c) && (c <=? 102) then c - 87 else c - 55.

(* Python's `$`: end of string, or just before a final newline *)
Definition strip_final_newline (s : ustring) : ustring :=
  match rev s with
  | 10 :: r => rev r
  | _ => s
  end.

Fixpoint mem_ustr (x : ustring) (l : list ustring) : bool :=
  match l with [] => false | y :: r => ustr_eqb x y || mem_ustr x r end.

Fixpoint ufind (needle : ustring) (s : ustring) (i : nat) : option nat :=
  if ustr_prefix needle s then Some i
  else match s with [] => None | _ :: r => ufind needle r (S i) end.

Fixpoint udrop (n : nat) (s : ustring) : ustring :=
  match n, s with O, _ => s | S k, [] => [] | S k, _ :: r => udrop k r end.
Fixpoint utake (n : nat) (s : ustring) : ustring :=
  match n, s with O, _ => [] | S k, [] => [] | S k, c :: r => c :: utake k r end.

(* str.split("--", 1): (before, Some after) *)
Definition split_dashdash (s : ustring) : ustring * option ustring :=
  match ufind (u "--") s O with
  | Some i => (utake i s, Some (udrop (i + 2) s))
  | None => (s, None)
  end.

(* str.replace(old, new="") for all non-overlapping occurrences, left to right *)
Fixpoint uremove_all (fuel : nat) (old : ustring) (s : ustring) : ustring :=
  match fuel with
  | O => s
  | S f =>
    match s with
    | [] => []
    | c :: r => if ustr_prefix old s then uremove_all f old (udrop (List.length old) s)
                else c :: uremove_all f old r
    end
  end.

(* str.strip(chars) *)
Fixpoint lstrip_chars (chars : list N) (s : ustring) : ustring :=
  match s with
  | c :: r => if existsb (N.eqb c) chars then lstrip_chars chars r else s
  | [] => []
  end.
Definition strip_chars (chars : list N) (s : ustring) : ustring :=
  rev (lstrip_chars chars (rev (lstrip_chars chars s))).

(* ---------- decimal and hexadecimal text ---------- *)
Fixpoint digits_val (base : Z) (s : ustring) (acc : Z) : Z :=
  match s with
  | [] => acc
  | c :: r => digits_val base r (acc * base + Z.of_N (hexdigit_val c))%Z
  end.

(* CPython int(str, base) on ASCII text: optional surrounding ASCII whitespace,
   optional sign, optional 0x prefix (base 16), digits with single underscores
   between digits.  Non-ASCII input is Unmodelled.                             *)
Definition is_pyspace (c : N) := (c =? 32) || ((9 <=? c) && (c <=? 13)) || ((28 <=? c) && (c <=? 31)).

Fixpoint digits_us (isd : N -> bool) (s : ustring) (prev_digit : bool) (acc : ustring) : option ustring :=
  match s with
  | [] => if prev_digit then Some (rev acc) else None
  | c :: r =>
    if isd c then digits_us isd r true (c :: acc)
    else if (c =? 95) && prev_digit then
           match r with
           | d :: _ => if isd d then digits_us isd r false acc else None
           | [] => None
           end
    else None
  end.

(* an optional sign *)
Definition split_sign (s1 : ustring) : bool * ustring :=
  match s1 with
  | c :: r => if c =? 45 then (true, r) else if c =? 43 then (false, r) else (false, s1)
  | [] => (false, s1)
  end.

(* an optional 0x / 0X prefix; after a prefix one underscore may precede the digits *)
Definition strip_hex_prefix (s2 : ustring) : ustring :=
  match s2 with
  | c :: x :: r =>
    if (c =? 48) && ((x =? 120) || (x =? 88))
    then match r with y :: r' => if y =? 95 then r' else r | [] => r end
    else s2
  | _ => s2
  end.

Definition py_int_of_text (base16 : bool) (s : ustring) : result Z :=
  if negb (all_ascii s) then Unmodelled else
  let s1 := strip_chars [32; 9; 10; 11; 12; 13; 28; 29; 30; 31] s in
  let '(neg, s2) := split_sign s1 in
  let s3 := if base16 then strip_hex_prefix s2 else s2 in
  match digits_us (if base16 then is_hexdigit else is_digit) s3 false [] with
  | Some ds => let v := digits_val (if base16 then 16 else 10)%Z ds 0%Z in Ok (if neg then (- v)%Z else v)
  | None => Err EValueError
  end.

(* decimal text of a float repr: [-]d+[.d+][e[+-]d+]  ->  (mantissa, exponent10) *)
Fixpoint span (p : N -> bool) (s : ustring) : ustring * ustring :=
  match s with
  | c :: r => if p c then let '(a, b) := span p r in (c :: a, b) else ([], s)
  | [] => ([], [])
  end.

Definition dec_of_repr (s : ustring) : option (Z * Z) :=
  let '(neg, s1) := match s with 45 :: r => (true, r) | _ => (false, s) end in
  let '(ip, s2) := span is_digit s1 in
  match ip with
  | [] => None
  | _ =>
    let '(fp, s3) := match s2 with 46 :: r => span is_digit r | _ => ([], s2) end in
    let m := digits_val 10%Z (ip ++ fp) 0%Z in
    let e0 := (- Z.of_nat (List.length fp))%Z in
    let mk (e : Z) := Some (if neg then (- m)%Z else m, (e0 + e)%Z) in
    match s3 with
    | [] => mk 0%Z
    | c :: r =>
      if (c =? 101) || (c =? 69) then
        let '(eneg, r1) := match r with 45 :: r' => (true, r') | 43 :: r' => (false, r') | _ => (false, r) end in
        let '(ed, r2) := span is_digit r1 in
        match ed, r2 with
        | _ :: _, [] => let ev := digits_val 10%Z ed 0%Z in mk (if eneg then (- ev)%Z else ev)
        | _, _ => None
        end
      else None
    end
  end.

(* compare m*10^e with an integer bound *)
Definition dec_cmp_int (me : Z * Z) (b : Z) : comparison :=
  let '(m, e) := me in
  if (0 <=? e)%Z then Z.compare (m * 10 ^ e)%Z b
  else Z.compare m (b * 10 ^ (- e))%Z.

Definition dec_trunc (me : Z * Z) : Z :=
  let '(m, e) := me in
  if (0 <=? e)%Z then (m * 10 ^ e)%Z else Z.quot m (10 ^ (- e))%Z.

(* ---------- int(value), str(value), truthiness on JSON kinds ---------- *)
Definition py_int (v : jvalue) : result Z :=
  match v with
  | JInt z => Ok z
  | JBool b => Ok (if b then 1 else 0)%Z
  | JFloat r => match dec_of_repr r with Some me => Ok (dec_trunc me) | None => Err EValueError end  (* inf / nan *)
  | JStr s => py_int_of_text false s
  | _ => Err ETypeError
  end.

Definition py_str (v : jvalue) : result ustring :=
  match v with
  | JStr s => Ok s
  | JInt z => Ok (ustr_of_Z z)
  | JBool b => Ok (if b then u "True" else u "False")
  | JFloat r => Ok r
  | JNull => Ok (u "None")
  | _ => Unmodelled      (* repr of a list / dict *)
  end.

Definition truthy (v : jvalue) : bool :=
  match v with
  | JNull => false
  | JBool b => b
  | JInt z => negb (z =? 0)%Z
  | JFloat r => match dec_of_repr r with Some (m, _) => negb (m =? 0)%Z | None => true end
  | JStr s => match s with [] => false | _ => true end
  | JArr l => match l with [] => false | _ => true end
  | JObj m => match m with [] => false | _ => true end
  end.

(* ---------- regular-expression recognisers ---------- *)

(* r"^([a-fA-F0-9]{2})+$"  (HexProperty) *)
(* every recogniser with a final `$` takes z: true = the pattern ends in \Z (repaired variant) *)
Definition dollar (z : bool) (ok : ustring -> bool) (s : ustring) : bool :=
  ok s || (negb z && ok (strip_final_newline s)).

Definition re_hex_pairs (z : bool) (s : ustring) : bool :=
  dollar z (fun x => forallb is_hexdigit x && negb (Nat.eqb (List.length x) 0) && Nat.even (List.length x)) s.

(* r"^[a-zA-Z0-9_-]+$"  (dictionary keys) *)
Definition is_keychar (c : N) := is_digit c || is_lower c || is_upper c || (c =? 95) || (c =? 45).
Definition re_dict_key (z : bool) (s : ustring) : bool :=
  dollar z (fun x => forallb is_keychar x && negb (Nat.eqb (List.length x) 0)) s.

(* r'^[a-z].*'  (PREFIX_21_REGEX; `.` does not match a newline but the match need not reach the end) *)
Definition re_prefix21 (s : ustring) : bool :=
  match s with c :: _ => is_lower c | [] => false end.

(* SELECTOR_REGEX = ^([a-z0-9_-]{3,250}(\.(\[\d+\]|[a-z0-9_-]{1,250}))*|id)$ *)
Definition is_selchar (c : N) := is_digit c || is_lower c || (c =? 95) || (c =? 45).
Fixpoint usplit_dot (s : ustring) (cur : ustring) : list ustring :=
  match s with
  | [] => [rev cur]
  | c :: r => if c =? 46 then rev cur :: usplit_dot r [] else usplit_dot r (c :: cur)
  end.
Definition sel_index_step (x : ustring) : bool :=
  match x with
  | 91 :: r => match rev r with
               | 93 :: d => negb (Nat.eqb (List.length d) 0) && forallb is_digit d
               | _ => false
               end
  | _ => false
  end.
Definition sel_name_step (lo hi : nat) (x : ustring) : bool :=
  forallb is_selchar x && Nat.leb lo (List.length x) && Nat.leb (List.length x) hi.
Definition sel_name_step_up (lo hi : nat) (x : ustring) : bool :=
  forallb (fun c => is_selchar c || is_upper c) x && Nat.leb lo (List.length x) && Nat.leb (List.length x) hi.
Definition re_selector_exact_gen (upper : bool) (s : ustring) : bool :=
  ustr_eqb s (u "id") ||
  match usplit_dot s [] with
  | first :: rest => sel_name_step 3 250 first &&
                     forallb (fun x => sel_index_step x || (if upper then sel_name_step_up 1 250 x else sel_name_step 1 250 x)) rest
  | [] => false
  end.
Definition re_selector_exact (s : ustring) : bool := re_selector_exact_gen false s.
(* \d in Python 3 str patterns also matches non-ASCII decimal digits: ASCII-only model *)
Definition re_selector (z upper : bool) (s : ustring) : bool := dollar z (re_selector_exact_gen upper) s.

(* ---------- uuid.UUID(text) ---------- *)
(* hex = text.replace('urn:','').replace('uuid:',''); hex = hex.strip('{}').replace('-','');
   len(hex) == 32; int(hex, 16); 0 <= int < 2^128                                          *)
Definition canonical_uuid_text (s : ustring) : bool :=
  Nat.eqb (List.length s) 36 &&
  forallb (fun ic => let '(i, c) := ic in
                     if Nat.eqb i 8 || Nat.eqb i 13 || Nat.eqb i 18 || Nat.eqb i 23 then c =? 45 else is_hexdigit c)
          (combine (seq 0 36) s).

Definition py_uuid_int (s : ustring) : result Z :=
  let n := List.length s in
  let h1 := uremove_all (S n) (u "uuid:") (uremove_all (S n) (u "urn:") s) in
  let h2 := uremove_all (S n) [45] (strip_chars [123; 125] h1) in
  if negb (Nat.eqb (List.length h2) 32) then Err EValueError else
  do v <- py_int_of_text true h2;
  if ((0 <=? v) && (v <? 2 ^ 128))%Z then Ok v else Err EValueError.

Definition uuid_variant_rfc4122 (v : Z) : bool :=
  Z.testbit v 63 && negb (Z.testbit v 62).
Definition uuid_version (v : Z) : Z := Z.land (Z.shiftr v 76) 15.

(* ID_REGEX_interoperability (re.match: anchored at the start only, `$` at the end) *)
Definition re_interop_uuid (z : bool) (s : ustring) : bool := dollar z canonical_uuid_text s.

(* _check_uuid *)
Definition check_uuid (vr : variant) (s : ustring) (v : ver) (interop : bool) : result bool :=
  if interop then Ok (re_interop_uuid (vr_interop_z vr) s) else
  do i <- py_uuid_int s;
  if vr_uuid_canon vr && negb (canonical_uuid_text s) then Ok false else
  let ok := uuid_variant_rfc4122 i in
  Ok (match v with V20 => ok && (uuid_version i =? 4)%Z | V21 => ok end).

(* _validate_id: Ok tt or ValueError *)
Definition validate_id (vr : variant) (id : ustring) (v : ver) (prefix : option ustring) (interop : bool) : result unit :=
  match prefix with
  | Some p =>
    if negb (ustr_prefix p id) then Err EValueError else
    match check_uuid vr (udrop (List.length p) id) v interop with
    | Ok true => Ok tt
    | Unmodelled => Unmodelled
    | _ => Err EValueError
    end
  | None =>
    match split_dashdash id with
    | (_, Some rest) =>
      match check_uuid vr rest v interop with
      | Ok true => Ok tt
      | Unmodelled => Unmodelled
      | _ => Err EValueError
      end
    | (_, None) => Err EValueError
    end
  end.


(* ---------- hashes (stix2/hashes.py) ---------- *)
Definition hash_enum_names : list ustring :=
  map u ["MD5"; "MD6"; "RIPEMD160"; "SHA1"; "SHA224"; "SHA256"; "SHA384"; "SHA512";
         "SHA3224"; "SHA3256"; "SHA3384"; "SHA3512"; "SSDEEP"; "WHIRLPOOL"; "TLSH"]%string.

(* infer_hash_algorithm: name.replace("-", "").upper() looked up in the enum (ASCII model of upper()) *)
Definition infer_hash (name : ustring) : option ustring :=
  let e := uupper (uremove_all (S (List.length name)) [45] name) in
  if mem_ustr e hash_enum_names then Some e else None.

Definition hexlen_ok (z : bool) (lens : list nat) (s : ustring) : bool :=
  dollar z (fun x => forallb is_hexdigit x && existsb (Nat.eqb (List.length x)) lens) s.

Definition is_ssdeep_char (c : N) :=
  is_digit c || is_lower c || is_upper c || (c =? 47) || (c =? 43) || (c =? 58) || (c =? 46).

(* check_hash with the regexes of _HASH_REGEXES (re.I).  MD6's pattern is
   ^h{32}|h{40}|...|h{128}$ : the first alternative is anchored only at the
   start, so any text beginning with 32 hex digits matches.                   *)
Definition algis (alg : ustring) (n : string) : bool := ustr_eqb alg (u n).
Arguments algis _ _%string.
Definition check_hash (z : bool) (alg : ustring) (v : ustring) : bool :=
  let hexlen_ok := hexlen_ok z in
  if algis alg "MD5" then hexlen_ok [32%nat] v
  else if algis alg "MD6" then
    (* pinned: ^h{32}|h{40}|...|h{128}$ -- only the first alternative counts under re.match, and it is
       anchored at the start only; repaired: ^(?:h{32}|...|h{128})\Z *)
    if z then hexlen_ok [32; 40; 56; 64; 96; 128]%nat v
    else forallb is_hexdigit (utake 32 v) && Nat.leb 32 (List.length v)
  else if algis alg "RIPEMD160" || algis alg "SHA1" then hexlen_ok [40%nat] v
  else if algis alg "SHA224" || algis alg "SHA3224" then hexlen_ok [56%nat] v
  else if algis alg "SHA256" || algis alg "SHA3256" then hexlen_ok [64%nat] v
  else if algis alg "SHA384" || algis alg "SHA3384" then hexlen_ok [96%nat] v
  else if algis alg "SHA512" || algis alg "SHA3512" || algis alg "WHIRLPOOL" then hexlen_ok [128%nat] v
  else if algis alg "TLSH" then hexlen_ok [70%nat] v
  else if algis alg "SSDEEP" then
    dollar z (fun x => forallb is_ssdeep_char x && Nat.leb 1 (List.length x) && Nat.leb (List.length x) 128) v
  else true.

(* ---------- timestamps: strict reader, writer per precision ---------- *)
(* strict reader of YYYY-MM-DDTHH:MM:SS[.f{1,6}]Z with calendar validation; lenient
   strptime spellings are Unmodelled here (the C15 model restates them).        *)
Definition two (a b : N) : Z := Z.of_N ((a - 48) * 10 + (b - 48)).
Definition is_leap (y : Z) : bool := ((y mod 4 =? 0) && (negb (y mod 100 =? 0) || (y mod 400 =? 0)))%Z.
Definition days_in_month (y m : Z) : Z :=
  (if m =? 2 then (if is_leap y then 29 else 28)
   else if (m =? 4) || (m =? 6) || (m =? 9) || (m =? 11) then 30 else 31)%Z.
(* days since 0001-01-01 (proleptic Gregorian), Hinnant's days_from_civil shifted *)
Definition days_of_civil (y m d : Z) : Z :=
  (let y' := if m <=? 2 then y - 1 else y in
   let era := (if 0 <=? y' then y' else y' - 399) / 400 in
   let yoe := y' - era * 400 in
   let mp := (m + 9) mod 12 in
   let doy := (153 * mp + 2) / 5 + d - 1 in
   let doe := yoe * 365 + yoe / 4 - yoe / 100 + doy in
   era * 146097 + doe - 306)%Z.

Record tstamp := { ts_y : Z; ts_mo : Z; ts_d : Z; ts_h : Z; ts_mi : Z; ts_s : Z; ts_us : Z }.

Definition ts_instant (t : tstamp) : Z :=
  ((((days_of_civil (ts_y t) (ts_mo t) (ts_d t) * 24 + ts_h t) * 60 + ts_mi t) * 60 + ts_s t) * 1000000 + ts_us t)%Z.

Definition pad_right_zeros (n : nat) (s : ustring) : ustring := s ++ repeat 48 (n - List.length s).

Definition parse_ts_strict (s : ustring) : result tstamp :=
  match s with
  | y1 :: y2 :: y3 :: y4 :: 45 :: m1 :: m2 :: 45 :: d1 :: d2 :: 84 :: h1 :: h2 :: 58 :: i1 :: i2 :: 58 :: s1 :: s2 :: rest =>
    if forallb is_digit [y1; y2; y3; y4; m1; m2; d1; d2; h1; h2; i1; i2; s1; s2] then
      let y := (two y1 y2 * 100 + two y3 y4)%Z in
      let mo := two m1 m2 in let d := two d1 d2 in
      let h := two h1 h2 in let mi := two i1 i2 in let se := two s1 s2 in
      let fields_ok := ((1 <=? y) && (1 <=? mo) && (mo <=? 12) && (1 <=? d) && (d <=? days_in_month y mo)
                        && (h <=? 23) && (mi <=? 59) && (se <=? 59))%Z in
      match rest with
      | [90] => if fields_ok then Ok {| ts_y := y; ts_mo := mo; ts_d := d; ts_h := h; ts_mi := mi; ts_s := se; ts_us := 0 |}
                else if (se <=? 61)%Z && negb (se <=? 59)%Z then Err EValueError else Err EValueError
      | 46 :: frac =>
        match rev frac with
        | 90 :: fr =>
          let f := rev fr in
          if forallb is_digit f && Nat.leb 1 (List.length f) && Nat.leb (List.length f) 6 then
            if fields_ok then
              Ok {| ts_y := y; ts_mo := mo; ts_d := d; ts_h := h; ts_mi := mi; ts_s := se;
                    ts_us := digits_val 10%Z (pad_right_zeros 6 f) 0%Z |}
            else Err EValueError
          else if forallb is_digit f && Nat.leb 7 (List.length f) then Err EValueError
          else Unmodelled
        | _ => Unmodelled
        end
      | _ => Unmodelled
      end
    else Unmodelled
  | _ => Unmodelled
  end.

Fixpoint zdigits (n : nat) (z : Z) (acc : ustring) : ustring :=
  match n with
  | O => acc
  | S k => zdigits k (z / 10)%Z (Z.to_N (z mod 10 + 48)%Z :: acc)
  end.

Fixpoint rstrip_zeros_rev (r : ustring) : ustring :=
  match r with 48 :: r' => rstrip_zeros_rev r' | _ => r end.
Definition rstrip_zeros (s : ustring) : ustring := rev (rstrip_zeros_rev (rev s)).

(* parse_into_datetime's precision adjustment *)
Definition ts_adjust (p : prec) (c : pconstr) (us : Z) : Z :=
  match p, c with
  | PSecond, CExact => 0%Z
  | PMilli, CExact => ((us / 1000) * 1000)%Z
  | _, _ => us
  end.

(* format_datetime's fraction rules; the year is written with %Y which the
   platform's strftime does not pad (years below 1000 lose their zeros): the
   strict reader above only yields 4-digit years, so this model pads.        *)
Definition ts_frac (p : prec) (c : pconstr) (us : Z) : ustring :=
  let six := zdigits 6 us [] in
  match p with
  | PAny => if (us =? 0)%Z then [] else rstrip_zeros six
  | PSecond => match c with
               | CMin => if (us =? 0)%Z then [] else rstrip_zeros six
               | CExact => []
               end
  | PMilli => match c with
              | CExact => utake 3 six
              | CMin => pad_right_zeros 3 (rstrip_zeros six)
              end
  end.

Definition ts_format (p : prec) (c : pconstr) (t : tstamp) : ustring :=
  let fr := ts_frac p c (ts_us t) in
  zdigits 4 (ts_y t) [] ++ [45] ++ zdigits 2 (ts_mo t) [] ++ [45] ++ zdigits 2 (ts_d t) [] ++ [84] ++
  zdigits 2 (ts_h t) [] ++ [58] ++ zdigits 2 (ts_mi t) [] ++ [58] ++ zdigits 2 (ts_s t) [] ++
  (match fr with [] => [] | _ => 46 :: fr end) ++ [90].

(* TimestampProperty.clean on a JSON string, then serialization: (stored instant, text).
   parse_into_datetime and format_datetime are the C15 model (Model/Timestamp.v: the two strptime
   formats with every lenient spelling, truncation per precision, the fraction rules). *)
Definition ts_prec (p : prec) : Timestamp.precision :=
  match p with PAny => Timestamp.PAny | PSecond => Timestamp.PSecond | PMilli => Timestamp.PMilli end.
Definition ts_constr (c : pconstr) : Timestamp.pconstraint :=
  match c with CExact => Timestamp.CExact | CMin => Timestamp.CMin end.
Definition ts_clean (pad : bool) (p : prec) (c : pconstr) (s : ustring) : result (Z * ustring) :=
  match Timestamp.parse_strptime s with
  | Some t =>
    let t' := Timestamp.stored_trunc (ts_prec p) (ts_constr c) t in
    Ok (t', Timestamp.format (if pad then Timestamp.Pad4 else Timestamp.Unpadded) (ts_prec p) (ts_constr c) t')
  | None => Err EValueError
  end.

(* TimestampProperty.clean on the constructor's clock reading (an aware UTC datetime) *)
Definition ts_clean_now (pad : bool) (p : prec) (c : pconstr) (now : Z) : result (Z * ustring) :=
  if Calendar.in_range now then
    let t' := Timestamp.stored_trunc (ts_prec p) (ts_constr c) now in
    Ok (t', Timestamp.format (if pad then Timestamp.Pad4 else Timestamp.Unpadded) (ts_prec p) (ts_constr c) t')
  else Unmodelled.

(* ---------- base64.b64decode(text) (binascii.a2b_base64, non-strict) ---------- *)
(* characters outside the alphabet are skipped; a run of '=' that completes a quad ends the
   parse; at the end an incomplete quad is an error.  True = decodes, false = binascii.Error. *)
Definition is_b64char (c : N) := is_digit c || is_lower c || is_upper c || (c =? 43) || (c =? 47).
Fixpoint b64_scan (s : ustring) (quad pads : nat) : bool :=
  match s with
  | [] => Nat.eqb quad 0
  | c :: r =>
    if c =? 61 then
      if Nat.leb 2 quad && Nat.leb 4 (quad + S pads) then true else b64_scan r quad (S pads)
    else if is_b64char c then b64_scan r (Nat.modulo (S quad) 4) 0
    else b64_scan r quad pads
  end.
Definition b64_ok (s : ustring) : bool := b64_scan s 0 0.

(* base64.b64decode(text, validate=True) (binascii.a2b_base64 in strict mode, CPython 3.11+): only alphabet
   characters, then exactly the padding the number of data characters calls for, nothing after it *)
Fixpoint b64_data_len (s : ustring) : nat * ustring :=
  match s with
  | [] => (O, [])
  | c :: r => if is_b64char c then let p := b64_data_len r in (S (fst p), snd p) else (O, s)
  end.
Definition b64_strict (s : ustring) : bool :=
  let p := b64_data_len s in
  match Nat.modulo (fst p) 4%nat, snd p with
  | O, [] => true
  | S (S O), [c1; c2] => (c1 =? 61) && (c2 =? 61)
  | S (S (S O)), [c1] => (c1 =? 61)
  | _, _ => false
  end.

(* Model/Factory.v -- executable model of stix2/environment.py ObjectFactory
   (the default-property factory behind Environment.create; property C18's
   anchors).  No proofs.

   A property value is FNone (None), FOne s (a single value) or FMany l (a
   list); dictionaries are insertion-ordered association lists (Model/Store.v
   dict_get / dict_set).  Mirrors:
     ObjectFactory.__init__            factory_init  (`if created_by_ref:` ... truthiness)
     set_default_creator / _created / _external_refs / _object_marking_refs
     ObjectFactory.create              create  (deepcopy of the defaults: the defaults are a value here,
                                               so a second create starts from the same defaults)          *)
From Coq Require Import NArith ZArith List String Bool.
From V Require Import Base.UString Model.Store.
Import ListNotations.
Open Scope list_scope.

Inductive fval := FNone | FOne (s : ustring) | FMany (l : list ustring).
Definition fdict := list (ustring * fval).

Definition k_created : ustring := u "created".
Definition k_modified : ustring := u "modified".
Definition k_ext : ustring := u "external_references".
Definition k_omr : ustring := u "object_marking_refs".
Definition list_props : list ustring := [k_ext; k_omr].          (* self._list_properties *)
Definition none_tok : ustring := u "None".                        (* a None inside a list *)

Fixpoint dict_remove (d : fdict) (k : ustring) : fdict :=
  match d with
  | [] => []
  | (k', v) :: r => if ustr_eqb k' k then dict_remove r k else (k', v) :: dict_remove r k
  end.

(* Python truthiness of a value *)
Definition ftruthy (v : fval) : bool :=
  match v with FNone => false | FOne [] => false | FOne _ => true | FMany [] => false | FMany _ => true end.

Definition set_default_creator (d : fdict) (v : fval) : fdict := dict_set ustr_eqb d k_created_by_ref v.
Definition set_default_created (d : fdict) (v : fval) : fdict :=
  dict_set ustr_eqb (dict_set ustr_eqb d k_created v) k_modified v.
Definition set_default_external_refs (d : fdict) (v : fval) : fdict := dict_set ustr_eqb d k_ext v.
Definition set_default_object_marking_refs (d : fdict) (v : fval) : fdict := dict_set ustr_eqb d k_omr v.

Definition factory_init (creator created ext omr : fval) : fdict :=
  let d0 := [] in
  let d1 := if ftruthy creator then set_default_creator d0 creator else d0 in
  let d2 := if ftruthy created then set_default_created d1 created else d1 in
  let d3 := if ftruthy ext then set_default_external_refs d2 ext else d2 in
  if ftruthy omr then set_default_object_marking_refs d3 omr else d3.

(* a default / a passed value as list elements *)
Definition base_list (v : fval) : list ustring :=
  match v with FMany l => l | FOne s => [s] | FNone => [none_tok] end.     (* [properties[p]] when not a list *)
Definition add_list (v : fval) : list ustring :=
  match v with FMany l => l | FOne s => [s] | FNone => [] end.             (* extend / append *)

(* one round of the loop over list properties present in kwargs and in the defaults *)
Definition step_list (st : fdict * fdict) (p : ustring) : fdict * fdict :=
  let (props, kw) := st in
  match dict_get ustr_eqb kw p, dict_get ustr_eqb props p with
  | Some kv, Some dv =>
      let kw' := dict_remove kw p in                      (* kwargs.pop(list_prop) *)
      match kv with
      | FNone => (dict_remove props p, kw')                (* del properties[list_prop]; continue *)
      | _ => (dict_set ustr_eqb props p (FMany (base_list dv ++ add_list kv)), kw')
      end
  | _, _ => st
  end.

Definition dict_update (d kw : fdict) : fdict := fold_left (fun acc kv => dict_set ustr_eqb acc (fst kv) (snd kv)) kw d.

(* ObjectFactory.create: the keyword arguments handed to cls(...) *)
Definition create (list_append : bool) (defaults kw : fdict) : fdict :=
  match kw with
  | [] => defaults                                        (* `if kwargs:` *)
  | _ =>
    let (props, kw') := if list_append then fold_left step_list list_props (defaults, kw) else (defaults, kw) in
    dict_update props kw'
  end.

(* what the constructed object shows for a property (None counts as absent; a single value of a list property
   becomes a one-element list; None and the empty list count as absent; a None element is refused by the class) *)
Inductive seen := SAbsent | SOne (s : ustring) | SMany (l : list ustring) | SRefused.
(* ext_single_ok: does ListProperty accept a single dictionary where a list of external references is expected
   (the pinned code does not: it iterates the dictionary's keys and refuses) -- detected at run time *)
Definition observe (ext_single_ok : bool) (k : ustring) (v : option fval) : seen :=
  let is_list := existsb (ustr_eqb k) list_props in
  match v with
  | None => SAbsent
  | Some FNone => SAbsent
  | Some (FMany []) => SAbsent              (* _STIXBase.__init__ drops None and [] *)
  | Some (FOne s) =>
      if is_list then (if ustr_eqb k k_ext && negb ext_single_ok then SRefused else SMany [s]) else SOne s
  | Some (FMany l) =>
      if is_list then (if existsb (ustr_eqb none_tok) l then SRefused else SMany l) else SRefused
  end.

(* rendering for the correspondence run *)
Open Scope string_scope.
Definition show_seen (s : seen) : string :=
  match s with
  | SAbsent => "-"
  | SOne x => append "=" (show_ustr x)
  | SMany l => append "[" (append (fold_right (fun x acc => append (show_ustr x) (append ";" acc)) "" l) "]")
  | SRefused => "!"
  end.
Definition show_created (eso : bool) (d : fdict) : string :=
  fold_right (fun k acc => append (show_seen (observe eso k (dict_get ustr_eqb d k))) (append "\," acc))
             "" [k_created_by_ref; k_created; k_modified; k_ext; k_omr].
(* a factory, then several create() calls on it *)
Definition run_factory (eso : bool) (creator created ext omr : fval) (list_append : bool) (setters : list (nat * fval))
                       (calls : list fdict) : string :=
  let d0 := factory_init creator created ext omr in
  let d := fold_left (fun d sv => match fst sv with
                                  | O => set_default_creator d (snd sv)
                                  | S O => set_default_created d (snd sv)
                                  | S (S O) => set_default_external_refs d (snd sv)
                                  | _ => set_default_object_marking_refs d (snd sv)
                                  end) setters d0 in
  fold_right (fun kw acc => append (show_created eso (create list_append d kw)) (append "|" acc)) "" calls.

(* Model/FiltersCfg.v -- the places at which Model/Filters.v fixes what the code of
   stix2/datastore/filters.py and of the search shortcuts in stix2/datastore/filesystem.py does,
   as a record of choices.  translators/tr_filters.py reads the same places from the source text
   of /repo on every run and writes `src_filter_cfg` (Gen/FilterFacts.v); `model_filter_cfg om` is
   what Model/Filters.v mirrors (om: the variant of _find_search_optimizations).  No proofs here. *)
From Coq Require Import List String.
From V Require Import Model.Filters.
Import ListNotations. Open Scope string_scope.

Inductive components_c := ComponentsChecked | ComponentsOther.   (* _check_filter_components, Filter.__new__ (list -> tuple) *)
Inductive coerce_c := CoerceParseFilterValue | CoerceOther.      (* _check_property: datetime property & str value => value parsed *)
Inductive dispatch_c := DispatchModel | DispatchOther.           (* _check_property: what each operator evaluates *)
Inductive apply_c := AllMustHold | ApplyOther.                   (* apply_common_filters *)
Inductive walk_c := WalkAnyElement | WalkOther.                  (* _check_filter: dotted path, list = any element, absent = False *)
Inductive fset_init_c := InitCopies | InitOther.                 (* FilterSet.__init__: a new list, filled through add *)
Inductive fset_add_c := AddUnique | AddOther.                    (* FilterSet.add: only filters not held yet *)
Inductive update_allow_c := UpdateIntersect | UpdateOther.       (* _update_allow: first time add / update, then intersection_update *)
Inductive opt_c := CfgAnyValue | CfgStringsOnly | CfgOptOther.   (* _find_search_optimizations *)
Inductive authset_c := WhiteMinusBlack | AuthOther.              (* AuthSet.__init__ *)
Inductive dir_entries_c := LookupOrListing | EntriesOther.       (* _get_matching_dir_entries *)

Record filter_cfg := mk_filter_cfg {
  c_components : components_c; c_coerce : coerce_c; c_dispatch : dispatch_c; c_apply : apply_c; c_walk : walk_c;
  c_fset_init : fset_init_c; c_fset_add : fset_add_c; c_update_allow : update_allow_c; c_opt : opt_c;
  c_authset : authset_c; c_dir_entries : dir_entries_c }.

Definition opt_cfg_of (om : opt_mode) : opt_c :=
  match om with OptAnyValue => CfgAnyValue | OptStringsOnly => CfgStringsOnly end.

(* what Model/Filters.v mirrors *)
Definition model_filter_cfg (om : opt_mode) : filter_cfg :=
  mk_filter_cfg ComponentsChecked CoerceParseFilterValue DispatchModel AllMustHold WalkAnyElement InitCopies AddUnique
                UpdateIntersect (opt_cfg_of om) WhiteMinusBlack LookupOrListing.

(* the shortcut variant a configuration denotes (the code before fix 4d5628c unless the guard is there) *)
Definition cfg_opt_mode (c : filter_cfg) : opt_mode :=
  match c_opt c with CfgStringsOnly => OptStringsOnly | _ => OptAnyValue end.

(* FILTER_OPS: the operators of the model, in the order of the list in the source *)
Definition all_fops : list fop := [OEq; ONe; OIn; OGt; OLt; OGe; OLe; OContains].
Definition fop_text (o : fop) : string :=
  match o with
  | OEq => "=" | ONe => "!=" | OIn => "in" | OGt => ">" | OLt => "<" | OGe => ">=" | OLe => "<=" | OContains => "contains"
  end.

(* Model/Calendar.v -- proleptic Gregorian calendar over Z, as used by
   CPython's datetime (which the code under /repo relies on).  No proofs.

   Day numbers count from 0001-01-01 = day 0 (CPython's ordinal minus 1).

   days_of_civil  = the textbook day-number formula (CPython: ymd_to_ord =
                    days_before_year + days_before_month + day);
   civil_of_days  = its inverse, written as Hinnant's era/doe algorithm
                    (total on all of Z; CPython's ord_to_ymd computes the same
                    function on its range).  Proofs/CalendarFacts.v proves
                    days_of_civil (civil_of_days n) = n for every n : Z.      *)
From Coq Require Import ZArith Bool.
Open Scope Z_scope.

Definition is_leap (y : Z) : bool :=
  (y mod 4 =? 0) && (negb (y mod 100 =? 0) || (y mod 400 =? 0)).

Definition days_in_month (y m : Z) : Z :=
  if m =? 2 then (if is_leap y then 29 else 28)
  else if (m =? 4) || (m =? 6) || (m =? 9) || (m =? 11) then 30
  else 31.

(* days in the years 1 .. y-1 *)
Definition days_before_year (y : Z) : Z :=
  let p := y - 1 in 365 * p + p / 4 - p / 100 + p / 400.

(* days in the months 1 .. m-1 of a non-leap year *)
Definition cum_days (m : Z) : Z :=
  if m <=? 1 then 0 else if m =? 2 then 31 else if m =? 3 then 59 else if m =? 4 then 90
  else if m =? 5 then 120 else if m =? 6 then 151 else if m =? 7 then 181 else if m =? 8 then 212
  else if m =? 9 then 243 else if m =? 10 then 273 else if m =? 11 then 304 else 334.

Definition days_before_month (y m : Z) : Z :=
  cum_days m + (if (2 <? m) && is_leap y then 1 else 0).

Definition days_of_civil (y m d : Z) : Z :=
  days_before_year y + days_before_month y m + (d - 1).

Definition valid_date (y m d : Z) : bool :=
  (1 <=? m) && (m <=? 12) && (1 <=? d) && (d <=? days_in_month y m).

(* Hinnant, civil_from_days, with the epoch moved to 0001-01-01
   (0000-03-01 is 306 days earlier). *)
Definition civil_of_doe (era doe : Z) : Z * Z * Z :=
  let yoe := (doe - doe / 1460 + doe / 36524 - doe / 146096) / 365 in
  let doy := doe - (365 * yoe + yoe / 4 - yoe / 100) in
  let mp := (5 * doy + 2) / 153 in
  let d := doy - (153 * mp + 2) / 5 + 1 in
  let m := if mp <? 10 then mp + 3 else mp - 9 in
  (yoe + era * 400 + (if m <=? 2 then 1 else 0), m, d).

Definition civil_of_days (n : Z) : Z * Z * Z :=
  let z := n + 306 in
  civil_of_doe (z / 146097) (z mod 146097).

(* ---- instants: microseconds since 0001-01-01T00:00:00 ---- *)
Definition us_per_sec : Z := 1000000.
Definition us_per_day : Z := 86400000000.
Definition max_days : Z := 3652059.                  (* 0001-01-01 .. 9999-12-31 *)
Definition max_instant : Z := 315537897600000000.    (* max_days * us_per_day *)

Definition in_range (t : Z) : bool := (0 <=? t) && (t <? max_instant).

Record fields := mkFields { f_year : Z; f_month : Z; f_day : Z; f_hour : Z; f_min : Z; f_sec : Z; f_us : Z }.

Definition fields_of (t : Z) : fields :=
  let days := t / us_per_day in
  let r := t mod us_per_day in
  let '(y, m, d) := civil_of_days days in
  let s := r / us_per_sec in
  mkFields y m d (s / 3600) (s / 60 mod 60) (s mod 60) (r mod us_per_sec).

Definition instant_of (y m d hh mm ss us : Z) : Z :=
  (((days_of_civil y m d * 24 + hh) * 60 + mm) * 60 + ss) * us_per_sec + us.

(* what the datetime constructor accepts *)
Definition valid_fields (y m d hh mm ss us : Z) : bool :=
  (1 <=? y) && (y <=? 9999) && valid_date y m d &&
  (0 <=? hh) && (hh <? 24) && (0 <=? mm) && (mm <? 60) && (0 <=? ss) && (ss <? 60) &&
  (0 <=? us) && (us <? us_per_sec).

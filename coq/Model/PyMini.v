(* Model/PyMini.v -- a small first-order imperative language over Python str / int
   values, just large enough for stix2/canonicalization/NumberToJson.py:
   convert2Es6Format, with its interpreter.  translators/tr_numtojson.py turns the
   ast of that function into a term of this language on every run
   (Gen/NumToJson.v); Props/C16Src.v ties the term to Model.Jcs.convert2es6.

   The function's argument is represented by the text str(float(value)) (`arg`):
   SArgStr is str(fvalue), BArgZero is `fvalue == 0` (true exactly for the reprs
   0.0 and -0.0).  Strings are lists of code points; ints are Z.
     s.find(c)      index of the first occurrence of the one-character literal, or -1
     s[lo:hi]       Python slice semantics (negative bounds count from the end)
     int(s)         JcsText.py_int; None stands for ValueError
   `while` runs at most loop_bound iterations (NoFuel beyond; the two loops of the
   function run at most 21 and 5 times).  No proofs here.                        *)
From Coq Require Import String NArith ZArith List Bool.
From V Require Import Base.UString Model.JcsText Model.Jcs.
Import ListNotations.
Open Scope Z_scope.

Inductive svar := VDouble | VSign | VExpStr | VFirst | VDot | VLast.
Inductive ivar := VExpVal | VQ.

Inductive sexpr :=
| SV (x : svar)
| SL (lit : ustring)
| SCat (a b : sexpr)
| SSlice (a : sexpr) (lo hi : option iexpr)
| SArgStr
with iexpr :=
| IV (x : ivar)
| IL (z : Z)
| IFind (a : sexpr) (c : N)
| ILen (a : sexpr)
| IAdd (a b : iexpr)
| ISub (a b : iexpr)
| IInt (a : sexpr).

Inductive cmp := CLt | CGt | CGe | CEq | CLe | CNe.

Inductive bexpr :=
| BCmp (op : cmp) (a b : iexpr)
| BStrEq (a b : sexpr)
| BAnd (a b : bexpr)
| BArgZero.

Inductive stmt :=
| SSet (x : svar) (e : sexpr)
| ISet (x : ivar) (e : iexpr)
| If (b : bexpr) (t e : list stmt)
| While (b : bexpr) (body : list stmt)
| Return (e : sexpr)
| RaiseValueError.

Record st := { vDouble : ustring; vSign : ustring; vExpStr : ustring; vFirst : ustring; vDot : ustring; vLast : ustring;
               vExpVal : Z; vQ : Z }.

Definition st0 : st := {| vDouble := []; vSign := []; vExpStr := []; vFirst := []; vDot := []; vLast := []; vExpVal := 0; vQ := 0 |}.

Definition sget (s : st) (x : svar) : ustring :=
  match x with VDouble => vDouble s | VSign => vSign s | VExpStr => vExpStr s | VFirst => vFirst s | VDot => vDot s | VLast => vLast s end.
Definition iget (s : st) (x : ivar) : Z := match x with VExpVal => vExpVal s | VQ => vQ s end.

Definition sset (s : st) (x : svar) (v : ustring) : st :=
  match x with
  | VDouble => {| vDouble := v; vSign := vSign s; vExpStr := vExpStr s; vFirst := vFirst s; vDot := vDot s; vLast := vLast s; vExpVal := vExpVal s; vQ := vQ s |}
  | VSign => {| vDouble := vDouble s; vSign := v; vExpStr := vExpStr s; vFirst := vFirst s; vDot := vDot s; vLast := vLast s; vExpVal := vExpVal s; vQ := vQ s |}
  | VExpStr => {| vDouble := vDouble s; vSign := vSign s; vExpStr := v; vFirst := vFirst s; vDot := vDot s; vLast := vLast s; vExpVal := vExpVal s; vQ := vQ s |}
  | VFirst => {| vDouble := vDouble s; vSign := vSign s; vExpStr := vExpStr s; vFirst := v; vDot := vDot s; vLast := vLast s; vExpVal := vExpVal s; vQ := vQ s |}
  | VDot => {| vDouble := vDouble s; vSign := vSign s; vExpStr := vExpStr s; vFirst := vFirst s; vDot := v; vLast := vLast s; vExpVal := vExpVal s; vQ := vQ s |}
  | VLast => {| vDouble := vDouble s; vSign := vSign s; vExpStr := vExpStr s; vFirst := vFirst s; vDot := vDot s; vLast := v; vExpVal := vExpVal s; vQ := vQ s |}
  end.
Definition iset (s : st) (x : ivar) (v : Z) : st :=
  match x with
  | VExpVal => {| vDouble := vDouble s; vSign := vSign s; vExpStr := vExpStr s; vFirst := vFirst s; vDot := vDot s; vLast := vLast s; vExpVal := v; vQ := vQ s |}
  | VQ => {| vDouble := vDouble s; vSign := vSign s; vExpStr := vExpStr s; vFirst := vFirst s; vDot := vDot s; vLast := vLast s; vExpVal := vExpVal s; vQ := v |}
  end.

(* ---- Python primitives ---------------------------------------------------------------- *)
Definition find_z (c : N) (s : ustring) : Z :=
  match find_idx c s with Some i => Z.of_nat i | None => -1 end.

(* a slice bound brought into 0..len *)
Definition norm_bound (len b : Z) : Z := if b <? 0 then Z.max 0 (len + b) else Z.min b len.

Definition py_slice (s : ustring) (lo hi : option Z) : ustring :=
  let len := Z.of_nat (length s) in
  let l := match lo with None => 0 | Some b => norm_bound len b end in
  let h := match hi with None => len | Some b => norm_bound len b end in
  firstn (Z.to_nat (h - l)) (skipn (Z.to_nat l) s).

(* ---- evaluation --------------------------------------------------------------------------- *)
Section Eval.
  Variable arg : ustring.      (* str(float(value)) *)

  Fixpoint eval_s (s : st) (e : sexpr) : option ustring :=
    match e with
    | SV x => Some (sget s x)
    | SL l => Some l
    | SCat a b => match eval_s s a, eval_s s b with Some x, Some y => Some (x ++ y) | _, _ => None end
    | SSlice a lo hi =>
        match eval_s s a with
        | None => None
        | Some x =>
          match (match lo with None => Some None | Some i => option_map Some (eval_i s i) end),
                (match hi with None => Some None | Some i => option_map Some (eval_i s i) end) with
          | Some l, Some h => Some (py_slice x l h)
          | _, _ => None
          end
        end
    | SArgStr => Some arg
    end
  with eval_i (s : st) (e : iexpr) : option Z :=
    match e with
    | IV x => Some (iget s x)
    | IL z => Some z
    | IFind a c => option_map (find_z c) (eval_s s a)
    | ILen a => option_map (fun x => Z.of_nat (length x)) (eval_s s a)
    | IAdd a b => match eval_i s a, eval_i s b with Some x, Some y => Some (x + y) | _, _ => None end
    | ISub a b => match eval_i s a, eval_i s b with Some x, Some y => Some (x - y) | _, _ => None end
    | IInt a => match eval_s s a with Some x => py_int x | None => None end
    end.

  Definition cmp_z (op : cmp) (x y : Z) : bool :=
    match op with CLt => x <? y | CGt => y <? x | CGe => y <=? x | CEq => x =? y | CLe => x <=? y | CNe => negb (x =? y) end.

  Fixpoint eval_b (s : st) (b : bexpr) : option bool :=
    match b with
    | BCmp op a c => match eval_i s a, eval_i s c with Some x, Some y => Some (cmp_z op x y) | _, _ => None end
    | BStrEq a c => match eval_s s a, eval_s s c with Some x, Some y => Some (ustr_eqb x y) | _, _ => None end
    | BAnd a c => match eval_b s a with
                  | Some true => eval_b s c       (* `and` short-circuits *)
                  | Some false => Some false
                  | None => None
                  end
    | BArgZero => Some (is_zero_repr arg)
    end.

  Inductive outcome := Normal (s : st) | Returned (t : ustring) | Raised | NoFuel.

  Definition loop_bound : nat := 64.

  Fixpoint exec_stmt (c : stmt) (s : st) : outcome :=
    match c with
    | SSet x e => match eval_s s e with Some v => Normal (sset s x v) | None => Raised end
    | ISet x e => match eval_i s e with Some v => Normal (iset s x v) | None => Raised end
    | If b t e =>
        let run := fix run (p : list stmt) (s : st) : outcome :=
                     match p with
                     | [] => Normal s
                     | c :: r => match exec_stmt c s with Normal s' => run r s' | o => o end
                     end in
        match eval_b s b with
        | Some true => run t s
        | Some false => run e s
        | None => Raised
        end
    | While b body =>
        let run := fix run (p : list stmt) (s : st) : outcome :=
                     match p with
                     | [] => Normal s
                     | c :: r => match exec_stmt c s with Normal s' => run r s' | o => o end
                     end in
        (fix loop (n : nat) (s : st) : outcome :=
           match n with
           | O => NoFuel
           | S n' => match eval_b s b with
                     | Some true => match run body s with Normal s' => loop n' s' | o => o end
                     | Some false => Normal s
                     | None => Raised
                     end
           end) loop_bound s
    | Return e => match eval_s s e with Some v => Returned v | None => Raised end
    | RaiseValueError => Raised
    end.

  Fixpoint exec (p : list stmt) (s : st) : outcome :=
    match p with
    | [] => Normal s
    | c :: r => match exec_stmt c s with Normal s' => exec r s' | o => o end
    end.

  (* the function: falling off the end returns None in Python; it cannot happen
     here and is reported as Raised *)
  Definition run_fun (p : list stmt) : jres ustring :=
    match exec p st0 with
    | Returned t => JOk t
    | Raised => JRaise ValueError
    | _ => JRaise OutOfModel        (* loop bound exceeded or no return: outside the language's scope *)
    end.
End Eval.

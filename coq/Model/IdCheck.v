(* Model/IdCheck.v -- the identifier strictness switch of stix2/properties.py:
   _check_uuid and _validate_id, over code-point strings, branch by branch,
   including the part of CPython's uuid.UUID(hex) / int(text, 16) that decides
   whether a text is accepted at all.  No proofs here.

   Outside the model (result UOutside / VOutside, never compared): text with a
   code point that is not printable ASCII and not one of \t \n \v \f \r
   (CPython maps other Unicode spaces and digits to ASCII first).            *)
From Coq Require Import NArith List Bool String.
From V Require Import Base.UString.
Import ListNotations.
Open Scope N_scope.

(* ---- str helpers ---- *)
Fixpoint replace_go (pat : ustring) (skip : nat) (s : ustring) : ustring :=
  match s with
  | [] => []
  | c :: r =>
    match skip with
    | S k => replace_go pat k r
    | O => if ustr_prefix pat s then replace_go pat (Nat.pred (List.length pat)) r
           else c :: replace_go pat O r
    end
  end.
(* s.replace(pat, "") for a non-empty pat: leftmost non-overlapping occurrences *)
Definition ustr_remove (pat s : ustring) : ustring := replace_go pat O s.

Definition is_brace (c : N) : bool := (c =? 123) || (c =? 125).
Fixpoint lstrip_braces (s : ustring) : ustring :=
  match s with
  | c :: r => if is_brace c then lstrip_braces r else s
  | [] => []
  end.
Definition strip_braces (s : ustring) : ustring := rev (lstrip_braces (rev (lstrip_braces s))).

Definition is_ws (c : N) : bool := (c =? 32) || ((9 <=? c) && (c <=? 13)).
Fixpoint lstrip_ws (s : ustring) : ustring :=
  match s with
  | c :: r => if is_ws c then lstrip_ws r else s
  | [] => []
  end.
Definition strip_ws (s : ustring) : ustring := rev (lstrip_ws (rev (lstrip_ws s))).

Definition in_model_char (c : N) : bool := ((32 <=? c) && (c <=? 126)) || ((9 <=? c) && (c <=? 13)).

Definition is_hex (c : N) : bool :=
  ((48 <=? c) && (c <=? 57)) || ((65 <=? c) && (c <=? 70)) || ((97 <=? c) && (c <=? 102)).
Definition hex_val (c : N) : N := if c <=? 57 then c - 48 else if c <=? 70 then c - 55 else c - 87.

(* ---- int(text, 16) on an in-model text: None = ValueError ---- *)
Fixpoint hex_digits (s : ustring) (prev_us any : bool) (acc : N) : option N :=
  match s with
  | [] => if prev_us then None else if any then Some acc else None
  | c :: r =>
    if c =? 95 then (if prev_us || negb any then None else hex_digits r true any acc)
    else if is_hex c then hex_digits r false true (acc * 16 + hex_val c)
    else None
  end.

Definition int16 (s : ustring) : option N :=
  let s1 := strip_ws s in
  let s2 := match s1 with
            | c :: r => if (c =? 43) then r else s1      (* '+'; '-' cannot occur: hyphens were removed *)
            | [] => s1
            end in
  match s2 with
  | c0 :: x :: r =>
      if (c0 =? 48) && ((x =? 120) || (x =? 88)) then
        (* 0x / 0X prefix, then at most one underscore, then digits *)
        match r with
        | c2 :: r' => if c2 =? 95 then hex_digits r' false false 0 else hex_digits r false false 0
        | [] => hex_digits r false false 0
        end
      else hex_digits s2 false false 0
  | _ => hex_digits s2 false false 0
  end.

Inductive ures := UOk (b : bool) | UValueError | UOutside.

(* uuid.UUID(text).int *)
Definition uuid_int (s : ustring) : option (option N) :=      (* None = outside; Some None = ValueError *)
  if negb (forallb in_model_char s) then None else
  let h := ustr_remove (u "-") (strip_braces (ustr_remove (u "uuid:") (ustr_remove (u "urn:") s))) in
  if negb (Nat.eqb (List.length h) 32) then Some None else
  match int16 h with
  | Some n => Some (Some n)          (* 32 characters: always below 2^128, never negative *)
  | None => Some None
  end.

Definition pow2 (k : N) : N := 2 ^ k.
(* uuid.UUID.variant == uuid.RFC_4122 : bit 63 set, bit 62 clear *)
Definition variant_rfc4122 (n : N) : bool := N.testbit n 63 && negb (N.testbit n 62).
(* uuid.UUID.version (only read when the variant is RFC 4122) *)
Definition uuid_version (n : N) : N := (n / pow2 76) mod 16.

(* ID_REGEX_interoperability.match(text): 8-4-4-4-12 hex digits from the start, then end of text
   or one final newline (the `$` of Python's re) *)
Fixpoint take_hex (k : nat) (s : ustring) : option ustring :=
  match k with
  | O => Some s
  | S k' => match s with c :: r => if is_hex c then take_hex k' r else None | [] => None end
  end.
Definition take_dash (s : option ustring) : option ustring :=
  match s with Some (c :: r) => if c =? 45 then Some r else None | _ => None end.
Definition obind (s : option ustring) (f : ustring -> option ustring) : option ustring :=
  match s with Some x => f x | None => None end.
(* Two places where the pinned code and a later repair differ (found out at run time):
     canonical_text : _check_uuid also demands  str(uuid.UUID(text)) == text.lower()
     regex_end_Z    : the interoperability regex ends in \Z instead of $ (no final newline) *)
Record idmode := mkIdMode { canonical_text : bool; regex_end_Z : bool }.
Definition pinned_idmode : idmode := mkIdMode false false.
Definition repaired_idmode : idmode := mkIdMode true true.

Definition interop_match (im : idmode) (s : ustring) : bool :=
  match obind (take_dash (obind (take_dash (obind (take_dash (obind (take_dash (take_hex 8 s)) (take_hex 4))) (take_hex 4))) (take_hex 4))) (take_hex 12) with
  | Some [] => true
  | Some [c] => (c =? 10) && negb (regex_end_Z im)
  | _ => false
  end.

(* str(uuid.UUID(int=n)) : 8-4-4-4-12 lower-case hexadecimal digits *)
Definition hex_lower (d : N) : N := if d <? 10 then 48 + d else 87 + d.
Definition digit_at (n : N) (k : N) : N := hex_lower ((n / 16 ^ k) mod 16).
Definition canon_text (n : N) : ustring :=
  map (digit_at n) [31; 30; 29; 28; 27; 26; 25; 24] ++ [45] ++
  map (digit_at n) [23; 22; 21; 20] ++ [45] ++
  map (digit_at n) [19; 18; 17; 16] ++ [45] ++
  map (digit_at n) [15; 14; 13; 12] ++ [45] ++
  map (digit_at n) [11; 10; 9; 8; 7; 6; 5; 4; 3; 2; 1; 0].
(* str.lower() on in-model (ASCII) text *)
Definition lower_char (c : N) : N := if (65 <=? c) && (c <=? 90) then c + 32 else c.
Definition ustr_lower (s : ustring) : ustring := map lower_char s.

Definition v20s : ustring := u "2.0".

(* _check_uuid(uuid_str, spec_version, interoperability); spec_version is any str *)
Definition check_uuid (im : idmode) (s spec_version : ustring) (interop : bool) : ures :=
  if interop then UOk (interop_match im s) else
  match uuid_int s with
  | None => UOutside
  | Some None => UValueError
  | Some (Some n) =>
      if canonical_text im && negb (ustr_eqb (canon_text n) (ustr_lower s)) then UOk false else
      let ok := variant_rfc4122 n in
      UOk (if ok && ustr_eqb spec_version v20s then uuid_version n =? 4 else ok)
  end.

(* ---- _validate_id(id_, spec_version, required_prefix, interoperability) ---- *)
Inductive vres := VOk | VBadPrefix | VInvalid | VOutside.

Fixpoint after_dashdash (s : ustring) : option ustring :=     (* id_[id_.index("--")+2:] *)
  match s with
  | 45 :: ((45 :: r) as t) => Some r
  | _ :: t => after_dashdash t
  | [] => None
  end.

Definition validate_id (im : idmode) (id_ spec_version : ustring) (required_prefix : ustring) (interop : bool) : vres :=
  let part :=
    match required_prefix with
    | [] => after_dashdash id_                                  (* None / "" : falsy *)
    | _ => if ustr_prefix required_prefix id_ then Some (skipn (List.length required_prefix) id_) else None
    end in
  match required_prefix, part with
  | _ :: _, None => VBadPrefix
  | _, None => VInvalid
  | _, Some p =>
    match check_uuid im p spec_version interop with
    | UOk true => VOk
    | UOk false => VInvalid
    | UValueError => VInvalid
    | UOutside => VOutside
    end
  end.

Open Scope string_scope.
Definition show_ures (r : ures) : string :=
  match r with UOk true => "true" | UOk false => "false" | UValueError => "ValueError" | UOutside => "OUTSIDE" end.
Definition show_vres (r : vres) : string :=
  match r with VOk => "ok" | VBadPrefix => "bad-prefix" | VInvalid => "invalid" | VOutside => "OUTSIDE" end.

(* Model/SchemaReparse.v -- the two-step experiments of C01 / C04 on the schema
   interpreter (Model/Schema.v), as the harness observes them on the library:
     reparse   : stix2.parse(obj.serialize(), allow_custom=a)  (no version named)
   and their one-line renderings.  No proofs.                                 *)
From Coq Require Import NArith ZArith List String Bool.
From V Require Import Base.UString Base.Json Model.SchemaTypes Model.PyBase Model.Schema Model.Serialize.
Import ListNotations.

Section Reparse.
  Variable vr : variant.
  Variable ev : env.
  Variable w : world.
  Variable pattern_ok : ver -> ustring -> bool.
  Variable selectors_ok : list (ustring * pval) -> pval -> result bool.

  (* parse(text) of the serialization of o under the plain encoder / an option set *)
  Definition reparse_of (fuel : nat) (allow : bool) (j : jvalue) : result pval :=
    match j with
    | JObj d => run vr ev w pattern_ok selectors_ok fuel (RParse allow false None d)
    | _ => Err EValueError
    end.

  Definition reparse (fuel : nat) (allow : bool) (o : pval) : result pval :=
    reparse_of fuel allow (encode false o).

  (* C04: the flag of an allow-mode run and the outcome of the strict reparse *)
  Definition flag_and_strict_reparse (fuel : nat) (r : request) : string :=
    match run vr ev w pattern_ok selectors_ok fuel r with
    | Ok (PObject c i d hc) =>
      append "OK hc=" (append (show_bool hc) (append " reparse="
        (match reparse fuel false (PObject c i d hc) with
         | Ok _ => "ok"%string
         | Err e => append "ERR " (show_err e)
         | Unmodelled => "UNMODELLED"%string
         end)))
    | Ok _ => "OK not-an-object"%string
    | Err e => append "ERR " (show_err e)
    | Unmodelled => "UNMODELLED"%string
    end.
End Reparse.

(* Model/HeapRun.v -- the operation language of the C13 correspondence cases
   and the rendering of what the model predicts for each operation:
     status | indices of earlier values whose deep value changed | names of
     earlier containers reachable from the result.
   No proofs here.                                                          *)
From Coq Require Import NArith ZArith String Bool Arith List.
From V Require Export Model.HeapApi.
Import ListNotations.
Open Scope nat_scope.

(* a value the CALLER builds: literals with references to earlier values *)
Inductive vtree :=
| XA (a : atom)
| XD (m : list (ustring * vtree))
| XL (xs : list vtree)
| XR (i : nat).

Definition env := list val.
Definition env_get (e : env) (i : nat) : val := nth i e (VA ANone).

Fixpoint build_x (e : env) (t : vtree) (h : heap) : heap * val :=
  match t with
  | XA a => (h, VA a)
  | XR i => (h, env_get e i)
  | XD m =>
    let (h1, m') := (fix go (m : list (ustring * vtree)) (h : heap) : heap * list (ustring * val) :=
                       match m with
                       | [] => (h, [])
                       | (k, t) :: r => let (h1, v) := build_x e t h in
                                        let (h2, r') := go r h1 in (h2, (k, v) :: r')
                       end) m h in
    let (h2, l) := alloc h1 (NDict m') in (h2, VR l)
  | XL xs =>
    let (h1, xs') := (fix go (xs : list vtree) (h : heap) : heap * list val :=
                        match xs with
                        | [] => (h, [])
                        | t :: r => let (h1, v) := build_x e t h in
                                    let (h2, r') := go r h1 in (h2, v :: r')
                        end) xs h in
    let (h2, l) := alloc h1 (NList xs') in (h2, VR l)
  end.

Inductive opcall :=
| OMk (t : vtree)
| OConstruct (c : ustring) (kw : nat)
| OBundle (c : ustring) (args : list nat) (kw : option nat)
| OParse (a : nat) (ver : option bool) (ac : bool)
| OParseObs (a : nat) (vr : option nat) (ver : option bool) (ac : bool)
| ODeepcopy (a : nat)
| ONewVersion (a : nat) (kw : option nat)
| ORevoke (a : nat)
| OExpand (a : nat)
| OCompress (a : nat)
| OGranularAdd (a m s : nat)
| OGranularClear (a s : nat)
| OObjectAdd (a m : nat)
| OObjectRemove (a m : nat)
| OObjectClear (a : nat)
| OFactoryNew (kw : nat) (la : bool)
| OFactoryCreate (f : nat) (c : ustring) (kw : option nat)
| OStoreNew (data : option nat)
| OStoreAdd (s a : nat)
| OStoreGet (s : nat) (id : ustring)
| OSetattr (a : nat) (name : ustring)
| ODelattr (a : nat) (name : ustring)
| OSetitem (a : nat)
| OGranularRemove (a m s : nat)
| OGranularSet (a m s : nat)
| OObjectSet (a m : nat)
| OApi (fn : api_fn) (a : nat) (m s : option nat)
| ORemoveCustom (a : nat)
| OCopy (a : nat)
| ODeduplicate (a : nat)
| OClearOpts (a s : nat) (mr lg : bool)
| OSetOpts (a m s : nat) (mr lg : bool).

Section Run.
  Variable vt : variant.
  Variable W : world.

  Definition kwargs_of (h : heap) (e : env) (kw : option nat) : list (ustring * val) :=
    match kw with
    | Some i => match mapping_entries h (env_get e i) with Some m => m | None => [] end
    | None => []
    end.

  Definition exec (o : opcall) (e : env) (h : heap) : heap * res :=
    match o with
    | OMk t => let (h1, v) := build_x e t h in (h1, RVal v)
    | OConstruct c kw => run vt W (QConstruct c (env_get e kw)) h
    | OBundle c args kw => bundle vt W c (map (env_get e) args) (option_map (env_get e) kw) h
    | OParse a ver ac => bindv (get_dict (env_get e a) h) (fun d h0 => run vt W (QParse d ver ac) h0)
    | OParseObs a vr ver ac =>
        run vt W (QParseObs (env_get e a) (match vr with Some i => env_get e i | None => VA ANone end) ver ac) h
    | ODeepcopy a => deepcopy FUEL (env_get e a) h
    | ONewVersion a kw => new_version vt W (env_get e a) (kwargs_of h e kw) h
    | ORevoke a => revoke vt W (env_get e a) h
    | OExpand a => expand_markings (env_get e a) h
    | OCompress a => compress_markings (env_get e a) h
    | OGranularAdd a m s => granular_add vt W (env_get e a) (env_get e m) (env_get e s) h
    | OGranularClear a s => granular_clear vt W (env_get e a) (env_get e s) h
    | OObjectAdd a m => object_add vt W (env_get e a) (env_get e m) h
    | OObjectRemove a m => object_remove vt W (env_get e a) (env_get e m) h
    | OObjectClear a => object_clear vt W (env_get e a) h
    | OFactoryNew kw la => factory_new (env_get e kw) la h
    | OFactoryCreate f c kw =>
        match kw with
        | Some i => factory_create vt W (env_get e f) c (env_get e i) h
        | None => let (h1, l) := alloc h (NDict []) in factory_create vt W (env_get e f) c (VR l) h1
        end
    | OStoreNew data =>
        let (h1, s) := store_new h in
        match data, store_data h1 (VR s) with
        | Some i, Some d => if truthy h1 (env_get e i)
                            then bindv (store_add_top vt W d (env_get e i) h1) (fun _ h2 => (h2, RVal (VR s)))
                            else (h1, RVal (VR s))
        | _, _ => (h1, RVal (VR s))
        end
    | OStoreAdd s a =>
        match store_data h (env_get e s) with
        | Some d => store_add_top vt W d (env_get e a) h
        | None => (h, RExc "TypeError")
        end
    | OStoreGet s id =>
        match store_data h (env_get e s) with
        | Some d => store_get d id h
        | None => (h, RExc "TypeError")
        end
    | OSetattr a name => py_setattr (env_get e a) name (VA (AStr (u "changed"))) h
    | ODelattr a name => py_delattr (env_get e a) name h
    | OSetitem a => py_setitem_obj (env_get e a) h
    | OGranularRemove a m s => granular_remove vt W (env_get e a) (env_get e m) (env_get e s) h
    | OGranularSet a m s => granular_set vt W (env_get e a) (env_get e m) (env_get e s) h
    | OObjectSet a m => object_set vt W (env_get e a) (env_get e m) h
    | OApi fn a m s =>
        api_markings vt W fn (env_get e a) (match m with Some i => env_get e i | None => VA ANone end)
                     (match s with Some i => env_get e i | None => VA ANone end) h
    | ORemoveCustom a => remove_custom_stix vt W (env_get e a) h
    | OCopy a => shallow_copy (env_get e a) h                  (* copy.copy: a library object's copy shares its attributes *)
    | ODeduplicate a => deduplicate (env_get e a) h
    | OClearOpts a s mr lg => granular_clear_f vt W mr lg (env_get e a) (env_get e s) h
    | OSetOpts a m s mr lg => granular_set_f vt W mr lg (env_get e a) (env_get e m) (env_get e s) h
    end.

  (* ---- canonical names of containers: smallest env index, smallest path ---- *)
  Fixpoint assoc_nat {A : Type} (l : nat) (m : list (nat * A)) : option A :=
    match m with
    | [] => None
    | (l', x) :: r => if Nat.eqb l l' then Some x else assoc_nat l r
    end.

  Fixpoint upsert_min (l : nat) (p : ustring) (cur : list (nat * ustring)) : list (nat * ustring) :=
    match cur with
    | [] => [(l, p)]
    | (l', q) :: r => if Nat.eqb l l' then (l', if ustr_ltb p q then p else q) :: r else (l', q) :: upsert_min l p r
    end.

  Definition name_entry (h : heap) (named : list (nat * ustring)) (i : nat) (v : val) : list (nat * ustring) :=
    let ps := paths FUEL h [] v in
    let cur := fold_left (fun cur lp => match assoc_nat (fst lp) named with
                                        | Some _ => cur
                                        | None => upsert_min (fst lp) (snd lp) cur
                                        end) ps [] in
    named ++ map (fun lp => (fst lp, ustr_of_Z (Z.of_nat i) ++ u ":" ++ snd lp)) cur.

  Definition name_env (h : heap) (e : env) : list (nat * ustring) :=
    snd (fold_left (fun st v => (S (fst st), name_entry h (snd st) (fst st) v)) e (0, [])).

  Fixpoint insert_name (s : ustring) (xs : list ustring) : list ustring :=
    match xs with
    | [] => [s]
    | x :: r => match ustr_compare s x with
                | Lt => s :: x :: r
                | Eq => x :: r
                | Gt => x :: insert_name s r
                end
    end.

  Definition shared_names (h' : heap) (names : list (nat * ustring)) (r : val) : list ustring :=
    fold_right insert_name []
      (flat_map (fun lp => match assoc_nat (fst lp) names with Some nm => [nm] | None => [] end) (paths FUEL h' [] r)).

  Definition changed (h h' : heap) (e : env) : list nat :=
    (fix go (i : nat) (e : env) : list nat :=
       match e with
       | [] => []
       | v :: r => if opt_tree_eqb (value FUEL h v) (value FUEL h' v) then go (S i) r else i :: go (S i) r
       end) 0 e.

  (* the operations the property speaks about: everything except assignment to /
     deletion of PRIVATE attributes (leading underscore), which the library permits *)
  Definition public_op (o : opcall) : bool :=
    match o with
    | OSetattr _ name => negb (setattr_allowed name)
    | ODelattr _ _ => false
    | _ => true
    end.

  (* ... and, on heaps whose objects have only private attributes (every heap the
     library builds), deletion of public names as well *)
  Definition public_op_d (o : opcall) : bool :=
    match o with
    | ODelattr _ name => negb (setattr_allowed name)
    | _ => public_op o
    end.

  (* the state after a sequence of operations (the same threading as run_ops below) *)
  Fixpoint run_state (ops : list opcall) (e : env) (h : heap) : env * heap :=
    match ops with
    | [] => (e, h)
    | o :: rest =>
      let (h', r) := exec o e h in
      run_state rest (e ++ [match r with RVal v => v | _ => VA ANone end]) h'
    end.

  Definition sep (c : string) (xs : list string) : string :=
    match xs with
    | [] => EmptyString
    | x :: r => fold_left (fun acc y => append acc (append c y)) r x
    end.

  Definition render_op (h h' : heap) (e : env) (r : res) : string :=
    let status := match r with RVal _ => "ok"%string | RExc x => append "exc:" x | RFuel => "fuel"%string end in
    let sh := match r with RVal v => shared_names h' (name_env h e) v | _ => [] end in
    append status (append "|m:" (append (sep "," (map show_nat (changed h h' e)))
           (append "|s:" (sep ";" (map show_ustr sh))))).

  Fixpoint run_ops (ops : list opcall) (e : env) (h : heap) : list string :=
    match ops with
    | [] => []
    | o :: rest =>
      let (h', r) := exec o e h in
      render_op h h' e r :: run_ops rest (e ++ [match r with RVal v => v | _ => VA ANone end]) h'
    end.

  Definition run_case (ops : list opcall) : string := sep " # " (run_ops ops [] []).
End Run.

(* Model/Timestamp.v -- executable model of the timestamp code of
   stix2/utils.py: format_datetime, parse_into_datetime (+ the strptime call
   it makes), STIXdatetime.  No proofs here.

   An instant is a Z: microseconds since 0001-01-01T00:00:00 (Calendar.v).
   A Python datetime is modelled by its wall-clock fields read as such an
   instant (`local`) plus its UTC offset in microseconds (`None` = naive).   *)
From Coq Require Import ZArith NArith List Bool String.
From V Require Export Base.UString Model.Calendar.
Import ListNotations.
Open Scope Z_scope.

Inductive precision := PAny | PSecond | PMilli.          (* utils.Precision *)
Inductive pconstraint := CExact | CMin.                  (* utils.PrecisionConstraint *)
(* what strftime('%Y') does for years below 1000: glibc prints them without
   padding (Unpadded); Pad4 is the repaired behaviour.                       *)
Inductive year_mode := Unpadded | Pad4.
(* what parse_into_datetime does with a timezone-naive datetime: keeps it naive (NaiveKept),
   or localises it to UTC (NaiveUtc, the later behaviour).  format_datetime writes a naive
   value as UTC either way, so the written text is the same.                 *)
Inductive naive_mode := NaiveKept | NaiveUtc.

Inductive result (A : Type) := Ok (a : A) | Raise (e : string).
Arguments Ok {A} a.
Arguments Raise {A} e.

(* ---- digits ---- *)
Definition dchar (d : Z) : N := Z.to_N (48 + d).
Definition is_adigit (c : N) : bool := (48 <=? c)%N && (c <=? 57)%N.     (* [0-9] *)
Definition adigit_val (c : N) : Z := Z.of_N c - 48.

(* the n low decimal digits of v, most significant first  ("{:0nd}".format(v) for 0 <= v < 10^n) *)
Fixpoint digitsn (n : nat) (v : Z) : list Z :=
  match n with
  | O => []
  | S k => (v / 10 ^ Z.of_nat k) mod 10 :: digitsn k v
  end.

Definition text_of (ds : list Z) : ustring := map dchar ds.

(* str.rstrip("0") on a digit list *)
Fixpoint rstrip0 (ds : list Z) : list Z :=
  match ds with
  | [] => []
  | d :: r => match rstrip0 r with
              | [] => if d =? 0 then [] else [d]
              | r' => d :: r'
              end
  end.

(* str.ljust(3, "0") *)
Definition ljust3 (ds : list Z) : list Z := ds ++ repeat 0 (3 - List.length ds)%nat.

(* ---- format_datetime ---- *)

(* the fractional digits, branch by branch as in format_datetime;
   us = zoned.microsecond                                                    *)
Definition frac_digits (p : precision) (c : pconstraint) (us : Z) : list Z :=
  match p with
  | PAny =>                                     (* if precision == Precision.ANY *)
      if us =? 0 then [] else rstrip0 (digitsn 6 us)
  | PSecond =>
      match c with
      | CMin => if us =? 0 then [] else rstrip0 (digitsn 6 us)
      | CExact => []                            (* exact: ignore microseconds entirely *)
      end
  | PMilli =>
      match c with
      | CExact => firstn 3 (digitsn 6 us)                      (* "{:06d}"[:3] *)
      | CMin => ljust3 (rstrip0 (digitsn 6 us))                (* rstrip("0").ljust(3,"0") *)
      end
  end.

Definition year_text (ym : year_mode) (y : Z) : ustring :=
  match ym with
  | Pad4 => text_of (digitsn 4 y)
  | Unpadded =>
      if y <? 10 then text_of (digitsn 1 y)
      else if y <? 100 then text_of (digitsn 2 y)
      else if y <? 1000 then text_of (digitsn 3 y)
      else text_of (digitsn 4 y)
  end.

Definition ch_dash : N := 45%N.
Definition ch_colon : N := 58%N.
Definition ch_dot : N := 46%N.
Definition ch_T : N := 84%N.
Definition ch_Z : N := 90%N.

Definition pad2 (v : Z) : ustring := text_of (digitsn 2 v).

(* zoned.strftime('%Y-%m-%dT%H:%M:%S') + fraction + "Z", for a UTC instant t *)
Definition format (ym : year_mode) (p : precision) (c : pconstraint) (t : Z) : ustring :=
  let f := fields_of t in
  let frac := frac_digits p c (f_us f) in
  year_text ym (f_year f) ++ ch_dash :: pad2 (f_month f) ++ ch_dash :: pad2 (f_day f) ++ ch_T ::
  pad2 (f_hour f) ++ ch_colon :: pad2 (f_min f) ++ ch_colon :: pad2 (f_sec f) ++
  (match frac with [] => [] | _ => ch_dot :: text_of frac end) ++ [ch_Z].

(* format_datetime on a datetime (local wall-clock instant, utc offset):
   naive -> pytz.utc.localize (no change); aware -> astimezone(utc), which
   raises OverflowError outside years 1..9999.                               *)
Definition format_dt (ym : year_mode) (p : precision) (c : pconstraint) (local : Z) (off : option Z)
  : result ustring :=
  match off with
  | None => Ok (format ym p c local)
  | Some o => let utc := local - o in
              if in_range utc then Ok (format ym p c utc) else Raise "OverflowError"
  end.

(* ---- parse_into_datetime ---- *)

(* "Ensure correct precision": applied to the fields of ts as they are (local) *)
Definition stored_trunc (p : precision) (c : pconstraint) (t : Z) : Z :=
  match p, c with
  | PSecond, CExact => t - t mod 1000000                 (* ts.replace(microsecond=0) *)
  | PMilli, CExact => t - t mod 1000000 + (t mod 1000000) / 1000 * 1000    (* (us // 1000) * 1000 *)
  | _, _ => t
  end.

(* -- datetime.strptime for the two formats of utils.py --
   \d of a str pattern and int() accept every Unicode decimal digit (category
   Nd; CPython 3.12 = Unicode 15.0): blocks of ten starting at these points.  *)
Definition nd_zeros : list N :=
  [48; 1632; 1776; 1984; 2406; 2534; 2662; 2790; 2918; 3046; 3174; 3302; 3430; 3558; 3664; 3792; 3872;
   4160; 4240; 6112; 6160; 6470; 6608; 6784; 6800; 6992; 7088; 7232; 7248; 42528; 43216; 43264; 43472;
   43504; 43600; 44016; 65296; 66720; 68912; 69734; 69872; 69942; 70096; 70384; 70736; 70864; 71248;
   71360; 71472; 71904; 72016; 72784; 73040; 73120; 73552; 92768; 92864; 93008; 120782; 120792; 120802;
   120812; 120822; 123200; 123632; 124144; 125264; 130032]%N.

Fixpoint udigit_in (zs : list N) (c : N) : option Z :=
  match zs with
  | [] => None
  | z :: r => if (z <=? c)%N && (c <? z + 10)%N then Some (Z.of_N (c - z)) else udigit_in r c
  end.
Definition udigit (c : N) : option Z := udigit_in nd_zeros c.          (* \d *)

Definition in_cls (lo hi : N) (c : N) : option Z :=                     (* [lo-hi], ASCII digits *)
  if (lo <=? c)%N && (c <=? hi)%N then Some (adigit_val c) else None.

(* A regex fragment followed by the rest of the pattern (continuation k):
   alternatives are tried in order, the first overall success wins --
   the backtracking semantics of re.match.                                   *)
Section Strptime.
  Variable A : Type.
  Definition kont := Z -> ustring -> option A.

  Definition one (cls : N -> option Z) (k : kont) (s : ustring) : option A :=
    match s with
    | c :: r => match cls c with Some v => k v r | None => None end
    | [] => None
    end.
  Definition two (cls1 cls2 : N -> option Z) (k : kont) (s : ustring) : option A :=
    one cls1 (fun a r => one cls2 (fun b r' => k (a * 10 + b) r') r) s.
  Definition orelse (a b : ustring -> option A) (s : ustring) : option A :=
    match a s with Some x => Some x | None => b s end.
  Definition space_then (cls : N -> option Z) (k : kont) (s : ustring) : option A :=
    match s with
    | 32%N :: r => one cls k r
    | _ => None
    end.
  Definition lit (c c' : N) (k : ustring -> option A) (s : ustring) : option A :=
    match s with
    | x :: r => if (x =? c)%N || (x =? c')%N then k r else None
    | [] => None
    end.

  (* %Y  \d\d\d\d *)
  Definition re_Y (k : kont) : ustring -> option A :=
    one udigit (fun a => one udigit (fun b => one udigit (fun c => one udigit (fun d =>
      k (((a * 10 + b) * 10 + c) * 10 + d))))).
  (* %m  1[0-2]|0[1-9]|[1-9] *)
  Definition re_m (k : kont) : ustring -> option A :=
    orelse (two (in_cls 49 49) (in_cls 48 50) k)
   (orelse (two (in_cls 48 48) (in_cls 49 57) k)
           (one (in_cls 49 57) k)).
  (* %d  3[0-1]|[1-2]\d|0[1-9]|[1-9]| [1-9] *)
  Definition re_d (k : kont) : ustring -> option A :=
    orelse (two (in_cls 51 51) (in_cls 48 49) k)
   (orelse (two (in_cls 49 50) udigit k)
   (orelse (two (in_cls 48 48) (in_cls 49 57) k)
   (orelse (one (in_cls 49 57) k)
           (space_then (in_cls 49 57) k)))).
  (* %H  2[0-3]|[0-1]\d|\d *)
  Definition re_H (k : kont) : ustring -> option A :=
    orelse (two (in_cls 50 50) (in_cls 48 51) k)
   (orelse (two (in_cls 48 49) udigit k)
           (one udigit k)).
  (* %M  [0-5]\d|\d *)
  Definition re_M (k : kont) : ustring -> option A :=
    orelse (two (in_cls 48 53) udigit k) (one udigit k).
  (* %S  6[0-1]|[0-5]\d|\d *)
  Definition re_S (k : kont) : ustring -> option A :=
    orelse (two (in_cls 54 54) (in_cls 48 49) k)
   (orelse (two (in_cls 48 53) udigit k)
           (one udigit k)).

  (* exactly n characters of [0-9]; value of s.ljust(6,"0") is accumulated by the caller *)
  Fixpoint take_adigits (n : nat) (s : ustring) (acc : Z) : option (Z * ustring) :=
    match n with
    | O => Some (acc, s)
    | S k => match s with
             | c :: r => if is_adigit c then take_adigits k r (acc * 10 + adigit_val c) else None
             | [] => None
             end
    end.
  (* %f  [0-9]{1,6}  greedy: 6, then 5, ... then 1 characters *)
  Fixpoint re_f (n : nat) (k : kont) (s : ustring) : option A :=
    match n with
    | O => None
    | S m => match take_adigits n s 0 with
             | Some (v, r) => match k (v * 10 ^ Z.of_nat (6 - n)) r with
                              | Some x => Some x
                              | None => re_f m k s
                              end
             | None => re_f m k s
             end
    end.
End Strptime.

Definition ptuple := (Z * Z * Z * Z * Z * Z * Z * ustring)%type.

(* the compiled regex of _TIMESTAMP_FORMAT[_FRAC] (re.IGNORECASE: T/t, Z/z);
   result: the seven numbers and the unconsumed rest                         *)
Definition regex_match (frac : bool) (s : ustring) : option ptuple :=
  re_Y _ (fun y => lit _ 45 45 (
  re_m _ (fun m => lit _ 45 45 (
  re_d _ (fun d => lit _ 84 116 (
  re_H _ (fun hh => lit _ 58 58 (
  re_M _ (fun mm => lit _ 58 58 (
  re_S _ (fun ss =>
    if frac then lit _ 46 46 (re_f _ 6 (fun us => lit _ 90 122 (fun r => Some (y, m, d, hh, mm, ss, us, r))))
    else lit _ 90 122 (fun r => Some (y, m, d, hh, mm, ss, 0, r))))))))))))) s.

Definition has_dot (s : ustring) : bool := existsb (fun c => (c =? 46)%N) s.       (* "." in value *)

(* dt.datetime.strptime(value, fmt) then pytz.utc.localize: Some instant, or
   None for ValueError (no match, unconverted data, fields the datetime
   constructor refuses)                                                      *)
Definition parse_strptime (s : ustring) : option Z :=
  match regex_match (has_dot s) s with
  | Some (y, m, d, hh, mm, ss, us, []) =>
      if valid_fields y m d hh mm ss us then Some (instant_of y m d hh mm ss us) else None
  | _ => None
  end.

Inductive tsinput :=
| InDatetime (local : Z) (off : option Z)      (* datetime.datetime *)
| InDate (y m d : Z)                           (* datetime.date *)
| InStr (s : ustring).

(* parse_into_datetime(value, precision, precision_constraint): the stored
   wall-clock instant and utc offset of the resulting STIXdatetime            *)
Definition parse_into (nm : naive_mode) (p : precision) (c : pconstraint) (v : tsinput) : result (Z * option Z) :=
  match v with
  | InDatetime l o =>                                                  (* ts = value [localised if naive] *)
      Ok (stored_trunc p c l, match o, nm with None, NaiveUtc => Some 0 | _, _ => o end)
  | InDate y m d => Ok (stored_trunc p c (instant_of y m d 0 0 0 0), Some 0)   (* combine(value, time(0,0,tzinfo=utc)) *)
  | InStr s => match parse_strptime s with
               | Some t => Ok (stored_trunc p c t, Some 0)
               | None => Raise "ValueError"
               end
  end.

(* a value that is itself the result of an earlier parse_into_datetime(v, p, c): a STIXdatetime
   whose fields were adjusted then; the precision attributes it carries play no role later *)
Definition reparse (nm : naive_mode) (p : precision) (c : pconstraint) (v : tsinput) : tsinput :=
  match parse_into nm p c v with Ok (l, o) => InDatetime l o | Raise _ => v end.

(* format_datetime(parse_into_datetime(v, p, c)) -- also what
   TimestampProperty(p, c).clean + JSON serialization produce                *)
Definition write (nm : naive_mode) (ym : year_mode) (p : precision) (c : pconstraint) (v : tsinput) : result ustring :=
  match parse_into nm p c v with
  | Ok (l, o) => format_dt ym p c l o
  | Raise e => Raise e
  end.

(* the same when the STIXdatetime loses its precision attributes between cleaning and writing (a copy
   that rebuilds it with other attributes p', c'): the fields adjusted at (p, c) are written at (p', c') *)
Definition write_as (nm : naive_mode) (ym : year_mode) (p : precision) (c : pconstraint) (p' : precision) (c' : pconstraint)
                    (v : tsinput) : result ustring :=
  match parse_into nm p c v with
  | Ok (l, o) => format_dt ym p' c' l o
  | Raise e => Raise e
  end.

(* ---- rendering of results for the correspondence run ---- *)
Open Scope string_scope.
Definition show_optZ (o : option Z) : string :=
  match o with None => "naive" | Some z => show_Z z end.
Definition show_text (r : result ustring) : string :=
  match r with Ok s => append "OK " (show_ustr s) | Raise e => append "EXC " e end.
Definition show_parsed (nm : naive_mode) (ym : year_mode) (p : precision) (c : pconstraint) (v : tsinput) : string :=
  match parse_into nm p c v with
  | Ok (l, o) => append "OK " (append (show_Z l) (append " " (append (show_optZ o) (append " "
                   (match format_dt ym p c l o with Ok s => show_ustr s | Raise e => append "EXC " e end)))))
  | Raise e => append "EXC " e
  end.
Definition dt (y m d hh mm ss us : Z) : Z := instant_of y m d hh mm ss us.

(* Model/JcsText.v -- text primitives shared by the model of the canonicaliser
   (Model/Jcs.v) and by the RFC 8785 / ECMA-262 specification (Spec/Rfc8785.v):
   character constants, decimal numerals, the Python `str` operations that
   NumberToJson.py uses (find, slices), lexicographic comparison of unit lists.
   No proofs here.                                                             *)
From Coq Require Import NArith ZArith List Bool Decimal DecimalN.
From V Require Import Base.UString.
Import ListNotations.
Open Scope N_scope.

(* ---- characters ---------------------------------------------------------- *)
Definition c_quote : N := 34.      (* the double quote *)
Definition c_plus : N := 43.
Definition c_comma : N := 44.
Definition c_minus : N := 45.
Definition c_dot : N := 46.
Definition c_0 : N := 48.
Definition c_colon : N := 58.
Definition c_lbrack : N := 91.
Definition c_bslash : N := 92.
Definition c_rbrack : N := 93.
Definition c_e : N := 101.
Definition c_n : N := 110.
Definition c_lbrace : N := 123.
Definition c_rbrace : N := 125.

(* a decimal digit value 0..9 as its character *)
Definition dchar (d : N) : N := 48 + d.
Definition dchars (ds : list N) : ustring := map dchar ds.

(* ---- decimal numerals of naturals (through Coq's Decimal.uint, whose
   round trip N.of_uint (N.to_uint n) = n is a stdlib theorem) --------------- *)
Fixpoint digits_of_uint (d : Decimal.uint) : ustring :=
  match d with
  | Nil => []
  | D0 r => 48 :: digits_of_uint r
  | D1 r => 49 :: digits_of_uint r
  | D2 r => 50 :: digits_of_uint r
  | D3 r => 51 :: digits_of_uint r
  | D4 r => 52 :: digits_of_uint r
  | D5 r => 53 :: digits_of_uint r
  | D6 r => 54 :: digits_of_uint r
  | D7 r => 55 :: digits_of_uint r
  | D8 r => 56 :: digits_of_uint r
  | D9 r => 57 :: digits_of_uint r
  end.

Fixpoint uint_of_digits (s : ustring) : option Decimal.uint :=
  match s with
  | [] => Some Nil
  | c :: r =>
    match uint_of_digits r with
    | None => None
    | Some t =>
      if c =? 48 then Some (D0 t) else if c =? 49 then Some (D1 t)
      else if c =? 50 then Some (D2 t) else if c =? 51 then Some (D3 t)
      else if c =? 52 then Some (D4 t) else if c =? 53 then Some (D5 t)
      else if c =? 54 then Some (D6 t) else if c =? 55 then Some (D7 t)
      else if c =? 56 then Some (D8 t) else if c =? 57 then Some (D9 t)
      else None
    end
  end.

(* decimal text of a natural number, no leading zeros (the single digit 0 for zero) *)
Definition dec_show (n : N) : ustring := digits_of_uint (N.to_uint n).

(* one or more ASCII digits -> the number *)
Definition dec_parse (s : ustring) : option N :=
  match s with
  | [] => None
  | _ => option_map N.of_uint (uint_of_digits s)
  end.

(* ---- Python str operations ------------------------------------------------ *)
(* s.find(c): None stands for -1, Some i for index i *)
Fixpoint find_idx (c : N) (s : ustring) : option nat :=
  match s with
  | [] => None
  | x :: r => if x =? c then Some O else option_map S (find_idx c r)
  end.

(* int(text) for the texts that reach it here: optional sign, then one or more
   ASCII digits; anything else is ValueError (None).  (CPython's int() also
   accepts surrounding whitespace, underscores and non-ASCII digits; none of
   them can occur in the repr of a float.)                                     *)
Definition py_int (s : ustring) : option Z :=
  match s with
  | 43 :: r => option_map Z.of_N (dec_parse r)
  | 45 :: r => option_map (fun n => (- Z.of_N n)%Z) (dec_parse r)
  | _ => option_map Z.of_N (dec_parse s)
  end.

(* ---- lexicographic order on lists of units (bytes, UTF-16 units) ----------- *)
Definition units_leb (a b : list N) : bool :=
  match ustr_compare a b with Gt => false | _ => true end.

(* ---- joining -------------------------------------------------------------- *)
Fixpoint join_with (sep : ustring) (parts : list ustring) : ustring :=
  match parts with
  | [] => []
  | [p] => p
  | p :: rest => p ++ sep ++ join_with sep rest
  end.

(* Spec/StoreSpec.v -- what "behaves like a plain list of the added objects"
   means (property C11), independently of how a store is built.

   L is the list of added objects.  A version is an (id, modified) pair; two
   objects without `modified` and with the same id are the same version.      *)
From Coq Require Import NArith ZArith List Bool Permutation.
From V Require Import Base.UString Model.Store.
Import ListNotations.
Open Scope list_scope.

Definition has_id (id : ustring) (o : obj) : bool := ustr_eqb (oid o) id.
Definition versions (id : ustring) (L : list obj) : list obj := filter (has_id id) L.
Definition vkey_of (o : obj) : ustring * vkey := (oid o, omod o).

(* a is not older than b: instants compared as instants *)
Definition v_ge (a b : vkey) : Prop :=
  match a, b with
  | VInst x, VInst y => (y <= x)%Z
  | VNone, VNone => True
  | _, _ => False
  end.

(* the objects the theorems speak about: `modified` is an instant or absent *)
Definition ok_v (k : vkey) : Prop := match k with VInst _ => True | VNone => True | _ => False end.
Definition normal (o : obj) : Prop := ok_v (omod o).
(* an id is always or never versioned *)
Definition uniform (L : list obj) : Prop :=
  forall o o', In o L -> In o' L -> oid o = oid o' -> (omod o = VNone <-> omod o' = VNone).

(* get / all_versions / the stored population of a store behave like the list L *)
Record refines (L : list obj) (get : ustring -> option obj) (all : ustring -> list obj)
               (stored : list obj) : Prop := mkRefines {
  (* lookup by id: nothing only if nothing was added; otherwise an added object
     of that id whose modified is the greatest *)
  r_get_none : forall id, get id = None -> versions id L = [];
  r_get_some : forall id o, get id = Some o ->
     In o L /\ oid o = id /\ forall o', In o' L -> oid o' = id -> v_ge (omod o) (omod o');
  (* all versions: only added objects of that id, every added version, each once *)
  r_all_sound : forall id o, In o (all id) -> In o L /\ oid o = id;
  r_all_complete : forall id o, In o L -> oid o = id -> exists o', In o' (all id) /\ omod o' = omod o;
  r_all_distinct : forall id, NoDup (map omod (all id));
  (* the population queries run over: only added objects, every (id, version), each once *)
  r_stored_sound : forall o, In o stored -> In o L;
  r_stored_complete : forall o, In o L -> exists o', In o' stored /\ vkey_of o' = vkey_of o;
  r_stored_distinct : NoDup (map vkey_of stored) }.

(* Spec/NumValue.v -- what a JSON number text denotes (RFC 8259 6): an optional
   minus, integer digits, optional fraction digits, optional exponent.  The reader
   returns (negative?, M, E) with the denoted number  (+/-) M * 10^E  exactly
   (M the integer written by the integer and fraction digits together,
   E = exponent - number of fraction digits).  A double given by its decimal digits
   ds = d1..dk and exponent n is 0.d1...dk * 10^n = dval ds * 10^(n-k).
   No proofs here.                                                             *)
From Coq Require Import String NArith ZArith List Bool.
From V Require Import Base.UString Model.JcsText.
Import ListNotations.
Open Scope N_scope.

Definition isdig_b (c : N) : bool := (48 <=? c) && (c <=? 57).

Fixpoint span_dig (s : ustring) : ustring * ustring :=
  match s with
  | [] => ([], [])
  | c :: r => if isdig_b c then let (a, b) := span_dig r in (c :: a, b) else ([], s)
  end.

(* the natural number written by a list of digit values, most significant first *)
Definition dval (ds : list N) : N := fold_left (fun a d => 10 * a + d) ds 0.

(* ... by a list of digit characters *)
Definition cval (s : ustring) : N := dval (map (fun c => c - 48) s).

Definition read_number (t : ustring) : option (bool * N * Z) :=
  let '(neg, t1) := match t with
                    | c :: r => if c =? 45 then (true, r) else (false, t)
                    | [] => (false, t)
                    end in
  let '(ip, t2) := span_dig t1 in
  match ip with
  | [] => None
  | _ :: _ =>
    let '(fp, t3) := match t2 with
                     | c :: r => if c =? 46 then span_dig r else ([], t2)
                     | [] => ([], t2)
                     end in
    match t3 with
    | [] => Some (neg, cval (ip ++ fp), (- Z.of_nat (length fp))%Z)
    | c :: r =>
      if (c =? 101) || (c =? 69) then
        match py_int r with
        | Some x => Some (neg, cval (ip ++ fp), (x - Z.of_nat (length fp))%Z)
        | None => None
        end
      else None
    end
  end.

(* the text denotes the double with digits ds and exponent n: M * 10^E = dval ds * 10^(n-k),
   the writer being free to move z trailing zeros between M and E *)
Definition denotes (t : ustring) (neg : bool) (ds : list N) (n : Z) : Prop :=
  exists z : nat, read_number t = Some (neg, dval ds * 10 ^ N.of_nat z, (n - Z.of_nat (length ds) - Z.of_nat z)%Z).

(* Spec/Reread.v -- reading a parsed canonical text back into Python values the way
   json.loads followed by canonicalize does for numbers: a number literal t becomes
   the float whose repr is `rr t` (rr = fun t => repr(float(<number t>)), through int
   first when t has no fraction or exponent; a parameter: binary floating point is
   not modelled).  nums_double: every number of the value is a float given by the
   repr of a double (by its shortest digits, as a predicate parameter) or a zero.
   No proofs here.                                                              *)
From Coq Require Import String NArith ZArith List Bool.
From V Require Import Base.UString Base.Json Model.JcsText Model.Jcs.
Import ListNotations.

Fixpoint reread_deep (rr : ustring -> ustring) (j : jvalue) : jvalue :=
  match j with
  | JFloat t => JFloat (rr t)
  | JArr l => JArr (map (reread_deep rr) l)
  | JObj m => JObj (map (fun kv => (fst kv, reread_deep rr (snd kv))) m)
  | _ => j
  end.

Section Doubles.
  Variable is_double : bool -> list N -> Z -> Prop.

  Definition double_repr (r : ustring) : Prop :=
    r = [c_0; c_dot; c_0] \/ r = [c_minus; c_0; c_dot; c_0] \/
    exists neg ds n, is_double neg ds n /\ r = py_repr neg ds n.

  Inductive nums_double : jvalue -> Prop :=
  | nd_null : nums_double JNull
  | nd_bool : forall b, nums_double (JBool b)
  | nd_float : forall r, double_repr r -> nums_double (JFloat r)
  | nd_str : forall s, nums_double (JStr s)
  | nd_arr : forall l, Forall nums_double l -> nums_double (JArr l)
  | nd_obj : forall m, Forall (fun kv => nums_double (snd kv)) m -> nums_double (JObj m).
End Doubles.

(* Spec/NamingSpec.v -- the naming rules of STIX 2.0 / 2.1 for type names and
   property names, stated declaratively (independently of any regular
   expression).  Written from the normative text as far as it is certain:

   type names (2.0 part 1 sec. 7.2 / 2.1 sec. 11.2 custom objects): only the
     characters a-z (lower-case ASCII), 0-9 and hyphen; a hyphen MUST NOT
     immediately follow another hyphen ("--" separates the type from the UUID
     in identifiers); between 3 and 250 characters; 2.1: begins with a letter
     (what the library enforces for 2.1 and the 2.1 JSON schema demands);
   property names (2.0 part 1 sec. 7.1 / 2.1 sec. 11.1 custom properties): only
     a-z, 0-9 and underscore; between 3 and 250 characters; 2.1: begins with a
     letter (what the library enforces for 2.1).  `id` is the one
     specification-defined property name shorter than three characters and is
     a legal name.

   `type_name_must` / `prop_name_must` are the parts every reading of the
   specifications agrees on (character set, hyphen structure, length): the
   harness's oracle demands refusal exactly for names outside them.          *)
From Coq Require Import NArith List Arith.
From V Require Import Base.UString.
Import ListNotations.
Open Scope N_scope.

Definition lower_letter (c : N) : Prop := 97 <= c /\ c <= 122.     (* a-z *)
Definition digit (c : N) : Prop := 48 <= c /\ c <= 57.             (* 0-9 *)
Definition type_char (c : N) : Prop := lower_letter c \/ digit c \/ c = 45.   (* hyphen *)
Definition prop_char (c : N) : Prop := lower_letter c \/ digit c \/ c = 95.   (* underscore *)

Fixpoint no_double_hyphen (s : ustring) : Prop :=
  match s with
  | c :: t => match t with
              | c2 :: _ => ~ (c = 45 /\ c2 = 45) /\ no_double_hyphen t
              | [] => True
              end
  | [] => True
  end.

Definition begins_with_letter (s : ustring) : Prop := exists c t, s = c :: t /\ lower_letter c.

Inductive spec_version := Stix20 | Stix21.

Definition spec_type_name (V : spec_version) (s : ustring) : Prop :=
  Forall type_char s /\ (3 <= length s <= 250)%nat /\
  no_double_hyphen s /\
  match V with
  | Stix20 => True
  | Stix21 => begins_with_letter s
  end.

(* what "breaks the rules" must at least mean, in both versions *)
Definition type_name_must (s : ustring) : Prop :=
  Forall type_char s /\ (3 <= length s <= 250)%nat /\ no_double_hyphen s.

Definition prop_name_must (s : ustring) : Prop :=
  s = [105; 100] \/ (Forall prop_char s /\ (3 <= length s <= 250)%nat).

Definition spec_prop_name (V : spec_version) (s : ustring) : Prop :=
  (s = [105; 100] \/ (Forall prop_char s /\ (3 <= length s <= 250)%nat)) /\
  match V with
  | Stix20 => True
  | Stix21 => begins_with_letter s
  end.

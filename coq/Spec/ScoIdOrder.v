(* Spec/ScoIdOrder.v -- "the same property values up to dictionary order", for the
   Python values of Model/ScoId.v: pperm relates two values that differ only in
   the order of the members of dictionaries (nested objects), at any depth;
   pnodup says that every dictionary has distinct keys (Python dicts do).
   No proofs here except the nested induction principle.                        *)
From Coq Require Import String NArith ZArith List Bool Permutation.
From V Require Import Base.UString Base.Json Model.ScoId.
Import ListNotations.

Section PInd.
  Variable P : pval -> Prop.
  Hypothesis Hnone : P PNone.
  Hypothesis Hbool : forall b, P (PBool b).
  Hypothesis Hint : forall z, P (PInt z).
  Hypothesis Hfloat : forall r, P (PFloat r).
  Hypothesis Hstr : forall s, P (PStr s).
  Hypothesis Htime : forall t, P (PTime t).
  Hypothesis Hstamp : forall ym p c t, P (PStamp ym p c t).
  Hypothesis Hlist : forall l, Forall P l -> P (PList l).
  Hypothesis Hdict : forall m, Forall (fun kv => P (snd kv)) m -> P (PDict m).

  Fixpoint pval_nested_ind (v : pval) : P v :=
    match v with
    | PNone => Hnone
    | PBool b => Hbool b
    | PInt z => Hint z
    | PFloat r => Hfloat r
    | PStr s => Hstr s
    | PTime t => Htime t
    | PStamp ym p c t => Hstamp ym p c t
    | PList l => Hlist l ((fix go (l : list pval) : Forall P l :=
                             match l with
                             | [] => Forall_nil _
                             | x :: xs => Forall_cons _ (pval_nested_ind x) (go xs)
                             end) l)
    | PDict m => Hdict m ((fix go (m : list (ustring * pval)) : Forall (fun kv => P (snd kv)) m :=
                             match m with
                             | [] => Forall_nil _
                             | kv :: xs => Forall_cons _ (pval_nested_ind (snd kv)) (go xs)
                             end) m)
    end.
End PInd.

Inductive pperm : pval -> pval -> Prop :=
| pp_refl : forall v, pperm v v
| pp_list : forall l l', Forall2 pperm l l' -> pperm (PList l) (PList l')
| pp_dict : forall m m' m'', Forall2 (fun a b => fst a = fst b /\ pperm (snd a) (snd b)) m m' ->
            Permutation m' m'' -> pperm (PDict m) (PDict m'').

Inductive pnodup : pval -> Prop :=
| pn_none : pnodup PNone
| pn_bool : forall b, pnodup (PBool b)
| pn_int : forall z, pnodup (PInt z)
| pn_float : forall r, pnodup (PFloat r)
| pn_str : forall s, pnodup (PStr s)
| pn_time : forall t, pnodup (PTime t)
| pn_stamp : forall ym p c t, pnodup (PStamp ym p c t)
| pn_list : forall l, Forall pnodup l -> pnodup (PList l)
| pn_dict : forall m, NoDup (map fst m) -> Forall (fun kv => pnodup (snd kv)) m -> pnodup (PDict m).

(* two objects holding the same properties, each value the same up to dictionary order *)
Definition same_props (obj obj' : list (ustring * pval)) : Prop :=
  Forall2 (fun a b => fst a = fst b /\ pperm (snd a) (snd b)) obj obj'.

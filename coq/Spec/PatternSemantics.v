(* Spec/PatternSemantics.v -- what STIX patterns mean (C09; DESIGN.md 6/C09, Appendix A.5).

   Independent of the normaliser's PASSES (flatten, order, absorb, DNF, settle,
   the special-value pass): none of them is mentioned here.  NOT independent of
   the model file as a whole: the denotation of a constant (den_prim, den_atom
   below) is built from helper functions DEFINED IN Model/PatternEq.v and also
   used by the model's comparators and special-value pass -- hex_decode,
   b64_decode (bytes of hex / base64 literals), inet_aton, py_int, find_cp,
   mask arithmetic via ipv4_net_of (the network of an IPv4 text), special_kind
   (which paths are special), is_matches, and, in the hypothesis respects_cidr6,
   ip_canon true (the IPv6 canonical text).  These helpers are a SHARED TRUSTED
   BASE of specification and model: an error in one of them is invisible to the
   soundness theorems (special_sound, equiv_sound).  They are anchored on known
   vectors (Props/C09.v, Examples anchor_*: RFC 4648 section 10 for base64,
   glibc inet_aton forms, CIDR masking) and exercised against the running
   implementation by the correspondence run.  Everything is parameterised by an ARBITRARY
   interpretation of the atomic comparisons

       H : object type -> path -> operator -> negated -> denotation of the constant -> object -> bool

   (a Section variable: the theorems proved against this specification hold
   for every H, so they do not depend on any reading of =, <, LIKE, MATCHES,
   ISSUBSET, ... nor of NOT).  Two things are fixed about atoms:

   * an atom `t:path op k` is false on an object whose type is not t (STIX 2.1
     section 9.4: all comparison expressions of an observation expression are
     matched against the same SCO, and an object path starts with the type);
   * H sees the constant only through its denotation: numbers as exact
     rationals (1 = 1.0 = 1.00), hex and base64 literals as the bytes they
     encode, set literals up to the order of their members; on the registry-key
     paths the STIX specification declares case-insensitive
     (windows-registry-key:key, :values[..].name) a string is seen up to case;
     on ipv4-addr:value a string that is an address or a CIDR block is seen as
     the network it denotes (1.2.3.4 = 1.2.3.4/32 = 1.2.3.004, 10.9.9.9/8 =
     10.0.0.0/8) -- except the regular expression of MATCHES, which is always
     seen as written.  (For ipv6-addr:value the corresponding statement is a
     hypothesis on H, respects_cidr6: the model's restatement of inet_pton /
     inet_ntop has no independent specification here; the hypothesis is
     stated WITH the model's ip_canon true, i.e. for IPv6 the soundness
     theorems assume that canonicalisation preserves meaning rather than
     prove it.)

   Comparison expressions: andb / orb over ONE object.
   Observation expressions: bindings (duplicate-free lists of observation
   indices), as in Appendix A.5:
     [c]              {i}  when some object of observation i satisfies c
     AND              concatenation of pairwise disjoint bindings of the operands
     OR               a binding of some operand
     FOLLOWEDBY       as AND, and every time of an earlier operand's binding <= every time of a later one's
     e REPEATS n      concatenation of n pairwise disjoint bindings of e
     e WITHIN d       a binding of e whose times lie within d seconds of each other (d = m * 10^-e, a decimal)
     e START s STOP t a binding of e whose times lie in [s, t)
   A pattern matches a sequence of observations iff it has a binding.        *)
From Coq Require Import NArith ZArith QArith List Bool Permutation String.
From V Require Import Base.UString Model.PatternEq.
Import ListNotations.

(* ------------------------------------------------------------------ *)
(* denotations of constants                                            *)

Definition pow10 (e : N) : positive := match e with N0 => 1%positive | Npos p => Pos.pow 10 p end.

Inductive dprim :=
| DNum (q : Q)                 (* the exact value of an integer or decimal literal *)
| DStr (s : ustring)
| DBool (b : bool)
| DTime (us : Z)               (* an instant, microseconds *)
| DHex (bytes : list N)
| DBin (bytes : list N)
| DNet4 (addr : N) (prefix : N).   (* an IPv4 network: the address with its host bits cleared, the prefix length *)

Inductive dconst :=
| DP (d : dprim)
| DSet (l : list dprim).

Definition den_prim (p : prim) : dprim :=
  match p with
  | PInt z => DNum (z # 1)
  | PFloat m e => DNum (m # pow10 e)
  | PStr s => DStr s
  | PBool b => DBool b
  | PTime t => DTime t
  | PHex s => DHex (hex_decode s)
  | PBin s => DBin (b64_decode s)
  end.

Definition den (k : const) : dconst :=
  match k with
  | KP p => DP (den_prim p)
  | KList l => DSet (map den_prim l)
  end.

(* "the same value": numbers as rationals, sets up to the order of their members *)
Definition dprim_eq (a b : dprim) : Prop :=
  match a, b with
  | DNum p, DNum q => Qeq p q
  | _, _ => a = b
  end.

Definition dconst_eq (a b : dconst) : Prop :=
  match a, b with
  | DP x, DP y => dprim_eq x y
  | DSet l, DSet l' => exists m, Permutation l m /\ Forall2 dprim_eq m l'
  | _, _ => False
  end.

(* case folding of registry-key strings: exact below U+0100, identity above (stated limit) *)
Definition fold_cp (c : N) : N :=
  (if (65 <=? c) && (c <=? 90) then c + 32
   else if (192 <=? c) && (c <=? 222) && negb (c =? 215) then c + 32 else c)%N.
Definition casefold (s : ustring) : ustring := map fold_cp s.

(* the object paths whose string values are case-insensitive *)
Definition is_key (s : step) (k : string) : bool := match s with SKey x => ustr_eqb x (u k) | SIdx _ => false end.
Definition is_index (s : step) : bool := match s with SIdx _ => true | SKey x => ustr_eqb x (u "*") end.
Definition regkey_path (t : ustring) (p : list step) : bool :=
  ustr_eqb t (u "windows-registry-key") &&
  match p with
  | [k] => is_key k "key"
  | [a; i; b] => is_key a "values" && is_index i && is_key b "name"
  | _ => false
  end.

Definition ip4_path (t : ustring) (p : list step) : bool :=
  ustr_eqb t (u "ipv4-addr") && match p with [k] => is_key k "value" | _ => false end.

Definition addr4 (bs : list N) : N :=
  match bs with [b0; b1; b2; b3] => (((b0 * 256 + b1) * 256 + b2) * 256 + b3)%N | _ => 0%N end.

(* the network an IPv4 address / CIDR string denotes: (address with the host bits cleared, prefix
   length).  What is an address and what is a prefix length is decided by the platform's inet_aton
   and int() (restated in the model); the masking is arithmetic on the 32-bit number. *)
Definition ipv4_net_of (s : ustring) : option (N * N) :=
  let ip := match find_cp 47%N s with Some (a, _) => a | None => s end in
  let suffix := match find_cp 47%N s with Some (_, t) => Some t | None => None end in
  match inet_aton ip with
  | AtonOk bs =>
    match suffix with
    | None => Some (addr4 bs, 32%N)
    | Some t =>
      match py_int t with
      | Some n => if ((0 <=? n) && (n <=? 32))%Z
                  then Some ((addr4 bs / 2 ^ Z.to_N (32 - n) * 2 ^ Z.to_N (32 - n))%N, Z.to_N n)
                  else None
      | None => None
      end
    end
  | _ => None
  end.

(* the denotation of an atom's constant in the context of its path and operator *)
Definition den_atom (a : atom) : dconst :=
  match a_rhs a with
  | KP (PStr s) =>
    if is_matches (a_op a) then DP (DStr s)
    else if regkey_path (a_type a) (a_path a) then DP (DStr (casefold s))
    else if ip4_path (a_type a) (a_path a)
         then match ipv4_net_of s with Some (ad, n) => DP (DNet4 ad n) | None => DP (DStr s) end
    else DP (DStr s)
  | k => den k
  end.

(* parentheses mean nothing *)
Fixpoint unparen_c (e : cexpr0) : cexpr :=
  match e with
  | Atom0 a => Atom a
  | And0 l => CAnd (map unparen_c l)
  | Or0 l => COr (map unparen_c l)
  | Paren0 e' => unparen_c e'
  end.

Fixpoint unparen_o (e : oexpr0) : oexpr :=
  match e with
  | Obs0 c => Obs (unparen_c c)
  | OAnd0 l => OAnd (map unparen_o l)
  | OOr0 l => OOr (map unparen_o l)
  | OFby0 l => OFby (map unparen_o l)
  | OQual0 e' q => OQual (unparen_o e') q
  | OParen0 e' => unparen_o e'
  end.

Section Semantics.
  Variable obj : Type.
  Variable otype : obj -> ustring.
  Variable H : ustring -> list step -> cop -> bool -> dconst -> obj -> bool.

  (* the only requirement on an interpretation: it depends on the constant through its value *)
  Definition respects_denotation : Prop :=
    forall t p o n d d' x, dconst_eq d d' -> H t p o n d x = H t p o n d' x.

  (* and, for IPv6 only (the model's restatement of inet_pton / inet_ntop is not
     given an independent specification): an IPv6 address string and its
     canonical CIDR form are the same value on ipv6-addr:value, except as a
     regular expression *)
  Definition respects_cidr6 : Prop :=
    forall t p o n s s' x,
      special_kind t p = SpIp true -> is_matches o = false -> ip_canon true s = CanonTo s' ->
      H t p o n (DP (DStr s')) x = H t p o n (DP (DStr s)) x.

  Definition asem (a : atom) (x : obj) : bool :=
    ustr_eqb (a_type a) (otype x) && H (a_type a) (a_path a) (a_op a) (a_neg a) (den_atom a) x.

  Fixpoint csem (e : cexpr) (x : obj) : bool :=
    match e with
    | Atom a => asem a x
    | CAnd l => forallb (fun e' => csem e' x) l
    | COr l => existsb (fun e' => csem e' x) l
    end.

  Definition csem0 (e : cexpr0) (x : obj) : bool := csem (unparen_c e) x.

  (* ---- observations ---- *)
  Definition observation : Type := (Z * list obj)%type.     (* time in microseconds, the objects observed *)
  Variable O : list observation.

  Definition time_of (i : nat) : Z := fst (nth i O (0%Z, [])).

  (* all times of b1 are <= all times of b2 *)
  Definition before (b1 b2 : list nat) : Prop :=
    forall i j, In i b1 -> In j b2 -> (time_of i <= time_of j)%Z.

  Definition qual_ok (q : qual) (b : list nat) : Prop :=
    match q with
    | QRepeat _ => True
    | QWithin m e => forall i j, In i b -> In j b -> ((time_of i - time_of j) * 10 ^ Z.of_N e <= m * 1000000)%Z
    | QStartStop s t => forall i, In i b -> (s <= time_of i < t)%Z
    end.

  (* e produces the binding b *)
  Fixpoint B (e : oexpr) (b : list nat) {struct e} : Prop :=
    match e with
    | Obs c => exists i t xs, b = [i] /\ nth_error O i = Some (t, xs) /\ existsb (csem c) xs = true
    | OAnd l =>
      exists bs,
        (fix each (l : list oexpr) (bs : list (list nat)) {struct l} : Prop :=
           match l, bs with
           | [], [] => True
           | e' :: l', b' :: bs' => B e' b' /\ each l' bs'
           | _, _ => False
           end) l bs /\ NoDup (List.concat bs) /\ b = List.concat bs
    | OOr l => (fix any (l : list oexpr) : Prop := match l with [] => False | e' :: l' => B e' b \/ any l' end) l
    | OFby l =>
      exists bs,
        (fix each (l : list oexpr) (bs : list (list nat)) {struct l} : Prop :=
           match l, bs with
           | [], [] => True
           | e' :: l', b' :: bs' => B e' b' /\ each l' bs'
           | _, _ => False
           end) l bs /\ NoDup (List.concat bs) /\ ForallOrdPairs before bs /\ b = List.concat bs
    | OQual e' (QRepeat n) =>
      exists bs, List.length bs = Z.to_nat n /\
                 (fix all (bs : list (list nat)) : Prop := match bs with [] => True | b' :: r => B e' b' /\ all r end) bs /\
                 NoDup (List.concat bs) /\ b = List.concat bs
    | OQual e' q => B e' b /\ qual_ok q b
    end.

  Definition matches (e : oexpr) : Prop := exists b, B e b.
  Definition matches0 (p : oexpr0) : Prop := matches (unparen_o p).

  (* every binding of e contains a binding of e' *)
  Definition refines (e e' : oexpr) : Prop := forall b, B e b -> exists b', incl b' b /\ B e' b'.
  Definition oequiv (e e' : oexpr) : Prop := refines e e' /\ refines e' e.
End Semantics.

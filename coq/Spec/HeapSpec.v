(* Spec/HeapSpec.v -- what property C13 says, over the explicit heap of
   Model/Heap.v.  These definitions do not mention any library operation.

     unchanged h h'       every container that existed in h is, node for node,
                          the same in h' (the FRAME: nothing pre-existing was
                          written; h' may have more nodes)
     unchanged_but d h h' the same except for location d, which -- if it was a
                          store's private table -- still is one
     values_kept h h'     everything that had a deep value in h has the same
                          deep value in h' (C13, first sentence)
     all_new h h' c       every container reachable from c in h' was allocated
                          after h (shares no mutable state with anything of h) *)
From Coq Require Import List Arith.
From V Require Import Model.Heap Model.HeapApi.

Definition unchanged (h h' : heap) : Prop :=
  forall l nd, get h l = Some nd -> get h' l = Some nd.

Definition unchanged_but (d : nat) (h h' : heap) : Prop :=
  (forall l nd, l <> d -> get h l = Some nd -> get h' l = Some nd) /\
  (forall m, get h d = Some (NStore m) -> exists m', get h' d = Some (NStore m')).

(* every container that is not a store's private table is unchanged *)
Definition unchanged_ns (h h' : heap) : Prop :=
  forall l nd, get h l = Some nd -> is_store nd = false -> get h' l = Some nd.

Definition values_kept (h h' : heap) : Prop :=
  forall n v t, value n h v = Some t -> value n h' v = Some t.

Definition all_new (h h' : heap) (c : val) : Prop :=
  forall l, reaches h' c l -> length h <= l.

(* every instance attribute of every library object on the heap has a private
   (underscore) name: true of the empty heap, kept by every operation         *)
Definition private_node (nd : node) : Prop :=
  match nd with
  | NObj _ fs => Forall (fun kv => setattr_allowed (fst kv) = true) fs
  | _ => True
  end.

Definition private_attrs (h : heap) : Prop := Forall private_node h.

(* Spec/CustomFree.v -- C04: what "contains no custom content at any depth" means for a stored object,
   read off the class tables (typed: each member is judged by the kind of the property it is stored under).

     cf_obj w fuel cid o :  o is an object of class cid, its custom flag is off, every member is a property
                            of the class, and every member value is custom-free for that property's kind:
       hashes dictionary    every key is one of the property's specification names
       reference            the type part of the id is registered for the spec version and has no x- prefix
       embedded object      cf_obj one level down (class named by the property)
       list of objects      every element cf_obj
       marking definition   the wrapped marking object cf_obj for its own class
       list                 every element custom-free for the element kind
       observable container, bundle member, extensions dictionary: not covered (false)
       every other kind (strings, integers, timestamps, enumerations, ...) has no room for custom content.
   `fuel` bounds the nesting depth (the run's own fuel is enough: Proofs/C04CustomFree.v).       *)
From Coq Require Import NArith List String Bool.
From V Require Import Base.UString Base.Json Model.SchemaTypes Model.PyBase Model.Schema.
Import ListNotations.

Section CF.
  Variable w : world.

  (* a value of property kind k, given what it means for a nested object *)
  Fixpoint cf_val (cfo : ustring -> pval -> bool) (k : pkind) (v : pval) : bool :=
    match k with
    | KHashes names _ => match v with PMap m => forallb (fun kv => mem_ustr (fst kv) names) m | _ => false end
    | KRef _ _ _ vv =>
      match v with
      | PJ (JStr s) => let t := fst (split_dashdash s) in is_object w t vv && negb (ustr_prefix (u "x-") t)
      | _ => false
      end
    | KEmbedded cid0 => cfo cid0 v
    | KListOf cid0 => match v with PArr l => forallb (cfo cid0) l | _ => false end
    | KList k' => match v with PArr l => forallb (cf_val cfo k') l | _ => false end
    | KMarking _ => match v with PObject ci _ _ _ => cfo ci v | _ => false end
    | KObservable _ | KStixObject _ | KExtensions _ => false        (* not covered *)
    | _ => true
    end.

  (* an object of class cid0, to a depth *)
  Fixpoint cf_obj (fuel : nat) (cid0 : ustring) (o : pval) : bool :=
    match fuel with
    | O => false
    | S f =>
      match o with
      | PObject ci inner _ hc =>
        ustr_eqb ci cid0 && negb hc &&
        match find_class (wclasses w) ci with
        | Some c => forallb (fun kv => match slot_of c (fst kv) with
                                       | Some sl => cf_val (cf_obj f) (skind sl) (snd kv)
                                       | None => false
                                       end) inner
        | None => false
        end
      | _ => false
      end
    end.
End CF.

(* Spec/StixValid.v -- the specification side of C02/C03: when is a JSON value
   a valid STIX object of a given class, per the FROZEN specification tables
   (Gen/SpecTables.v, generated from /verif/spec) and the audited rules below.
   It is written independently of Model/Schema.v (it shares only the table
   vocabulary and the character-level helpers of PyBase), is evaluated by the
   kernel as the C02 oracle on the implementation's actual output, and is the
   predicate of the C02 theorems.

   Audited rules (certain from the STIX 2.0 / 2.1 texts):
   - identifiers are <type>--<UUID> with the UUID in RFC 4122 canonical text
     (8-4-4-4-12 hexadecimal digits), RFC 4122 variant; version 4 in STIX 2.0;
   - timestamps are YYYY-MM-DDTHH:MM:SS[.s+]Z, a real calendar instant;
     created/modified carry exactly 3 (2.0) / at least 3 (2.1) fraction digits
     (the per-slot precision comes from the table);
   - no property value is null, an empty list or an empty dictionary;
   - dictionary keys: [a-zA-Z0-9_-], length 3..256 (2.0) / 1..250 (2.1);
   - hexadecimal strings: an even, non-zero number of hex digits, nothing else;
   - integers within the table's bounds; enumerations within the vocabulary.
   Everything else (which properties a type has, vocabularies, reference
   targets, co-constraints) is seeded from the pinned tables.                  *)
From Coq Require Import NArith ZArith List String Bool.
From V Require Import Base.UString Base.Json Model.SchemaTypes Model.PyBase.
Import ListNotations.

(* ---------- leaves ---------- *)
Definition strict_hex (s : ustring) : bool :=
  forallb is_hexdigit s && negb (Nat.eqb (List.length s) 0) && Nat.even (List.length s).

Definition strict_dict_key (v : ver) (k : ustring) : bool :=
  forallb is_keychar k &&
  match v with
  | V20 => Nat.leb 3 (List.length k) && Nat.leb (List.length k) 256
  | V21 => Nat.leb 1 (List.length k) && Nat.leb (List.length k) 250
  end.

Definition hex_val (s : ustring) : Z := digits_val 16%Z s 0%Z.

Definition valid_uuid_text (v : ver) (s : ustring) : bool :=
  canonical_uuid_text s &&
  let i := hex_val (filter (fun c => negb (c =? 45)%N) s) in
  uuid_variant_rfc4122 i && match v with V20 => (uuid_version i =? 4)%Z | V21 => true end.

Definition valid_type_name (t : ustring) : bool :=
  forallb (fun c => is_lower c || is_digit c || (c =? 45)%N) t && negb (Nat.eqb (List.length t) 0).

Definition valid_id (v : ver) (prefix : option ustring) (s : ustring) : bool :=
  match prefix with
  | Some p => ustr_prefix p s && valid_uuid_text v (udrop (List.length p) s)
  | None =>
    match split_dashdash s with
    | (t, Some rest) => valid_type_name t && valid_uuid_text v rest
    | _ => false
    end
  end.

(* timestamp text: shape, calendar, fraction digits per precision *)
Definition valid_timestamp (p : prec) (c : pconstr) (s : ustring) : bool :=
  match s with
  | y1 :: y2 :: y3 :: y4 :: 45%N :: m1 :: m2 :: 45%N :: d1 :: d2 :: 84%N :: h1 :: h2 :: 58%N :: i1 :: i2 :: 58%N :: s1 :: s2 :: rest =>
    forallb is_digit [y1; y2; y3; y4; m1; m2; d1; d2; h1; h2; i1; i2; s1; s2] &&
    (let y := (two y1 y2 * 100 + two y3 y4)%Z in
     let mo := two m1 m2 in let d := two d1 d2 in
     (1 <=? mo)%Z && (mo <=? 12)%Z && (1 <=? d)%Z && (d <=? days_in_month y mo)%Z &&
     (two h1 h2 <=? 23)%Z && (two i1 i2 <=? 59)%Z && (two s1 s2 <=? 60)%Z) &&
    match rest with
    | [90%N] =>
      (* no fraction *)
      match p, c with
      | PMilli, _ => false
      | _, _ => true
      end
    | 46%N :: fr =>
      match rev fr with
      | 90%N :: dr =>
        let n := List.length dr in
        forallb is_digit dr && Nat.leb 1 n &&
        match p, c with
        | PAny, _ => true
        | PSecond, CExact => false
        | PSecond, CMin => true
        | PMilli, CExact => Nat.eqb n 3
        | PMilli, CMin => Nat.leb 3 n
        end
      | _ => false
      end
    | _ => false
    end
  | _ => false
  end.

Definition instant_of_text (s : ustring) : option Z :=
  match parse_ts_strict s with Ok t => Some (ts_instant t) | _ => None end.

(* spec names -> value plausibility (case-insensitive hexadecimal of the algorithm's length) *)
Definition strict_hexlen (n : nat) (s : ustring) : bool := forallb is_hexdigit s && Nat.eqb (List.length s) n.
(* the value rule is chosen by the algorithm the name denotes (names compare without hyphens and case,
   as the vocabularies of the two versions spell them differently: "ssdeep" / "SSDEEP") *)
Definition valid_hash_value (name : ustring) (v : ustring) : bool :=
  match infer_hash name with
  | None => true
  | Some alg =>
    let is (n : string) := ustr_eqb alg (u n) in
    if is "MD5"%string then strict_hexlen 32 v
    else if is "SHA1"%string || is "RIPEMD160"%string then strict_hexlen 40 v
    else if is "SHA224"%string || is "SHA3224"%string then strict_hexlen 56 v
    else if is "SHA256"%string || is "SHA3256"%string then strict_hexlen 64 v
    else if is "SHA384"%string || is "SHA3384"%string then strict_hexlen 96 v
    else if is "SHA512"%string || is "SHA3512"%string || is "WHIRLPOOL"%string then strict_hexlen 128 v
    else if is "TLSH"%string then strict_hexlen 70 v
    else if is "MD6"%string then forallb is_hexdigit v && existsb (Nat.eqb (List.length v)) [32; 40; 56; 64; 96; 128]%nat
    else if is "SSDEEP"%string then forallb is_ssdeep_char v && Nat.leb 1 (List.length v) && Nat.leb (List.length v) 128
    else true
  end.

Definition number_in_bounds (mn mx : option Z) (j : jvalue) : bool :=
  let me := match j with
            | JInt z => Some (z, 0%Z)
            | JFloat r => dec_of_repr r
            | _ => None
            end in
  match me with
  | None => false
  | Some me =>
    (match mn with Some b => match dec_cmp_int me b with Lt => false | _ => true end | None => true end) &&
    (match mx with Some b => match dec_cmp_int me b with Gt => false | _ => true end | None => true end)
  end.

(* no nulls, empty lists or empty dictionaries anywhere inside an open value *)
Fixpoint no_empties (j : jvalue) : bool :=
  match j with
  | JNull => false
  | JArr l => match l with [] => false | _ => (fix go (l : list jvalue) := match l with [] => true | x :: r => no_empties x && go r end) l end
  | JObj m => match m with [] => false | _ => (fix go (m : list (ustring * jvalue)) := match m with [] => true | kv :: r => no_empties (snd kv) && go r end) m end
  | _ => true
  end.

(* a list of names as a set *)
Fixpoint s_dedup (l : list ustring) : list ustring :=
  match l with [] => [] | x :: r => if mem_ustr x r then s_dedup r else x :: s_dedup r end.

Section Valid.
  Variable sw : world.        (* the specification's class tables and registries *)
  Variable pattern_ok : ver -> ustring -> bool.

  Definition s_reg (v : ver) := reg_of sw v.
  Definition s_is_sco (t : ustring) (v : ver) := match assoc t (robservables (s_reg v)) with Some _ => true | None => false end.
  Definition s_is_sdo (t : ustring) (v : ver) :=
    match assoc t (robjects (s_reg v)) with
    | Some _ => negb (mem_ustr t (map u ["relationship"; "sighting"; "marking-definition"; "bundle"; "language-content"]%string))
    | None => false
    end.
  Definition s_is_sro (t : ustring) := mem_ustr t (map u ["sighting"; "relationship"]%string).
  Definition s_in_generic (t : ustring) (v : ver) (g : ustring) : bool :=
    if ustr_eqb g (u "SDO") then s_is_sdo t v else if ustr_eqb g (u "SCO") then s_is_sco t v
    else if ustr_eqb g (u "SRO") then s_is_sro t else false.
  Definition s_known_type (t : ustring) (v : ver) : bool :=
    match assoc t (robjects (s_reg v)), assoc t (robservables (s_reg v)) with None, None => false | _, _ => true end.

  Definition valid_ref (white : bool) (generics specifics : list ustring) (v : ver) (s : ustring) : bool :=
    valid_id v None s &&
    let t := fst (split_dashdash s) in
    s_known_type t v &&          (* strict mode: no reference to an unregistered (custom) type *)
    negb (ustr_prefix (u "x-") t) &&
    let hit := existsb (s_in_generic t v) generics || mem_ustr t specifics in
    if white then hit else negb hit.

  (* ---------- constraints, evaluated on the JSON members ---------- *)
  Definition jget (p : ustring) (m : list (ustring * jvalue)) : option jvalue := jlookup p m.
  Definition jhas (p : ustring) (m : list (ustring * jvalue)) : bool := match jget p m with Some _ => true | None => false end.

  Fixpoint jcond (c : ccond) (m : list (ustring * jvalue)) : option bool :=
    match c with
    | QTruthy p => Some (match jget p m with Some v => truthy v | None => false end)
    | QIsTrue p => Some (match jget p m with Some (JBool true) => true | _ => false end)
    | QIsNotFalse p => Some (match jget p m with Some (JBool false) => false | _ => true end)
    | QIsNotNone p => Some (jhas p m)
    | QHas p => Some (jhas p m)
    | QLt a b => match jget a m, jget b m with
                 | Some (JStr x), Some (JStr y) =>
                   match instant_of_text x, instant_of_text y with Some i, Some k => Some (i <? k)%Z | _, _ => None end
                 | _, _ => None
                 end
    | QLe a b => match jget a m, jget b m with
                 | Some (JStr x), Some (JStr y) =>
                   match instant_of_text x, instant_of_text y with Some i, Some k => Some (i <=? k)%Z | _, _ => None end
                 | _, _ => None
                 end
    | QAnd c1 c2 => match jcond c1 m with Some true => jcond c2 m | r => r end
    | QOr c1 c2 => match jcond c1 m with Some false => jcond c2 m | r => r end
    | QNot c1 => match jcond c1 m with Some b => Some (negb b) | None => None end
    end.

  Definition s_default_checked (c : cls) : list ustring :=
    let exc := map u ["extensions"; "type"]%string ++
               match cfamily c with FSco => map u ["id"; "defanged"; "spec_version"]%string | _ => [] end in
    filter (fun n => negb (mem_ustr n exc)) (map sname (cslots c)).

  Definition tlp_table : list (ustring * ustring) :=
    [ (u "white", u "marking-definition--613f2e26-407d-48c7-9eca-b8e91df99dc9");
      (u "green", u "marking-definition--34098fce-860f-48ae-8e50-ebd3cc5e41da");
      (u "amber", u "marking-definition--f88d31f6-486f-44da-b317-01333bde0b82");
      (u "red", u "marking-definition--5e57c739-391a-4eb3-b6be-7d15ca92d5ed") ].

  (* one level of the co-constraint evaluator, open in its recursive call (bodies of `when` blocks) *)
  Definition jconstr_body (rec : constr -> bool) (c : cls) (m : list (ustring * jvalue)) (k : constr) : bool :=
    match k with
    | CAtLeastOne ps => match ps with [] => true | _ => existsb (fun p => jhas p m) ps end
    | CAtLeastOneDefault => match s_default_checked c with [] => true | ps => existsb (fun p => jhas p m) ps end
    | CMutEx ps => Nat.eqb (List.length (filter (fun p => jhas p m) (s_dedup ps))) 1
    | CDepends ps ds =>
      forallb (fun p => forallb (fun dp =>
        if negb (jhas p m) && jhas dp m then false
        else match jget p m with Some (JBool false) => negb (jhas dp m) | _ => true end) ds) ps
    | CRaiseIf q _ => match jcond q m with Some b => negb b | None => false end
    | CWhen q body => match jcond q m with
                      | Some true => forallb rec body
                      | Some false => true
                      | None => false
                      end
    | CTlp _ =>
      (* a TLP marking must be one of the four fixed instances (id and created) *)
      match jget (u "definition_type") m with
      | Some (JStr dt) =>
        if negb (ustr_eqb dt (u "tlp")) then true else
        match jget (u "definition") m with
        | Some (JObj dm) =>
          match jget (u "tlp") dm with
          | Some (JStr color) =>
            match assoc color tlp_table with
            | Some id => jvalue_eqb (match jget (u "id") m with Some i => i | None => JNull end) (JStr id) &&
                         jvalue_eqb (match jget (u "created") m with Some i => i | None => JNull end)
                                    (JStr (u "2017-01-20T00:00:00.000Z"))
            | None => false      (* tlp is one of white / green / amber / red *)
            end
          | _ => false
          end
        | _ => false
        end
      | _ => true
      end
    | CPatternValidator vv =>
      match vv with
      | V20 => match jget (u "pattern") m with Some (JStr p) => pattern_ok V20 p | _ => false end
      | V21 => match jget (u "pattern_type") m with
               | Some (JStr pt) =>
                 if negb (ustr_eqb pt (u "stix")) then true else
                 match jget (u "pattern") m with
                 | Some (JStr p) =>
                   match jget (u "pattern_version") m with
                   | Some (JStr pv) => if ustr_eqb pv (u "2.0") then pattern_ok V20 p else pattern_ok V21 p
                   | _ => pattern_ok V21 p
                   end
                 | _ => false
                 end
               | _ => false
               end
      end
    | CLegalHashes names =>
      match jget (u "hashes") m with
      | Some (JObj hm) => forallb (fun kv => mem_ustr (fst kv) names) hm
      | Some _ => false
      | None => true
      end
    | CSocketOptions =>
      match jget (u "options") m with
      | None => true
      | Some (JObj om) =>
        forallb (fun kv =>
          let key := fst kv in
          let pre := match ufind [95%N] key O with Some i => utake (S i) key | None => [] end in
          mem_ustr pre (map u ["SO_"; "ICMP_"; "ICMP6_"; "IP_"; "IPV6_"; "MCAST_"; "TCP_"; "IRLMP_"]%string) &&
          match snd kv with JInt _ => true | _ => false end) om
      | Some _ => false
      end
    | CProcessExt => existsb (fun p => jhas p m) (s_default_checked c) || jhas (u "extensions") m
    | CSkipBaseCheck => true
    | COpaque _ => false
    end.

  Fixpoint jconstr (fuel : nat) (c : cls) (m : list (ustring * jvalue)) (k : constr) : bool :=
    match fuel with
    | O => false
    | S f => jconstr_body (jconstr f c m) c m k
    end.

  (* required by the specification: what the table marks required, plus the properties the
     library fills in by default because the specification requires them (type, id, created,
     modified, valid_from ..., spec_version on non-observable 2.1 objects) *)
  Definition spec_required (c : cls) (s : slot) : bool :=
    sreq s ||
    match sdef s with
    | DUuid4 | DNow => true
    | DFixed => ustr_eqb (sname s) (u "type") ||
                (ustr_eqb (sname s) (u "spec_version") && match cfamily c with FSco => false | _ => true end)
    | _ => false
    end.

  (* ---------- values and objects ---------- *)
  (* one level of the validator, open in its recursive calls (vk: values one level down, vo: objects one
     level down, jc: co-constraints); valid_kind / valid_obj below tie the knot over a fuel *)
  Definition valid_kind_body (vk : pkind -> jvalue -> bool) (vo : ustring -> jvalue -> bool) (k : pkind) (j : jvalue) : bool :=
    match k with
    | KString | KPattern | KObjRef _ | KOpenVocab _ => match j with JStr _ => true | _ => false end
    | KFixed fv _ => jvalue_eqb j (JStr fv)
    | KId prefix vv => match j with JStr s => valid_id vv (Some prefix) s | _ => false end
    | KInt mn mx => match j with JInt _ => number_in_bounds mn mx j | _ => false end
    | KFloat mn mx => number_in_bounds mn mx j
    | KBool => match j with JBool _ => true | _ => false end
    | KTime p c => match j with JStr s => valid_timestamp p c s | _ => false end
    | KDict vv => match j with
                  | JObj m => negb (Nat.eqb (List.length m) 0) && forallb (fun kv => strict_dict_key vv (fst kv)) m
                  | _ => false
                  end
    | KHashes names vv =>
      match j with
      | JObj m => negb (Nat.eqb (List.length m) 0) &&
                  forallb (fun kv => mem_ustr (fst kv) names &&
                                     match snd kv with JStr s => valid_hash_value (fst kv) s | _ => false end) m
      | _ => false
      end
    | KBinary => match j with JStr _ => true | _ => false end
    | KHex => match j with JStr s => strict_hex s | _ => false end
    | KRef white generics specifics vv => match j with JStr s => valid_ref white generics specifics vv s | _ => false end
    (* selector syntax: property names are lower-case; a later segment may also be a dictionary key (any case) *)
    | KSelector => match j with JStr s => re_selector_exact_gen true s | _ => false end
    | KEmbedded cid => vo cid j
    | KEnum allowed => match j with JStr s => mem_ustr s allowed | _ => false end
    | KObservable vv =>
      match j with
      | JObj m => negb (Nat.eqb (List.length m) 0) &&
                  forallb (fun kv => match snd kv with
                                     | JObj om =>
                                       match jlookup (u "type") om with
                                       | Some (JStr t) => match assoc t (robservables (s_reg vv)) with
                                                          | Some cid => vo cid (snd kv)
                                                          | None => false
                                                          end
                                       | _ => false
                                       end
                                     | _ => false
                                     end) m
      | _ => false
      end
    | KExtensions vv =>
      match j with
      | JObj m => forallb (fun kv => match assoc (fst kv) (rextensions (s_reg vv)) with
                                     | Some cid => vo cid (snd kv)
                                     | None => ustr_prefix (u "extension-definition--") (fst kv)
                                               && valid_id vv (Some (u "extension-definition--")) (fst kv)
                                               && no_empties (snd kv)
                                     end) m && negb (Nat.eqb (List.length m) 0)
      | _ => false
      end
    | KStixObject vv =>
      match j with
      | JObj om =>
        match jlookup (u "type") om with
        | Some (JStr t) =>
          (* a member's own spec_version decides its tables; absent => 2.0 rules for 2.0 bundles, else by type *)
          let mv := match jlookup (u "spec_version") om with
                    | Some (JStr s) => if ustr_eqb s (u "2.1") then V21 else V20
                    | _ => if jhas (u "id") om then (if s_is_sco t V21 then V21 else V20) else V20
                    end in
          match assoc t (robjects (s_reg mv)), assoc t (robservables (s_reg mv)) with
          | Some cid, _ => negb (ustr_eqb t (u "bundle")) && vo cid j
          | None, Some cid => vo cid j
          | None, None => false
          end
        | _ => false
        end
      | _ => false
      end
    | KMarking vv =>
      (* the `definition` of a marking-definition: an object of a registered marking class *)
      match j with
      | JObj _ => existsb (fun kc => vo (snd kc) j) (rmarkings (s_reg vv))
      | _ => false
      end
    | KList k' => match j with
                  | JArr l => negb (Nat.eqb (List.length l) 0) && forallb (vk k') l
                  | _ => false
                  end
    | KListOf cid => match j with
                     | JArr l => negb (Nat.eqb (List.length l) 0) && forallb (vo cid) l
                     | _ => false
                     end
    | KAny => no_empties j
    end.

  (* STIX 2.1 toplevel-property-extension: an entry of `extensions` (on a type that has the property) that
     declares itself one vouches for additional top-level properties, whose values are free JSON *)
  Definition has_toplevel_extension (c : cls) (m : list (ustring * jvalue)) : bool :=
    match find (fun s => ustr_eqb (sname s) (u "extensions")) (cslots c), jlookup (u "extensions") m with
    | Some _, Some (JObj exts) =>
      existsb (fun kv => match snd kv with
                         | JObj e => jvalue_eqb (match jlookup (u "extension_type") e with Some t => t | None => JNull end)
                                                (JStr (u "toplevel-property-extension"))
                         | _ => false
                         end) exts
    | _, _ => false
    end.

  Definition valid_obj_body (vk : pkind -> jvalue -> bool) (jc : cls -> list (ustring * jvalue) -> constr -> bool)
             (cid : ustring) (j : jvalue) : bool :=
    match find_class (wclasses sw) cid, j with
    | Some c, JObj m =>
      (* every member is a specified property with a valid value; nothing null or empty *)
      forallb (fun kv => match find (fun s => ustr_eqb (sname s) (fst kv)) (cslots c) with
                         | Some s => vk (skind s) (snd kv)
                         | None => has_toplevel_extension c m && no_empties (snd kv)
                         end) m &&
      (* required properties, including those the specification defaults (type, id, created, ...) *)
      forallb (fun s => negb (spec_required c s) || match jlookup (sname s) m with Some _ => true | None => false end) (cslots c) &&
      (* co-constraints; extensions need at least one property *)
      forallb (jc c m) ((match cfamily c with FExt => [CAtLeastOneDefault] | _ => [] end) ++ ccons c)
    | _, _ => false
    end.

  Fixpoint valid_kind (fuel : nat) (k : pkind) (j : jvalue) {struct fuel} : bool :=
    match fuel with
    | O => false
    | S f => valid_kind_body (valid_kind f) (valid_obj f) k j
    end
  with valid_obj (fuel : nat) (cid : ustring) (j : jvalue) {struct fuel} : bool :=
    match fuel with
    | O => false
    | S f => valid_obj_body (valid_kind f) (jconstr (S f)) cid j
    end.

  (* why an object is not valid, one level deep (for messages; the verdict is valid_obj) *)
  Inductive why :=
  | WNotObject | WNoClass
  | WUnknownProperty (n : ustring) | WBadValue (n : ustring) | WMissing (n : ustring) | WConstraint (i : nat).

  Definition explain_obj (fuel : nat) (cid : ustring) (j : jvalue) : list why :=
    match find_class (wclasses sw) cid, j with
    | Some c, JObj m =>
      flat_map (fun kv => match find (fun s => ustr_eqb (sname s) (fst kv)) (cslots c) with
                          | Some s => if valid_kind fuel (skind s) (snd kv) then [] else [WBadValue (fst kv)]
                          | None => if has_toplevel_extension c m && no_empties (snd kv) then [] else [WUnknownProperty (fst kv)]
                          end) m ++
      flat_map (fun s => if negb (spec_required c s) || match jlookup (sname s) m with Some _ => true | None => false end
                         then [] else [WMissing (sname s)]) (cslots c) ++
      flat_map (fun ik => if jconstr (S fuel) c m (snd ik) then [] else [WConstraint (fst ik)])
               (let cs := (match cfamily c with FExt => [CAtLeastOneDefault] | _ => [] end) ++ ccons c in
                combine (seq 0 (List.length cs)) cs)
    | None, _ => [WNoClass]
    | _, _ => [WNotObject]
    end.

  (* a top-level object: dispatch on type and spec_version as the specification does *)
  Definition valid_toplevel (fuel : nat) (j : jvalue) : bool :=
    match j with
    | JObj m =>
      match jlookup (u "type") m with
      | Some (JStr t) =>
        let v := match jlookup (u "spec_version") m with
                 | Some (JStr s) => if ustr_eqb t (u "bundle") then V20 else if ustr_eqb s (u "2.1") then V21 else V20
                 | _ => if ustr_eqb t (u "bundle") then
                          (* a bundle without spec_version is 2.1 when any member is *)
                          match jlookup (u "objects") m with
                          | Some (JArr l) => if existsb (fun o => match o with
                                                                  | JObj om => match jlookup (u "spec_version") om with
                                                                               | Some (JStr s) => ustr_eqb s (u "2.1")
                                                                               | _ => match jlookup (u "type") om with
                                                                                      | Some (JStr ot) => s_is_sco ot V21
                                                                                      | _ => false
                                                                                      end
                                                                               end
                                                                  | _ => false
                                                                  end) l then V21 else V20
                          | _ => V21
                          end
                        else if s_is_sco t V21 && jhas (u "id") m then V21 else V20
                 end in
        match assoc t (robjects (s_reg v)), assoc t (robservables (s_reg v)) with
        | Some cid, _ => valid_obj fuel cid j
        | None, Some cid => valid_obj fuel cid j
        | None, None => false
        end
      | _ => false
      end
    | _ => false
    end.
End Valid.

(* ---------- three further audited rules (valid_kind_x / valid_obj_x) ----------
   Certain from the normative texts, and kept apart from valid_kind / valid_obj (the predicate of the C02
   soundness theorems, which predate them) so that those statements stay what they were:
   - binary: "a base64-encoded string as specified in [RFC4648]" (2.0 part 1 / 2.1, section 2.1): only
     characters of the base64 alphabet, padded with '=' to a multiple of four (RFC 4648 sections 3.1-3.3, 4:
     no line feeds, no characters outside the alphabet, padding mandatory);
   - dictionary: "dictionary values MUST be valid property base types" (section 2.4/2.5): null is not a
     type, and "empty lists are prohibited" (list type), at any depth inside the values;
   - modified: "MUST be later than or equal to the value of the created property" (common properties).
     This one is a co-constraint of the frozen tables (spec/audited_overrides.json, `add_constraint`), so it
     is already part of valid_obj.
   - marking-definition: `definition` is of the marking type `definition_type` names (marking_match below).
   - STIX 2.0 object references name a member of their container with an allowed type (container_refs_ok below), at
     the top of a member and inside its extensions / embedded objects.
   valid_obj_x is what the C02 oracle evaluates on the implementation's output and what the C03 generator
   filters candidates with.                                                                            *)
(* the text read backwards, without its (at most two) trailing '=' *)
Definition strip_pad (r : ustring) : ustring :=
  match r with
  | c1 :: r1 => if (c1 =? 61)%N
                then match r1 with c2 :: r2 => if (c2 =? 61)%N then r2 else r1 | [] => r1 end
                else r
  | [] => r
  end.
Definition strict_base64 (s : ustring) : bool :=
  Nat.eqb (Nat.modulo (List.length s) 4) 0 && forallb is_b64char (strip_pad (rev s)).

Fixpoint dict_value_ok (j : jvalue) : bool :=
  match j with
  | JNull => false
  | JArr l => match l with [] => false | _ => (fix go (l : list jvalue) := match l with [] => true | x :: r => dict_value_ok x && go r end) l end
  | JObj m => (fix go (m : list (ustring * jvalue)) := match m with [] => true | kv :: r => dict_value_ok (snd kv) && go r end) m
  | _ => true
  end.

(* STIX 2.0 object references (part 3, object-ref: "a local reference to an Observable Object, that is, one which
   MUST be valid within the local scope of the Observable Objects (objects) property of the Observed Data Object
   that holds both"; each *_ref(s) property names the types it may point to): inside a container `cont` (key ->
   observable object) every object reference, at the top of a member or inside its extensions / embedded objects,
   names a key of the container whose object has an allowed type ([] = any). *)
Definition objref_ok (cont : list (ustring * jvalue)) (vt : list ustring) (j : jvalue) : bool :=
  match j with
  | JStr key =>
    match jlookup key cont with
    | Some (JObj tm) => match jlookup (u "type") tm with
                        | Some (JStr t) => match vt with [] => true | _ => mem_ustr t vt end
                        | _ => false
                        end
    | _ => false
    end
  | _ => false
  end.

Fixpoint refs_in (sw : world) (fuel : nat) (cont : list (ustring * jvalue)) (cid : ustring) (j : jvalue) {struct fuel} : bool :=
  match fuel with
  | O => true
  | S f =>
    match find_class (wclasses sw) cid, j with
    | Some c, JObj om =>
      forallb (fun kv =>
        match find (fun s => ustr_eqb (sname s) (fst kv)) (cslots c) with
        | None => true
        | Some s =>
          let v := snd kv in
          match skind s with
          | KObjRef vt => objref_ok cont vt v
          | KList (KObjRef vt) => match v with JArr l => forallb (objref_ok cont vt) l | _ => true end
          | KEmbedded cls => refs_in sw f cont cls v
          | KList (KEmbedded cls) | KListOf cls => match v with JArr l => forallb (refs_in sw f cont cls) l | _ => true end
          | KExtensions vv =>
            match v with
            | JObj em => forallb (fun ekv => match assoc (fst ekv) (rextensions (reg_of sw vv)) with
                                             | Some ecid => refs_in sw f cont ecid (snd ekv)
                                             | None => true
                                             end) em
            | _ => true
            end
          | _ => true
          end
        end) om
    | _, _ => true
    end
  end.

Definition container_refs_ok (sw : world) (v : ver) (j : jvalue) : bool :=
  match j with
  | JObj cont =>
    forallb (fun kv => match snd kv with
                       | JObj om => match jlookup (u "type") om with
                                    | Some (JStr t) => match assoc t (robservables (reg_of sw v)) with
                                                       | Some cid => refs_in sw 6 cont cid (snd kv)
                                                       | None => true
                                                       end
                                    | _ => true
                                    end
                       | _ => true
                       end) cont
  | _ => true
  end.

Definition leaf_extra (sw : world) (k : pkind) (j : jvalue) : bool :=
  match k with
  | KBinary => match j with JStr s => strict_base64 s | _ => false end
  | KDict _ => match j with JObj m => forallb (fun kv => dict_value_ok (snd kv)) m | _ => false end
  | KObservable v => container_refs_ok sw v j
  | _ => true
  end.

(* marking-definition: "The value of the definition_type property MUST be statement when using this marking
   type" / "... MUST be tlp ..." (2.0 part 1 section 4.1.3-4.1.4, 2.1 section 7.2.1.3-7.2.1.4): the `definition` is
   an object of the marking type that `definition_type` names (when that is a registered type). *)
Definition marking_match (sw : world) (vo : ustring -> jvalue -> bool) (cid : ustring) (j : jvalue) : bool :=
  match find_class (wclasses sw) cid, j with
  | Some c, JObj m =>
    match find (fun s => ustr_eqb (sname s) (u "definition")) (cslots c) with
    | Some s =>
      match skind s with
      | KMarking v =>
        match jlookup (u "definition_type") m, jlookup (u "definition") m with
        | Some (JStr dt), Some d => match assoc dt (rmarkings (reg_of sw v)) with Some mc => vo mc d | None => true end
        | _, _ => true
        end
      | _ => true
      end
    | None => true
    end
  | _, _ => true
  end.

(* the knot of valid_kind / valid_obj with two additional clauses as parameters: `le` on every value of a
   property kind, `mm` on every object.  valid_kind_g (fun _ _ => true) (fun _ _ _ => true) IS valid_kind
   (Props/C02.v: audited_clauses_are_all); valid_kind_x is the instance with the audited clauses. *)
Section ValidG.
  Variable sw : world.
  Variable pattern_ok : ver -> ustring -> bool.
  Variable le : pkind -> jvalue -> bool.
  Variable mm : (ustring -> jvalue -> bool) -> ustring -> jvalue -> bool.

  Fixpoint valid_kind_g (fuel : nat) (k : pkind) (j : jvalue) {struct fuel} : bool :=
    match fuel with
    | O => false
    | S f => le k j && valid_kind_body sw (valid_kind_g f) (valid_obj_g f) k j
    end
  with valid_obj_g (fuel : nat) (cid : ustring) (j : jvalue) {struct fuel} : bool :=
    match fuel with
    | O => false
    | S f => valid_obj_body sw (valid_kind_g f) (jconstr pattern_ok (S f)) cid j && mm (valid_obj_g f) cid j
    end.
End ValidG.

Section ValidX.
  Variable sw : world.
  Variable pattern_ok : ver -> ustring -> bool.

  Definition valid_kind_x : nat -> pkind -> jvalue -> bool := valid_kind_g sw pattern_ok (leaf_extra sw) (marking_match sw).
  Definition valid_obj_x : nat -> ustring -> jvalue -> bool := valid_obj_g sw pattern_ok (leaf_extra sw) (marking_match sw).

  Definition explain_obj_x (fuel : nat) (cid : ustring) (j : jvalue) : list why :=
    match find_class (wclasses sw) cid, j with
    | Some c, JObj m =>
      flat_map (fun kv => match find (fun s => ustr_eqb (sname s) (fst kv)) (cslots c) with
                          | Some s => if valid_kind_x fuel (skind s) (snd kv) then [] else [WBadValue (fst kv)]
                          | None => if has_toplevel_extension c m && no_empties (snd kv) then [] else [WUnknownProperty (fst kv)]
                          end) m ++
      flat_map (fun s => if negb (spec_required c s) || match jlookup (sname s) m with Some _ => true | None => false end
                         then [] else [WMissing (sname s)]) (cslots c) ++
      flat_map (fun ik => if jconstr pattern_ok (S fuel) c m (snd ik) then [] else [WConstraint (fst ik)])
               (let cs := (match cfamily c with FExt => [CAtLeastOneDefault] | _ => [] end) ++ ccons c in
                combine (seq 0 (List.length cs)) cs) ++
      (if marking_match sw (valid_obj_x fuel) cid j then [] else [WBadValue (u "definition")])
    | None, _ => [WNoClass]
    | _, _ => [WNotObject]
    end.
End ValidX.

Definition show_why1 (w : why) : string :=
  match w with
  | WNotObject => "not-an-object" | WNoClass => "no-such-class"
  | WUnknownProperty n => append "unknown-property:" (show_ustr n)
  | WBadValue n => append "bad-value:" (show_ustr n)
  | WMissing n => append "missing:" (show_ustr n)
  | WConstraint i => append "constraint#" (show_nat i)
  end.
Definition show_why (l : list why) : string :=
  match l with
  | [] => "valid"
  | _ => fold_right (fun w acc => append (show_why1 w) (append " " acc)) EmptyString l
  end.

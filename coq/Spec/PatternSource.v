(* Spec/PatternSource.v -- C10: the facts of stix2/pattern_visitor.py and stix2/patterns.py that
   Model/PatternSyntax.v transcribes, in the vocabulary of translators/tr_visitor.py: which children every
   visit method reads, which class it instantiates, the texts at the variant sites (repaired variant), the
   template of every __str__, the operator spellings, the dispatch orders.  Props/C10Src.v states that the
   facts read from the CURRENT source text (Gen/VisitorFacts.v) are these, and Proofs/PatternSrc.v ties the
   tables to the definitions of the model.  Definitions only.                                            *)
From Coq Require Import List String.
From V Require Import Model.PatternSyntax.
Import ListNotations.
Open Scope string_scope.

Definition flag_names : list string :=
  ["neg_eq"; "neg_order"; "neg_set"; "neg_like"; "neg_regex"; "neg_subset"; "neg_superset"; "within_float";
   "float_pos"; "key_quote"; "hex_empty"; "rt_append"; "star_quoted"].
(* the variant the proofs are about: every flag repaired *)
Definition model_flags : list (string * option bool) := map (fun f => (f, Some true)) flag_names.

(* the variant record a flag list denotes (None when a site was not recognised): what the flag list of
   the current source text says about WHICH instance of the model the theorems must be about *)
Fixpoint flag_of (fl : list (string * option bool)) (n : string) : option bool :=
  match fl with [] => None | (k, v) :: r => if String.eqb k n then v else flag_of r n end.
Definition with_flag {A} (fl : list (string * option bool)) (n : string) (k : bool -> option A) : option A :=
  match flag_of fl n with Some b => k b | None => None end.
Definition cfg_of_flags (fl : list (string * option bool)) : option cfg :=
  with_flag fl "neg_eq" (fun b0 =>
  with_flag fl "neg_order" (fun b1 =>
  with_flag fl "neg_set" (fun b2 =>
  with_flag fl "neg_like" (fun b3 =>
  with_flag fl "neg_regex" (fun b4 =>
  with_flag fl "neg_subset" (fun b5 =>
  with_flag fl "neg_superset" (fun b6 =>
  with_flag fl "within_float" (fun b7 =>
  with_flag fl "float_pos" (fun b8 =>
  with_flag fl "key_quote" (fun b9 =>
  with_flag fl "hex_empty" (fun b10 =>
  with_flag fl "rt_append" (fun b11 =>
  with_flag fl "star_quoted" (fun b12 =>
  Some (Cfg b0 b1 b2 b3 b4 b5 b6 b7 b8 b9 b10 b11 b12)))))))))))))).

(* constant child indices read by every visit method (children[k], both arms of children[a if c else b],
   the lower bound of children[k:]; -1 = an index expression the translator does not understand) *)
Definition model_reads : list (string * list nat) :=
  [("visitComparisonExpression", [0%nat; 1%nat; 2%nat]); ("visitComparisonExpressionAnd", [0%nat; 2%nat]); ("visitFirstPathComponent", [0%nat]); ("visitIndexPathStep", [1%nat]); ("visitKeyPathStep", [1%nat]); ("visitObjectPath", [0%nat; 2%nat]); ("visitObjectType", [0%nat]); ("visitObservationExpressionAnd", [0%nat; 2%nat]); ("visitObservationExpressionCompound", [0%nat; 1%nat]); ("visitObservationExpressionOr", [0%nat; 2%nat]); ("visitObservationExpressionRepeated", [0%nat; 1%nat]); ("visitObservationExpressionSimple", [1%nat]); ("visitObservationExpressionStartStop", [0%nat; 1%nat]); ("visitObservationExpressionWithin", [0%nat; 1%nat]); ("visitObservationExpressions", [0%nat; 2%nat]); ("visitOrderableLiteral", [0%nat]); ("visitPathStep", []); ("visitPattern", [0%nat]); ("visitPrimitiveLiteral", [0%nat]); ("visitPropTestEqual", [0%nat; 1%nat; 2%nat; 3%nat]); ("visitPropTestIsSubset", [0%nat; 2%nat; 3%nat]); ("visitPropTestIsSuperset", [0%nat; 2%nat; 3%nat]); ("visitPropTestLike", [0%nat; 2%nat; 3%nat]); ("visitPropTestOrder", [0%nat; 1%nat; 2%nat; 3%nat]); ("visitPropTestParen", [1%nat]); ("visitPropTestRegex", [0%nat; 2%nat; 3%nat]); ("visitPropTestSet", [0%nat; 2%nat; 3%nat]); ("visitRepeatedQualifier", [1%nat]); ("visitSetLiteral", []); ("visitStartStopQualifier", [1%nat; 3%nat]); ("visitTerminal", []); ("visitWithinQualifier", [1%nat])].

(* class names handed to self.instantiate, in order of appearance *)
Definition model_classes : list (string * list string) :=
  [("visitComparisonExpression", ["OrBooleanExpression"; "OrBooleanExpression"]); ("visitComparisonExpressionAnd", ["AndBooleanExpression"; "AndBooleanExpression"]); ("visitFirstPathComponent", ["BasicObjectPathComponent"]); ("visitIndexPathStep", []); ("visitKeyPathStep", ["BasicObjectPathComponent"]); ("visitObjectPath", ["ListObjectPathComponent"; "ListObjectPathComponent"; "ObjectPath"]); ("visitObjectType", []); ("visitObservationExpressionAnd", ["AndObservationExpression"]); ("visitObservationExpressionCompound", ["ParentheticalExpression"; "ObservationExpression"]); ("visitObservationExpressionOr", ["OrObservationExpression"]); ("visitObservationExpressionRepeated", ["QualifiedObservationExpression"]); ("visitObservationExpressionSimple", ["ObservationExpression"]); ("visitObservationExpressionStartStop", ["QualifiedObservationExpression"]); ("visitObservationExpressionWithin", ["QualifiedObservationExpression"]); ("visitObservationExpressions", ["FollowedByObservationExpression"]); ("visitOrderableLiteral", []); ("visitPathStep", []); ("visitPattern", []); ("visitPrimitiveLiteral", []); ("visitPropTestEqual", ["EqualityComparisonExpression"]); ("visitPropTestIsSubset", ["IsSubsetComparisonExpression"]); ("visitPropTestIsSuperset", ["IsSupersetComparisonExpression"]); ("visitPropTestLike", ["LikeComparisonExpression"]); ("visitPropTestOrder", ["GreaterThanComparisonExpression"; "LessThanComparisonExpression"; "GreaterThanEqualComparisonExpression"; "LessThanEqualComparisonExpression"]); ("visitPropTestParen", ["ParentheticalExpression"]); ("visitPropTestRegex", ["MatchesComparisonExpression"]); ("visitPropTestSet", ["InComparisonExpression"]); ("visitRepeatedQualifier", ["RepeatQualifier"]); ("visitSetLiteral", ["ListConstant"]); ("visitStartStopQualifier", ["StartStopQualifier"]); ("visitTerminal", ["IntegerConstant"; "FloatConstant"; "HexConstant"; "BinaryConstant"; "StringConstant"; "BooleanConstant"; "TimestampConstant"]); ("visitWithinQualifier", ["WithinQualifier"])].

(* the texts at the variant sites *)
Definition model_sites : list (string * string) :=
  [("eq_operator", "children[2 if has_not else 1].symbol.type"); ("eq_has_not", "len(children) > 3"); ("eq_negated", "(operator != self.parser_class.EQ) != has_not"); ("order_operator", "children[2 if has_not else 1].symbol.type"); ("order_negated", "has_not"); ("neg_set", "len(children) > 3"); ("neg_like", "len(children) > 3"); ("neg_regex", "len(children) > 3"); ("neg_subset", "len(children) > 3"); ("neg_superset", "len(children) > 3"); ("chain_or", "rebuild"); ("chain_and", "rebuild"); ("star_name", "current.property_name if isinstance(current, BasicObjectPathComponent) else str(current)"); ("within_tests", "isinstance(number_of_seconds, (IntegerConstant, FloatConstant)) | isinstance(number_of_seconds, int) | isinstance(number_of_seconds, float)"); ("repeat_tests", "isinstance(times_to_repeat, IntegerConstant) | isinstance(times_to_repeat, int)"); ("hex_regexes", "^([a-fA-F0-9]{2})*$ | ^h'(([a-fA-F0-9]{2})*)'$"); ("binary_regexes", "^b'(.+)'$"); ("bool_updates", "self.root_types &= arg.root_types | self.root_types |= arg.root_types"); ("aggregate", "if aggregate:     aggregate.append(nextResult) elif nextResult:     aggregate = [nextResult] ; return aggregate")].

Definition model_terminal : list string := ["IntNegLiteral|IntPosLiteral->IntegerConstant"; "FloatNegLiteral|FloatPosLiteral->FloatConstant"; "HexLiteral->HexConstant"; "BinaryLiteral->BinaryConstant"; "StringLiteral->StringConstant"; "BoolLiteral->BooleanConstant"; "TimestampLiteral->TimestampConstant"].

(* escape_quotes_and_backslashes: the returned expression *)
Definition model_escape : string := "s.replace(u'\\', u'\\\\').replace(u""'"", u""\\'"")".

(* quote_if_needed *)
Definition model_quote_body : string := "if isinstance(x, str):     if not x.startswith(""'""):         if not _UNQUOTED_KEY_RE.match(x) or x in _PATTERN_KEYWORDS:             return ""'"" + x + ""'"" ; return x".
Definition model_quote_regex : string := "^[a-zA-Z_][a-zA-Z0-9_]*\Z".
Definition model_quote_keywords : list string := ["AND"; "OR"; "NOT"; "FOLLOWEDBY"; "LIKE"; "MATCHES"; "ISSUPERSET"; "ISSUBSET"; "EXISTS"; "LAST"; "IN"; "START"; "STOP"; "SECONDS"; "true"; "false"; "WITHIN"; "REPEATS"; "TIMES"].

(* the template of every __str__ *)
Definition model_templates : list (string * string) :=
  [("StringConstant", "'{escape_quotes_and_backslashes(self.value) if self.needs_to_be_quoted else self.value}'"); ("TimestampConstant", "t{repr(self.value)}"); ("IntegerConstant", "{self.value}"); ("FloatConstant", "?text = '%s' % self.value ; if 'e' in text:     text = format(Decimal(text), 'f')     if '.' not in text:         text += '.0' ; return text"); ("BooleanConstant", "=str(self.value).lower()"); ("BinaryConstant", "b'{self.value}'"); ("HexConstant", "h'{self.value}'"); ("ListConstant", "='(' + ', '.join(['%s' % x for x in self.value]) + ')'"); ("_ObjectPathComponent", "=quote_if_needed(self.property_name)"); ("ListObjectPathComponent", "{quote_if_needed(self.property_name)}[{self.index}]"); ("ObjectPath", "{self.object_type_name}:{'.'.join(['%s' % quote_if_needed(x) for x in self.property_path])}"); ("_ComparisonExpression", "{self.lhs} NOT {self.operator} {self.rhs} IF self.negated ELSE {self.lhs} {self.operator} {self.rhs}"); ("_BooleanExpression", "JOIN ' {self.operator} ' OVER self.operands"); ("ObservationExpression", "{self.operand} IF isinstance(self.operand, (ObservationExpression, _CompoundObservationExpression)) ELSE [{self.operand}]"); ("_CompoundObservationExpression", "JOIN ' {self.operator} ' OVER self.operands"); ("ParentheticalExpression", "({self.expression})"); ("RepeatQualifier", "REPEATS {self.times_to_repeat} TIMES"); ("WithinQualifier", "WITHIN {self.number_of_seconds} SECONDS"); ("StartStopQualifier", "START {self.start_time} STOP {self.stop_time}"); ("QualifiedObservationExpression", "{self.observation_expression} {self.qualifier}")].

(* the operator spelling each class passes to its base class *)
Definition model_operators : list (string * string) :=
  [("EqualityComparisonExpression", "="); ("GreaterThanComparisonExpression", ">"); ("LessThanComparisonExpression", "<"); ("GreaterThanEqualComparisonExpression", ">="); ("LessThanEqualComparisonExpression", "<="); ("InComparisonExpression", "IN"); ("LikeComparisonExpression", "LIKE"); ("MatchesComparisonExpression", "MATCHES"); ("IsSubsetComparisonExpression", "ISSUBSET"); ("IsSupersetComparisonExpression", "ISSUPERSET"); ("AndBooleanExpression", "AND"); ("OrBooleanExpression", "OR"); ("AndObservationExpression", "AND"); ("OrObservationExpression", "OR"); ("FollowedByObservationExpression", "FOLLOWEDBY")].

Definition model_make_constant : list string := ["if isinstance(value, _Constant): return value"; "try: return TimestampConstant(value) except (ValueError, TypeError): pass"; "if isinstance(value, str): return StringConstant(value)"; "if isinstance(value, bool): return BooleanConstant(value)"; "if isinstance(value, int): return IntegerConstant(value)"; "if isinstance(value, float): return FloatConstant(value)"; "if isinstance(value, list): return ListConstant(value)"; "else: raise ValueError"].
Definition model_create_component : list string := ["if isinstance(component_name, StringConstant): return BasicObjectPathComponent(component_name.value, False)"; "if component_name.endswith('_ref'): return ReferenceObjectPathComponent(component_name)"; "if component_name.find('[') != -1: ?parse1 = component_name.split('[') ; return ListObjectPathComponent(parse1[0], parse1[1][:-1])"; "else: return BasicObjectPathComponent(component_name, False)"].

(* ObjectPath.make_object_path as Model/PatternSyntax.make_object_path transcribes it: the string-encoded path is cut at
   every ':' (first two pieces used) and the second piece at every '.', each piece handed to create_ObjectPathComponent *)
Definition model_make_object_path : string :=
  "path_as_parts = lhs.split(':') ; return ObjectPath(path_as_parts[0], path_as_parts[1].split('.'))".

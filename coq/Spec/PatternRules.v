(* Spec/PatternRules.v -- the rewrite-rule instances that C09 demands be
   recognised ("commutativity, associativity, idempotence ..."), stated on the
   parsed pattern (the AST as the parser builds it, parentheses included),
   with ARBITRARY sub-expressions as operands.

   crule : an instance at the root of a comparison expression.
   orule : an instance at the root of an observation expression, or a crule
           instance inside one observation `[...]` anywhere in the pattern.
   Chains of instances are covered by transitivity of `equiv`, the other
   direction by its symmetry.                                               *)
From Coq Require Import List Permutation.
From V Require Import Model.PatternEq Spec.PatternSemantics.
Import ListNotations.
Local Open Scope list_scope.

Definition mk0 (o : bop) (l : list cexpr0) : cexpr0 := match o with BAnd => And0 l | BOr => Or0 l end.
Definition mko0 (o : oop) (l : list oexpr0) : oexpr0 :=
  match o with OpAnd => OAnd0 l | OpOr => OOr0 l | OpFby => OFby0 l end.

(* the same operands, in any order and any multiplicity *)
Definition seteq {A} (l l' : list A) : Prop := incl l l' /\ incl l' l.

Inductive crule : cexpr0 -> cexpr0 -> Prop :=
| cr_set : forall o l l',                   (* commutativity and idempotence of AND and of OR, n-ary *)
    seteq l l' -> List.length l <> 1%nat -> List.length l' <> 1%nat -> crule (mk0 o l) (mk0 o l')
| cr_assoc : forall o l1 l2 l3,             (* associativity, the nested node written without parentheses *)
    l2 <> [] -> crule (mk0 o (l1 ++ mk0 o l2 :: l3)) (mk0 o (l1 ++ l2 ++ l3))
| cr_assoc_paren : forall o l1 l2 l3,       (* associativity, the nested node parenthesised *)
    l2 <> [] -> crule (mk0 o (l1 ++ Paren0 (mk0 o l2) :: l3)) (mk0 o (l1 ++ l2 ++ l3))
| cr_idem : forall o a, crule (mk0 o [a; a]) a       (* A op A = A *)
| cr_parens : forall c c',                  (* the two differ only in parentheses, anywhere *)
    unparen_c c = unparen_c c' -> crule c c'.

(* one-hole contexts of observation expressions *)
Inductive octxt :=
| Hole
| InNode (o : oop) (l1 : list oexpr0) (C : octxt) (l2 : list oexpr0)
| InQual (C : octxt) (q : qual)
| InParen (C : octxt).

Fixpoint fill (C : octxt) (p : oexpr0) : oexpr0 :=
  match C with
  | Hole => p
  | InNode o l1 C' l2 => mko0 o (l1 ++ fill C' p :: l2)
  | InQual C' q => OQual0 (fill C' p) q
  | InParen C' => OParen0 (fill C' p)
  end.

Inductive orule : oexpr0 -> oexpr0 -> Prop :=
| or_and_comm : forall l l',                (* AND: the same operands in any order (AND is not idempotent:
                                              the operands must match on different observations) *)
    Permutation l l' -> orule (OAnd0 l) (OAnd0 l')
| or_or_set : forall l l',                  (* OR: commutativity and idempotence, n-ary *)
    seteq l l' -> List.length l <> 1%nat -> List.length l' <> 1%nat -> orule (OOr0 l) (OOr0 l')
| or_assoc : forall o l1 l2 l3,             (* associativity of AND, OR and FOLLOWEDBY *)
    l2 <> [] -> orule (mko0 o (l1 ++ mko0 o l2 :: l3)) (mko0 o (l1 ++ l2 ++ l3))
| or_assoc_paren : forall o l1 l2 l3,
    l2 <> [] -> orule (mko0 o (l1 ++ OParen0 (mko0 o l2) :: l3)) (mko0 o (l1 ++ l2 ++ l3))
| or_or_idem : forall a, orule (OOr0 [a; a]) a
| or_parens : forall p q,                   (* the two differ only in parentheses, anywhere, at either level *)
    unparen_o p = unparen_o q -> orule p q
| or_cmp : forall C c c',                   (* a comparison-level instance inside one observation, anywhere *)
    crule c c' -> orule (fill C (Obs0 c)) (fill C (Obs0 c')).

(* Spec/TimestampSpec.v -- what a STIX timestamp text means, independent of
   the library model: a strict reader of

       YYYY-MM-DDTHH:MM:SS[.d+]Z

   (exactly these widths, ASCII digits, upper-case T and Z, at least one digit
   after a dot, nothing before or after), the truncation the precision of a
   property asks for, and the digit-count rule of each precision.            *)
From Coq Require Import ZArith NArith List Bool.
From V Require Import Base.UString Model.Calendar.
Import ListNotations.
Open Scope Z_scope.

Definition sdigit (c : N) : option Z :=
  if (48 <=? c)%N && (c <=? 57)%N then Some (Z.of_N c - 48) else None.

(* exactly n ASCII digits, value accumulated left to right *)
Fixpoint read_num (n : nat) (s : ustring) (acc : Z) : option (Z * ustring) :=
  match n with
  | O => Some (acc, s)
  | S k => match s with
           | c :: r => match sdigit c with Some d => read_num k r (acc * 10 + d) | None => None end
           | [] => None
           end
  end.

Definition expect (c : N) (s : ustring) : option ustring :=
  match s with
  | x :: r => if (x =? c)%N then Some r else None
  | [] => None
  end.

(* all digits up to the end, which must be "Z": Some digits *)
Fixpoint read_frac (s : ustring) : option (list Z) :=
  match s with
  | [] => None
  | c :: r => match sdigit c with
              | Some d => match read_frac r with Some ds => Some (d :: ds) | None => None end
              | None => if (c =? 90)%N then (match r with [] => Some [] | _ => None end) else None
              end
  end.

(* the tail after the seconds: "Z" or "." d+ "Z" *)
Definition read_tail (s : ustring) : option (list Z) :=
  match s with
  | [90%N] => Some []
  | 46%N :: r => match read_frac r with
                 | Some (d :: ds) => Some (d :: ds)
                 | _ => None
                 end
  | _ => None
  end.

Record reading := mkReading { r_y : Z; r_mo : Z; r_d : Z; r_h : Z; r_mi : Z; r_s : Z; r_frac : list Z }.

(* shape only *)
Definition read_shape (s : ustring) : option reading :=
  match read_num 4 s 0 with Some (y, s1) =>
  match expect 45 s1 with Some s2 =>
  match read_num 2 s2 0 with Some (mo, s3) =>
  match expect 45 s3 with Some s4 =>
  match read_num 2 s4 0 with Some (d, s5) =>
  match expect 84 s5 with Some s6 =>
  match read_num 2 s6 0 with Some (h, s7) =>
  match expect 58 s7 with Some s8 =>
  match read_num 2 s8 0 with Some (mi, s9) =>
  match expect 58 s9 with Some s10 =>
  match read_num 2 s10 0 with Some (sec, s11) =>
  match read_tail s11 with Some ds => Some (mkReading y mo d h mi sec ds)
  | None => None end | None => None end | None => None end | None => None end | None => None end
  | None => None end | None => None end | None => None end | None => None end | None => None end
  | None => None end | None => None end.

Definition is_canonical (s : ustring) : bool :=
  match read_shape s with Some _ => true | None => false end.

(* shape + a real date and time of day: whole seconds since 0001-01-01T00:00:00Z and the fraction digits *)
Definition spec_read (s : ustring) : option (Z * list Z) :=
  match read_shape s with
  | Some r =>
      if valid_date (r_y r) (r_mo r) (r_d r) && (r_h r <? 24) && (r_mi r <? 60) && (r_s r <? 60)
      then Some (((days_of_civil (r_y r) (r_mo r) (r_d r) * 24 + r_h r) * 60 + r_mi r) * 60 + r_s r, r_frac r)
      else None
  | None => None
  end.

Fixpoint digits_value (ds : list Z) (acc : Z) : Z :=
  match ds with [] => acc | d :: r => digits_value r (acc * 10 + d) end.

(* the reading (secs, ds) is exactly the instant t (in microseconds):
   secs + 0.ds seconds = t / 10^6, cross-multiplied -- exact for any number of digits *)
Definition denotes (rd : Z * list Z) (t : Z) : Prop :=
  let '(secs, ds) := rd in
  let k := 10 ^ Z.of_nat (length ds) in
  (secs * k + digits_value ds 0) * 1000000 = t * k.

(* ---- truncation asked for by a precision ---- *)
Inductive sprecision := SAny | SSecond | SMilli.
Inductive sconstraint := SExact | SMin.

(* the unit the written instant is a multiple of *)
Definition unit_of (p : sprecision) (c : sconstraint) : Z :=
  match p, c with
  | SSecond, SExact => 1000000
  | SMilli, SExact => 1000
  | _, _ => 1              (* "at least" precisions and ANY keep every microsecond *)
  end.

Definition floor_to (p : sprecision) (c : sconstraint) (t : Z) : Z := t - t mod unit_of p c.

(* the digit-count rule; ds = the fraction digits of the text *)
Definition digit_rule (p : sprecision) (c : sconstraint) (ds : list Z) : Prop :=
  match p, c with
  | SSecond, SExact => ds = []
  | SMilli, SExact => length ds = 3%nat
  | SMilli, SMin => (3 <= length ds)%nat /\ ((3 < length ds)%nat -> last ds 0 <> 0)
  | _, _ => ds = [] \/ last ds 0 <> 0      (* nothing for whole seconds, else no trailing zero *)
  end.

(* Spec/ScoIdSpec.v -- STIX 2.1 (OASIS Standard, 10 June 2021), part 6 "STIX
   Cyber-observable Objects": the "ID Contributing Properties" stated for each
   object type, and section 2.9 on deterministic identifiers:
     the id is  <type>--<UUIDv5>, namespace 00abedb4-aa42-466c-9c01-fed23315a9b7,
     name = the RFC 8785 canonical JSON of the object holding exactly the listed
     properties that are present; for `hashes` one hash only, chosen in the order
     MD5, SHA-1, SHA-256, SHA-512; UUIDv4 when the type lists none (process) or
     none of the listed ones is present.
   Written from the standard (tag: audited).  The order inside a list is not
   significant (the canonical form sorts members).  No proofs here.             *)
From Coq Require Import String NArith List Bool.
From V Require Import Base.UString.
Import ListNotations.

Definition spec_contrib : list (ustring * list ustring) :=
  [ (u "artifact", [u "hashes"; u "payload_bin"]);
    (u "autonomous-system", [u "number"]);
    (u "directory", [u "path"]);
    (u "domain-name", [u "value"]);
    (u "email-addr", [u "value"]);
    (u "email-message", [u "from_ref"; u "subject"; u "body"]);
    (u "file", [u "hashes"; u "name"; u "extensions"; u "parent_directory_ref"]);
    (u "ipv4-addr", [u "value"]);
    (u "ipv6-addr", [u "value"]);
    (u "mac-addr", [u "value"]);
    (u "mutex", [u "name"]);
    (u "network-traffic", [u "start"; u "end"; u "src_ref"; u "dst_ref"; u "src_port"; u "dst_port"; u "protocols"; u "extensions"]);
    (u "process", []);
    (u "software", [u "name"; u "cpe"; u "swid"; u "vendor"; u "version"]);
    (u "url", [u "value"]);
    (u "user-account", [u "account_type"; u "user_id"; u "account_login"]);
    (u "windows-registry-key", [u "key"; u "values"]);
    (u "x509-certificate", [u "hashes"; u "serial_number"]) ].

Definition spec_hash_preference : list ustring := [u "MD5"; u "SHA-1"; u "SHA-256"; u "SHA-512"].

Fixpoint mem_ustr (x : ustring) (l : list ustring) : bool :=
  match l with [] => false | y :: r => ustr_eqb x y || mem_ustr x r end.

Definition same_set (a b : list ustring) : bool :=
  forallb (fun x => mem_ustr x b) a && forallb (fun x => mem_ustr x a) b &&
  Nat.eqb (length a) (length b).

(* a table type -> list agrees with the standard: same types, same sets *)
Definition table_matches_spec (types : list ustring) (contrib : ustring -> option (list ustring)) : bool :=
  same_set types (map fst spec_contrib) &&
  forallb (fun e => match contrib (fst e) with
                    | Some l => same_set l (snd e)
                    | None => false
                    end) spec_contrib.

(* Spec/SchemaRefine.v -- the decidable side conditions of the C02 / C03 theorems
   (DESIGN Appendix A.7): a table-level comparison of the class tables the
   library builds (Gen/Tables.v) with the frozen specification tables
   (Gen/SpecTables.v), evaluated by the kernel on every run.

     refine_failures w sp    C02 direction: everything the library's table lets
                             through is allowed by the specification's table
                             (bounds contained, vocabularies contained, required
                             kept, co-constraints kept, no extra property)
     accept_failures sp w    C03 direction: everything the specification's table
                             allows is let through by the library's table

   Both return the list of places where the comparison fails, so that an edit to
   a table shows up as a named slot (the harness then builds the boundary input
   for that slot and runs it on the real class).  Definitions only.           *)
From Coq Require Import NArith ZArith List String Bool.
From V Require Import Base.UString Base.Json Model.SchemaTypes Model.PyBase Spec.StixValid.
Import ListNotations.

Definition ver_eqb (a b : ver) : bool := match a, b with V20, V20 | V21, V21 => true | _, _ => false end.
Definition prec_eqb (a b : prec) : bool :=
  match a, b with PAny, PAny | PSecond, PSecond | PMilli, PMilli => true | _, _ => false end.
Definition pconstr_eqb (a b : pconstr) : bool := match a, b with CExact, CExact | CMin, CMin => true | _, _ => false end.
Definition family_eqb (a b : family) : bool :=
  match a, b with FSdo, FSdo | FSro, FSro | FSco, FSco | FExt, FExt | FOther, FOther => true | _, _ => false end.

Fixpoint ulist_eqb (a b : list ustring) : bool :=
  match a, b with
  | [], [] => true
  | x :: a', y :: b' => ustr_eqb x y && ulist_eqb a' b'
  | _, _ => false
  end.
Definition usubset (a b : list ustring) : bool := forallb (fun x => mem_ustr x b) a.
Definition optu_eqb (a b : option ustring) : bool :=
  match a, b with None, None => true | Some x, Some y => ustr_eqb x y | _, _ => false end.

(* lower bound a is at least as strict as lower bound b / same for upper bounds *)
Definition lower_within (a b : option Z) : bool :=
  match b with None => true | Some y => match a with Some x => (y <=? x)%Z | None => false end end.
Definition upper_within (a b : option Z) : bool :=
  match b with None => true | Some y => match a with Some x => (x <=? y)%Z | None => false end end.

Definition is_stringy (k : pkind) : bool :=
  match k with KString | KPattern | KObjRef _ | KOpenVocab _ => true | _ => false end.

(* values let through by kind k (library) are valid for kind k' (specification) *)
Fixpoint kind_refines (k k' : pkind) {struct k} : bool :=
  match k, k' with
  | KFixed a _, KFixed b _ => ustr_eqb a b
  | KId p v, KId p' v' => ustr_eqb p p' && ver_eqb v v'
  | KInt mn mx, KInt mn' mx' => lower_within mn mn' && upper_within mx mx'
  | KFloat mn mx, KFloat mn' mx' => lower_within mn mn' && upper_within mx mx'
  | KBool, KBool => true
  | KTime p c, KTime p' c' => prec_eqb p p' && pconstr_eqb c c'
  | KDict v, KDict v' => ver_eqb v v'
  | KHashes n v, KHashes n' v' => usubset n n' && ver_eqb v v'
  | KBinary, KBinary => true
  | KHex, KHex => true
  | KRef wh g s v, KRef wh' g' s' v' =>
    Bool.eqb wh wh' && ver_eqb v v' &&
    (if wh then usubset g g' && usubset s s' else usubset g' g && usubset s' s)
  | KSelector, KSelector => true
  | KEmbedded c, KEmbedded c' => ustr_eqb c c'
  | KEnum a, KEnum a' => usubset a a'
  | KObservable v, KObservable v' => ver_eqb v v'
  | KExtensions v, KExtensions v' => ver_eqb v v'
  | KStixObject v, KStixObject v' => ver_eqb v v'
  | KMarking v, KMarking v' => ver_eqb v v'
  | KList a, KList a' => kind_refines a a'
  | KListOf c, KListOf c' => ustr_eqb c c'
  | _, _ => is_stringy k && is_stringy k'
  end.

(* values valid for kind k' (specification) are let through by kind k (library): the converse containments *)
Fixpoint kind_accepts (k k' : pkind) {struct k} : bool :=
  match k, k' with
  | KFixed a _, KFixed b _ => ustr_eqb a b
  | KId p v, KId p' v' => ustr_eqb p p' && ver_eqb v v'
  | KInt mn mx, KInt mn' mx' => lower_within mn' mn && upper_within mx' mx
  | KFloat mn mx, KFloat mn' mx' => lower_within mn' mn && upper_within mx' mx
  | KBool, KBool => true
  (* every timestamp text is read; what matters is that the library's truncation keeps the instant of
     every text the specification's precision allows *)
  | KTime p c, KTime p' c' =>
    match p, c with
    | PAny, _ | _, CMin => true
    | PMilli, CExact => match p', c' with PMilli, CExact | PSecond, CExact => true | _, _ => false end
    | PSecond, CExact => match p', c' with PSecond, CExact => true | _, _ => false end
    end
  | KDict v, KDict v' => ver_eqb v v'
  | KHashes n v, KHashes n' v' => usubset n' n && ver_eqb v v'
  | KBinary, KBinary => true
  | KHex, KHex => true
  | KRef wh g s v, KRef wh' g' s' v' =>
    Bool.eqb wh wh' && ver_eqb v v' &&
    (if wh then usubset g' g && usubset s' s else usubset g g' && usubset s s')
  | KSelector, KSelector => true
  | KEmbedded c, KEmbedded c' => ustr_eqb c c'
  | KEnum a, KEnum a' => usubset a' a
  | KObservable v, KObservable v' => ver_eqb v v'
  | KExtensions v, KExtensions v' => ver_eqb v v'
  | KStixObject v, KStixObject v' => ver_eqb v v'
  | KMarking v, KMarking v' => ver_eqb v v'
  | KList a, KList a' => kind_accepts a a'
  | KListOf c, KListOf c' => ustr_eqb c c'
  | _, _ => is_stringy k && is_stringy k'
  end.

(* ---------- constraints: syntactic equality ---------- *)
Fixpoint ccond_eqb (a b : ccond) : bool :=
  match a, b with
  | QTruthy p, QTruthy q | QIsTrue p, QIsTrue q | QIsNotFalse p, QIsNotFalse q
  | QIsNotNone p, QIsNotNone q | QHas p, QHas q => ustr_eqb p q
  | QLt p r, QLt q t | QLe p r, QLe q t => ustr_eqb p q && ustr_eqb r t
  | QAnd p r, QAnd q t | QOr p r, QOr q t => ccond_eqb p q && ccond_eqb r t
  | QNot p, QNot q => ccond_eqb p q
  | _, _ => false
  end.

Definition errclass_eqb (a b : errclass) : bool :=
  match a, b with
  | EValueError, EValueError | EDependentProperties, EDependentProperties | EPropertyPresence, EPropertyPresence
  | EInvalidValue, EInvalidValue | EAtLeastOne, EAtLeastOne | EMutuallyExclusive, EMutuallyExclusive
  | EMissing, EMissing | EExtra, EExtra | ECustomContent, ECustomContent | EInvalidSelector, EInvalidSelector
  | ETLPMarkingDefinition, ETLPMarkingDefinition => true
  | EOther x, EOther y => ustr_eqb x y
  | _, _ => false
  end.

Fixpoint constr_eqb (a b : constr) {struct a} : bool :=
  match a, b with
  | CAtLeastOne p, CAtLeastOne q => ulist_eqb p q
  | CAtLeastOneDefault, CAtLeastOneDefault => true
  | CMutEx p, CMutEx q => ulist_eqb p q
  | CDepends p r, CDepends q t => ulist_eqb p q && ulist_eqb r t
  | CRaiseIf c e, CRaiseIf d e' => ccond_eqb c d && errclass_eqb e e'
  | CWhen c body, CWhen d body' =>
    ccond_eqb c d &&
    (fix go (x y : list constr) : bool :=
       match x, y with
       | [], [] => true
       | p :: x', q :: y' => constr_eqb p q && go x' y'
       | _, _ => false
       end) body body'
  | CTlp v, CTlp v' => ver_eqb v v'
  | CPatternValidator v, CPatternValidator v' => ver_eqb v v'
  | CLegalHashes n, CLegalHashes n' => ulist_eqb n n'
  | CSocketOptions, CSocketOptions => true
  | CProcessExt, CProcessExt => true
  | CSkipBaseCheck, CSkipBaseCheck => true
  | _, _ => false
  end.

Definition is_opaque (k : constr) : bool := match k with COpaque _ => true | _ => false end.

(* ---------- failures ---------- *)
Inductive failure :=
| FNoClass (cid : ustring)                       (* a class of one side has no counterpart *)
| FHeader (cid : ustring)                        (* version / type / family differ *)
| FUnknownSlot (cid slot : ustring)              (* a property the other side does not have *)
| FKind (cid slot : ustring)                     (* the value rule is not contained *)
| FRequired (cid slot : ustring)                 (* required by the specification, not guaranteed by the library
                                                    (C03: required by the library only) *)
| FConstraint (cid : ustring) (i : nat)          (* i-th constraint of the reference side has no counterpart *)
| FOpaque (cid : ustring)                        (* a constraint / __init__ the translator could not read *)
| FRegistry (v : ver) (cat : nat)
| FSpecNames (v : ver).                           (* a registered type name of the specification is not a legal type name *)

Definition find_slot (c : cls) (n : ustring) : option slot := find (fun s => ustr_eqb (sname s) n) (cslots c).

(* always present in what the library emits without optional defaults *)
Definition always_present (s : slot) : bool :=
  sreq s || match sdef s with DFixed | DNow | DUuid4 => true | _ => false end.

(* the specification requires the property (StixValid.spec_required restated on the table) *)
Definition spec_requires (c : cls) (s : slot) : bool :=
  sreq s ||
  match sdef s with
  | DUuid4 | DNow => true
  | DFixed => ustr_eqb (sname s) (u "type") ||
              (ustr_eqb (sname s) (u "spec_version") && match cfamily c with FSco => false | _ => true end)
  | _ => false
  end.

Definition header_ok (lc sc : cls) : bool :=
  ver_eqb (cver lc) (cver sc) && optu_eqb (ctype lc) (ctype sc) && family_eqb (cfamily lc) (cfamily sc).

Definition preinit_known (i : preinit) : bool := match i with IOpaque _ => false | _ => true end.

Definition class_refine_failures (lc sc : cls) : list failure :=
  let id := cid lc in
  (if header_ok lc sc then [] else [FHeader id]) ++
  (if existsb is_opaque (ccons lc) || negb (preinit_known (cinit lc)) then [FOpaque id] else []) ++
  flat_map (fun s => match find_slot sc (sname s) with
                     | None => [FUnknownSlot id (sname s)]
                     | Some s' => if kind_refines (skind s) (skind s') then [] else [FKind id (sname s)]
                     end) (cslots lc) ++
  flat_map (fun s' => if negb (spec_requires sc s') then [] else
                      match find_slot lc (sname s') with
                      | Some s => if always_present s then [] else [FRequired id (sname s')]
                      | None => [FRequired id (sname s')]
                      end) (cslots sc) ++
  (* CSkipBaseCheck records that a library override omits the base check; it constrains nothing *)
  flat_map (fun ik => if existsb (constr_eqb (snd ik)) (ccons lc) || match snd ik with CSkipBaseCheck => true | _ => false end
                      then [] else [FConstraint id (fst ik)])
           (combine (seq 0 (List.length (ccons sc))) (ccons sc)).

Definition class_accept_failures (sc lc : cls) : list failure :=
  let id := cid sc in
  (if header_ok lc sc then [] else [FHeader id]) ++
  (if existsb is_opaque (ccons lc) || negb (preinit_known (cinit lc)) then [FOpaque id] else []) ++
  flat_map (fun s' => match find_slot lc (sname s') with
                      | None => [FUnknownSlot id (sname s')]
                      | Some s => if kind_accepts (skind s) (skind s') then [] else [FKind id (sname s')]
                      end) (cslots sc) ++
  (* what the library insists on must be required by the specification *)
  flat_map (fun s => if negb (sreq s) then [] else
                     match find_slot sc (sname s) with
                     | Some s' => if spec_requires sc s' then [] else [FRequired id (sname s)]
                     | None => [FRequired id (sname s)]
                     end) (cslots lc) ++
  (* every constraint the library enforces is one the specification states *)
  flat_map (fun ik => if existsb (constr_eqb (snd ik)) (ccons sc) || match snd ik with CSkipBaseCheck => true | _ => false end
                      then [] else [FConstraint id (fst ik)])
           (combine (seq 0 (List.length (ccons lc))) (ccons lc)).

Fixpoint pairs_eqb (a b : list (ustring * ustring)) : bool :=
  match a, b with
  | [], [] => true
  | (k, v) :: a', (k', v') :: b' => ustr_eqb k k' && ustr_eqb v v' && pairs_eqb a' b'
  | _, _ => false
  end.

Definition registry_failures (v : ver) (a b : registry) : list failure :=
  (if pairs_eqb (robjects a) (robjects b) then [] else [FRegistry v 0]) ++
  (if pairs_eqb (robservables a) (robservables b) then [] else [FRegistry v 1]) ++
  (if pairs_eqb (rextensions a) (rextensions b) then [] else [FRegistry v 2]) ++
  (if pairs_eqb (rmarkings a) (rmarkings b) then [] else [FRegistry v 3]).

(* the specification's own registries only name legal types *)
Definition reg_names_ok (r : registry) : bool :=
  forallb (fun kv => valid_type_name (fst kv)) (robjects r) && forallb (fun kv => valid_type_name (fst kv)) (robservables r).

Definition spec_names_failures (sp : world) : list failure :=
  (if reg_names_ok (wreg20 sp) then [] else [FSpecNames V20]) ++ (if reg_names_ok (wreg21 sp) then [] else [FSpecNames V21]).

Definition refine_failures (w sp : world) : list failure :=
  flat_map (fun lc => match find_class (wclasses sp) (cid lc) with
                      | Some sc => class_refine_failures lc sc
                      | None => [FNoClass (cid lc)]
                      end) (wclasses w) ++
  (registry_failures V20 (wreg20 w) (wreg20 sp) ++ registry_failures V21 (wreg21 w) (wreg21 sp)) ++
  spec_names_failures sp.

Definition accept_failures (sp w : world) : list failure :=
  flat_map (fun sc => match find_class (wclasses w) (cid sc) with
                      | Some lc => class_accept_failures sc lc
                      | None => [FNoClass (cid sc)]
                      end) (wclasses sp) ++
  registry_failures V20 (wreg20 w) (wreg20 sp) ++ registry_failures V21 (wreg21 w) (wreg21 sp).

Definition world_refines (w sp : world) : bool := match refine_failures w sp with [] => true | _ => false end.
Definition spec_refines (sp w : world) : bool := match accept_failures sp w with [] => true | _ => false end.

(* ---------- relaxing the specification at the named places ----------
   relax w sp fs: the specification tables with, at every place named in fs, the library's own rule
   put in place of the specification's (kind taken from the library's slot, `required` dropped, the
   constraint removed, the extra property admitted).  The C02 theorem is instantiated with
   relax lib spec (refine_failures lib spec): the frozen specification itself when the list is empty,
   and otherwise the statement says exactly where it is weaker.                                     *)
Definition has_fkind (fs : list failure) (c n : ustring) : bool :=
  existsb (fun f => match f with FKind c' n' => ustr_eqb c c' && ustr_eqb n n' | _ => false end) fs.
Definition has_frequired (fs : list failure) (c n : ustring) : bool :=
  existsb (fun f => match f with FRequired c' n' => ustr_eqb c c' && ustr_eqb n n' | _ => false end) fs.
Definition has_funknown (fs : list failure) (c n : ustring) : bool :=
  existsb (fun f => match f with FUnknownSlot c' n' => ustr_eqb c c' && ustr_eqb n n' | _ => false end) fs.
Definition has_fconstraint (fs : list failure) (c : ustring) (i : nat) : bool :=
  existsb (fun f => match f with FConstraint c' i' => ustr_eqb c c' && Nat.eqb i i' | _ => false end) fs.

Definition relax_class (fs : list failure) (lc : option cls) (sc : cls) : cls :=
  let id := cid sc in
  let lslot (n : ustring) := match lc with Some l => find_slot l n | None => None end in
  {| cid := id; cver := cver sc; ctype := ctype sc; cfamily := cfamily sc;
     cslots :=
       map (fun s' =>
              let k := if has_fkind fs id (sname s') then match lslot (sname s') with Some s => skind s | None => skind s' end
                       else skind s' in
              if has_frequired fs id (sname s')
              then {| sname := sname s'; skind := k; sreq := false; sdef := DNone |}
              else {| sname := sname s'; skind := k; sreq := sreq s'; sdef := sdef s' |}) (cslots sc)
       ++ match lc with
          | Some l => map (fun s => {| sname := sname s; skind := skind s; sreq := false; sdef := DNone |})
                          (filter (fun s => has_funknown fs id (sname s)) (cslots l))
          | None => []
          end;
     ccons := map snd (filter (fun ik => negb (has_fconstraint fs id (fst ik)))
                              (combine (seq 0 (List.length (ccons sc))) (ccons sc)));
     cinit := cinit sc; cidcontrib := cidcontrib sc; cserialize_tlp := cserialize_tlp sc |}.

Definition relax (w sp : world) (fs : list failure) : world :=
  {| wclasses := map (fun sc => relax_class fs (find_class (wclasses w) (cid sc)) sc) (wclasses sp);
     wreg20 := wreg20 sp; wreg21 := wreg21 sp; wtlp20 := wtlp20 sp; wtlp21 := wtlp21 sp |}.

(* restrict w sp fs: the specification tables narrowed, at every place named in fs (the C03 direction:
   places where the library is stricter), to what the library's table lets through: kind taken from the
   library's slot, `required` added, the library's extra constraint added, the unknown property removed.
   The C03 theorem is instantiated with restrict lib spec (accept_failures spec lib).                 *)
Definition restrict_class (fs : list failure) (lc : option cls) (sc : cls) : cls :=
  let id := cid sc in
  let lslot (n : ustring) := match lc with Some l => find_slot l n | None => None end in
  {| cid := id; cver := cver sc; ctype := ctype sc; cfamily := cfamily sc;
     cslots :=
       map (fun s' =>
              let k := if has_fkind fs id (sname s') then match lslot (sname s') with Some s => skind s | None => skind s' end
                       else skind s' in
              {| sname := sname s'; skind := k; sreq := sreq s' || has_frequired fs id (sname s'); sdef := sdef s' |})
           (filter (fun s' => negb (has_funknown fs id (sname s'))) (cslots sc));
     ccons := ccons sc ++
              match lc with
              | Some l => map snd (filter (fun ik => has_fconstraint fs id (fst ik))
                                          (combine (seq 0 (List.length (ccons l))) (ccons l)))
              | None => []
              end;
     cinit := cinit sc; cidcontrib := cidcontrib sc; cserialize_tlp := cserialize_tlp sc |}.

Definition restrict (w sp : world) (fs : list failure) : world :=
  {| wclasses := map (fun sc => restrict_class fs (find_class (wclasses w) (cid sc)) sc) (wclasses sp);
     wreg20 := wreg20 sp; wreg21 := wreg21 sp; wtlp20 := wtlp20 sp; wtlp21 := wtlp21 sp |}.

(* ---------- rendering: one failure per line, fields separated by '|' ---------- *)
Definition show_failure (f : failure) : string :=
  match f with
  | FNoClass c => append "class|" (show_ustr c)
  | FHeader c => append "header|" (show_ustr c)
  | FUnknownSlot c s => append "unknown-slot|" (append (show_ustr c) (append "|" (show_ustr s)))
  | FKind c s => append "kind|" (append (show_ustr c) (append "|" (show_ustr s)))
  | FRequired c s => append "required|" (append (show_ustr c) (append "|" (show_ustr s)))
  | FConstraint c i => append "constraint|" (append (show_ustr c) (append "|" (show_nat i)))
  | FOpaque c => append "opaque|" (show_ustr c)
  | FRegistry v cat => append "registry|" (append (match v with V20 => "2.0" | V21 => "2.1" end) (append "|" (show_nat cat)))
  | FSpecNames v => append "spec-names|" (match v with V20 => "2.0" | V21 => "2.1" end)
  end.

Definition show_failures (l : list failure) : string :=
  fold_right (fun f acc => append (show_failure f) (append ";" acc)) EmptyString l.

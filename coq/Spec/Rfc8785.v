(* Spec/Rfc8785.v -- what RFC 8785 (JSON Canonicalization Scheme) demands,
   written from the normative texts (no copy of them exists in the sandbox; every
   clause below is one I am certain of -- tag: audited):

   RFC 8785 3.2.2.3  numbers are serialized as ECMAScript Number::toString does
   (ECMA-262 7.1.12.1 / Number::toString(x), radix 10):
       1 NaN -> NaN   2 +0,-0 -> 0   3 x<0 -> - and ToString(-x)   4 inf -> Infinity
       5 let n, k, s be integers with k >= 1, 10^(k-1) <= s < 10^k,
         s * 10^(n-k) = x and k as small as possible
       6 k <= n <= 21   : the k digits of s, then n-k zeros
       7 0 < n <= 21    : the first n digits of s, a point, the other k-n digits
       8 -6 < n <= 0    : 0, a point, -n zeros, the k digits of s
       9 k = 1          : the digit, e, + or - by the sign of n-1, |n-1| in decimal
      10 otherwise      : first digit, a point, the other k-1 digits, e, sign, |n-1|
   NaN and the infinities are not JSON and MUST be refused (RFC 8785 3.2.2.3).

   RFC 8785 3.2.2.2  strings: the two-character escapes for backspace, tab,
   newline, form feed, carriage return; lower-case \u00hh for the other
   characters below U+0020; backslash-escaped backslash and double quote;
   every other character as is.

   RFC 8785 3.2.3  members sorted on the UTF-16 code units of their names,
   compared as unsigned integers, shorter prefix first; recursively.
   RFC 8785 3.2.1  no whitespace between tokens.

   No proofs here.                                                             *)
From Coq Require Import String NArith ZArith List Bool Sorted.
From V Require Import Base.UString Model.JcsText.
Import ListNotations.
Open Scope N_scope.

(* ---- numbers ----------------------------------------------------------------
   a finite non-zero double is given by (neg, ds, n): ds = the k digits of s
   (most significant first), so |x| = 0.d1...dk * 10^n = s * 10^(n-k).          *)

Definition wf_digits (ds : list N) : Prop :=
  (1 <= length ds <= 17)%nat /\ Forall (fun d => d < 10) ds /\
  hd 0 ds <> 0 /\ last ds 0 <> 0.

Definition es6_exp (e : Z) : ustring :=
  c_e :: (if (e <? 0)%Z then c_minus else c_plus) :: dec_show (Z.abs_N e).

Definition es6_tostring (neg : bool) (ds : list N) (n : Z) : ustring :=
  let k := Z.of_nat (length ds) in
  (if neg then [c_minus] else []) ++
  (if ((k <=? n) && (n <=? 21))%Z then dchars ds ++ repeat c_0 (Z.to_nat (n - k))
   else if ((0 <? n) && (n <=? 21))%Z then
     dchars (firstn (Z.to_nat n) ds) ++ c_dot :: dchars (skipn (Z.to_nat n) ds)
   else if ((-6 <? n) && (n <=? 0))%Z then
     c_0 :: c_dot :: repeat c_0 (Z.to_nat (- n)) ++ dchars ds
   else match ds with
        | [d] => dchar d :: es6_exp (n - 1)
        | d :: r => dchar d :: c_dot :: dchars r ++ es6_exp (n - 1)
        | [] => []
        end).

(* ---- strings ---------------------------------------------------------------- *)
Definition short_escapes : list (N * N) :=
  [(8, 98); (9, 116); (10, 110); (12, 102); (13, 114)].     (* \b \t \n \f \r *)

Fixpoint assoc (c : N) (t : list (N * N)) : option N :=
  match t with [] => None | (a, b) :: r => if a =? c then Some b else assoc c r end.

Definition hexdig_lower (n : N) : N :=
  nth (N.to_nat n) [48; 49; 50; 51; 52; 53; 54; 55; 56; 57; 97; 98; 99; 100; 101; 102] 0.

Definition rfc_escape_char (c : N) : ustring :=
  match assoc c short_escapes with
  | Some l => [92; l]
  | None =>
    if c <? 32 then [92; 117; 48; 48; hexdig_lower (N.shiftr c 4); hexdig_lower (N.land c 15)]
    else if (c =? 92) || (c =? 34) then [92; c]
    else [c]
  end.

Definition rfc_escape (s : ustring) : ustring := flat_map rfc_escape_char s.

(* ---- member order ------------------------------------------------------------- *)
(* UTF-16 code units of a Unicode scalar value (Unicode 3.9, D91) *)
Definition utf16_scalar (c : N) : list N :=
  if c <? 65536 then [c]
  else [55296 + N.shiftr (c - 65536) 10; 56320 + N.land (c - 65536) 1023].

Definition utf16 (s : ustring) : list N := flat_map utf16_scalar s.

(* a Unicode scalar value: a code point that is not a surrogate *)
Definition scalar (c : N) : Prop := c < 55296 \/ (57344 <= c /\ c < 1114112).

(* strict lexicographic order on unit lists, proper prefix first *)
Definition units_lt (a b : list N) : Prop := ustr_compare a b = Lt.

(* keys strictly increasing in UTF-16 code unit order *)
Definition keys_sorted (ks : list ustring) : Prop :=
  StronglySorted (fun a b => units_lt (utf16 a) (utf16 b)) ks.

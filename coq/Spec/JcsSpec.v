(* Spec/JcsSpec.v -- specification-side definitions for C16, stated over
   Base.Json.jvalue and independent of how Model/Jcs.v orders its work:
     sort_deep      the value with the members of every object put in UTF-16
                    code unit order (stable), at every depth;
     emit           the plain serializer: members in the order given, no
                    whitespace, RFC 8785 string escaping, numbers through the
                    number formatter under test;
     deep_ordered / deep_sorted   members ordered at every depth (non-strict / strict);
     jperm          equality up to member order at every depth;
     nodup_keys, keys_scalar      side conditions (Python dicts have distinct
                    keys; a key must be a string of Unicode scalar values);
     outside        the characters of a JSON text that lie outside string literals.
   No proofs here.                                                             *)
From Coq Require Import String NArith ZArith List Bool Sorted Permutation.
From V Require Import Base.UString Base.Json Model.JcsText Model.Jcs Spec.Rfc8785.
Import ListNotations.
Open Scope N_scope.

Definition on_snd {K A B : Type} (f : A -> B) (kv : K * A) : K * B := (fst kv, f (snd kv)).

(* ---- member order -------------------------------------------------------------- *)
Definition tagk {A : Type} (kv : ustring * A) : list N * (ustring * A) := (utf16 (fst kv), kv).

(* stable sort of members on the UTF-16 code units of their names *)
Definition sort_members_spec {A : Type} (m : list (ustring * A)) : list (ustring * A) :=
  map snd (isort (map tagk m)).

Fixpoint sort_deep (v : jvalue) : jvalue :=
  match v with
  | JArr l => JArr (map sort_deep l)
  | JObj m => JObj (sort_members_spec (map (fun kv => (fst kv, sort_deep (snd kv))) m))
  | _ => v
  end.

Definition units_le (a b : list N) : Prop := ustr_compare a b <> Gt.

Definition keys_ordered (ks : list ustring) : Prop :=
  StronglySorted (fun a b => units_le (utf16 a) (utf16 b)) ks.

Inductive deep_ordered : jvalue -> Prop :=
| do_null : deep_ordered JNull
| do_bool : forall b, deep_ordered (JBool b)
| do_int : forall z, deep_ordered (JInt z)
| do_float : forall r, deep_ordered (JFloat r)
| do_str : forall s, deep_ordered (JStr s)
| do_arr : forall l, Forall deep_ordered l -> deep_ordered (JArr l)
| do_obj : forall m, keys_ordered (map fst m) -> Forall (fun kv => deep_ordered (snd kv)) m ->
           deep_ordered (JObj m).

(* strictly increasing member names at every depth (Rfc8785.keys_sorted) *)
Inductive deep_sorted : jvalue -> Prop :=
| dss_null : deep_sorted JNull
| dss_bool : forall b, deep_sorted (JBool b)
| dss_int : forall z, deep_sorted (JInt z)
| dss_float : forall r, deep_sorted (JFloat r)
| dss_str : forall s, deep_sorted (JStr s)
| dss_arr : forall l, Forall deep_sorted l -> deep_sorted (JArr l)
| dss_obj : forall m, keys_sorted (map fst m) -> Forall (fun kv => deep_sorted (snd kv)) m ->
            deep_sorted (JObj m).

Inductive nodup_keys : jvalue -> Prop :=
| nk_null : nodup_keys JNull
| nk_bool : forall b, nodup_keys (JBool b)
| nk_int : forall z, nodup_keys (JInt z)
| nk_float : forall r, nodup_keys (JFloat r)
| nk_str : forall s, nodup_keys (JStr s)
| nk_arr : forall l, Forall nodup_keys l -> nodup_keys (JArr l)
| nk_obj : forall m, NoDup (map fst m) -> Forall (fun kv => nodup_keys (snd kv)) m -> nodup_keys (JObj m).

Inductive keys_scalar : jvalue -> Prop :=
| ks_null : keys_scalar JNull
| ks_bool : forall b, keys_scalar (JBool b)
| ks_int : forall z, keys_scalar (JInt z)
| ks_float : forall r, keys_scalar (JFloat r)
| ks_str : forall s, keys_scalar (JStr s)
| ks_arr : forall l, Forall keys_scalar l -> keys_scalar (JArr l)
| ks_obj : forall m, Forall (fun kv => Forall scalar (fst kv)) m -> Forall (fun kv => keys_scalar (snd kv)) m ->
           keys_scalar (JObj m).

(* the same value up to the order of object members, at every depth *)
Inductive jperm : jvalue -> jvalue -> Prop :=
| jp_refl : forall v, jperm v v
| jp_arr : forall l l', Forall2 jperm l l' -> jperm (JArr l) (JArr l')
| jp_obj : forall m m' m'', Forall2 (fun a b => fst a = fst b /\ jperm (snd a) (snd b)) m m' ->
           Permutation m' m'' -> jperm (JObj m) (JObj m'').

(* ---- the plain serializer ---------------------------------------------------------- *)
Definition emit_num (v : jvalue) : jres ustring :=
  match v with
  | JInt z => match int_float_repr z with Some r => convert2es6 r | None => int_too_big z end
  | JFloat r => convert2es6 r
  | _ => JRaise OutOfModel
  end.

Definition str_text (s : ustring) : ustring := c_quote :: rfc_escape s ++ [c_quote].

Definition wrap (o c : N) (r : jres (list ustring)) : jres ustring :=
  match r with
  | JOk ps => JOk (o :: join_with [c_comma] ps ++ [c])
  | JRaise e => JRaise e
  end.

Definition emit_member (kv : ustring * jres ustring) : jres ustring :=
  match snd kv with
  | JOk body => JOk (str_text (fst kv) ++ c_colon :: body)
  | JRaise e => JRaise e
  end.

Fixpoint emit (v : jvalue) : jres ustring :=
  match v with
  | JNull => JOk (u "null")
  | JBool true => JOk (u "true")
  | JBool false => JOk (u "false")
  | JInt _ | JFloat _ => emit_num v
  | JStr s => JOk (str_text s)
  | JArr l => wrap c_lbrack c_rbrack (sequence (map emit l))
  | JObj m => wrap c_lbrace c_rbrace (sequence (map (fun kv => emit_member (fst kv, emit (snd kv))) m))
  end.

(* ---- characters outside string literals ------------------------------------------------ *)
(* scan a JSON text; instr = inside a string literal; inside, a backslash takes
   the next character with it and an unescaped double quote ends the literal.
   The delimiting quotes themselves are not reported.                           *)
Fixpoint outside (instr : bool) (t : ustring) : ustring :=
  match t with
  | [] => []
  | c :: r =>
    if instr then
      if c =? 92 then match r with [] => [] | _ :: r' => outside true r' end
      else if c =? 34 then outside false r
      else outside true r
    else if c =? 34 then outside true r
    else c :: outside false r
  end.

(* JSON insignificant whitespace (RFC 8259 2): space, tab, line feed, carriage return *)
Definition is_ws (c : N) : Prop := c = 32 \/ c = 9 \/ c = 10 \/ c = 13.

(* every number in the value is given by a text free of whitespace and of double
   quotes (every repr is) *)
Inductive nums_clean : jvalue -> Prop :=
| nc_null : nums_clean JNull
| nc_bool : forall b, nums_clean (JBool b)
| nc_int : forall z, nums_clean (JInt z)
| nc_float : forall r, Forall (fun c => ~ is_ws c /\ c <> 34) r -> nums_clean (JFloat r)
| nc_str : forall s, nums_clean (JStr s)
| nc_arr : forall l, Forall nums_clean l -> nums_clean (JArr l)
| nc_obj : forall m, Forall (fun kv => nums_clean (snd kv)) m -> nums_clean (JObj m).

(* a NaN or an infinity somewhere in the value (Python's repr of them) *)
Inductive nonfinite : jvalue -> Prop :=
| nf_here : forall r, r = u "nan" \/ r = u "inf" \/ r = u "-inf" -> nonfinite (JFloat r)
| nf_arr : forall l x, In x l -> nonfinite x -> nonfinite (JArr l)
| nf_obj : forall m kv, In kv m -> nonfinite (snd kv) -> nonfinite (JObj m).

(* Spec/PatternSpec.v -- C10: the vocabulary of the statements in Props/C10.v
   that is not part of the model itself.  Definitions only.

   * `sv_fb` : the object the visitor builds, as plain structural recursion on
     the parse tree (no children lists, no indices) -- what `visit repaired`
     is proved to compute.
   * `sem`   : the side conditions under which the (repaired) visitor handles a
     well-formed tree: every timestamp one Python's datetime represents
     (finding C10-timestamp-unrepresentable; unreal dates are not valid
     patterns), no EXISTS (C10-exists-unhandled), no index step directly after
     an index step (C10-index-after-index-attributeerror), no AND whose
     operands share no object type (the library refuses those deliberately),
     and every float within `fshort` (at most 15 significant digits: where the
     digit-string floats of the model are what Python holds).
   * `aprint`: the names and constants of an object of the object model print
     to single tokens of the grammar (names that lex, normalised floats within
     `fshort`, representable timestamps, base64 / hex bodies, non-negative
     qualifier numbers).
   * `sv_lit` falls back to CInt 0 on a token the visitor rejects; under wf and
     sem that case does not arise (Proofs/PatternLit.v visit_lit).
   * `well_grouped`, `obs_level`: a parenthetical node wherever precedence
     requires one -- purely syntactic, by the grammar level of each operand.
   * `constructible`: the classes accept the object (every AND has operands
     with a common object type).
   * `vexpr` : the shape of the objects the visitor produces.                 *)
From Coq Require Import NArith ZArith List String Bool.
From V Require Import Model.PatternSyntax.
Import ListNotations.
Open Scope N_scope.

(* -- literals *)
Definition sv_lit (t : token) : aconst :=
  match visit_terminal repaired t with Ok (VConst c) => c | _ => CInt 0 end.

(* The model keeps every digit of a float text; a Python float keeps them only
   when there are at most 15 significant ones (DBL_DIG) and the value is in the
   normal range.  `fshort` is that bound, on the normalised digits: at most 15
   digits between the first and the last non-zero digit, at most 300 integer
   digits and at most 300 fraction digits.  Outside it float(text) rounds and
   the model is NOT a model of the library; `sem` and `aprint` require it of
   every float, so no theorem says anything about a longer one. *)
Definition fshort (f : fval) : bool :=
  Nat.leb (List.length (rstrip0 (strip0 (f_ip f ++ f_fp f)))) 15 &&
  Nat.leb (List.length (f_ip f)) 300 && Nat.leb (List.length (f_fp f)) 300.

Definition lit_sem (t : token) : bool :=
  match tk t with
  | KTimestamp => match py_strptime (slice_2_m1 (tx t)) with Some _ => true | None => false end
  | KFloatPos | KFloatNeg => match py_float (tx t) with Some f => fshort f | None => true end
  | _ => true
  end.


(* -- paths *)
Fixpoint opc_steps (c : opc) : list pstep :=
  match c with OStep s => [s] | OPathStep l r => opc_steps l ++ [r] end.

Definition path_steps (p : objpath) : list pstep :=
  match op_rest p with Some c => opc_steps c | None => [] end.

Inductive pending := PName (n : ustring) | PStr (body : ustring).

Definition pend_of_key (n : token) : pending :=
  match tk n with KString => PStr (slice_1_m1 (tx n)) | _ => PName (tx n) end.

Definition emit (c : pending) : acomp := match c with PName n => ABasic n | PStr b => ABasic b end.

Definition idx_name (c : pending) : ustring :=
  match c with PName n => n | PStr b => str_const repaired (CString b false) end.

Definition idx_of (i : token) : aindex :=
  match tk i with
  | KASTERISK => IdxStr (tx i)
  | _ => IdxInt (match py_int (tx i) with Some z => z | None => 0%Z end)
  end.

Fixpoint comps (cur : pending) (l : list pstep) : list acomp :=
  match l with
  | [] => [emit cur]
  | IndexStep i :: r =>
      AList (idx_name cur) (idx_of i) ::
      match r with
      | [] => []
      | KeyStep n :: r' => comps (pend_of_key n) r'
      | IndexStep _ :: _ => []
      end
  | KeyStep n :: r => emit cur :: comps (pend_of_key n) r
  end.

Fixpoint comps_sem (cur : pending) (l : list pstep) : bool :=
  match l with
  | [] => true
  | IndexStep i :: r =>
      match r with
      | [] => true
      | KeyStep n :: r' => comps_sem (pend_of_key n) r'
      | IndexStep _ :: _ => false
      end
  | KeyStep n :: r => comps_sem (pend_of_key n) r
  end.

Definition path_sem (p : objpath) : bool := comps_sem (PName (tx (op_first p))) (path_steps p).

Definition sv_path_v (p : objpath) : apath :=
  APath (tx (op_type p)) (comps (PName (tx (op_first p))) (path_steps p)).


(* -- comparison expressions *)
Definition mk1 (isand : bool) (l : list aexpr) : aexpr :=
  match l with [x] => x | _ => EBool isand l end.

Definition order_cls (op : token) : cmpcls :=
  match tk op with KGT => KlGt | KLT => KlLt | KGE => KlGe | _ => KlLe end.

Fixpoint sv_pt (p : proptest) : aexpr :=
  match p with
  | PTEqual p nt op l => ECmp KlEq (sv_path_v p) (sv_lit l) (xorb (negb (tkind_eqb (tk op) KEQ)) nt)
  | PTOrder p nt op l => ECmp (order_cls op) (sv_path_v p) (sv_lit l) nt
  | PTSet p nt es => ECmp KlIn (sv_path_v p) (CList (map sv_lit es)) nt
  | PTStr o p nt s => ECmp (strop_cls o) (sv_path_v p) (sv_lit s) nt
  | PTParen e => EParen (mk1 false (sv_or_ops e))
  | PTExists nt p => EParen (EBool false [])           (* not handled by the visitor; excluded by sem_pt *)
  end
with sv_and_ops (a : cmpand) : list aexpr :=
  match a with
  | CAndBase p => [sv_pt p]
  | CAnd l r => sv_and_ops l ++ [sv_pt r]
  end
with sv_or_ops (o : cmpor) : list aexpr :=
  match o with
  | COrBase a => [mk1 true (sv_and_ops a)]
  | COr l r => sv_or_ops l ++ [mk1 true (sv_and_ops r)]
  end.

Definition sv_and (a : cmpand) : aexpr := mk1 true (sv_and_ops a).

Definition sv_or (o : cmpor) : aexpr := mk1 false (sv_or_ops o).

Fixpoint rt_pt (p : proptest) : list ustring :=
  match p with
  | PTEqual p _ _ _ | PTOrder p _ _ _ | PTSet p _ _ | PTStr _ p _ _ | PTExists _ p => [tx (op_type p)]
  | PTParen e => rt_or e
  end
with rt_and (a : cmpand) : list ustring :=
  match a with
  | CAndBase p => rt_pt p
  | CAnd l r => set_inter (rt_and l) (rt_pt r)
  end
with rt_or (o : cmpor) : list ustring :=
  match o with
  | COrBase a => rt_and a
  | COr l r => set_union (rt_or l) (rt_and r)
  end.

Fixpoint sem_pt (p : proptest) : bool :=
  match p with
  | PTEqual p _ _ l | PTOrder p _ _ l => path_sem p && lit_sem l
  | PTSet p _ es => path_sem p && forallb lit_sem es
  | PTStr _ p _ s => path_sem p
  | PTParen e => sem_or e
  | PTExists _ _ => false
  end
with sem_and (a : cmpand) : bool :=
  match a with
  | CAndBase p => sem_pt p
  | CAnd l r => sem_and l && sem_pt r && negb (is_nil (set_inter (rt_and l) (rt_pt r)))
  end
with sem_or (o : cmpor) : bool :=
  match o with
  | COrBase a => sem_and a
  | COr l r => sem_or l && sem_and r
  end.


(* -- observation expressions *)
Definition sv_qual (q : qual) : aqual :=
  match q with
  | QStartStop a b => AQStartStop (sv_lit a) (sv_lit b)
  | QWithin n => AQWithin (sv_lit n)
  | QRepeat n => AQRepeat (sv_lit n)
  end.

Definition sem_qual (q : qual) : bool :=
  match q with
  | QStartStop a b => lit_sem a && lit_sem b
  | QWithin n => lit_sem n
  | QRepeat _ => true
  end.

Fixpoint sv_obs (o : obs) : aexpr :=
  match o with
  | OSimple e => EObs (sv_or e)
  | OCompound e => EParen (sv_fb e)
  | OQual o q => EQualified (sv_obs o) (sv_qual q)
  end
with sv_oand (a : obsand) : aexpr :=
  match a with
  | OAndBase o => sv_obs o
  | OAnd l r => ECompound OpAnd [sv_oand l; sv_obs r]
  end
with sv_oor (a : obsor) : aexpr :=
  match a with
  | OOrBase o => sv_oand o
  | OOr l r => ECompound OpOr [sv_oor l; sv_oand r]
  end
with sv_fb (a : obsfb) : aexpr :=
  match a with
  | OFbBase o => sv_oor o
  | OFb l r => ECompound OpFb [sv_fb l; sv_oor r]
  end.

Fixpoint sem_obs (o : obs) : bool :=
  match o with
  | OSimple e => sem_or e
  | OCompound e => sem_fb e
  | OQual o q => sem_obs o && sem_qual q
  end
with sem_oand (a : obsand) : bool :=
  match a with OAndBase o => sem_obs o | OAnd l r => sem_oand l && sem_obs r end
with sem_oor (a : obsor) : bool :=
  match a with OOrBase o => sem_oand o | OOr l r => sem_oor l && sem_oand r end
with sem_fb (a : obsfb) : bool :=
  match a with OFbBase o => sem_oor o | OFb l r => sem_fb l && sem_oor r end.

Definition sem (p : pattern) : bool := sem_fb p.


(* -- printable objects *)
Definition ts_ok (t : tsval) : bool :=
  (1 <=? ts_y t) && (ts_y t <=? 9999) && (1 <=? ts_mo t) && (ts_mo t <=? 12) && (1 <=? ts_d t) &&
  (ts_d t <=? days_in_month (ts_y t) (ts_mo t)) && (ts_h t <=? 23) && (ts_mi t <=? 59) && (ts_s t <=? 59) &&
  Nat.eqb (List.length (ts_us t)) 6 && digs (ts_us t).

Definition fnorm_b (f : fval) : bool :=
  digs (f_ip f) && digs (f_fp f) && ustr_eqb (strip0 (f_ip f)) (f_ip f) && ustr_eqb (rstrip0 (f_fp f)) (f_fp f).

Definition const_ok (c : aconst) : bool :=
  match c with
  | CString v q => q || (match lex_body v with Some _ => true | None => false end)
  | CTimestamp t => ts_ok t
  | CInt _ => true
  | CFloat f => fnorm_b f && fshort f
  | CBool _ => true
  | CBinary v => b64_groups v
  | CHex v => hex_pairs v
  | CList _ => false
  end.

Definition const_canon (c : aconst) : bool :=
  match c with CString _ q => negb q | CList _ => false | _ => true end.

Definition comp_name (c : acomp) : ustring := match c with ABasic n | ARef n => n | AList n _ => n end.

Definition name_ok (n : ustring) : bool := kind_in (name_tok repaired n) [KIdent; KString].

Definition idx_okA (i : aindex) : bool := kind_in (idx_tok i) [KIntPos; KIntNeg; KASTERISK].

Definition comp_okA (c : acomp) : bool :=
  name_ok (comp_name c) && match c with AList _ i => idx_okA i | _ => true end.

Definition apath_ok (p : apath) : bool :=
  kind_in (type_tok (ap_type p)) [KIdent; KIdentHyphen] && negb (is_nil (ap_comps p)) && forallb comp_okA (ap_comps p).

Definition is_string (c : aconst) : bool := match c with CString _ _ => true | _ => false end.

Definition not_bool (c : aconst) : bool := match c with CBool _ => false | _ => true end.

Definition rhs_ok (cls : cmpcls) (rhs : aconst) : bool :=
  match cls, rhs with
  | KlEq, CList l | KlIn, CList l => forallb const_ok l
  | KlIn, _ => false
  | KlEq, c => const_ok c
  | (KlGt | KlLt | KlGe | KlLe), c => const_ok c && not_bool c
  | (KlLike | KlMatches | KlSubset | KlSuperset), c => const_ok c && is_string c
  end.

Definition nonneg_int (c : aconst) : bool := match c with CInt z => (0 <=? z)%Z | _ => false end.

Definition pos_float (c : aconst) : bool := match c with CFloat f => const_ok c && negb (f_neg f) | _ => false end.

Definition is_ts (c : aconst) : bool := match c with CTimestamp _ => true | _ => false end.

Definition aqual_ok (q : aqual) : bool :=
  match q with
  | AQRepeat c => nonneg_int c
  | AQWithin c => nonneg_int c || pos_float c
  | AQStartStop a b => const_ok a && is_ts a && const_ok b && is_ts b
  end.

Fixpoint aprint (a : aexpr) : bool :=
  match a with
  | ECmp cls lhs rhs _ => apath_ok lhs && rhs_ok cls rhs
  | EBool _ ops => forallb aprint ops
  | EObs x => aprint x
  | ECompound _ ops => forallb aprint ops
  | EParen x => aprint x
  | EQualified x q => aprint x && aqual_ok q
  end.


(* -- levels and shape *)
Inductive alevel := LPt | LAnd | LOr | LObs | LOAnd | LOOr | LOFb.

Definition is_cmp_level (l : alevel) : bool := match l with LPt | LAnd | LOr => true | _ => false end.

Fixpoint level (a : aexpr) : alevel :=
  match a with
  | ECmp _ _ _ _ => LPt
  | EBool true _ => LAnd
  | EBool false _ => LOr
  | EObs _ => LObs
  | ECompound OpAnd _ => LOAnd
  | ECompound OpOr _ => LOOr
  | ECompound OpFb _ => LOFb
  | EParen x => if is_cmp_level (level x) then LPt else LObs
  | EQualified _ _ => LObs
  end.

Definition level_eqb (a b : alevel) : bool :=
  match a, b with
  | LPt, LPt | LAnd, LAnd | LOr, LOr | LObs, LObs | LOAnd, LOAnd | LOOr, LOOr | LOFb, LOFb => true
  | _, _ => false
  end.

Definition rt_step (isand : bool) (s t : list ustring) : list ustring :=
  if isand then set_inter s t else set_union s t.

Fixpoint a_rt (a : aexpr) : list ustring :=
  match a with
  | ECmp _ lhs _ _ => [ap_type lhs]
  | EParen x => a_rt x
  | EBool isand ops =>
      match ops with
      | x1 :: rest => fold_left (fun s x => rt_step isand s (a_rt x)) rest (a_rt x1)
      | [] => []
      end
  | _ => []
  end.

Fixpoint rt_ok (s : list ustring) (l : list (list ustring)) : bool :=
  match l with
  | [] => true
  | t :: r => negb (is_nil (set_inter s t)) && rt_ok (set_inter s t) r
  end.

Fixpoint constructible (a : aexpr) : bool :=
  match a with
  | ECmp _ _ _ _ => true
  | EBool isand ops =>
      forallb constructible ops &&
      (if isand then match ops with x1 :: rest => rt_ok (a_rt x1) (map a_rt rest) | [] => true end else true)
  | EObs x => constructible x
  | ECompound _ ops => forallb constructible ops
  | EParen x => constructible x
  | EQualified x _ => constructible x
  end.

Definition lexb (s : ustring) : bool := match lex_body s with Some _ => true | None => false end.

Definition vidx (i : aindex) : bool := match i with IdxInt _ => true | IdxStr s => ustr_eqb s (u "*") end.

Definition vfirst (c : acomp) : bool :=
  match c with
  | ABasic n => ident_ok n || string_ok n
  | AList n i => (ident_ok n || string_ok n) && vidx i
  | ARef _ => false
  end.

Definition vlater (c : acomp) : bool :=
  match c with
  | ABasic n => lexb n
  | AList n i => (ident_ok n || string_ok n) && vidx i
  | ARef _ => false
  end.

Definition vpath (p : apath) : bool :=
  kind_in (type_tok (ap_type p)) [KIdent; KIdentHyphen] &&
  match ap_comps p with c :: r => vfirst c && forallb vlater r | [] => false end.

Definition vrhs (cls : cmpcls) (rhs : aconst) : bool :=
  match cls, rhs with
  | KlIn, CList l => forallb (fun c => const_ok c && const_canon c) l
  | _, CList _ => false
  | _, c => rhs_ok cls c && const_canon c
  end.

Definition left_level_ok (op : obsop) (l : alevel) : bool :=
  match op, l with
  | OpAnd, (LObs | LOAnd) => true
  | OpOr, (LObs | LOAnd | LOOr) => true
  | OpFb, (LObs | LOAnd | LOOr | LOFb) => true
  | _, _ => false
  end.

Definition right_level_ok (op : obsop) (l : alevel) : bool :=
  match op, l with
  | OpAnd, LObs => true
  | OpOr, (LObs | LOAnd) => true
  | OpFb, (LObs | LOAnd | LOOr) => true
  | _, _ => false
  end.

Fixpoint vexpr (a : aexpr) : bool :=
  match a with
  | ECmp cls lhs rhs _ => vpath lhs && vrhs cls rhs
  | EBool isand ops =>
      forallb vexpr ops &&
      forallb (fun x => if isand then level_eqb (level x) LPt
                        else level_eqb (level x) LPt || level_eqb (level x) LAnd) ops &&
      match ops with
      | x1 :: x2 :: rest => if isand then rt_ok (a_rt x1) (map a_rt (x2 :: rest)) else true
      | _ => false
      end
  | EObs x => vexpr x && is_cmp_level (level x)
  | ECompound op ops =>
      match ops with
      | [x; y] => vexpr x && vexpr y && left_level_ok op (level x) && right_level_ok op (level y)
      | _ => false
      end
  | EParen x => vexpr x
  | EQualified x q => vexpr x && level_eqb (level x) LObs
  end.


(* -- well grouped: the object's grouping can be written in the grammar *)

Definition obs_level (a : aexpr) : bool := negb (is_cmp_level (level a)).

Definition first_level_ok (isand : bool) (l : alevel) : bool :=
  if isand then match l with LPt | LAnd => true | _ => false end else is_cmp_level l.
Definition rest_level_ok (isand : bool) (l : alevel) : bool :=
  if isand then match l with LPt => true | _ => false end
  else match l with LPt | LAnd => true | _ => false end.

Fixpoint well_grouped (a : aexpr) : bool :=
  match a with
  | ECmp _ _ _ _ => true
  | EBool isand ops =>
      forallb well_grouped ops &&
      match ops with
      | x1 :: ((_ :: _) as rest) =>
          first_level_ok isand (level x1) && forallb (fun x => rest_level_ok isand (level x)) rest
      | _ => false
      end
  | EObs x => well_grouped x && is_cmp_level (level x)
  | ECompound op ops =>
      forallb well_grouped ops &&
      match ops with
      | x1 :: ((_ :: _) as rest) =>
          left_level_ok op (level x1) && forallb (fun x => right_level_ok op (level x)) rest
      | _ => false
      end
  | EParen x => well_grouped x
  | EQualified x _ => well_grouped x && level_eqb (level x) LObs
  end.

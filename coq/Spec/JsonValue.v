(* Spec/JsonValue.v -- what "the same JSON value" and "the same value up to omitted
   members" mean for ordered-member values (Base.Json.jvalue), independent of
   any encoder.  Specification only.                                          *)
From Coq Require Import NArith ZArith List String Bool Permutation.
From V Require Import Base.UString Base.Json.
Import ListNotations.

(* two ordered-member values denote the same JSON value: equal scalars, arrays
   elementwise, objects with the same members in any order (at every depth) *)
Inductive jequiv : jvalue -> jvalue -> Prop :=
| je_null : jequiv JNull JNull
| je_bool : forall b, jequiv (JBool b) (JBool b)
| je_int : forall z, jequiv (JInt z) (JInt z)
| je_float : forall r, jequiv (JFloat r) (JFloat r)
| je_str : forall s, jequiv (JStr s) (JStr s)
| je_arr : forall l1 l2, Forall2 jequiv l1 l2 -> jequiv (JArr l1) (JArr l2)
| je_obj : forall m1 m2 m',
    Forall2 (fun a b => fst a = fst b /\ jequiv (snd a) (snd b)) m1 m' ->
    Permutation m' m2 ->
    jequiv (JObj m1) (JObj m2).

(* `small` is `full` with some object members left out (order of the others kept),
   at any depth; `dropped path key value` holds for exactly the members left out *)
Section Omission.
  Variable may_drop : ustring -> jvalue -> Prop.     (* which (key, value) members of THIS object may go *)

  Inductive members_omitted (sub : jvalue -> jvalue -> Prop) :
    list (ustring * jvalue) -> list (ustring * jvalue) -> Prop :=
  | mo_nil : members_omitted sub [] []
  | mo_keep : forall k s f ms mf, sub s f -> members_omitted sub ms mf ->
                                  members_omitted sub ((k, s) :: ms) ((k, f) :: mf)
  | mo_drop : forall k f ms mf, may_drop k f -> members_omitted sub ms mf ->
                                members_omitted sub ms ((k, f) :: mf).
End Omission.

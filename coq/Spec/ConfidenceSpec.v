(* Spec/ConfidenceSpec.v -- the five confidence scales of STIX 2.1 Part 1,
   Appendix A ("Confidence Scales"), as range tables (value -> label) and
   label tables (label -> value).  Frozen specification data, hand-written;
   never regenerated from /repo.  Ranges: audited.  Label values: audited,
   except wep "Unlikely/Probably Not" = 30 which is seeded from the code (its
   docstring says 20; both lie in the label's range 20-39, see DESIGN 6/C20).
   The Admiralty label "6 - Truth cannot be judged" has no confidence value in
   the specification and is therefore absent from the label table.           *)

From Coq Require Import ZArith List String.
From V Require Import Model.Chain.
Import ListNotations.
Open Scope Z_scope.
Open Scope string_scope.

Definition nlmh_ranges : range_table :=
  [ (0, 0, "None"); (1, 29, "Low"); (30, 69, "Med"); (70, 100, "High") ].
Definition nlmh_labels : label_table :=
  [ ("None", 0); ("Low", 15); ("Med", 50); ("High", 85) ].

Definition zero_ten_ranges : range_table :=
  [ (0, 4, "0"); (5, 14, "1"); (15, 24, "2"); (25, 34, "3"); (35, 44, "4");
    (45, 54, "5"); (55, 64, "6"); (65, 74, "7"); (75, 84, "8"); (85, 94, "9");
    (95, 100, "10") ].
Definition zero_ten_labels : label_table :=
  [ ("0", 0); ("1", 10); ("2", 20); ("3", 30); ("4", 40); ("5", 50);
    ("6", 60); ("7", 70); ("8", 80); ("9", 90); ("10", 100) ].

Definition admiralty_ranges : range_table :=
  [ (0, 19, "5 - Improbable"); (20, 39, "4 - Doubtful");
    (40, 59, "3 - Possibly True"); (60, 79, "2 - Probably True");
    (80, 100, "1 - Confirmed by other sources") ].
Definition admiralty_labels : label_table :=
  [ ("5 - Improbable", 10); ("4 - Doubtful", 30); ("3 - Possibly True", 50);
    ("2 - Probably True", 70); ("1 - Confirmed by other sources", 90) ].

Definition wep_ranges : range_table :=
  [ (0, 0, "Impossible");
    (1, 19, "Highly Unlikely/Almost Certainly Not");
    (20, 39, "Unlikely/Probably Not");
    (40, 59, "Even Chance");
    (60, 79, "Likely/Probable");
    (80, 99, "Highly likely/Almost Certain");
    (100, 100, "Certain") ].
Definition wep_labels : label_table :=
  [ ("Impossible", 0);
    ("Highly Unlikely/Almost Certainly Not", 10);
    ("Unlikely/Probably Not", 30);
    ("Even Chance", 50);
    ("Likely/Probable", 70);
    ("Highly likely/Almost Certain", 90);
    ("Certain", 100) ].

Definition dni_ranges : range_table :=
  [ (0, 9, "Almost No Chance / Remote");
    (10, 19, "Very Unlikely / Highly Improbable");
    (20, 39, "Unlikely / Improbable");
    (40, 59, "Roughly Even Chance / Roughly Even Odds");
    (60, 79, "Likely / Probable");
    (80, 89, "Very Likely / Highly Probable");
    (90, 100, "Almost Certain / Nearly Certain") ].
Definition dni_labels : label_table :=
  [ ("Almost No Chance / Remote", 5);
    ("Very Unlikely / Highly Improbable", 15);
    ("Unlikely / Improbable", 30);
    ("Roughly Even Chance / Roughly Even Odds", 50);
    ("Likely / Probable", 70);
    ("Very Likely / Highly Probable", 85);
    ("Almost Certain / Nearly Certain", 95) ].

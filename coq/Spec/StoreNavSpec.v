(* Spec/StoreNavSpec.v -- the notions property C18's theorems are stated with (definitions only):
     versioned_all, newest_of      what "the newest of the members' answers" means
     sound_src                     what "the filters reach the source" means
     is_rel_of, rel_scan           what a scan of the stored relationship objects gives for an object
     neighbour, id_in              the other ends of those relationships
     scans, answers, scan_member   a query function / member whose queries are a scan of a population        *)
From Coq Require Import NArith ZArith List Bool.
From V Require Import Base.UString Model.Store Spec.StoreSpec.
Import ListNotations.
Open Scope list_scope.

(* r is a relationship (of type rt if one is asked for) whose end `k` is a *)
Definition is_rel_of (rt : option ustring) (k a : ustring) (r : obj) : bool :=
  ustr_eqb (otype r) k_relationship &&
  match rt with Some (c :: s) => prop_is k_relationship_type (c :: s) r | _ => true end &&
  prop_is k a r.

Definition rel_scan (P : list obj) (a : ustring) (rt : option ustring) (so to : bool) : list obj :=
  (if to then [] else filter (is_rel_of rt k_source_ref a) P) ++
  (if so then [] else filter (is_rel_of rt k_target_ref a) P).

(* i is the other end of some relationship of the scan *)
Definition neighbour (rels : list obj) (a i : ustring) : Prop :=
  i <> a /\ exists r, In r rels /\ (prop_get k_source_ref r = Some i \/ prop_get k_target_ref r = Some i).


(* a query function that scans a population *)
Definition scans (qf : queryfn) (P : list obj) : Prop := forall q, qf q = Ok (filter (all_hold q) P).


(* qf answers q with exactly the objects of P that satisfy q (in some order, possibly de-duplicated) *)
Definition answers (qf : queryfn) (P : list obj) : Prop :=
  forall q, exists res, qf q = Ok res /\ forall o, In o res <-> In o P /\ all_hold q o = true.


Definition id_in (ids : list ustring) (o : obj) : bool := existsb (ustr_eqb (oid o)) ids.


(* members whose queries scan a population and whose relationships() is the generic one *)
Definition scan_member (m : source) (P : list obj) : Prop :=
  (forall cf q, s_query m cf q = Ok (filter (all_hold (q ++ cf)) P)) /\
  (forall a rt so to, s_rels m a rt so to = relationships (s_query m []) a rt so to).


Definition versioned_all (l : list obj) : Prop := forall o, In o l -> exists t, ver_of o = VInst t.


Definition newest_of (l : list obj) (r : option obj) : Prop :=
  match r with
  | None => l = []
  | Some o => In o l /\ forall o', In o' l -> v_ge (ver_of o) (ver_of o')
  end.


(* whatever a source returns satisfies the filters handed down to it (cf), its
   own attached filters (own) and, for queries, the query *)
Definition sound_src (own : list sfilter) (m : source) : Prop :=
  (forall cf id o, s_get m cf id = Ok (Some o) -> all_hold cf o = true /\ all_hold own o = true) /\
  (forall cf id rs o, s_all m cf id = Ok rs -> In o rs -> all_hold cf o = true /\ all_hold own o = true) /\
  (forall cf q rs o, s_query m cf q = Ok rs -> In o rs ->
      all_hold cf o = true /\ all_hold own o = true /\ all_hold q o = true).


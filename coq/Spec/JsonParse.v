(* Spec/JsonParse.v -- an independent reader of JSON text (RFC 8259 grammar for
   the part that canonical texts use: no whitespace handling is needed because
   canonical texts have none, so any whitespace between tokens is rejected).
     strings   every escape of RFC 8259 7 is understood (backslash followed by a double
               quote, backslash, slash, b, f, n, r, t, or uXXXX in either hex case); raw control characters are rejected;
     numbers   the maximal run of characters from 0-9 + - . e E is returned as the
               literal text (JFloat text): the reader does not interpret it;
     arrays / objects  members in text order.
   `lit_deep v` is the value a reader of this kind must return for the canonical
   text of v: every number replaced by its canonical text.  No proofs here.     *)
From Coq Require Import String NArith ZArith List Bool.
From V Require Import Base.UString Base.Json Model.JcsText Model.Jcs Spec.Rfc8785 Spec.JcsSpec.
Import ListNotations.
Open Scope N_scope.

Definition hexv (c : N) : option N :=
  if (48 <=? c) && (c <=? 57) then Some (c - 48)
  else if (97 <=? c) && (c <=? 102) then Some (c - 87)
  else if (65 <=? c) && (c <=? 70) then Some (c - 55)
  else None.

Definition hex4 (a b c d : N) : option N :=
  match hexv a, hexv b, hexv c, hexv d with
  | Some x, Some y, Some z, Some w => Some (x * 4096 + y * 256 + z * 16 + w)
  | _, _, _, _ => None
  end.

(* the character after a backslash (other than u) *)
Definition unesc (e : N) : option N :=
  if e =? 34 then Some 34 else if e =? 92 then Some 92 else if e =? 47 then Some 47
  else if e =? 98 then Some 8 else if e =? 102 then Some 12 else if e =? 110 then Some 10
  else if e =? 114 then Some 13 else if e =? 116 then Some 9 else None.

Definition cons_res (x : N) (r : option (ustring * ustring)) : option (ustring * ustring) :=
  match r with Some (t, rest) => Some (x :: t, rest) | None => None end.

(* the characters of a string literal after its opening quote, up to and
   including the closing quote -> (decoded string, remaining input) *)
Fixpoint parse_chars (s : ustring) : option (ustring * ustring) :=
  match s with
  | [] => None
  | c :: r =>
    if c =? 34 then Some ([], r)
    else if c =? 92 then
      match r with
      | [] => None
      | e :: r1 =>
        if e =? 117 then
          match r1 with
          | h1 :: h2 :: h3 :: h4 :: r2 =>
            match hex4 h1 h2 h3 h4 with
            | Some x => cons_res x (parse_chars r2)
            | None => None
            end
          | _ => None
          end
        else match unesc e with
             | Some x => cons_res x (parse_chars r1)
             | None => None
             end
      end
    else if c <? 32 then None
    else cons_res c (parse_chars r)
  end.

Definition numchar_b (c : N) : bool :=
  ((48 <=? c) && (c <=? 57)) || (c =? 43) || (c =? 45) || (c =? 46) || (c =? 69) || (c =? 101).

Fixpoint span_num (s : ustring) : ustring * ustring :=
  match s with
  | [] => ([], [])
  | c :: r => if numchar_b c then let (a, b) := span_num r in (c :: a, b) else ([], s)
  end.

Section Elems.
  Variable pv : ustring -> option (jvalue * ustring).

  (* value (, value)* ] *)
  Fixpoint parse_elems (n : nat) (s : ustring) : option (list jvalue * ustring) :=
    match n with
    | O => None
    | S n' =>
      match pv s with
      | Some (v, c :: rest) =>
        if c =? 44 then
          match parse_elems n' rest with Some (l, rest') => Some (v :: l, rest') | None => None end
        else if c =? 93 then Some ([v], rest)
        else None
      | _ => None
      end
    end.

  (* string : value (, string : value)* } *)
  Fixpoint parse_members (n : nat) (s : ustring) : option (list (ustring * jvalue) * ustring) :=
    match n with
    | O => None
    | S n' =>
      match s with
      | c :: r =>
        if c =? 34 then
          match parse_chars r with
          | Some (k, c2 :: r2) =>
            if c2 =? 58 then
              match pv r2 with
              | Some (v, c3 :: rest) =>
                if c3 =? 44 then
                  match parse_members n' rest with Some (l, rest') => Some ((k, v) :: l, rest') | None => None end
                else if c3 =? 125 then Some ([(k, v)], rest)
                else None
              | _ => None
              end
            else None
          | _ => None
          end
        else None
      | [] => None
      end
    end.
End Elems.

Fixpoint parse_value (fuel : nat) (s : ustring) : option (jvalue * ustring) :=
  match fuel with
  | O => None
  | S f =>
    match s with
    | [] => None
    | c :: r =>
      if numchar_b c then let (a, b) := span_num s in Some (JFloat a, b)
      else if c =? 34 then
        match parse_chars r with Some (x, rest) => Some (JStr x, rest) | None => None end
      else if c =? 91 then
        match r with
        | [] => None
        | c2 :: r2 =>
          if c2 =? 93 then Some (JArr [], r2)
          else match parse_elems (parse_value f) f r with Some (l, rest) => Some (JArr l, rest) | None => None end
        end
      else if c =? 123 then
        match r with
        | [] => None
        | c2 :: r2 =>
          if c2 =? 125 then Some (JObj [], r2)
          else match parse_members (parse_value f) f r with Some (m, rest) => Some (JObj m, rest) | None => None end
        end
      else if ustr_prefix (u "null") s then Some (JNull, skipn 4 s)
      else if ustr_prefix (u "true") s then Some (JBool true, skipn 4 s)
      else if ustr_prefix (u "false") s then Some (JBool false, skipn 5 s)
      else None
    end
  end.

(* the whole text must be one value; recursion depth and list lengths are
   bounded by the length of the text *)
Definition parse_json (t : ustring) : option jvalue :=
  match parse_value (S (length t)) t with
  | Some (v, []) => Some v
  | _ => None
  end.

(* every number replaced by its canonical text *)
Fixpoint lit_deep (v : jvalue) : jvalue :=
  match v with
  | JInt _ | JFloat _ => match emit_num v with JOk t => JFloat t | JRaise _ => v end
  | JArr l => JArr (map lit_deep l)
  | JObj m => JObj (map (fun kv => (fst kv, lit_deep (snd kv))) m)
  | _ => v
  end.

(* the JSON value denoted by v: members as a key-ordered list, numbers by their
   canonical text *)
Definition json_of (v : jvalue) : jvalue := lit_deep (sort_deep v).

(* number texts: non-empty, characters 0-9 + - . e E only (every finite repr is) *)
Definition num_text (r : ustring) : Prop := r <> [] /\ Forall (fun c => numchar_b c = true) r.

Inductive nums_wf : jvalue -> Prop :=
| nw_null : nums_wf JNull
| nw_bool : forall b, nums_wf (JBool b)
| nw_int : forall z, nums_wf (JInt z)
| nw_float : forall r, num_text r -> nums_wf (JFloat r)
| nw_str : forall s, nums_wf (JStr s)
| nw_arr : forall l, Forall nums_wf l -> nums_wf (JArr l)
| nw_obj : forall m, Forall (fun kv => nums_wf (snd kv)) m -> nums_wf (JObj m).

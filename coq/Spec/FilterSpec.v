(* Spec/FilterSpec.v -- the notions the C12 theorems are stated with.
   Definitions only.

   scan t        what a FileSystemSource reads when it scans the whole
                 directory tree without any shortcut (the objects an unfiltered
                 query returns -- proved in Props/C12.v, scan_is_unfiltered_query);
   naive         apply_filters over scan t: every filter checked on every object;
   Inv           the layout invariant of DESIGN 6/C12: names in a directory are
                 distinct, every object lies under the directory named by its own
                 `type` and (id directory or <id>.json) by its own `id`, and the
                 text before "--" in its id is its type;
   tyid_wf       what the type / id filters must look like for the shortcuts of
                 the code as it is (OptAnyValue); nothing for the repaired
                 variant (OptStringsOnly);
   (path_values, the values a dotted path reaches, is in Proofs/FiltersLaws.v) *)
From Coq Require Import NArith ZArith List String Bool Permutation.
From V Require Import Base.UString Model.Filters.
Import ListNotations.

(* ---- what a scan reads ---- *)

Definition file_visible (n : ustring) : bool := ustr_eqb (snd (splitext n)) dot_json.

Definition entry_files (e : tentry) : list pv :=
  match e with TFile n o => if file_visible n then [o] else [] | TDir _ _ => [] end.

Definition entry_versions (e : tentry) : list pv :=
  match e with TDir _ files => map snd (version_files files) | TFile _ _ => [] end.

Definition scan_dir (d : ustring * list tentry) : list pv :=
  (if is_versioned_type_dir (fst d) (snd d) then flat_map entry_versions (snd d) else [])
  ++ flat_map entry_files (snd d).

Definition scan (t : fs) : list pv := flat_map scan_dir t.

Definition naive (mode : ts_mode) (fl : list flt) (t : fs) : res (list pv) :=
  apply_filters mode fl (scan t).

(* ---- the layout invariant ---- *)

(* object o is where an object of type d and id n belongs.  In the repaired
   timestamp variant a string that reads as a timestamp is compared as an
   instant, so there the two names must not read as timestamps (no type name
   or id does).                                                          *)
Definition placed (mode : ts_mode) (d n : ustring) (o : pv) : Prop :=
  exists m, o = VDict m /\ plookup t_type m = Some (VStr d) /\ plookup t_id m = Some (VStr n)
            /\ type_of_id n = d
            /\ (mode = InstantOnDicts -> parse_ts d = None /\ parse_ts n = None).

Definition entry_ok (mode : ts_mode) (d : ustring) (e : tentry) : Prop :=
  match e with
  | TDir n files => forall fn o, In (fn, o) files -> file_visible fn = true -> placed mode d n o
  | TFile n o => forall stem, n = (stem ++ dot_json)%list -> has_nondot stem = true /\ placed mode d stem o
  end.

Definition dir_ok (mode : ts_mode) (d : ustring * list tentry) : Prop :=
  NoDup (map tname (snd d)) /\ forall e, In e (snd d) -> entry_ok mode (fst d) e.

Definition Inv (mode : ts_mode) (t : fs) : Prop :=
  NoDup (map fst t) /\ Forall (dir_ok mode) t.

(* ---- the type / id filters the code's shortcuts are sound for ---- *)

Definition tyid_wf_f (f : flt) : bool :=
  if ustr_eqb (fprop f) t_type || ustr_eqb (fprop f) t_id then
    match fop_ f with
    | OEq => is_vstr (fval f)
    | ONe => hashable (fval f)
    | OIn => match fval f with
             | VTuple l | VList l => forallb is_vstr l
             | VDict _ => true
             | _ => false
             end
    | _ => true
    end
  else true.

Definition tyid_wf (om : opt_mode) (fl : list flt) : Prop :=
  match om with
  | OptAnyValue => forallb tyid_wf_f fl = true
  | OptStringsOnly => True
  end.

(* ---- white / black lists as predicates on names ---- *)

Definition auth_pass (a : auth) (x : ustring) : Prop :=
  match a with
  | Auth true vals => In (VStr x) vals
  | Auth false vals => ~ In (VStr x) vals
  end.

(* Spec/MarkingSpec.v -- what properties C07 and C08 talk about, stated
   independently of how the marking code computes it:
     * selectors as step lists (Key k | Index i), their text, and what a step
       list addresses in a value tree (relation `addresses`, function `resolve`);
     * the set of (selector, marking) pairs a list of granular markings stands for;
     * ancestor / descendant on the path tree.
   The value-tree datatype (mval), the record of a granular marking (gm) and
   the text of an index segment (idx_seg, join_dot) are shared with the model. *)
From Coq Require Import NArith List Bool Arith.
From V Require Import Base.UString Model.Markings.
Import ListNotations.

(* ---------------------------------------------------------------- *)
(* Selectors                                                         *)

Inductive step := Key (k : ustring) | Index (i : nat).

Definition render_step (s : step) : ustring :=
  match s with
  | Key k => k
  | Index i => idx_seg i           (* "[" ++ decimal i ++ "]" *)
  end.

(* the selector text of a step list: segments joined with '.' *)
Definition render (p : list step) : ustring := join_dot (map render_step p).

(* `addresses v p x`: following p from v reaches x.  Keys go through both
   kinds of mapping (plain dict, embedded object), indices through lists, at
   any nesting; nothing is said about the value x that is reached. *)
Inductive addresses : mval -> list step -> mval -> Prop :=
| A_here : forall v, addresses v [] v
| A_dict : forall m k x p y, In (k, x) m -> addresses x p y -> addresses (VDict m) (Key k :: p) y
| A_obj : forall m k x p y, In (k, x) m -> addresses x p y -> addresses (VObj m) (Key k :: p) y
| A_list : forall l i x p y, nth_error l i = Some x -> addresses x p y -> addresses (VList l) (Index i :: p) y.

(* "the selector text s addresses something in the object whose members are top" *)
Definition addresses_something (top : members) (s : ustring) : Prop :=
  exists p v, p <> [] /\ render p = s /\ addresses (VDict top) p v.

(* The same as a function, for trees whose mappings have distinct keys (as every
   Python mapping has). *)
Fixpoint resolve (v : mval) (p : list step) : option mval :=
  match p with
  | [] => Some v
  | Key k :: p' =>
      match v with
      | VDict m | VObj m => match lookup k m with Some x => resolve x p' | None => None end
      | _ => None
      end
  | Index i :: p' =>
      match v with
      | VList l => match nth_error l i with Some x => resolve x p' | None => None end
      | _ => None
      end
  end.

Definition resolve_top (top : members) (p : list step) : option mval :=
  match p with
  | [] => None
  | _ => resolve (VDict top) p
  end.

Fixpoint uniq_keys (v : mval) : Prop :=
  match v with
  | VList l => (fix go (l : list mval) : Prop := match l with [] => True | x :: l' => uniq_keys x /\ go l' end) l
  | VDict m | VObj m =>
      NoDup (map fst m) /\
      (fix go (m : members) : Prop := match m with [] => True | kv :: m' => uniq_keys (snd kv) /\ go m' end) m
  | _ => True
  end.

(* ---------------------------------------------------------------- *)
(* Marking sets                                                      *)

Definition pair := (ustring * ustring)%type.      (* (selector, marking id or language tag) *)

Definition gm_pairs (g : gm) : list pair :=
  flat_map (fun s => (if nonempty (g_ref g) then [(s, g_ref g)] else []) ++
                     (if nonempty (g_lang g) then [(s, g_lang g)] else [])) (g_sels g).

Definition pairs (gs : list gm) : list pair := flat_map gm_pairs gs.

Definition same_set {A} (a b : list A) : Prop := forall x, In x a <-> In x b.

Definition product (sels ms : list ustring) : list pair :=
  flat_map (fun s => map (fun m => (s, m)) ms) sels.

(* ---------------------------------------------------------------- *)
(* The path tree on selector texts: split at '.'                     *)

Definition segments (s : ustring) : list ustring := split_dot s.

(* a is s itself or an ancestor of s *)
Definition ancestor_or_self (a s : ustring) : Prop := exists rest, segments s = segments a ++ rest.
Definition proper_ancestor (a s : ustring) : Prop := exists rest, rest <> [] /\ segments s = segments a ++ rest.

(* ---------------------------------------------------------------- *)
(* The selector grammar (what SELECTOR_REGEX is meant to recognise):
     selector  ::= "id" | first ("." rest)*
     first     ::= keychar{3,250}              lower-case letters, digits, '_' , '-'
     rest      ::= "[" digit+ "]" | keychar'{1,250}   keychar' = keychar, plus A-Z when upper = true
   and, because the code uses re.match with `$`, the same followed by one '\n'. *)

Definition lower_key_char (x : N) : Prop :=
  (97 <= x <= 122 \/ 48 <= x <= 57 \/ x = 95 \/ x = 45)%N.
Definition upper_char (x : N) : Prop := (65 <= x <= 90)%N.
(* a decimal digit as Python's \d understands it for str patterns: any Unicode Nd code point (table nd_ranges) *)
Definition digit_char (x : N) : Prop := exists r, In r nd_ranges /\ (fst r <= x <= snd r)%N.

Definition key_seg (upper : bool) (lo hi : nat) (s : ustring) : Prop :=
  lo <= length s <= hi /\ Forall (fun x => lower_key_char x \/ (upper = true /\ upper_char x)) s.

Definition index_seg (s : ustring) : Prop :=
  exists ds, ds <> [] /\ Forall digit_char ds /\ s = 91%N :: ds ++ [93%N].

Definition selector_grammar (upper : bool) (s : ustring) : Prop :=
  s = [105%N; 100%N] (* "id" *) \/
  exists first rest,
    key_seg false 3 250 first /\
    Forall (fun g => index_seg g \/ key_seg upper 1 250 g) rest /\
    s = join_dot (first :: rest).

Definition selector_text (upper : bool) (s : ustring) : Prop :=
  selector_grammar upper s \/ exists s', s = s' ++ [10%N] /\ selector_grammar upper s'.

(* ---------------------------------------------------------------- *)
(* Vocabulary of the C07 laws                                        *)

(* marking identifiers that can label anything: the empty string is not one *)
Definition real (ms : list ustring) : list ustring := filter nonempty ms.

Definition pair_eqb (a b : pair) : bool := ustr_eqb (fst a) (fst b) && ustr_eqb (snd a) (snd b).
Definition mem_pair (p : pair) (l : list pair) : bool := existsb (pair_eqb p) l.

(* P minus Q *)
Definition minus (P Q : list pair) : list pair := filter (fun p => negb (mem_pair p Q)) P.

(* The granular markings of an object are well kinded when every marking_ref
   is a marking-definition id and no lang tag is one (what the code itself
   assumes when it sorts identifiers into marking_ref / lang with is_marking). *)
Definition well_kinded (gs : list gm) : Prop :=
  forall g, In g gs ->
    (nonempty (g_ref g) = true -> is_marking (g_ref g) = true) /\
    (nonempty (g_lang g) = true -> is_marking (g_lang g) = false).

(* which pairs clear_markings(selectors, marking_ref, lang) takes away *)
Definition cleared (sels : list ustring) (marking_ref lang : bool) (p : pair) : bool :=
  mem_ustr (fst p) sels && (if is_marking (snd p) then marking_ref else lang).

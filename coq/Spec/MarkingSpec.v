(* Spec/MarkingSpec.v -- what properties C07 and C08 talk about, stated
   independently of how the marking code computes it:
     * selectors as step lists (Key k | Index i), their text, and what a step
       list addresses in a value tree (relation `addresses`, function `resolve`);
     * the set of (selector, marking) pairs a list of granular markings stands for;
     * ancestor / descendant on the path tree.
   The value-tree datatype (mval), the record of a granular marking (gm) and
   the text of an index segment (idx_seg, join_dot) are shared with the model. *)
From Coq Require Import NArith List Bool Arith.
From V Require Import Base.UString Model.Markings.
Import ListNotations.

(* ---------------------------------------------------------------- *)
(* Selectors                                                         *)

Inductive step := Key (k : ustring) | Index (i : nat).

Definition render_step (s : step) : ustring :=
  match s with
  | Key k => k
  | Index i => idx_seg i           (* "[" ++ decimal i ++ "]" *)
  end.

(* the selector text of a step list: segments joined with '.' *)
Definition render (p : list step) : ustring := join_dot (map render_step p).

(* `addresses v p x`: following p from v reaches x.  Keys go through both
   kinds of mapping (plain dict, embedded object), indices through lists, at
   any nesting; nothing is said about the value x that is reached. *)
Inductive addresses : mval -> list step -> mval -> Prop :=
| A_here : forall v, addresses v [] v
| A_dict : forall m k x p y, In (k, x) m -> addresses x p y -> addresses (VDict m) (Key k :: p) y
| A_obj : forall m k x p y, In (k, x) m -> addresses x p y -> addresses (VObj m) (Key k :: p) y
| A_list : forall l i x p y, nth_error l i = Some x -> addresses x p y -> addresses (VList l) (Index i :: p) y.

(* "the selector text s addresses something in the object whose members are top" *)
Definition addresses_something (top : members) (s : ustring) : Prop :=
  exists p v, p <> [] /\ render p = s /\ addresses (VDict top) p v.

(* The same as a function, for trees whose mappings have distinct keys (as every
   Python mapping has). *)
Fixpoint resolve (v : mval) (p : list step) : option mval :=
  match p with
  | [] => Some v
  | Key k :: p' =>
      match v with
      | VDict m | VObj m => match lookup k m with Some x => resolve x p' | None => None end
      | _ => None
      end
  | Index i :: p' =>
      match v with
      | VList l => match nth_error l i with Some x => resolve x p' | None => None end
      | _ => None
      end
  end.

Definition resolve_top (top : members) (p : list step) : option mval :=
  match p with
  | [] => None
  | _ => resolve (VDict top) p
  end.

Fixpoint uniq_keys (v : mval) : Prop :=
  match v with
  | VList l => (fix go (l : list mval) : Prop := match l with [] => True | x :: l' => uniq_keys x /\ go l' end) l
  | VDict m | VObj m =>
      NoDup (map fst m) /\
      (fix go (m : members) : Prop := match m with [] => True | kv :: m' => uniq_keys (snd kv) /\ go m' end) m
  | _ => True
  end.

(* ---------------------------------------------------------------- *)
(* Marking sets                                                      *)

Definition pair := (ustring * ustring)%type.      (* (selector, marking id or language tag) *)

Definition gm_pairs (g : gm) : list pair :=
  flat_map (fun s => (if nonempty (g_ref g) then [(s, g_ref g)] else []) ++
                     (if nonempty (g_lang g) then [(s, g_lang g)] else [])) (g_sels g).

Definition pairs (gs : list gm) : list pair := flat_map gm_pairs gs.

Definition same_set {A} (a b : list A) : Prop := forall x, In x a <-> In x b.

Definition product (sels ms : list ustring) : list pair :=
  flat_map (fun s => map (fun m => (s, m)) ms) sels.

(* ---------------------------------------------------------------- *)
(* The path tree on selector texts: split at '.'                     *)

Definition segments (s : ustring) : list ustring := split_dot s.

(* a is s itself or an ancestor of s *)
Definition ancestor_or_self (a s : ustring) : Prop := exists rest, segments s = segments a ++ rest.
Definition proper_ancestor (a s : ustring) : Prop := exists rest, rest <> [] /\ segments s = segments a ++ rest.

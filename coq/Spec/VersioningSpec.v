(* Spec/VersioningSpec.v -- what the property text fixes independently of the
   library: the identity of an object across versions, and how a modified time
   is serialized at each spec version's timestamp precision.                 *)
From Coq Require Import ZArith List String.
From V Require Import Base.UString.
Import ListNotations.
Open Scope Z_scope.

(* "keeps type, id, created and creator" *)
Definition spec_unmod : list ustring := [u "type"; u "id"; u "created"; u "created_by_ref"].

(* the three properties that make a type versionable *)
Definition spec_verprops : list ustring := [u "created"; u "modified"; u "revoked"].

(* serialization precision of `modified`: STIX 2.0 exactly milliseconds (truncating), STIX 2.1
   at least milliseconds (every microsecond digit is kept) *)
Definition ser20 (t : Z) : Z := t - t mod 1000.
Definition ser21 (t : Z) : Z := t.

(* Base/UString.v -- data strings as lists of Unicode code points, with an
   ASCII-safe literal syntax used by the case files:
     printable ASCII other than backslash and double quote stands for itself,
     anything else is written \XXXXXX (exactly six upper-case hex digits).
   `u` decodes such a literal, `show_ustr` prints one; no proofs here.        *)
From Coq Require Import NArith ZArith List String Ascii Bool.
Import ListNotations.
Open Scope N_scope.

Definition ustring := list N.

Definition hexval (a : ascii) : N :=
  let n := N_of_ascii a in
  if (48 <=? n) && (n <=? 57) then n - 48
  else if (65 <=? n) && (n <=? 70) then n - 55
  else if (97 <=? n) && (n <=? 102) then n - 87
  else 0.

Fixpoint u (s : string) : ustring :=
  match s with
  | EmptyString => []
  | String "\" (String a (String b (String c (String d (String e (String f rest)))))) =>
      (hexval a * 1048576 + hexval b * 65536 + hexval c * 4096 + hexval d * 256 + hexval e * 16 + hexval f)
      :: u rest
  | String a rest => N_of_ascii a :: u rest
  end.

Arguments u s%string.

Definition hexdigit (n : N) : ascii :=
  if n <? 10 then ascii_of_N (48 + n) else ascii_of_N (55 + n).

Definition show_cp (c : N) (acc : string) : string :=
  if (32 <=? c) && (c <=? 126) && negb (c =? 92) && negb (c =? 34) then String (ascii_of_N c) acc
  else String "\" (String (hexdigit (c / 1048576 mod 16)) (String (hexdigit (c / 65536 mod 16))
       (String (hexdigit (c / 4096 mod 16)) (String (hexdigit (c / 256 mod 16))
       (String (hexdigit (c / 16 mod 16)) (String (hexdigit (c mod 16)) acc)))))).

Definition show_ustr (s : ustring) : string := fold_right show_cp EmptyString s.

Fixpoint ustr_eqb (a b : ustring) : bool :=
  match a, b with
  | [], [] => true
  | x :: a', y :: b' => (x =? y) && ustr_eqb a' b'
  | _, _ => false
  end.

(* Python str ordering: lexicographic on code points *)
Fixpoint ustr_compare (a b : ustring) : comparison :=
  match a, b with
  | [], [] => Eq
  | [], _ => Lt
  | _, [] => Gt
  | x :: a', y :: b' => match N.compare x y with Eq => ustr_compare a' b' | c => c end
  end.

Definition ustr_ltb (a b : ustring) : bool := match ustr_compare a b with Lt => true | _ => false end.

Fixpoint ustr_prefix (p s : ustring) : bool :=
  match p, s with
  | [], _ => true
  | x :: p', y :: s' => (x =? y) && ustr_prefix p' s'
  | _, [] => false
  end.

(* rendering helpers shared by every case file *)
Definition nl : string := String (ascii_of_nat 10) EmptyString.
Definition render_lines (ls : list string) : string :=
  fold_right (fun l acc => append l (append nl acc)) EmptyString ls.

Fixpoint show_pos_digits (fuel : nat) (n : Z) (acc : string) : string :=
  match fuel with
  | O => acc
  | S f =>
    let d := (n mod 10)%Z in
    let acc' := String (ascii_of_nat (48 + Z.to_nat d)) acc in
    if (n / 10 =? 0)%Z then acc' else show_pos_digits f (n / 10)%Z acc'
  end.

Definition show_Z (z : Z) : string :=
  if (z <? 0)%Z then append "-" (show_pos_digits 4000 (- z)%Z EmptyString)
  else show_pos_digits 4000 z EmptyString.
Definition show_N (n : N) : string := show_Z (Z.of_N n).
Definition show_nat (n : nat) : string := show_Z (Z.of_nat n).
Definition show_bool (b : bool) : string := if b then "true"%string else "false"%string.

Definition ustr_of_Z (z : Z) : ustring := u (show_Z z).

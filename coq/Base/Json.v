(* Base/Json.v -- JSON-like Python values.  Object members keep insertion
   order (Python dict order is observable).  A float is carried as the text
   Python's repr() gives it (the models that need its value parse the text).
   No proofs here except the nested induction principle.                     *)
From Coq Require Import NArith ZArith List String Bool.
From V Require Import Base.UString.
Import ListNotations.

Inductive jvalue :=
| JNull
| JBool (b : bool)
| JInt (z : Z)
| JFloat (repr : ustring)
| JStr (s : ustring)
| JArr (l : list jvalue)
| JObj (m : list (ustring * jvalue)).

Section JInd.
  Variable P : jvalue -> Prop.
  Hypothesis Hnull : P JNull.
  Hypothesis Hbool : forall b, P (JBool b).
  Hypothesis Hint : forall z, P (JInt z).
  Hypothesis Hfloat : forall r, P (JFloat r).
  Hypothesis Hstr : forall s, P (JStr s).
  Hypothesis Harr : forall l, Forall P l -> P (JArr l).
  Hypothesis Hobj : forall m, Forall (fun kv => P (snd kv)) m -> P (JObj m).

  Fixpoint jvalue_nested_ind (v : jvalue) : P v :=
    match v with
    | JNull => Hnull
    | JBool b => Hbool b
    | JInt z => Hint z
    | JFloat r => Hfloat r
    | JStr s => Hstr s
    | JArr l => Harr l ((fix go (l : list jvalue) : Forall P l :=
                           match l with
                           | [] => Forall_nil _
                           | x :: xs => Forall_cons _ (jvalue_nested_ind x) (go xs)
                           end) l)
    | JObj m => Hobj m ((fix go (m : list (ustring * jvalue)) : Forall (fun kv => P (snd kv)) m :=
                           match m with
                           | [] => Forall_nil _
                           | kv :: xs => Forall_cons _ (jvalue_nested_ind (snd kv)) (go xs)
                           end) m)
    end.
End JInd.

Fixpoint jvalue_eqb (a b : jvalue) : bool :=
  match a, b with
  | JNull, JNull => true
  | JBool x, JBool y => Bool.eqb x y
  | JInt x, JInt y => Z.eqb x y
  | JFloat x, JFloat y => ustr_eqb x y
  | JStr x, JStr y => ustr_eqb x y
  | JArr x, JArr y =>
      (fix go (x y : list jvalue) : bool :=
         match x, y with
         | [], [] => true
         | a :: x', b :: y' => jvalue_eqb a b && go x' y'
         | _, _ => false
         end) x y
  | JObj x, JObj y =>
      (fix go (x y : list (ustring * jvalue)) : bool :=
         match x, y with
         | [], [] => true
         | (k, a) :: x', (k', b) :: y' => ustr_eqb k k' && jvalue_eqb a b && go x' y'
         | _, _ => false
         end) x y
  | _, _ => false
  end.

Fixpoint jlookup (k : ustring) (m : list (ustring * jvalue)) : option jvalue :=
  match m with
  | [] => None
  | (k', v) :: rest => if ustr_eqb k k' then Some v else jlookup k rest
  end.

(* compact ASCII rendering for result lines (not JSON text: for diffing only) *)
Fixpoint show_jvalue (v : jvalue) : string :=
  match v with
  | JNull => "null"
  | JBool b => show_bool b
  | JInt z => append "i" (show_Z z)
  | JFloat r => append "f" (show_ustr r)
  | JStr s => append "'" (append (show_ustr s) "'")
  | JArr l => append "[" (append (fold_right (fun x acc => append (show_jvalue x) (append "," acc)) EmptyString l) "]")
  | JObj m => append "{" (append (fold_right (fun kv acc =>
                 append (show_ustr (fst kv)) (append ":" (append (show_jvalue (snd kv)) (append "," acc))))
                 EmptyString m) "}")
  end.

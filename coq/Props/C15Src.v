(* Props/C15Src.v -- property C15 at what the SOURCE TEXT of stix2/utils.py says.

   Gen/TimestampSrc.v is regenerated on every run from the ast of format_datetime (the precision branches
   that build the fraction: "{:06d}".format, [:3], rstrip("0"), ljust(3, "0")) and of
   parse_into_datetime (the branches that replace ts.microsecond), as programs of the small language of
   Model/PyTs.v.  The obligations: the programs are the ones the hand-written model mirrors, and -- by
   evaluation of the language's interpreter on the generated terms -- they compute the model's
   frac_digits and stored_trunc for every precision, constraint and microsecond value.  A changed slice
   bound, a dropped ljust, an rstrip in the exact branch or a rounding division break them by name.   *)
From Coq Require Import String ZArith NArith List.
From V Require Import Base.UString Model.Calendar Model.Timestamp Model.PyTs Gen.TimestampSrc Proofs.PyTsFacts.
Import ListNotations.
Open Scope Z_scope.

Theorem src_format_program : src_format_prog = model_format_prog.
Proof. vm_compute. reflexivity. Qed.
Print Assumptions src_format_program.

(* the fraction the text of format_datetime builds is the model's, for all inputs *)
Theorem src_format_fraction : forall p c us, format_frac src_format_prog p c us = text_of (frac_digits p c us).
Proof. intros p c us. rewrite src_format_program. apply format_prog_is_frac_digits. Qed.
Print Assumptions src_format_fraction.

Theorem src_parse_program : src_parse_prog = model_parse_prog.
Proof. vm_compute. reflexivity. Qed.
Print Assumptions src_parse_program.

(* the microsecond adjustment the text of parse_into_datetime makes is the model's truncation *)
Theorem src_parse_truncation : forall p c t,
  stored_trunc p c t = t - t mod 1000000 + parse_us src_parse_prog p c (t mod 1000000).
Proof. intros p c t. rewrite src_parse_program. apply parse_prog_is_stored_trunc. Qed.
Print Assumptions src_parse_truncation.

(* the fraction is attached after a dot only when it is not empty, then "Z"; the year is written with
   four digits; the parsed value is returned with the precision it was parsed at *)
Theorem src_format_assembly :
  src_format_attach = "'{}{}{}Z'.format(ts, '.' if frac_seconds_str else '', frac_seconds_str)"%string /\
  src_format_stamp = "'{:04d}'.format(zoned.year) + zoned.strftime('-%m-%dT%H:%M:%S')"%string /\
  src_parse_return = "STIXdatetime(ts, precision=precision, precision_constraint=precision_constraint)"%string.
Proof. repeat split; vm_compute; reflexivity. Qed.
Print Assumptions src_format_assembly.

(* Props/C12.v -- property C12 (stub while the proofs are being written) *)
From Coq Require Import ZArith List String.
From V Require Import Base.UString Model.Filters Proofs.FiltersBasics.
Import ListNotations.

Theorem apply_filters_is_filter : forall mode fl objs r,
  apply_filters mode fl objs = Ok r <->
  (Forall (defined_on mode fl) objs /\ r = filter (holds_b mode fl) objs).
Proof. exact apply_filters_ok. Qed.
Print Assumptions apply_filters_is_filter.

(* Props/C12.v -- property C12: queries return exactly the objects satisfying
   every filter; the shortcuts the filesystem source derives from type / id
   filters never change the result; attached filters apply.
   Statements only (proofs: Proofs/FiltersBasics.v, FiltersOpt.v, FiltersFs.v,
   FiltersLaws.v).  Model: Model/Filters.v; notions: Spec/FilterSpec.v.

   Variants.  ts_mode  = TextOnDicts (the code: timestamp text kept in a
   dictionary is compared as text) | InstantOnDicts (repaired reading).
   opt_mode = OptAnyValue (the code before fix 4d5628c: a shortcut is derived
   from any value of a type / id filter) | OptStringsOnly (the code since: only
   from strings / lists of strings).  The main theorem holds for every filter list in
   OptStringsOnly and under tyid_wf in OptAnyValue; the *_refuted theorems are
   the witnesses outside tyid_wf.                                          *)
From Coq Require Import ZArith List String Permutation.
From V Require Spec.TimestampSpec Model.Timestamp.
From V Require Import Base.UString Model.Filters Spec.FilterSpec
  Proofs.FiltersBasics Proofs.FiltersOpt Proofs.FiltersFs Proofs.FiltersLaws Proofs.FiltersInv Proofs.FiltersAll Proofs.FiltersCongr Proofs.FiltersTs Proofs.FiltersTs2.
Import ListNotations.

(* ---- the optimiser never changes the result (DESIGN Appendix A.2) ---- *)

Theorem opt_sound_complete : forall mode om t fl r,
  Inv mode t -> tyid_wf om fl ->
  naive mode fl t = Ok r ->
  exists r', fs_search mode om t fl = Ok r' /\ Permutation r r'.
Proof. exact opt_sound_complete_lemma. Qed.
Print Assumptions opt_sound_complete.

Theorem opt_raises_only_if_scan_does : forall mode om t fl e,
  Inv mode t -> tyid_wf om fl ->
  fs_search mode om t fl = Raise e -> exists e', naive mode fl t = Raise e'.
Proof. exact opt_raise_lemma. Qed.
Print Assumptions opt_raises_only_if_scan_does.

(* the repaired variant needs no hypothesis on the filters at all *)
Theorem opt_sound_complete_repaired : forall mode t fl r,
  Inv mode t -> naive mode fl t = Ok r ->
  exists r', fs_search mode OptStringsOnly t fl = Ok r' /\ Permutation r r'.
Proof. exact (fun mode t fl r HInv => opt_sound_complete_lemma mode OptStringsOnly t fl r HInv I). Qed.
Print Assumptions opt_sound_complete_repaired.

(* `scan`, the reference of the theorems above, is what an unfiltered query returns *)
Theorem scan_is_unfiltered_query : forall mode om t, fs_search mode om t [] = Ok (scan t).
Proof. exact scan_is_unfiltered_query_lemma. Qed.
Print Assumptions scan_is_unfiltered_query.

Theorem find_opts_never_raises : forall om fl, tyid_wf om fl -> exists a, find_opts om fl = Ok a.
Proof. exact find_opts_never_raises_lemma. Qed.
Print Assumptions find_opts_never_raises.

(* pruning is sound: an object every filter holds for lies where the two AuthSets look *)
Theorem pruning_sound : forall om fl, tyid_wf om fl ->
  exists at_ ai, find_opts om fl = Ok (at_, ai) /\ auth_strs at_ /\ auth_strs ai /\
    forall mode d n o, placed mode d n o -> holds_b mode fl o = true -> auth_pass at_ d /\ auth_pass ai n.
Proof. exact find_opts_spec. Qed.
Print Assumptions pruning_sound.

(* the layout invariant holds after every history of FileSystemSink.add, for objects
   whose id starts with their own type (Inv (i) established by the sink, (ii) a hypothesis
   on the objects: obj_wf) *)
Theorem add_preserves_Inv : forall mode t o t',
  Inv mode t -> obj_wf mode o -> fs_add t o = Ok t' -> Inv mode t'.
Proof. exact fs_add_preserves_Inv_lemma. Qed.
Print Assumptions add_preserves_Inv.

Theorem built_tree_satisfies_Inv : forall mode objs t,
  Inv mode t -> Forall (obj_wf mode) objs -> Inv mode (fs_build t objs).
Proof. exact fs_build_Inv_lemma. Qed.
Print Assumptions built_tree_satisfies_Inv.

Theorem opt_sound_complete_after_any_history : forall mode om objs fl r,
  Forall (obj_wf mode) objs -> tyid_wf om fl ->
  naive mode fl (fs_build [] objs) = Ok r ->
  exists r', fs_search mode om (fs_build [] objs) fl = Ok r' /\ Permutation r r'.
Proof. exact built_tree_opt_sound. Qed.
Print Assumptions opt_sound_complete_after_any_history.

(* Inv (iii): when id directories are named <type>--<uuid> and files end in .json, the scan sees
   every file content of the tree; the sink keeps it so for objects with such ids *)
Theorem scan_sees_everything : forall t, all_visible t -> Permutation (scan t) (all_contents t).
Proof. exact scan_sees_everything_lemma. Qed.
Print Assumptions scan_sees_everything.

Theorem sink_keeps_everything_visible : forall objs t,
  all_visible t -> Forall obj_vis objs -> all_visible (fs_build t objs).
Proof. exact fs_build_visible_lemma. Qed.
Print Assumptions sink_keeps_everything_visible.

(* so: the optimised query over a tree built by the sink = naive evaluation over ALL stored contents *)
Theorem query_over_all_stored : forall mode om objs fl r,
  Forall (obj_wf mode) objs -> Forall obj_vis objs -> tyid_wf om fl ->
  apply_filters mode fl (all_contents (fs_build [] objs)) = Ok r ->
  exists r', fs_search mode om (fs_build [] objs) fl = Ok r' /\ Permutation r r'.
Proof. exact query_over_all_stored_lemma. Qed.
Print Assumptions query_over_all_stored.

(* the code before fix 4d5628c (OptAnyValue), outside tyid_wf: a string given to `in`, a number given to `=` *)
Theorem opt_in_string_refuted : forall mode,
  Inv mode w_tree /\
  naive mode [F "type" OIn (vs "identity,x-foo")] w_tree = Ok [w_obj] /\
  fs_search mode OptAnyValue w_tree [F "type" OIn (vs "identity,x-foo")] = Ok [] /\
  fs_search mode OptStringsOnly w_tree [F "type" OIn (vs "identity,x-foo")] = Ok [w_obj].
Proof. exact opt_in_string_refuted_lemma. Qed.
Print Assumptions opt_in_string_refuted.

Theorem opt_nonstring_refuted : forall mode,
  Inv mode w_tree /\
  naive mode [F "id" OEq (VInt 5)] w_tree = Ok [] /\
  fs_search mode OptAnyValue w_tree [F "id" OEq (VInt 5)] = Raise EAttributeError /\
  fs_search mode OptStringsOnly w_tree [F "id" OEq (VInt 5)] = Ok [].
Proof. exact opt_nonstring_refuted_lemma. Qed.
Print Assumptions opt_nonstring_refuted.

(* ---- apply_common_filters is `filter`; conjunction, monotonicity ---- *)

Theorem apply_filters_is_filter : forall mode fl objs r,
  apply_filters mode fl objs = Ok r <->
  (Forall (defined_on mode fl) objs /\ r = filter (holds_b mode fl) objs).
Proof. exact apply_filters_ok. Qed.
Print Assumptions apply_filters_is_filter.

(* (definitional in the model: one unfolding of holds_b / all_hold; kept as the reading of `holds_b`
   that the other statements use) *)
Theorem answer_iff_every_filter_holds : forall mode fl o,
  holds_b mode fl o = true <-> (forall f, In f fl -> check_filter mode f o = Ok true).
Proof. exact holds_b_true. Qed.
Print Assumptions answer_iff_every_filter_holds.

Theorem conj_is_intersection : forall mode fl1 fl2 objs r1 r2,
  apply_filters mode fl1 objs = Ok r1 -> apply_filters mode fl2 objs = Ok r2 ->
  apply_filters mode (fl1 ++ fl2) objs = Ok (filter (holds_b mode fl2) r1) /\
  (forall o, In o (filter (holds_b mode fl2) r1) <-> In o r1 /\ In o r2).
Proof. exact conj_is_intersection_lemma. Qed.
Print Assumptions conj_is_intersection.

Theorem more_filters_shrink : forall mode fl extra objs r',
  apply_filters mode (fl ++ extra) objs = Ok r' ->
  exists r, apply_filters mode fl objs = Ok r /\ r' = filter (holds_b mode extra) r /\ incl r' r.
Proof. exact more_filters_shrink_lemma. Qed.
Print Assumptions more_filters_shrink.

Theorem more_filters_shrink_front : forall mode fl extra objs r r',
  apply_filters mode (extra ++ fl) objs = Ok r' -> apply_filters mode fl objs = Ok r ->
  r' = filter (holds_b mode extra) r /\ incl r' r.
Proof. exact more_filters_shrink_front_lemma. Qed.
Print Assumptions more_filters_shrink_front.

Theorem fs_conj_is_intersection : forall mode om t fl1 fl2 r1 r2,
  Inv mode t -> tyid_wf om fl1 -> tyid_wf om fl2 ->
  naive mode fl1 t = Ok r1 -> naive mode fl2 t = Ok r2 ->
  exists q1 q2 q12,
    fs_search mode om t fl1 = Ok q1 /\ fs_search mode om t fl2 = Ok q2 /\
    fs_search mode om t (fl1 ++ fl2) = Ok q12 /\
    forall o, In o q12 <-> In o q1 /\ In o q2.
Proof. exact fs_conj_is_intersection_lemma. Qed.
Print Assumptions fs_conj_is_intersection.

Theorem fs_more_filters_shrink : forall mode om t fl extra r',
  Inv mode t -> tyid_wf om (fl ++ extra) ->
  naive mode (fl ++ extra) t = Ok r' ->
  exists q q', fs_search mode om t fl = Ok q /\ fs_search mode om t (fl ++ extra) = Ok q' /\ incl q' q.
Proof. exact fs_more_filters_shrink_lemma. Qed.
Print Assumptions fs_more_filters_shrink.

(* ---- attached filters apply: the three ways filters reach a source ---- *)

(* FilterSet.add drops a filter that is == to one already present (1 == True == 1.0, dicts in any
   order).  Python's == is an equivalence on values and every operator gives the same answer for ==
   filter values, so dropping it never changes a verdict: the combined query decides every object
   exactly as the plain concatenation.  wfv / fl_wf: values are Python values (a dict has each key once). *)
Theorem value_eq_is_equivalence :
  (forall x y, wfv x -> wfv y -> py_eq x y = py_eq y x) /\
  (forall x y z, py_eq x y = true -> py_eq y z = true -> py_eq x z = true).
Proof. exact (conj py_eq_sym py_eq_trans). Qed.
Print Assumptions value_eq_is_equivalence.

Theorem equal_filters_same_verdict : forall mode f g o,
  filter_eqb f g = true -> wfv (fval f) -> wfv (fval g) -> wfv o ->
  check_filter mode f o = check_filter mode g o.
Proof. exact check_filter_congr. Qed.
Print Assumptions equal_filters_same_verdict.

Theorem attached_filters_apply : forall mode q att comp o,
  fl_wf (q ++ att ++ comp) -> wfv o ->
  all_hold mode (complete_query q att comp) o = all_hold mode (q ++ att ++ comp) o.
Proof. exact complete_query_verdict_wf. Qed.
Print Assumptions attached_filters_apply.

Theorem memory_query_is_naive : forall mode data q att comp,
  fl_wf (q ++ att ++ comp) -> Forall wfv (mem_objects data) ->
  mem_query mode data q att comp = apply_filters mode (q ++ att ++ comp) (mem_objects data).
Proof. exact mem_query_is_naive_wf. Qed.
Print Assumptions memory_query_is_naive.

(* every answer of a filesystem search satisfies every filter of the list it ran with -- no hypothesis *)
Theorem fs_answers_satisfy_filters : forall mode om t fl r o,
  fs_search mode om t fl = Ok r -> In o r -> forall f, In f fl -> check_filter mode f o = Ok true.
Proof. exact fs_search_answers_hold. Qed.
Print Assumptions fs_answers_satisfy_filters.

(* every answer of a source satisfies the query argument, the attached and the composite-passed filters *)
Theorem source_answers_satisfy_all : forall mode om s q comp r o f,
  fl_wf (q ++ (match s with SMem _ a => a | SFs _ a => a end) ++ comp) -> wfv o ->
  source_query mode om s q comp = Ok r -> In o r ->
  In f (q ++ (match s with SMem _ a => a | SFs _ a => a end) ++ comp) -> check_filter mode f o = Ok true.
Proof. exact source_answers_satisfy_wf. Qed.
Print Assumptions source_answers_satisfy_all.

(* a composite hands its own filters down: each of its answers is an answer of a member queried with them *)
Theorem composite_passes_filters_down : forall mode om members catt q outer r o,
  comp_query mode om members catt q outer = Ok r -> In o r ->
  exists s r0, In s members /\
    source_query mode om s q (fset_add (fset_add [] catt) outer) = Ok r0 /\ In o r0.
Proof. exact composite_answers_from_members. Qed.
Print Assumptions composite_passes_filters_down.

(* get / all_versions answers: the attached (and composite-passed) filters hold for them too *)
Theorem mem_all_versions_answers : forall mode data i att comp r o,
  mem_all_versions mode data i att comp = Ok r -> In o r ->
  In o (mem_versions data i) /\ forall f, In f (comp ++ att) -> check_filter mode f o = Ok true.
Proof. exact mem_all_versions_answers_lemma. Qed.
Print Assumptions mem_all_versions_answers.

Theorem fs_all_versions_answers : forall mode om t i att comp r o f,
  fl_wf ([mkf t_id OEq i] ++ att ++ comp) -> wfv o ->
  fs_all_versions mode om t i att comp = Ok r -> In o r ->
  In f ([mkf t_id OEq i] ++ att ++ comp) -> check_filter mode f o = Ok true.
Proof. exact fs_all_versions_answers_wf. Qed.
Print Assumptions fs_all_versions_answers.

(* ---- operator semantics ---- *)

(* dotted paths and list-valued properties: the filter holds iff it holds for one of the values the path reaches *)
Theorem op_path_any : forall mode f segs o vs,
  path_values segs o = Some vs -> check_path mode f segs o = any_res (check_property mode f) vs.
Proof. exact check_path_any. Qed.
Print Assumptions op_path_any.

Theorem op_absent_property : forall mode f m,
  plookup (hd [] (split_dot (fprop f))) m = None -> check_filter mode f (VDict m) = Ok false.
Proof. exact absent_property_false. Qed.
Print Assumptions op_absent_property.

Theorem op_semantics_numbers : forall mode f x a b,
  num_of x = Some a -> num_of (fval f) = Some b -> is_cmp_op (fop_ f) = true ->
  check_property mode f x = Ok (cmpZ (fop_ f) a b).
Proof. exact op_numbers. Qed.
Print Assumptions op_semantics_numbers.

Theorem op_semantics_strings : forall mode f a b,
  (mode = InstantOnDicts -> parse_ts a = None) -> fval f = VStr b ->
  check_property mode f (VStr a) = Ok (cmpS (fop_ f) a b).
Proof. exact op_strings. Qed.
Print Assumptions op_semantics_strings.

Theorem op_semantics_in_list : forall mode f x l,
  fop_ f = OIn -> fval f = VTuple l ->
  check_property mode f x = Ok (existsb (py_eq x) l).
Proof. exact op_in_list. Qed.
Print Assumptions op_semantics_in_list.

(* `contains`: on a list value the filter value is == one of the elements; with a dict as filter value on
   a dict property it is == one of the property's values; with a string on a dict property it is one of
   the keys; on a string it is a substring (op_semantics_strings); a list-valued PROPERTY is asked element
   by element ("any element": labels contains "x" holds when "x" is a substring of one label) *)
Theorem op_semantics_contains_list : forall mode f l,
  fop_ f = OContains -> (forall d, fval f <> VDict d) ->
  check_property mode f (VList l) = Ok (existsb (py_eq (fval f)) l).
Proof. exact op_contains_list. Qed.
Print Assumptions op_semantics_contains_list.

Theorem op_semantics_contains_dict_value : forall mode f d m,
  fop_ f = OContains -> fval f = VDict d ->
  check_property mode f (VDict m) = Ok (existsb (py_eq (VDict d)) (map snd m)).
Proof. exact op_contains_dict_value. Qed.
Print Assumptions op_semantics_contains_dict_value.

Theorem op_semantics_contains_dict_key : forall mode f k m,
  fop_ f = OContains -> fval f = VStr k ->
  check_property mode f (VDict m) = Ok (match plookup k m with Some _ => true | None => false end).
Proof. exact op_contains_dict_key. Qed.
Print Assumptions op_semantics_contains_dict_key.

Theorem op_semantics_list_property_any_element : forall mode f p m l,
  split_dot (fprop f) = [p] -> plookup p m = Some (VList l) ->
  check_filter mode f (VDict m) = any_res (check_property mode f) l.
Proof. exact op_contains_on_list_property. Qed.
Print Assumptions op_semantics_list_property_any_element.

(* = and != between values of different kinds: never equal (whenever no timestamp conversion applies) *)
Theorem op_semantics_eq_other_kind : forall mode f x,
  kind_of x <> kind_of (fval f) -> coerce mode (fop_ f) x (fval f) = Ok (x, fval f) ->
  (fop_ f = OEq -> check_property mode f x = Ok false) /\ (fop_ f = ONe -> check_property mode f x = Ok true).
Proof. exact op_eq_other_kind. Qed.
Print Assumptions op_semantics_eq_other_kind.

(* timestamp strings compared as instants *)
Theorem ts_on_objects : forall mode f t s t',
  fval f = VStr s -> parse_ts s = Some t' -> is_cmp_op (fop_ f) = true ->
  check_property mode f (VTime t) = Ok (cmpZ (fop_ f) t t').
Proof. exact ts_on_objects_lemma. Qed.
Print Assumptions ts_on_objects.

(* which instant a timestamp string is: a string the filter reader accepts is in canonical shape,
   passes the strict reader of property C15's specification (Spec/TimestampSpec.v) and denotes
   exactly the instant the reader returns (counted from 1970 here, from year 1 there) *)
Theorem timestamp_strings_read_strictly : forall s t, parse_ts s = Some t ->
  exists secs ds, TimestampSpec.spec_read s = Some (secs, ds) /\
                  TimestampSpec.denotes (secs, ds) (t + unix_epoch_us)%Z /\ (List.length ds <= 6)%nat.
Proof. exact parse_ts_strict. Qed.
Print Assumptions timestamp_strings_read_strictly.

(* ... and is read exactly as property C15's model of the library code reads it
   (Model/Timestamp.v parse_strptime: datetime.strptime with the two formats of parse_into_datetime) *)
Theorem timestamp_strings_read_as_the_library_does : forall s t,
  parse_ts s = Some t -> Timestamp.parse_strptime s = Some (t + unix_epoch_us)%Z.
Proof. exact parse_ts_is_strptime. Qed.
Print Assumptions timestamp_strings_read_as_the_library_does.

(* conversely every canonical text with a year >= 1 and at most six fraction digits is accepted *)
Theorem canonical_timestamp_strings_accepted : forall s secs ds y r,
  TimestampSpec.spec_read s = Some (secs, ds) -> (List.length ds <= 6)%nat ->
  TimestampSpec.read_num 4 s 0 = Some (y, r) -> (1 <= y)%Z ->
  exists t, parse_ts s = Some t.
Proof. exact canonical_strings_accepted. Qed.
Print Assumptions canonical_timestamp_strings_accepted.

Theorem ts_on_dicts_repaired : forall f xs t s t',
  fval f = VStr s -> parse_ts xs = Some t -> parse_ts s = Some t' -> is_cmp_op (fop_ f) = true ->
  check_property InstantOnDicts f (VStr xs) = Ok (cmpZ (fop_ f) t t').
Proof. exact ts_on_dicts_repaired_lemma. Qed.
Print Assumptions ts_on_dicts_repaired.

Theorem ts_on_dicts_refuted :
  exists xs s t t', parse_ts xs = Some t /\ parse_ts s = Some t' /\ (t < t')%Z /\
    check_property TextOnDicts (F "modified" OGt (vs "2020-01-01T00:00:00.5Z")) (VStr xs) = Ok true /\
    s = u "2020-01-01T00:00:00.5Z".
Proof. exact ts_on_dicts_refuted_lemma. Qed.
Print Assumptions ts_on_dicts_refuted.

(* the same on a concrete pair: "...00Z" > "...00.5Z" as text although the first instant is the earlier;
   the repaired variant answers False *)
Theorem ts_on_dicts_refuted_witness :
  parse_ts (u "2020-01-01T00:00:00Z") = Some 1577836800000000%Z /\
  parse_ts (u "2020-01-01T00:00:00.5Z") = Some 1577836800500000%Z /\
  check_property TextOnDicts (F "modified" OGt (vs "2020-01-01T00:00:00.5Z")) (vs "2020-01-01T00:00:00Z") = Ok true /\
  check_property InstantOnDicts (F "modified" OGt (vs "2020-01-01T00:00:00.5Z")) (vs "2020-01-01T00:00:00Z") = Ok false.
Proof. exact ts_on_dicts_refuted_concrete. Qed.
Print Assumptions ts_on_dicts_refuted_witness.

(* ---- the hypotheses are satisfiable (with a non-empty answer) ---- *)

Example hypotheses_satisfiable : forall mode om,
  Inv mode w_tree /\ tyid_wf om [F "id" OEq (vs "identity--1"); F "type" ONe (vs "tool")] /\
  naive mode [F "id" OEq (vs "identity--1"); F "type" ONe (vs "tool")] w_tree = Ok [w_obj] /\
  fs_search mode om w_tree [F "id" OEq (vs "identity--1"); F "type" ONe (vs "tool")] = Ok [w_obj].
Proof. exact w_example. Qed.

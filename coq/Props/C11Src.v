(* Props/C11Src.v -- C11 for the model instance denoted by the CURRENT SOURCE TEXT.
   Gen/StoreFacts.v is regenerated on every run by translators/tr_stores.py from the ast of
   stix2/datastore/memory.py (_add, _ObjectFamily.add: the key of the version table and the comparison
   that tracks the latest version; MemorySource.get / all_versions / query: filter chaining),
   stix2/datastore/filesystem.py (FileSystemSource.get: which element of which sort; _timestamp2filename;
   the refusal to overwrite in the sink; the regex and flags of _is_versioned_type_dir; the layout) --
   fail closed: an unrecognised shape aborts the translator and names the function.  The store model
   generalised over the recognised alternatives is Model/StoreCfg.v (`X_g cfg`); at the choices of
   Model/Store.v it is that model (Proofs/StoreSrc.v).  If the text regresses to another recognised
   choice the statements below no longer hold of src_store_cfg and the build names the obligation.  *)
From Coq Require Import NArith ZArith List Bool Permutation.
From V Require Import Base.UString Model.Store Model.StoreRun Model.StoreCases Model.StoreCfg Spec.StoreSpec
  Proofs.StoreBase Proofs.StoreMem Proofs.StoreFs Proofs.StoreAgree Gen.StoreFacts Proofs.StoreSrc.
Import ListNotations.
Open Scope list_scope.

(* the choices the text makes in the two stores.
   NOTE c_mem_filters and c_filename (and, in C18Src, c_navigation and c_environment) are types with ONE constructor:
   the equalities below hold of any record; for these four sites all the strength is in the translator, which
   compares the statements of the functions with fixed text and aborts otherwise.  The other fourteen fields have
   alternatives the translator recognises (c_fam_key and c_sort_key: "any other expression"). *)
Theorem source_memory_choices :
  c_fam_key src_store_cfg = KeyModified /\ c_latest_cmp src_store_cfg = CmpGt /\ c_mem_filters src_store_cfg = AllChained.
Proof. exact (conj src_version_table_keyed_by_modified (conj src_latest_is_strictly_greater src_memory_filters_all_chained)). Qed.
Print Assumptions source_memory_choices.

Theorem source_filesystem_choices :
  c_sort_key src_store_cfg = SortModified /\ c_pick src_store_cfg = PickLast /\ c_filename src_store_cfg = FormatStrip /\
  c_overwrite src_store_cfg = Refuse /\ c_dir_case src_store_cfg = CaseInsensitive.
Proof.
  exact (conj src_fs_get_sorts_by_modified (conj src_fs_get_picks_last (conj src_filename_from_formatted_modified
        (conj src_sink_refuses_overwrite src_versioned_dir_test_ignores_case)))).
Qed.
Print Assumptions source_filesystem_choices.

(* the refinement theorems for the instance the text denotes *)
Theorem source_mem_refines : forall mode iot (L : list obj),
  let NL := map (norm_obj mode iot) L in
  Forall clean NL -> uniform NL ->
  refines NL (fun id => mem_get [] id (mem_run_g mode iot src_store_cfg L))
             (fun id => mem_all [] id (mem_run_g mode iot src_store_cfg L))
             (mem_objs (mem_run_g mode iot src_store_cfg L)) /\
  (forall fl, mem_query fl (mem_run_g mode iot src_store_cfg L) =
              filter (all_hold fl) (mem_objs (mem_run_g mode iot src_store_cfg L))).
Proof. exact src_mem_refines. Qed.
Print Assumptions source_mem_refines.

Theorem source_fs_refines : forall mode iot ts2fn, (forall a b : Z, ts2fn a = ts2fn b -> a = b) -> forall (L : list obj),
  let NL := map (norm_obj mode iot) L in
  Forall fs_ok NL -> uniform NL ->
  (forall id, exists x, fs_get_g src_store_cfg [] id (fs_run_g mode iot ts2fn src_store_cfg L) = Ok x) /\
  refines NL (fun id => match fs_get_g src_store_cfg [] id (fs_run_g mode iot ts2fn src_store_cfg L) with
                        | Ok x => x | Err _ => None end)
             (fun id => fs_all_g src_store_cfg [] id (fs_run_g mode iot ts2fn src_store_cfg L))
             (map fobj (fs_run_g mode iot ts2fn src_store_cfg L)) /\
  (forall fl, Permutation (fs_query_g src_store_cfg fl (fs_run_g mode iot ts2fn src_store_cfg L))
                          (filter (all_hold fl) (map fobj (fs_run_g mode iot ts2fn src_store_cfg L)))).
Proof. exact src_fs_refines. Qed.
Print Assumptions source_fs_refines.

Theorem source_stores_agree : forall mode iot ts2fn, (forall a b : Z, ts2fn a = ts2fn b -> a = b) -> forall (L : list obj),
  let NL := map (norm_obj mode iot) L in
  Forall fs_ok NL -> uniform NL -> NoDup (map vkey_of NL) ->
  (forall id, fs_get_g src_store_cfg [] id (fs_run_g mode iot ts2fn src_store_cfg L) =
              Ok (mem_get [] id (mem_run_g mode iot src_store_cfg L))) /\
  (forall fl, Permutation (mem_query fl (mem_run_g mode iot src_store_cfg L))
                          (fs_query_g src_store_cfg fl (fs_run_g mode iot ts2fn src_store_cfg L))).
Proof. exact src_stores_agree. Qed.
Print Assumptions source_stores_agree.

(* alternatives the translator recognises, with a definite semantics in Model/StoreCfg.v, that violate the property
   (kernel-evaluated witnesses).  NOT refuted: `>=` in the latest tracking (it still returns a newest version:
   alternative_latest_ge_still_newest), KeyOther / SortOther ("some other expression": no semantics to evaluate;
   they only make source_memory_choices / source_filesystem_choices fail). *)
Theorem alternative_latest_lt_refuted :
  mem_get [] a_id (mem_run_g TextOrder no_iot (cfg_latest CmpLt) [v_obj a_id 1 1; v_obj a_id 2 2]) = Some (v_obj a_id 1 1).
Proof. exact alt_latest_lt_refuted. Qed.
Print Assumptions alternative_latest_lt_refuted.

Theorem alternative_pick_first_refuted :
  fs_get_g cfg_pick_first [] a_id (fs_run TextOrder no_iot ts2fn_dec [v_obj a_id 1 1; v_obj a_id 2 2]) = Ok (Some (v_obj a_id 1 1)).
Proof. exact alt_pick_first_refuted. Qed.
Print Assumptions alternative_pick_first_refuted.

Theorem alternative_overwrites_refuted :
  map fobj (fs_run_g TextOrder no_iot ts2fn_dec cfg_overwrites [v_obj a_id 1 1; v_obj a_id 1 2]) = [v_obj a_id 1 2].
Proof. exact alt_overwrites_refuted. Qed.
Print Assumptions alternative_overwrites_refuted.

Theorem alternative_case_sensitive_refuted :
  fs_query_g cfg_case_sensitive [] (fs_run TextOrder no_iot ts2fn_dec [v_obj uc_id 1 1]) = [] /\
  fs_query [] (fs_run TextOrder no_iot ts2fn_dec [v_obj uc_id 1 1]) = [v_obj uc_id 1 1].
Proof. exact alt_case_sensitive_refuted. Qed.
Print Assumptions alternative_case_sensitive_refuted.

Theorem alternative_latest_le_refuted :
  mem_get [] a_id (mem_run_g TextOrder no_iot (cfg_latest CmpLe) [v_obj a_id 1 1; v_obj a_id 2 2]) = Some (v_obj a_id 1 1).
Proof. exact alt_latest_le_refuted. Qed.
Print Assumptions alternative_latest_le_refuted.

Theorem alternative_latest_ge_still_newest :
  mem_get [] a_id (mem_run_g TextOrder no_iot (cfg_latest CmpGe) [v_obj a_id 1 1; v_obj a_id 2 2; v_obj a_id 2 3]) = Some (v_obj a_id 2 3) /\
  mem_get [] a_id (mem_run TextOrder no_iot [v_obj a_id 1 1; v_obj a_id 2 2; v_obj a_id 2 3]) = Some (v_obj a_id 2 2).
Proof. exact alt_latest_ge_still_newest. Qed.
Print Assumptions alternative_latest_ge_still_newest.

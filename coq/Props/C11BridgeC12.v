(* Props/C11BridgeC12.v -- OPTIONAL bridge group (depends on property C12's files, owned by another builder:
   Model/Filters.v, Proofs/FiltersBasics.v, Proofs/FiltersOpt.v, Proofs/FiltersStoreLink.v).  The C11 check builds
   it separately: when it builds, these theorems are counted; when it does not (a file or statement of C12
   changed), the check records a note and claims nothing from this file.                                        *)
From Coq Require Import NArith ZArith List Bool Permutation.
From V Require Import Base.UString Model.Store Model.StoreRun Spec.StoreSpec
  Proofs.StoreBase Proofs.StoreMem Proofs.StoreFs Proofs.StoreAgree.
From V Require Model.Filters Proofs.FiltersBasics Proofs.FiltersStoreLink Proofs.StoreFilters.
Import ListNotations.
Open Scope list_scope.

(* ---- with the real filter semantics (property C12's model of Filter._check_filter / apply_common_filters) ----
   StoreFilters.cf translates a concrete filter (property path, operator, value) into the store model's filter,
   its verdict being check_filter on `view o`, any dictionary whose "type" and "id" are the object's. *)

(* memory: the query returns exactly what apply_common_filters keeps of the stored population *)
Theorem mem_query_real_filters : forall (tsm : Filters.ts_mode) (view : obj -> Filters.pv) mode iot (L : list obj)
    (fl : list Filters.flt),
  let NL := map (norm_obj mode iot) L in
  Forall clean NL -> uniform NL -> (forall o, In o NL -> StoreFilters.viewed tsm view o) ->
  Forall (FiltersBasics.defined_on tsm fl) (map view (mem_objs (mem_run mode iot L))) ->
  Filters.apply_filters tsm fl (map view (mem_objs (mem_run mode iot L))) =
  Filters.Ok (map view (mem_query (map (StoreFilters.cf tsm view) fl) (mem_run mode iot L))).
Proof. exact StoreFilters.mem_query_concrete. Qed.
Print Assumptions mem_query_real_filters.

(* filesystem: the optimised query = apply_common_filters over every stored file, as multisets *)
Theorem fs_query_real_filters : forall (tsm : Filters.ts_mode) (view : obj -> Filters.pv) mode iot ts2fn,
  (forall a b : Z, ts2fn a = ts2fn b -> a = b) -> forall (L : list obj) (fl : list Filters.flt),
  let NL := map (norm_obj mode iot) L in
  Forall fs_ok NL -> uniform NL -> (forall o, In o NL -> StoreFilters.viewed tsm view o) ->
  Forall (FiltersBasics.defined_on tsm fl) (map view (map fobj (fs_run mode iot ts2fn L))) ->
  exists r, Filters.apply_filters tsm fl (map view (map fobj (fs_run mode iot ts2fn L))) = Filters.Ok r /\
            Permutation (map view (fs_query (map (StoreFilters.cf tsm view) fl) (fs_run mode iot ts2fn L))) r.
Proof. exact StoreFilters.fs_query_concrete. Qed.
Print Assumptions fs_query_real_filters.

Theorem stores_agree_real_filters : forall (tsm : Filters.ts_mode) (view : obj -> Filters.pv) mode iot ts2fn,
  (forall a b : Z, ts2fn a = ts2fn b -> a = b) -> forall (L : list obj) (fl : list Filters.flt),
  let NL := map (norm_obj mode iot) L in
  Forall fs_ok NL -> uniform NL -> NoDup (map vkey_of NL) ->
  Permutation (mem_query (map (StoreFilters.cf tsm view) fl) (mem_run mode iot L))
              (fs_query (map (StoreFilters.cf tsm view) fl) (fs_run mode iot ts2fn L)).
Proof. exact StoreFilters.stores_agree_concrete. Qed.
Print Assumptions stores_agree_real_filters.

(* the hypothesis `viewed` is satisfiable *)
Example view_exists : forall o, StoreFilters.viewed Filters.TextOnDicts StoreFilters.basic_view o.
Proof. exact StoreFilters.basic_view_viewed. Qed.

Example full_view_exists : forall o, StoreFilters.viewed Filters.TextOnDicts FiltersStoreLink.pv_of_obj o.
Proof. exact StoreFilters.link_view_viewed. Qed.

(* Props/C08.v -- property C08: a granular-marking selector is valid exactly
   when it addresses something.  Statements only; proofs in Proofs/MarkingsC08.v.

   Model/Markings.v mirrors stix2/markings/utils.py (iterpath,
   _evaluate_expression, _validate_selector, validate) with every deviation of
   the pinned code as a variant parameter (record cfg).  Spec/MarkingSpec.v
   says what "addresses" means (relation `addresses`, function `resolve`)
   independently of how the code enumerates paths.                          *)
From Coq Require Import String.
From Coq Require Import NArith ZArith List Bool.
From V Require Import Base.UString Model.Markings Spec.MarkingSpec Proofs.MarkingsC08 Proofs.MarkingsSyntax.
Import ListNotations.

(* ---- the full theorem, for every variant in which the walking deviations are repaired ---- *)

(* selector_repaired c := c_falsy c = AnyValue /\ c_index c = Position /\ c_embed c = AnyMapping /\ c_nest c = NestedLists;
   the other four fields of c (inheritance, API combination, syntax, v20 Indicator) are arbitrary. *)
Theorem validate_iff_addresses : forall c, selector_repaired c ->
  forall top sels,
    validate c top sels = true <-> sels <> [] /\ forall s, In s sels -> addresses_something top s.
Proof. exact MarkingsC08.validate_iff_addresses. Qed.
Print Assumptions validate_iff_addresses.

Theorem validate_selector_iff_addresses : forall c, selector_repaired c ->
  forall top sel, validate_selector c top sel = true <-> addresses_something top sel.
Proof. exact MarkingsC08.validate_selector_iff_addresses. Qed.
Print Assumptions validate_selector_iff_addresses.

(* the same with `resolve` (a function) for trees whose mappings have distinct keys, as every Python mapping has *)
Theorem validate_selector_iff_resolves : forall c, selector_repaired c ->
  forall top sel, uniq_keys (VDict top) ->
    (validate_selector c top sel = true <-> exists p v, render p = sel /\ resolve_top top p = Some v).
Proof. exact MarkingsC08.validate_selector_iff_resolves. Qed.
Print Assumptions validate_selector_iff_resolves.

(* what iterpath yields, for the repaired walk: exactly the non-empty step lists that address a value *)
Theorem walk_spec : forall c, walks_everything c ->
  forall v b segs x,
    In (segs, x) (walk c b v) <-> exists p, p <> [] /\ map render_step p = segs /\ addresses v p x.
Proof. exact MarkingsC08.walk_spec. Qed.
Print Assumptions walk_spec.

Example repaired_exists : selector_repaired cfg_repaired.
Proof. exact repaired_is_repaired. Qed.

(* ---- every marking function and the constructor use that same test (all variants) ---- *)

Theorem every_function_rejects : forall c o m sels i d r l,
  validate c (view o) sels = false ->
  get_markings c o (Some sels) i d r l = Err EInvalidSelector /\
  is_marked c o m (Some sels) i d = Err EInvalidSelector /\
  add_markings c o m (Some sels) = Err EInvalidSelector /\
  remove_markings c o m (Some sels) = Err EInvalidSelector /\
  clear_markings c o (Some sels) r l = Err EInvalidSelector /\
  set_markings c o m (Some sels) r l = Err EInvalidSelector.
Proof. exact MarkingsC08.every_function_rejects. Qed.
Print Assumptions every_function_rejects.

Theorem queries_accept : forall c o sels i d r l,
  validate c (view o) sels = true -> exists ms, g_get_markings c o sels i d r l = Ok ms.
Proof. exact MarkingsC08.queries_accept. Qed.
Print Assumptions queries_accept.

Theorem constructor_validates : forall c o,
  c_ind20 c = Ind20Checked -> o_kind o = KObj -> ctor_check c o = None ->
  forall g, In g (gms_list o) -> validate c (view o) (g_sels g) = true.
Proof. exact MarkingsC08.constructor_validates. Qed.
Print Assumptions constructor_validates.

(* construction, both directions: a constructed object is accepted exactly when (besides the marking ids being
   marking-definition ids and `lang` appearing only in 2.1) every granular marking has selectors, each of which
   ADDRESSES something AND is in the selector grammar (selector_syntax_ok; theorem selector_syntax).  So at
   construction "valid" = "addresses /\ grammar": an addressing selector outside the grammar (a first key of two
   characters, an upper-case first segment, a key with a space) is refused with InvalidValueError, never with
   InvalidSelectorError (constructor_rejects_only_nonaddressing). *)
Theorem constructor_accepts_iff : forall c o,
  selector_repaired c -> c_ind20 c = Ind20Checked -> o_kind o = KObj ->
  (ctor_check c o = None <->
   (forall m, In m (omr_list o) -> is_marking m = true) /\
   (forall g, In g (gms_list o) ->
      g_sels g <> [] /\ (o_v21 o = true \/ nonempty (g_lang g) = false) /\
      forall s, In s (g_sels g) -> selector_syntax_ok c s = true /\ addresses_something (view o) s)).
Proof. exact MarkingsC08.constructor_accepts_iff. Qed.
Print Assumptions constructor_accepts_iff.

Theorem constructor_rejects_only_nonaddressing : forall c o,
  selector_repaired c -> ctor_check c o = Some EInvalidSelector ->
  exists g s, In g (gms_list o) /\ In s (g_sels g) /\ ~ addresses_something (view o) s.
Proof. exact MarkingsC08.constructor_rejects_only_nonaddressing. Qed.
Print Assumptions constructor_rejects_only_nonaddressing.

(* acceptance by the mutators: on a plain dict a selector list that validate accepts is never refused as a selector
   (the remaining errors are versioning errors and MarkingNotFoundError).  On a constructed object the mutators
   rebuild the object, so constructor_accepts_iff applies to the result (grammar, and selectors that point into the
   marking lists themselves). *)
Theorem dict_mutators_accept : forall c o m sels r l e,
  o_kind o = KDict -> validate c (view o) sels = true ->
  (g_add_markings c o m sels = Err e \/ g_remove_markings c o m sels = Err e \/ g_clear_markings c o sels r l = Err e) ->
  e <> EInvalidSelector /\ e <> EInvalidValue.
Proof. exact MarkingsC08.dict_mutators_accept. Qed.
Print Assumptions dict_mutators_accept.

(* ---- the deviations of the pinned code: one witness each (all other fields repaired) ---- *)
(* refutes c := exists top sel, addresses_something top sel /\ validate_selector c top sel = false *)

Theorem falsy_refuted : refutes (with_falsy TruthyOnly).
Proof. exact MarkingsC08.falsy_refuted. Qed.
Print Assumptions falsy_refuted.

Theorem dup_element_refuted : refutes (with_index FirstEqual).
Proof. exact MarkingsC08.dup_element_refuted. Qed.
Print Assumptions dup_element_refuted.

Theorem embedded_refuted : refutes (with_embed DictOnly).
Proof. exact MarkingsC08.embedded_refuted. Qed.
Print Assumptions embedded_refuted.

Theorem nested_list_refuted : refutes (with_nest FlatLists).
Proof. exact MarkingsC08.nested_list_refuted. Qed.
Print Assumptions nested_list_refuted.

Theorem syntax_refuted :
  exists top sel, addresses_something top sel /\ validate_selector (with_syntax LowerKeys) top sel = true /\
                  selector_syntax_ok (with_syntax LowerKeys) sel = false /\
                  selector_syntax_ok (with_syntax AnyCaseKeys) sel = true.
Proof. exact MarkingsC08.syntax_refuted. Qed.
Print Assumptions syntax_refuted.

Theorem ind20_refuted :
  ~ addresses_something (view ind20_witness) (u "nonexistent") /\
  ctor_check (with_ind20 Ind20Unchecked) ind20_witness = None /\
  ctor_check (with_ind20 Ind20Checked) ind20_witness = Some EInvalidSelector.
Proof. exact MarkingsC08.ind20_refuted. Qed.
Print Assumptions ind20_refuted.

Theorem witnesses_accepted_when_repaired :
  validate_selector cfg_repaired [(u "is_family", VBool false)] (u "is_family") = true /\
  validate_selector cfg_repaired [(u "labels", VList [VStr (u "a"); VStr (u "a")])] (u "labels.[1]") = true /\
  validate_selector cfg_repaired
    [(u "external_references", VList [VObj [(u "source_name", VStr (u "s")); (u "url", VStr (u "http://x"))]])]
    (u "external_references.[0].url") = true /\
  validate_selector cfg_repaired [(u "x_m", VList [VList [VStr (u "a"); VStr (u "b")]])] (u "x_m.[0].[1]") = true.
Proof. exact MarkingsC08.witnesses_accepted_when_repaired. Qed.
Print Assumptions witnesses_accepted_when_repaired.

(* ---- selector syntax: the recogniser that mirrors SELECTOR_REGEX accepts exactly the selector grammar of
        Spec/MarkingSpec.v -- with `$` (re.match) also the grammar followed by one newline, with \Z the grammar
        exactly; upper_of c = true iff the variant admits A-Z in keys after the first segment ---- *)
Theorem selector_syntax : forall c s,
  selector_syntax_ok c s = true <->
  if dollar_of c then selector_text (upper_of c) s else selector_grammar (upper_of c) s.
Proof. exact MarkingsSyntax.selector_syntax. Qed.
Print Assumptions selector_syntax.

Theorem selector_syntax_examples :
  selector_syntax_ok cfg_pinned (u "external_references.[0].url") = true /\
  selector_syntax_ok cfg_pinned (u "id") = true /\
  selector_syntax_ok cfg_pinned (u "ab") = false /\
  selector_syntax_ok cfg_pinned (u "labels.[x]") = false /\
  selector_syntax_ok cfg_pinned (u "labels..a") = false /\
  selector_syntax_ok cfg_pinned (u "x_m.Bar") = false /\
  selector_syntax_ok cfg_repaired (u "x_m.Bar") = true /\
  selector_syntax_ok cfg_pinned (10%N :: rev (10%N :: rev (u "name"))) = false /\
  selector_syntax_ok cfg_pinned (rev (10%N :: rev (u "name"))) = true /\
  selector_syntax_ok cfg_repaired (rev (10%N :: rev (u "name"))) = false.
Proof. exact MarkingsSyntax.selector_syntax_examples. Qed.
Print Assumptions selector_syntax_examples.

(* Props/C08.v -- placeholder while the proofs are being written *)
From Coq Require Import List.
From V Require Import Base.UString Model.Markings.
Import ListNotations.

Theorem validate_empty_rejects : forall c top, validate c top [] = false.
Proof. reflexivity. Qed.
Print Assumptions validate_empty_rejects.

(* Props/C12Src.v -- C12 for the instance denoted by the CURRENT SOURCE TEXT.
   Gen/FilterFacts.v is regenerated on every run by translators/tr_filters.py from the ast of
   stix2/datastore/filters.py (FILTER_OPS, _check_filter_components / Filter.__new__, Filter._check_property: the
   conversion before the comparison and the operator dispatch, apply_common_filters, _check_filter,
   FilterSet.__init__ / __iter__ / add / remove) and of the shortcut code of stix2/datastore/filesystem.py
   (_update_allow, _find_search_optimizations with or without the strings-only guard of fix 4d5628c, AuthSet.__init__,
   _get_matching_dir_entries).  A place whose text is not the recorded one is written as the `...Other` value of
   its field; the obligation about that place (and source_text_is_the_model, and every theorem below that carries
   it) then fails by name.  Proofs: Proofs/FiltersSrc.v.                                                       *)
From Coq Require Import List String Permutation.
From V Require Import Base.UString Model.Filters Model.FiltersCfg Spec.FilterSpec Gen.FilterFacts
  Proofs.FiltersBasics Proofs.FiltersCongr Proofs.FiltersSrc.
Import ListNotations.

Theorem source_filter_ops : src_filter_ops = map fop_text all_fops.
Proof. exact src_ops. Qed.
Print Assumptions source_filter_ops.

Theorem source_filter_construction_checked : c_components src_filter_cfg = ComponentsChecked.
Proof. exact src_components. Qed.
Print Assumptions source_filter_construction_checked.

Theorem source_filter_value_parsed_for_datetime_property : c_coerce src_filter_cfg = CoerceParseFilterValue.
Proof. exact src_coerce. Qed.
Print Assumptions source_filter_value_parsed_for_datetime_property.

Theorem source_operator_dispatch : c_dispatch src_filter_cfg = DispatchModel.
Proof. exact src_dispatch. Qed.
Print Assumptions source_operator_dispatch.

Theorem source_every_filter_must_hold : c_apply src_filter_cfg = AllMustHold.
Proof. exact src_apply. Qed.
Print Assumptions source_every_filter_must_hold.

Theorem source_path_walk_any_element : c_walk src_filter_cfg = WalkAnyElement.
Proof. exact src_walk. Qed.
Print Assumptions source_path_walk_any_element.

Theorem source_filterset_copies_its_argument : c_fset_init src_filter_cfg = InitCopies.
Proof. exact src_fset_init. Qed.
Print Assumptions source_filterset_copies_its_argument.

Theorem source_filterset_adds_unique : c_fset_add src_filter_cfg = AddUnique.
Proof. exact src_fset_add. Qed.
Print Assumptions source_filterset_adds_unique.

Theorem source_update_allow_intersects : c_update_allow src_filter_cfg = UpdateIntersect.
Proof. exact src_update_allow. Qed.
Print Assumptions source_update_allow_intersects.

Theorem source_shortcut_variant_recognised : c_opt src_filter_cfg = opt_cfg_of src_opt_mode.
Proof. exact src_opt_recognised. Qed.
Print Assumptions source_shortcut_variant_recognised.

Theorem source_authset_white_minus_black : c_authset src_filter_cfg = WhiteMinusBlack.
Proof. exact src_authset. Qed.
Print Assumptions source_authset_white_minus_black.

Theorem source_dir_entries_lookup_or_listing : c_dir_entries src_filter_cfg = LookupOrListing.
Proof. exact src_dir_entries. Qed.
Print Assumptions source_dir_entries_lookup_or_listing.

Theorem source_text_is_the_model : src_filter_cfg = model_filter_cfg src_opt_mode.
Proof. exact src_is_model. Qed.
Print Assumptions source_text_is_the_model.

(* the shortcuts of the text derive from strings only (fix 4d5628c): no hypothesis on the filters *)
Theorem source_shortcuts_need_no_filter_hypothesis : forall fl, tyid_wf src_opt_mode fl.
Proof. exact src_no_filter_hypothesis. Qed.
Print Assumptions source_shortcuts_need_no_filter_hypothesis.

Theorem source_opt_sound_complete :
  src_filter_cfg = model_filter_cfg src_opt_mode /\
  forall mode t fl r, Inv mode t -> naive mode fl t = Ok r ->
    exists r', fs_search mode src_opt_mode t fl = Ok r' /\ Permutation r r'.
Proof. exact src_opt_sound_complete. Qed.
Print Assumptions source_opt_sound_complete.

Theorem source_opt_raises_only_if_scan_does :
  src_filter_cfg = model_filter_cfg src_opt_mode /\
  forall mode t fl e, Inv mode t -> fs_search mode src_opt_mode t fl = Raise e -> exists e', naive mode fl t = Raise e'.
Proof. exact src_opt_raise. Qed.
Print Assumptions source_opt_raises_only_if_scan_does.

Theorem source_attached_filters_apply :
  c_fset_init src_filter_cfg = InitCopies /\ c_fset_add src_filter_cfg = AddUnique /\ c_apply src_filter_cfg = AllMustHold /\
  forall mode q att comp o, fl_wf (q ++ att ++ comp) -> wfv o ->
    all_hold mode (complete_query q att comp) o = all_hold mode (q ++ att ++ comp) o.
Proof. exact src_attached_filters_apply. Qed.
Print Assumptions source_attached_filters_apply.

(* Props/C08Src.v -- C08 for the model instance denoted by the CURRENT SOURCE TEXT.
   Gen/MarkingFacts.v is regenerated on every run by translators/tr_markings.py from the ast of
   stix2/markings/utils.py (the comparison in _evaluate_expression, enumerate vs list.index and the
   isinstance tests of iterpath/_iterlist), stix2/base.py (the constructor's validate loop), every
   _check_object_constraints override of a class carrying granular_markings in stix2/v20, stix2/v21,
   and the text of SELECTOR_REGEX.  If the text regresses to a defective variant these statements no
   longer hold of src_cfg and the build names the broken obligation; an unrecognised shape aborts the
   translator.  The check also compares src_cfg with the variant found by running the witnesses.  *)
From Coq Require Import String.
From Coq Require Import NArith ZArith List Bool.
From V Require Import Base.UString Model.Markings Spec.MarkingSpec Gen.MarkingFacts
                      Proofs.MarkingsC08 Proofs.MarkingsSyntax Proofs.MarkingsSrc.
Import ListNotations.

Theorem source_text_is_repaired : selector_repaired src_cfg /\ c_ind20 src_cfg = Ind20Checked /\ upper_of src_cfg = true.
Proof. exact (conj src_selector_repaired (conj src_ind20 src_upper)). Qed.
Print Assumptions source_text_is_repaired.

Theorem source_validate_iff_addresses : forall top sels,
  validate src_cfg top sels = true <-> sels <> [] /\ forall s, In s sels -> addresses_something top s.
Proof. exact src_validate_iff_addresses. Qed.
Print Assumptions source_validate_iff_addresses.

Theorem source_constructor_validates : forall o,
  o_kind o = KObj -> ctor_check src_cfg o = None ->
  forall g, In g (gms_list o) ->
    g_sels g <> [] /\ forall s, In s (g_sels g) -> addresses_something (view o) s.
Proof. exact src_constructor_validates. Qed.
Print Assumptions source_constructor_validates.

Theorem source_constructor_accepts_iff : forall o, o_kind o = KObj ->
  (ctor_check src_cfg o = None <->
   (forall m, In m (omr_list o) -> is_marking m = true) /\
   (forall g, In g (gms_list o) ->
      g_sels g <> [] /\ (o_v21 o = true \/ nonempty (g_lang g) = false) /\
      forall s, In s (g_sels g) -> selector_syntax_ok src_cfg s = true /\ addresses_something (view o) s)).
Proof. exact src_constructor_accepts_iff. Qed.
Print Assumptions source_constructor_accepts_iff.

Theorem source_selector_syntax : forall s,
  selector_syntax_ok src_cfg s = true <->
  if dollar_of src_cfg then selector_text true s else selector_grammar true s.
Proof. exact src_selector_syntax. Qed.
Print Assumptions source_selector_syntax.

Theorem source_regex_text_known : syntax_of_regex_text src_selector_regex = Some (c_syntax src_cfg).
Proof. exact src_regex_text_known. Qed.
Print Assumptions source_regex_text_known.

(* Props/C19Inherit.v -- property C19, `registered custom types enjoy the same
   guarantees`: the part evaluated by the kernel on the GENERATED tables of the
   schema family (Gen/Tables.v from the current source, Gen/SpecTables.v from
   the frozen specification).  Statements only; proofs in
   Proofs/C19InheritTables.v.                                                 *)
From Coq Require Import NArith ZArith List String Bool.
From V Require Import Base.UString Model.SchemaTypes Spec.SchemaRefine Model.RegistryBuilder
                      Gen.Tables Gen.SpecTables Proofs.SchemaTables Proofs.C19Inherit Proofs.C19InheritRefine Proofs.C19InheritTables.
From V Require Model.Registry Proofs.NamingFacts.
Import ListNotations.

(* the table passes the refinement check of Spec/SchemaRefine.v against itself: header, no opaque
   constraint, every value rule contained, every required property always present *)
Theorem custom_refines_itself : forall bv k V n xt user cn,
  forallb slot_kind_ok user = true ->
  class_refine_failures (custom_cls bv k V n xt user cn) (custom_cls bv k V n xt user cn) = [].
Proof. exact custom_refines_itself_lemma. Qed.
Print Assumptions custom_refines_itself.

(* the side condition of the generic C02 theorem survives the addition of a fresh class and its
   registry row on both sides *)
Theorem world_refines_add : forall w sp k V n c c',
  world_refines w sp = true ->
  find_class (wclasses sp) (cid c) = None -> cid c' = cid c ->
  class_refine_failures c c' = [] ->
  name_ok_for k n = true ->
  world_refines (world_add w k V n c) (world_add sp k V n c') = true.
Proof. exact world_refines_add_lemma. Qed.
Print Assumptions world_refines_add.

(* ... and a name accepted by a registration under the repaired recognisers is a legal type name
   in the schema family's sense (Spec/StixValid.valid_type_name) *)
Theorem registered_name_ok : forall vt r k V n xt user cn r',
  NamingFacts.strict_type_rule vt (version_of_ver V) ->
  Registry.decorate vt r (regreq_of k V n xt user cn) = (r', Registry.Done) ->
  name_ok_for k n = true.
Proof. exact registered_name_ok_lemma. Qed.
Print Assumptions registered_name_ok.
(* the standard properties a decorator writes around the user's are, slot for slot (kind, required,
   default), those the frozen specification gives the built-in type of the same family and version *)
Theorem standard_properties_are_the_specifications : forall k V, (k = CObject \/ k = CObservable) -> standard_in spec k V.
Proof. exact standard_in_spec_lemma. Qed.
Print Assumptions standard_properties_are_the_specifications.

(* ... and those the library's own built-in classes have *)
Theorem standard_properties_are_the_builtins : forall k V, (k = CObject \/ k = CObservable) -> standard_in lib k V.
Proof. exact standard_in_lib_lemma. Qed.
Print Assumptions standard_properties_are_the_builtins.

(* the type name enters them only through `type` and `id` *)
Theorem standard_properties_depend_on_name_uniformly : forall bv k V n xt s, In s (standard_slots bv k V n xt) ->
  s = s_type n \/ (exists V', s = s_id n V') \/ (forall n', In s (standard_slots bv k V n' xt)).
Proof. exact standard_slots_name_lemma. Qed.
Print Assumptions standard_properties_depend_on_name_uniformly.

(* the side condition of the generic C02 theorem (`world_refines`, discharged for the built-in
   tables in Props/C02.v) holds for the library world extended by ANY registered custom type whose
   name is a legal type name (Props/C19.v, registered_name_ok: every name a registration accepts
   under the repaired recognisers is) *)
Theorem extended_world_refines : forall bv k V n xt user cn,
  forallb slot_kind_ok user = true -> name_ok_for k n = true ->
  world_refines (world_add lib k V n (custom_cls bv k V n xt user cn))
                (world_add spec_relaxed k V n (custom_cls bv k V n xt user cn)) = true.
Proof. intros. apply extended_world_refines_lemma; [assumption | apply custom_cid_fresh_lemma | assumption]. Qed.
Print Assumptions extended_world_refines.

(* Props/C19Inherit.v -- property C19, `registered custom types enjoy the same
   guarantees`: the part evaluated by the kernel on the GENERATED tables of the
   schema family (Gen/Tables.v from the current source, Gen/SpecTables.v from
   the frozen specification).  Statements only; proofs in
   Proofs/C19InheritTables.v.                                                 *)
From Coq Require Import NArith ZArith List String Bool.
From V Require Import Base.UString Model.SchemaTypes Spec.SchemaRefine Model.RegistryBuilder
                      Gen.Tables Gen.SpecTables Proofs.SchemaTables Proofs.C19Inherit Proofs.C19InheritTables.
From V Require Model.Registry.
Import ListNotations.

(* the standard properties a decorator writes around the user's are, slot for slot (kind, required,
   default), those the frozen specification gives the built-in type of the same family and version *)
Theorem standard_properties_are_the_specifications : forall k V, (k = CObject \/ k = CObservable) -> standard_in spec k V.
Proof. exact standard_in_spec_lemma. Qed.
Print Assumptions standard_properties_are_the_specifications.

(* ... and those the library's own built-in classes have *)
Theorem standard_properties_are_the_builtins : forall k V, (k = CObject \/ k = CObservable) -> standard_in lib k V.
Proof. exact standard_in_lib_lemma. Qed.
Print Assumptions standard_properties_are_the_builtins.

(* the type name enters them only through `type` and `id` *)
Theorem standard_properties_depend_on_name_uniformly : forall bv k V n xt s, In s (standard_slots bv k V n xt) ->
  s = s_type n \/ (exists V', s = s_id n V') \/ (forall n', In s (standard_slots bv k V n' xt)).
Proof. exact standard_slots_name_lemma. Qed.
Print Assumptions standard_properties_depend_on_name_uniformly.

(* the side condition of the generic C02 theorem (`world_refines`, discharged for the built-in
   tables in Props/C02.v) holds for the library world extended by ANY registered custom type *)
Theorem extended_world_refines : forall bv k V n xt user cn,
  forallb slot_kind_ok user = true ->
  world_refines (world_add lib k V n (custom_cls bv k V n xt user cn))
                (world_add spec_relaxed k V n (custom_cls bv k V n xt user cn)) = true.
Proof. intros. apply extended_world_refines_lemma; [assumption | apply custom_cid_fresh_lemma]. Qed.
Print Assumptions extended_world_refines.

(* Props/C18Src.v -- C18 for the model instance denoted by the CURRENT SOURCE TEXT.
   Gen/StoreFacts.v is regenerated on every run by translators/tr_stores.py from the ast of
   stix2/datastore/__init__.py (CompositeDataSource.get: the comparison, where the running maximum is
   updated, the members loop; get / all_versions / query: merging of the filters handed down and what is
   passed to the members; relationships; related_to; DataSource.relationships / related_to / creator_of call
   shapes), stix2/utils.py (deduplicate: the key) and stix2/environment.py (the wiring) -- fail closed.
   See Props/C11Src.v for how the obligations break when the text regresses.                             *)
From Coq Require Import NArith ZArith List Bool Permutation.
From V Require Import Base.UString Model.Store Model.StoreRun Model.StoreCases Model.StoreCfg Spec.StoreSpec Spec.StoreNavSpec
  Proofs.StoreBase Proofs.StoreMem Proofs.StoreFs Proofs.StoreAgree Proofs.StoreComposite Proofs.StoreNav
  Gen.StoreFacts Proofs.StoreSrc.
Import ListNotations.
Open Scope list_scope.

Theorem source_composite_choices :
  c_cget_cmp src_store_cfg = CmpGt /\ c_run_max src_store_cfg = UpdateOnTake /\ c_members src_store_cfg = AllMembers /\
  c_merge_get src_store_cfg = Merged /\ c_merge_all src_store_cfg = Merged /\ c_merge_query src_store_cfg = Merged /\
  c_dedupe_key src_store_cfg = KeyIdVer.
Proof.
  exact (conj src_composite_get_strictly_greater (conj src_composite_running_maximum (conj src_composite_asks_every_member
        (conj src_composite_get_merges_filters (conj src_composite_all_versions_merges_filters
        (conj src_composite_query_merges_filters src_dedupe_key_is_id_and_version)))))).
Qed.
Print Assumptions source_composite_choices.

Theorem source_navigation_choices :
  c_related src_store_cfg = Federated /\ c_navigation src_store_cfg = GenericScan /\ c_environment src_store_cfg = StoreThenSource.
Proof. exact (conj src_related_to_is_federated (conj src_navigation_is_generic_scan src_environment_store_then_source)). Qed.
Print Assumptions source_navigation_choices.

Theorem source_cget_newest_any_order : forall (af : list sfilter) (ms ms' : list source) (cf : list sfilter) (id : ustring)
    (rs : list (option obj)),
  ms <> [] -> Permutation ms ms' ->
  collect (fun m => s_get m (af ++ cf) id) ms = Ok rs -> versioned_all (somes rs) ->
  exists r r', cget_g src_store_cfg af ms cf id = Ok r /\ cget_g src_store_cfg af ms' cf id = Ok r' /\
    newest_of (somes rs) r /\ option_map ver_of r = option_map ver_of r'.
Proof. exact src_cget_any_order. Qed.
Print Assumptions source_cget_newest_any_order.

Theorem source_call_distinct_once : forall (af : list sfilter) (ms : list source) (cf : list sfilter) (id : ustring)
    (rs : list (list obj)),
  ms <> [] -> collect (fun m => s_all m (af ++ cf) id) ms = Ok rs ->
  exists res, call_g src_store_cfg af ms cf id = Ok res /\
    (forall o, In o res -> exists r, In r rs /\ In o r) /\
    (forall r o, In r rs -> In o r -> exists o', In o' res /\ dkey_of o' = dkey_of o) /\
    NoDup (map dkey_of res).
Proof. exact src_call_distinct_once. Qed.
Print Assumptions source_call_distinct_once.

Theorem source_cquery_distinct_once : forall (af : list sfilter) (ms : list source) (cf q : list sfilter) (rs : list (list obj)),
  ms <> [] -> collect (fun m => s_query m (af ++ cf) q) ms = Ok rs ->
  exists res, cquery_g src_store_cfg af ms cf q = Ok res /\
    (forall o, In o res -> exists r, In r rs /\ In o r) /\
    (forall r o, In r rs -> In o r -> exists o', In o' res /\ dkey_of o' = dkey_of o) /\
    NoDup (map dkey_of res).
Proof. exact src_cquery_distinct_once. Qed.
Print Assumptions source_cquery_distinct_once.

Theorem source_filters_reach_members : forall (iot : ustring -> option Z) (af : list sfilter) (ms : list source)
    (owns : source -> list sfilter),
  (forall m, In m ms -> sound_src (owns m) m) ->
  (forall cf id o, cget_g src_store_cfg af ms cf id = Ok (Some o) -> all_hold cf o = true /\ all_hold af o = true) /\
  (forall cf id rs o, call_g src_store_cfg af ms cf id = Ok rs -> In o rs -> all_hold cf o = true /\ all_hold af o = true) /\
  (forall cf q rs o, cquery_g src_store_cfg af ms cf q = Ok rs -> In o rs ->
      all_hold cf o = true /\ all_hold af o = true /\ all_hold q o = true).
Proof. exact src_filters_reach_members. Qed.
Print Assumptions source_filters_reach_members.

Theorem source_related_is_union_scan : forall (iot : ustring -> option Z) (ms : list source) (Ps : list (list obj))
    (a : ustring) (rt : option ustring) (so to : bool) (fl : list sfilter),
  ms <> [] -> Forall2 scan_member ms Ps -> so && to = false ->
  let U := concat Ps in
  (forall x y, In x U -> In y U -> dkey_of x = dkey_of y -> x = y) ->
  (forall r, In r (rel_scan U a rt so to) -> prop_get k_source_ref r <> None /\ prop_get k_target_ref r <> None) ->
  exists res, crelated_to_g src_store_cfg [] ms a rt so to fl = Ok res /\
    forall o, In o res <-> In o U /\ all_hold fl o = true /\ neighbour (rel_scan U a rt so to) a (oid o).
Proof. exact src_related_federated. Qed.
Print Assumptions source_related_is_union_scan.

(* alternatives the translator recognises that violate the property (kernel-evaluated witnesses).  Not refuted:
   `>=` in CompositeDataSource.get (still a newest version; only the copy differs on ties); c_navigation and
   c_environment are one-constructor types (fixed-text sites: the strength is in the translator). *)
Theorem alternative_run_always_refuted :
  cget_g cfg_run_always [] [mem_of [v_obj a_id 3 1]; mem_of [v_obj a_id 1 2]; mem_of [v_obj a_id 2 3]] [] a_id = Ok (Some (v_obj a_id 2 3)) /\
  cget [] [mem_of [v_obj a_id 3 1]; mem_of [v_obj a_id 1 2]; mem_of [v_obj a_id 2 3]] [] a_id = Ok (Some (v_obj a_id 3 1)).
Proof. exact alt_run_always_refuted. Qed.
Print Assumptions alternative_run_always_refuted.

Theorem alternative_first_hit_refuted :
  cget_g cfg_first_hit [] [mem_of [v_obj a_id 1 1]; mem_of [v_obj a_id 2 2]] [] a_id = Ok (Some (v_obj a_id 1 1)).
Proof. exact alt_first_hit_refuted. Qed.
Print Assumptions alternative_first_hit_refuted.

Theorem alternative_filters_not_merged_refuted :
  let inner af ms := mkSource (cget af ms) (call_g cfg_all_own_only af ms) (cquery af ms) (crelationships ms)
                              (crelated_to Federated af ms) in
  call [FOther (pay_is 2)] [inner [] [mem_of [v_obj a_id 1 1; v_obj a_id 2 2]]] [] a_id = Ok [v_obj a_id 1 1; v_obj a_id 2 2] /\
  call [FOther (pay_is 2)] [composite_source Federated [] [mem_of [v_obj a_id 1 1; v_obj a_id 2 2]]] [] a_id = Ok [v_obj a_id 2 2].
Proof. exact alt_all_own_only_refuted. Qed.
Print Assumptions alternative_filters_not_merged_refuted.

Theorem alternative_dedupe_by_id_refuted :
  call_g cfg_key_id [] [mem_of [v_obj a_id 1 1; v_obj a_id 2 2]] [] a_id = Ok [v_obj a_id 2 2] /\
  call [] [mem_of [v_obj a_id 1 1; v_obj a_id 2 2]] [] a_id = Ok [v_obj a_id 1 1; v_obj a_id 2 2].
Proof. exact alt_key_id_refuted. Qed.
Print Assumptions alternative_dedupe_by_id_refuted.

Theorem alternative_cget_lt_le_refuted :
  cget_g (cfg_cget CmpLt) [] [mem_of [v_obj a_id 2 1]; mem_of [v_obj a_id 1 2]] [] a_id = Ok (Some (v_obj a_id 1 2)) /\
  cget_g (cfg_cget CmpLe) [] [mem_of [v_obj a_id 1 1]; mem_of [v_obj a_id 2 2]] [] a_id = Ok (Some (v_obj a_id 1 1)).
Proof. exact alt_cget_lt_refuted. Qed.
Print Assumptions alternative_cget_lt_le_refuted.

(* Props/C14Schema.v -- C14, second file: the two models of detect_spec_version in this
   development agree.  Model/Schema.v `detect_version` (schema interpreter: class choice of
   C01/C03) against Model/VersionDetect.v `detect` (C14), for ANY world, fuel and dictionary:
   whenever the schema model yields a version, C14's model yields the same one; whenever it
   yields "no registered version" (Ok None), C14's model yields a value that is neither "2.0"
   nor "2.1".  Kept apart from Props/C14.v so that the C14 obligations do not depend on the
   schema family's files being buildable.                                                   *)
From Coq Require Import NArith List String Bool.
From V Require Import Base.UString Base.Json Model.SchemaTypes Model.PyBase Model.Schema
  Model.VersionDetect Proofs.C14SchemaAgree.
Import ListNotations.

Theorem schema_detect_agrees : forall vr w md, vr_detect_default vr = bundle_default md ->
  forall fuel d,
    (forall V, Schema.detect_version vr w fuel d = Ok (Some V) ->
               VersionDetect.detect md (obs21_of w) (JObj d) = DVal (JStr (vstr V))) /\
    (Schema.detect_version vr w fuel d = Ok None ->
       exists sv, VersionDetect.detect md (obs21_of w) (JObj d) = DVal sv /\ sv <> JStr v20 /\ sv <> JStr v21).
Proof. exact schema_detect_agrees_pf. Qed.
Print Assumptions schema_detect_agrees.

(* the hypothesis is met by both pairs of variants *)
Example variants_line_up :
  vr_detect_default variant_pinned = bundle_default pinned_mode /\
  vr_detect_default variant_repaired = bundle_default (mkMode true true).
Proof. exact variants_line_up_pf. Qed.

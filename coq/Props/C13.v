(* Props/C13.v -- property C13 (library operations never modify their
   arguments or existing objects; setattr/delattr refused; a deep copy is
   equal and disjoint), stated on the explicit-heap model of the
   copy-then-mutate mechanisms (Model/Heap.v, HeapOps.v, HeapApi.v) with the
   class tables regenerated from the repository (Gen/HeapWorld.v).

   PARTIAL (DESIGN 6/C13): the theorems cover the modelled skeletons -- every
   Property.clean that handles containers, _STIXBase.__init__, dict_to_stix2,
   parse_observable, new_version/revoke, the marking operations,
   Bundle, ObjectFactory, the memory store's _add, __deepcopy__ -- for ALL
   heaps, arguments, class tables and fuel.  Validation is not modelled.
   Operations outside these skeletons are covered by snapshot testing only
   (harness/props/c13.py says which).

   Reading the statements (Spec/HeapSpec.v):
     unchanged h h'        every node of h is the same node in h' (frame)
     unchanged_but d h h'  the same, except location d (the store's table)
     values_kept h h'      every deep value defined in h is the same in h'
     all_new h h' c        everything reachable from c was allocated after h
   `as_written` = every defensive copy is copy.deepcopy, as in the source.   *)
From Coq Require Import NArith ZArith String Bool Arith List.
From V Require Import Model.Heap Model.HeapOps Model.HeapApi Model.HeapRun Spec.HeapSpec Gen.HeapWorld.
From V Require Import Proofs.HeapInterp Proofs.C13Proofs.
Import ListNotations.
Open Scope nat_scope.

(* ---- the frame implies the property's first sentence ---- *)
Theorem unchanged_values : forall h h', unchanged h h' -> values_kept h h'.
Proof. exact unchanged_values_l. Qed.
Print Assumptions unchanged_values.

Theorem unchanged_but_values : forall d h h',
  unchanged_but d h h' -> (forall nd, get h d = Some nd -> is_store nd = true) -> values_kept h h'.
Proof. exact unchanged_but_values_l. Qed.
Print Assumptions unchanged_but_values.

(* ---- Property.clean, __init__, parsing: any class table W ---- *)
Theorem frame_observable_clean : forall W v21 v h h' r,
  run as_written W (QClean (KObs v21) v) h = (h', r) -> unchanged h h'.
Proof. intros W v21 v. exact (frame_run_l W (QClean (KObs v21) v)). Qed.
Print Assumptions frame_observable_clean.

Theorem frame_extensions_clean : forall W v21 v h h' r,
  run as_written W (QClean (KExt v21) v) h = (h', r) -> unchanged h h'.
Proof. intros W v21 v. exact (frame_run_l W (QClean (KExt v21) v)). Qed.
Print Assumptions frame_extensions_clean.

Theorem frame_clean_any_kind : forall W k v h h' r,
  run as_written W (QClean k v) h = (h', r) -> unchanged h h'.
Proof. intros W k v. exact (frame_run_l W (QClean k v)). Qed.
Print Assumptions frame_clean_any_kind.

Theorem frame_init : forall W cls kwargs h h' r,
  run as_written W (QConstruct cls kwargs) h = (h', r) -> unchanged h h'.
Proof. intros W cls kwargs. exact (frame_run_l W (QConstruct cls kwargs)). Qed.
Print Assumptions frame_init.

Theorem frame_parse : forall W v ver ac h h' r,
  run as_written W (QParse v ver ac) h = (h', r) -> unchanged h h'.
Proof. intros W v ver ac. exact (frame_run_l W (QParse v ver ac)). Qed.
Print Assumptions frame_parse.

Theorem frame_parse_observable : forall W v vr ver ac h h' r,
  run as_written W (QParseObs v vr ver ac) h = (h', r) -> unchanged h h'.
Proof. intros W v vr ver ac. exact (frame_run_l W (QParseObs v vr ver ac)). Qed.
Print Assumptions frame_parse_observable.

(* any variant in which the three copies are copies at all (deep or shallow) *)
Theorem frame_interp_copies : forall vt W d n q h h' r,
  copies vt -> interp vt W d n q h = (h', r) -> unchanged h h'.
Proof. exact frame_interp_l. Qed.
Print Assumptions frame_interp_copies.

(* ---- versioning ---- *)
Theorem frame_new_version : forall W data kwargs h h' r,
  new_version as_written W data kwargs h = (h', r) -> unchanged h h'.
Proof. exact frame_new_version_l. Qed.
Print Assumptions frame_new_version.

Theorem frame_revoke : forall W data h h' r, revoke as_written W data h = (h', r) -> unchanged h h'.
Proof. exact frame_revoke_l. Qed.
Print Assumptions frame_revoke.

(* ---- markings ---- *)
Theorem frame_expand_markings : forall gm h h' r, expand_markings gm h = (h', r) -> unchanged h h'.
Proof. exact frame_expand_l. Qed.
Print Assumptions frame_expand_markings.

(* the expanded list and its members are new containers (clear_markings edits them in place) *)
Theorem expand_markings_result_new : forall gm h h' e, expand_markings gm h = (h', RVal (VR e)) ->
  length h <= e /\ exists xs, get h' e = Some (NList xs) /\ forall d, In (VR d) xs -> length h <= d.
Proof. exact expand_result_new_l. Qed.
Print Assumptions expand_markings_result_new.

Theorem frame_compress_markings : forall gm h h' r, compress_markings gm h = (h', r) -> unchanged h h'.
Proof. exact frame_compress_l. Qed.
Print Assumptions frame_compress_markings.

Theorem frame_granular_add_markings : forall W obj marking selectors h h' r,
  granular_add as_written W obj marking selectors h = (h', r) -> unchanged h h'.
Proof. exact frame_granular_add_l. Qed.
Print Assumptions frame_granular_add_markings.

Theorem frame_granular_clear_markings : forall W obj selectors h h' r,
  granular_clear as_written W obj selectors h = (h', r) -> unchanged h h'.
Proof. exact frame_granular_clear_l. Qed.
Print Assumptions frame_granular_clear_markings.

Theorem frame_object_add_markings : forall W obj marking h h' r,
  object_add as_written W obj marking h = (h', r) -> unchanged h h'.
Proof. exact frame_object_add_l. Qed.
Print Assumptions frame_object_add_markings.

Theorem frame_object_remove_markings : forall W obj marking h h' r,
  object_remove as_written W obj marking h = (h', r) -> unchanged h h'.
Proof. exact frame_object_remove_l. Qed.
Print Assumptions frame_object_remove_markings.

Theorem frame_object_clear_markings : forall W obj h h' r,
  object_clear as_written W obj h = (h', r) -> unchanged h h'.
Proof. exact frame_object_clear_l. Qed.
Print Assumptions frame_object_clear_markings.

Theorem frame_granular_remove_markings : forall W obj marking selectors h h' r,
  granular_remove as_written W obj marking selectors h = (h', r) -> unchanged h h'.
Proof. exact frame_granular_remove_l. Qed.
Print Assumptions frame_granular_remove_markings.

Theorem frame_granular_set_markings : forall W obj marking selectors h h' r,
  granular_set as_written W obj marking selectors h = (h', r) -> unchanged h h'.
Proof. exact frame_granular_set_l. Qed.
Print Assumptions frame_granular_set_markings.

Theorem frame_object_set_markings : forall W obj marking h h' r,
  object_set as_written W obj marking h = (h', r) -> unchanged h h'.
Proof. exact frame_object_set_l. Qed.
Print Assumptions frame_object_set_markings.

(* stix2.markings.{set,remove,add,clear,get}_markings / is_marked (and the _MarkingsMixin methods) *)
Theorem frame_api_markings : forall W fn obj marking selectors h h' r,
  api_markings as_written W fn obj marking selectors h = (h', r) -> unchanged h h'.
Proof. exact frame_api_markings_l. Qed.
Print Assumptions frame_api_markings.

Theorem frame_remove_custom_stix : forall W obj h h' r,
  remove_custom_stix as_written W obj h = (h', r) -> unchanged h h'.
Proof. exact frame_remove_custom_l. Qed.
Print Assumptions frame_remove_custom_stix.

(* clear_markings / set_markings with the marking_ref= / lang= options *)
Theorem frame_clear_markings_options : forall W mr lg obj selectors h h' r,
  granular_clear_f as_written W mr lg obj selectors h = (h', r) -> unchanged h h'.
Proof. exact frame_clear_opts_l. Qed.
Print Assumptions frame_clear_markings_options.

Theorem frame_set_markings_options : forall W mr lg obj marking selectors h h' r,
  granular_set_f as_written W mr lg obj marking selectors h = (h', r) -> unchanged h h'.
Proof. exact frame_set_opts_l. Qed.
Print Assumptions frame_set_markings_options.

(* utils.deduplicate; copy.copy *)
Theorem frame_deduplicate : forall lst h h' r, deduplicate lst h = (h', r) -> unchanged h h'.
Proof. exact frame_deduplicate_l. Qed.
Print Assumptions frame_deduplicate.

Theorem frame_copy : forall v h h' r, shallow_copy v h = (h', r) -> unchanged h h'.
Proof. exact frame_copy_l. Qed.
Print Assumptions frame_copy.

(* ---- bundle, factory ---- *)
Theorem frame_bundle : forall W cls args kw h h' r,
  bundle as_written W cls args kw h = (h', r) -> unchanged h h'.
Proof. exact frame_bundle_l. Qed.
Print Assumptions frame_bundle.

Theorem frame_factory_new : forall kw la h h' r, factory_new kw la h = (h', r) -> unchanged h h'.
Proof. exact frame_factory_new_l. Qed.
Print Assumptions frame_factory_new.

Theorem frame_factory_create : forall W f cls kwargs h h' r,
  factory_create as_written W f cls kwargs h = (h', r) -> unchanged h h'.
Proof. exact frame_factory_create_l. Qed.
Print Assumptions frame_factory_create.

(* ---- memory store: only the store's own table is written ---- *)
Theorem frame_store_new : forall h h' s, store_new h = (h', s) -> unchanged h h'.
Proof. exact frame_store_new_l. Qed.
Print Assumptions frame_store_new.

Theorem frame_store_add : forall W n d data h h' r,
  store_add as_written W n d data h = (h', r) -> unchanged_but d h h'.
Proof. exact frame_store_add_l. Qed.
Print Assumptions frame_store_add.

Theorem store_add_values_kept : forall W n s d data h h' r,
  store_data h s = Some d -> store_add as_written W n d data h = (h', r) -> values_kept h h'.
Proof. exact store_add_values_l. Qed.
Print Assumptions store_add_values_kept.

(* ---- every operation of the case language, and every HISTORY of them ----
   (public_op excludes only assignment to / deletion of private attributes)      *)
Theorem unchanged_ns_values : forall h h', unchanged_ns h h' -> values_kept h h'.
Proof. exact unchanged_ns_values_l. Qed.
Print Assumptions unchanged_ns_values.

Theorem frame_every_operation : forall W o e h h' r,
  public_op o = true -> exec as_written W o e h = (h', r) -> unchanged_ns h h'.
Proof. exact exec_frame_l. Qed.
Print Assumptions frame_every_operation.

Theorem frame_every_history : forall W ops e h e' h',
  forallb public_op ops = true -> run_state as_written W ops e h = (e', h') ->
  unchanged_ns h h' /\ values_kept h h' /\ exists e2, e' = e ++ e2.
Proof. exact history_l. Qed.
Print Assumptions frame_every_history.

(* between any two points of a history, every value defined at the earlier point is kept *)
Theorem values_kept_between_steps : forall W ops1 ops2 e h e1 h1 e2 h2,
  forallb public_op (ops1 ++ ops2) = true ->
  run_state as_written W ops1 e h = (e1, h1) -> run_state as_written W (ops1 ++ ops2) e h = (e2, h2) ->
  values_kept h1 h2.
Proof. exact history_steps_l. Qed.
Print Assumptions values_kept_between_steps.

(* the `m:` field the correspondence compares is provably empty *)
Theorem mutation_report_empty : forall h h' e,
  values_kept h h' -> Forall (fun v => value FUEL h v <> None) e -> changed h h' e = [].
Proof. exact report_empty_l. Qed.
Print Assumptions mutation_report_empty.

(* ---- deep copy: equal, disjoint, and changes nothing ---- *)
Theorem deepcopy_equal_disjoint : forall n v h t, value n h v = Some t ->
  exists h' c, deepcopy n v h = (h', RVal c) /\ value n h' c = Some t /\ all_new h h' c /\ unchanged h h'.
Proof. exact deepcopy_spec_l. Qed.
Print Assumptions deepcopy_equal_disjoint.

Theorem deepcopy_disjoint : forall n v h h' c, deepcopy n v h = (h', RVal c) -> all_new h h' c /\ unchanged h h'.
Proof. exact deepcopy_any_l. Qed.
Print Assumptions deepcopy_disjoint.

Theorem all_new_shares_nothing : forall h h' c v l, all_new h h' c -> reaches h v l -> ~ reaches h' c l.
Proof. exact all_new_disjoint_l. Qed.
Print Assumptions all_new_shares_nothing.

(* ---- attribute guards ---- *)
(* (definitional in the model: unfolds py_setattr, which mirrors the one-line guard of
   _STIXBase.__setattr__; the content is property_names_refused below, over the GENERATED tables) *)
Theorem setattr_refused : forall l name x h,
  setattr_allowed name = false -> py_setattr (VR l) name x h = (h, RExc "ImmutableError").
Proof. exact Proofs.HeapStoreFacts.setattr_refused_l. Qed.
Print Assumptions setattr_refused.

(* no property name of any class of the repository starts with an underscore *)
Theorem property_names_refused : forall c sch name k,
  In (c, sch) (classes world_now) -> In (name, k) sch -> setattr_allowed name = false.
Proof. exact world_names_refused_l. Qed.
Print Assumptions property_names_refused.

Theorem delattr_refused : forall W c kw h h' o name,
  private_attrs h -> run as_written W (QConstruct c kw) h = (h', RVal o) -> setattr_allowed name = false ->
  py_delattr o name h' = (h', RExc "AttributeError").
Proof. exact delattr_constructed_l. Qed.
Print Assumptions delattr_refused.

(* ---- deletion, in general: every attribute of every library object is private ----
   `private_attrs h` (Spec/HeapSpec.v) holds of the empty heap and is kept by EVERY operation of
   the case language under every variant (assignment to private attributes included), so deleting
   a public name never finds an instance attribute.                                              *)
Theorem private_attrs_initially : private_attrs [].
Proof. exact Proofs.HeapPriv.priv_nil. Qed.
Print Assumptions private_attrs_initially.

Theorem private_attrs_kept : forall vt W ops e h e' h',
  private_attrs h -> run_state vt W ops e h = (e', h') -> private_attrs h'.
Proof. exact private_kept_l. Qed.
Print Assumptions private_attrs_kept.

(* (immediate from private_attrs; the content is private_attrs_kept above) *)
Theorem delattr_public_refused : forall o name h,
  private_attrs h -> setattr_allowed name = false -> py_delattr o name h = (h, RExc "AttributeError").
Proof. exact delattr_public_l. Qed.
Print Assumptions delattr_public_refused.

(* histories including deletion of public names (public_op_d) *)
Theorem frame_every_history_with_delattr : forall W ops e h e' h',
  private_attrs h -> forallb public_op_d ops = true -> run_state as_written W ops e h = (e', h') ->
  unchanged_ns h h' /\ values_kept h h' /\ private_attrs h'.
Proof. exact history_d_l. Qed.
Print Assumptions frame_every_history_with_delattr.

(* from the empty heap, with no side condition: every value defined at any point of any history
   of public operations (deletions included) is kept at every later point *)
Theorem values_kept_in_every_history : forall W ops1 ops2 e1 h1 e2 h2,
  forallb public_op_d (ops1 ++ ops2) = true ->
  run_state as_written W ops1 [] [] = (e1, h1) -> run_state as_written W (ops1 ++ ops2) [] [] = (e2, h2) ->
  values_kept h1 h2.
Proof. exact history_from_scratch_l. Qed.
Print Assumptions values_kept_in_every_history.

(* ---- the theorem is sensitive to the copies: it FAILS without them ---- *)
Theorem frame_refuted_extensions_no_copy :
  exists h', fst (run (variant_ext NoCopy) tiny_world (QClean (KExt true) (VR 1)) heap_ext) = h' /\ ~ unchanged heap_ext h'.
Proof. exact ext_nocopy_refuted_l. Qed.
Print Assumptions frame_refuted_extensions_no_copy.

(* ... and the custom-type constructor (stix2/custom.py) then writes into the caller's dict *)
Theorem frame_refuted_custom_type_no_copy :
  exists h', fst (run (variant_ext NoCopy) custom_world (QConstruct (u "custom.T") (VR 1)) heap_custom) = h' /\ ~ unchanged heap_custom h'.
Proof. exact custom_nocopy_refuted_l. Qed.
Print Assumptions frame_refuted_custom_type_no_copy.

Theorem frame_refuted_parse_observable_no_copy :
  exists h', fst (run (with_pobs NoCopy) tiny_world (QParseObs (VR 0) (VA ANone) (Some true) true) heap_obs) = h' /\ ~ unchanged heap_obs h'.
Proof. exact pobs_nocopy_refuted_l. Qed.
Print Assumptions frame_refuted_parse_observable_no_copy.

Theorem frame_refuted_new_version_no_copy :
  exists h', fst (new_version (with_nv NoCopy) tiny_world (VR 0) [(u "name", VA (AStr (u "n")))] heap_nv) = h' /\ ~ unchanged heap_nv h'.
Proof. exact nv_nocopy_refuted_l. Qed.
Print Assumptions frame_refuted_new_version_no_copy.

Theorem frame_refuted_factory_shallow_copy :
  exists h', fst (factory_create (with_fac Shallow) tiny_world (VR 2) (u "v21.File") (VR 3) heap_fac) = h' /\ ~ unchanged heap_fac h'.
Proof. exact fac_shallow_refuted_l. Qed.
Print Assumptions frame_refuted_factory_shallow_copy.

(* ---- success paths (audit C13-14): the frame theorems above are SAFETY statements -- they also hold
   when an operation returns RExc or RFuel.  On these concrete inputs the operations return a value,
   under `as_written`, AND the caller's containers are node for node what they were.              *)
Example deepcopy_runs :
  exists h' c, deepcopy 5 (VR 1) heap_ext = (h', RVal c) /\ c = VR 3.
Proof. exact deepcopy_runs_l. Qed.

Example extensions_clean_runs :
  exists h' c, run as_written tiny_world (QClean (KExt true) (VR 1)) heap_ext = (h', RVal c) /\ length h' = 6 /\
               get h' 0 = get heap_ext 0 /\ get h' 1 = get heap_ext 1.
Proof. exact extensions_clean_runs_l. Qed.

Example new_version_runs :
  exists h' o, new_version as_written tiny_world (VR 0) [(u "name", VA (AStr (u "n")))] heap_nv = (h', RVal (VR o)) /\
               get h' 0 = get heap_nv 0 /\ mapping_get h' (VR o) (u "name") = Some (VA (AStr (u "n"))) /\
               mapping_get heap_nv (VR 0) (u "name") = None.
Proof. exact new_version_runs_l. Qed.

Example parse_observable_runs :
  exists h' o, run as_written tiny_world (QParseObs (VR 0) (VA ANone) (Some true) true) heap_obs = (h', RVal (VR o)) /\
               get h' 0 = get heap_obs 0 /\ class_of h' (VR o) = Some (u "v21.File").
Proof. exact parse_observable_runs_l. Qed.

Example factory_create_runs :
  exists h' o, factory_create as_written tiny_world (VR 2) (u "v21.File") (VR 3) heap_fac = (h', RVal (VR o)) /\
               get h' 0 = get heap_fac 0 /\ get h' 1 = get heap_fac 1 /\ get h' 2 = get heap_fac 2 /\ get h' 3 = get heap_fac 3.
Proof. exact factory_create_runs_l. Qed.

(* the store's table (location 1) now maps the id to the caller's dict; nothing else changed *)
Example store_add_runs :
  exists h', store_add as_written tiny_world FUEL 1 (VR 0) heap_store = (h', RVal (VA ANone)) /\
             get h' 0 = get heap_store 0 /\ get h' 2 = get heap_store 2 /\
             get h' 1 = Some (NStore [(u "x-thing--1", VR 0)]).
Proof. exact store_add_runs_l. Qed.

Example granular_add_markings_runs :
  exists h' o, granular_add as_written tiny_world (VR 0) (VA (AStr (u "marking-definition--1"))) (VR 1) heap_mark = (h', RVal (VR o)) /\
               get h' 0 = get heap_mark 0 /\ get h' 1 = get heap_mark 1 /\
               mapping_get h' (VR o) (u "granular_markings") <> None /\
               mapping_get heap_mark (VR 0) (u "granular_markings") = None.
Proof. exact granular_add_runs_l. Qed.

(* as written: the custom type's constructor puts its extension into the copied dict (location 3
   here), the caller's `extensions` dict (location 0) stays empty *)
Example custom_type_constructor_runs :
  exists h' o, run as_written custom_world (QConstruct (u "custom.T") (VR 1)) heap_custom = (h', RVal (VR o)) /\
               get h' 0 = Some (NDict []) /\ mapping_get h' (VR 3) (u "extension-definition--1") <> None.
Proof. exact custom_runs_l. Qed.

(* a history from the empty heap (build a dict, new_version, deepcopy, copy.copy, get_markings):
   every step returns a container, every operation is public *)
Example history_runs :
  exists e' h', run_state as_written tiny_world demo_ops [] [] = (e', h') /\ length e' = 5 /\
                forallb (fun v => match v with VR _ => true | VA _ => false end) e' = true /\
                forallb public_op_d demo_ops = true.
Proof. exact history_runs_l. Qed.

(* OPTIONAL GROUP (built separately by harness/props/c07.py; depends on r-c15-c05's files).
   Props/C07Versioning.v -- "every result is a valid new version whose non-marking content is unchanged",
   carried over from C05's model of versioning.new_version (Model/Versioning.v, Props/C05.v; imported, not
   edited).  The marking functions produce their results only by new_version(obj, <name>=..., allow_custom=True)
   (Props/C07.v: mutators_via_new_version); the names are read from the source text on every run
   (Gen/MarkingFacts.v: src_nv_changed_keys, translators/tr_markings.py).

   T, nm, c, d, ch, now, later, pget: as in Props/C05.v.  kmod = "modified".                       *)
From Coq Require Import String ZArith List Bool.
From V Require Import Base.UString Base.Json Model.Timestamp Model.Versioning
  Proofs.VersioningFacts Proofs.VersioningProofs Gen.VersioningTables Gen.MarkingFacts Proofs.MarkingsSrc Proofs.MarkingsVersioning.
Import ListNotations.
Open Scope list_scope.

(* for every such call, whatever the clock reads: strictly later after serialization, and every other property is
   what it was (as handed over for a dict; in its cleaned, stored form for an object of a class: `stored`) *)
Theorem result_is_new_version : forall T nm cp ck c d ch now d' v,
  good_ver v -> NoDup (keys d) -> NoDup (keys ch) ->
  (forall k, In k (keys ch) -> In k src_nv_changed_keys) ->
  check_versionable T c d = Ok v ->
  new_version T nm cp ck c d ch now = Ok d' ->
  later nm v d d' /\
  (forall k, ustr_eqb k kmod = false -> ~ In k marking_keys -> plookup k d' = stored cp c k (pget k d)).
Proof. exact marking_call_is_new_version. Qed.
Print Assumptions result_is_new_version.

(* ---- the six hypotheses are satisfiable with `ch` keyed on a marking property (what object-level
        add_markings asks for): a plain-dict identity, live tables read from /repo, clock = 2020-01-01 ---- *)
Definition ex_marked_identity : pdict :=
  [(u "type", PJ (JStr (u "identity"))); (u "id", PJ (JStr (u "identity--311b2d2d-f010-4473-83ec-1edf84858f4c")));
   (u "created", PJ (JStr (u "2020-01-01T00:00:00.000Z"))); (u "modified", PJ (JStr (u "2020-01-01T00:00:00.001Z")));
   (u "name", PJ (JStr (u "x"))); (u "revoked", PJ (JBool false))].
Definition ex_marking_change : pdict :=
  [(u "object_marking_refs", PJ (JArr [JStr (u "marking-definition--34098fce-860f-48ae-8e50-ebd3cc5e41da")]))].

Example result_is_new_version_hyps_satisfiable :
  good_ver V20 /\ NoDup (keys ex_marked_identity) /\ NoDup (keys ex_marking_change) /\
  (forall k, In k (keys ex_marking_change) -> In k src_nv_changed_keys) /\
  check_versionable live_tables CDict ex_marked_identity = Ok V20 /\
  exists d', new_version live_tables NaiveUtc clean_id accept_all CDict ex_marked_identity ex_marking_change
                         63713433600000000%Z = Ok d' /\
             plookup (u "object_marking_refs") d' = plookup (u "object_marking_refs") ex_marking_change /\
             plookup (u "name") d' = plookup (u "name") ex_marked_identity.
Proof.
  split; [left; reflexivity|]. split.
  { unfold keys. cbn [map fst ex_marked_identity].
    repeat (constructor; [cbn; intros H; repeat (destruct H as [H|H]; [discriminate H|]); exact H|]). constructor. }
  split.
  { unfold keys. cbn [map fst ex_marking_change]. constructor; [intros []|constructor]. }
  split.
  { intros k [H|[]]. subst k. vm_compute. tauto. }
  split; [vm_compute; reflexivity|].
  eexists. split; [vm_compute; reflexivity|]. split; vm_compute; reflexivity.
Qed.

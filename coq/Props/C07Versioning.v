(* OPTIONAL GROUP (built separately by harness/props/c07.py; depends on r-c15-c05's files).
   Props/C07Versioning.v -- "every result is a valid new version whose non-marking content is unchanged",
   carried over from C05's model of versioning.new_version (Model/Versioning.v, Props/C05.v; imported, not
   edited).  The marking functions produce their results only by new_version(obj, <name>=..., allow_custom=True)
   (Props/C07.v: mutators_via_new_version); the names are read from the source text on every run
   (Gen/MarkingFacts.v: src_nv_changed_keys, translators/tr_markings.py).

   T, nm, c, d, ch, now, later, pget: as in Props/C05.v.  kmod = "modified".                       *)
From Coq Require Import String ZArith List Bool.
From V Require Import Base.UString Base.Json Model.Timestamp Model.Versioning
  Proofs.VersioningFacts Proofs.VersioningProofs Gen.MarkingFacts Proofs.MarkingsSrc Proofs.MarkingsVersioning.
Import ListNotations.
Open Scope list_scope.

(* for every such call, whatever the clock reads: strictly later after serialization, and every other property is
   what it was (as handed over for a dict; in its cleaned, stored form for an object of a class: `stored`) *)
Theorem result_is_new_version : forall T nm cp ck c d ch now d' v,
  good_ver v -> NoDup (keys d) -> NoDup (keys ch) ->
  (forall k, In k (keys ch) -> In k src_nv_changed_keys) ->
  check_versionable T c d = Ok v ->
  new_version T nm cp ck c d ch now = Ok d' ->
  later nm v d d' /\
  (forall k, ustr_eqb k kmod = false -> ~ In k marking_keys -> plookup k d' = stored cp c k (pget k d)).
Proof. exact marking_call_is_new_version. Qed.
Print Assumptions result_is_new_version.

(* Props/C10.v -- property C10: pattern text <-> pattern object model.
   Statements only; proofs are in Proofs/Pattern*.v.                         *)
From Coq Require Import NArith ZArith List String Bool.
From V Require Import Model.PatternSyntax Proofs.PatternEscape Proofs.PatternRefuted.
Import ListNotations.

(* string constants are escaped correctly: the literal the printer writes for
   a string lexes (StringLiteral rule) back to exactly that string *)
Theorem string_escape_roundtrip : forall s : ustring, lex_string (print_string s) = Some s.
Proof. exact string_escape_roundtrip_lemma. Qed.
Print Assumptions string_escape_roundtrip.

(* ---- the pinned visitor does not have the property (witnesses) ---- *)
Theorem visit_preserves_refuted_not_neq :
  wf w_not_neq = true /\ forall a, visit pinned w_not_neq = Ok a -> meaning_ast a <> meaning_cst w_not_neq.
Proof. exact not_neq_loses. Qed.
Print Assumptions visit_preserves_refuted_not_neq.

Theorem visit_preserves_refuted_not_in :
  wf w_not_in = true /\ forall a, visit pinned w_not_in = Ok a -> meaning_ast a <> meaning_cst w_not_in.
Proof. exact not_in_loses. Qed.
Print Assumptions visit_preserves_refuted_not_in.

Theorem visit_preserves_refuted_not_order : wf w_not_gt = true /\ visit pinned w_not_gt = Raise TypeError.
Proof. exact not_order_crashes. Qed.
Print Assumptions visit_preserves_refuted_not_order.

(* Props/C10.v -- property C10: pattern text <-> pattern object model.
   Statements only; proofs are in Proofs/Pattern*.v.

   Vocabulary (Model/PatternSyntax.v):
     pattern        parse trees of the STIX 2.1 pattern grammar, one constructor per alternative
     wf c           every token carried by c has the lexical class the grammar asks for at its place
     yield c        the token sequence of c
     visit g c      stix2/pattern_visitor.py (variant g: `pinned` = the code as found,
                    `repaired` = NOT passed through by every propTest method, WITHIN <float> accepted)
     print a        the tokens of str(a)   (every __str__ of stix2/patterns.py)
     unvisit a      a parse tree for the object a, when its grouping can be written at all
     meaning_cst / meaning_ast   what a tree / an object says: every comparison with operator and
                    negation, typed constants, path steps, qualifiers, grouping
   Side conditions (Proofs/): `sem` (PatternObs.v) -- the visitor can handle the tree: timestamps
   Python can represent, non-empty hex, no EXISTS, paths without [i][j] / 'k'[*], quoted keys that
   contain a hyphen or are identifiers, ANDs the library does not refuse; `printable`
   (PatternRange.v) -- float literals in the positional range of repr; `aprint` (PatternUnvExpr.v)
   -- names and constants of an object print to single tokens.  Every exclusion is a listed finding
   (known_findings.d/C10.json) or a deliberate refusal of the library.                             *)
From Coq Require Import NArith ZArith List String Bool.
From V Require Import Model.PatternSyntax Proofs.PatternEscape Proofs.PatternRefuted
  Proofs.PatternLit Proofs.PatternPath Proofs.PatternCmp Proofs.PatternObs Proofs.PatternMeaning
  Proofs.PatternUnvConst Proofs.PatternUnvPath Proofs.PatternUnvExpr Proofs.PatternRange Proofs.PatternFixpoint.
Import ListNotations.

(* string constants are escaped correctly: the literal the printer writes for
   a string lexes (StringLiteral rule) back to exactly that string *)
Theorem string_escape_roundtrip : forall s : ustring, lex_string (print_string s) = Some s.
Proof. exact string_escape_roundtrip_lemma. Qed.
Print Assumptions string_escape_roundtrip.

(* the visitor yields an object with the same meaning *)
Theorem visit_preserves : forall c : pattern, wf c = true -> sem c = true ->
  exists a, visit repaired c = Ok a /\ meaning_ast a = meaning_cst c.
Proof. exact visit_preserves_lemma. Qed.
Print Assumptions visit_preserves.

(* the visitor is the structural function sv_fb on those trees *)
Theorem visit_is_structural : forall c : pattern, wf c = true -> sem c = true -> visit repaired c = Ok (sv_fb c).
Proof. exact visit_sv. Qed.
Print Assumptions visit_is_structural.

(* printing is a fixed point of parse-then-print: the tokens printed for the
   object the visitor yields are exactly the yield of a well-formed parse tree
   that the visitor maps back to the same object (so, the grammar being
   unambiguous, parsing the printed text gives the same object and printing
   it again the same text) *)
Theorem print_fixpoint : forall (c : pattern) (a : aexpr),
  wf c = true -> sem c = true -> printable c = true -> visit repaired c = Ok a ->
  exists c', unvisit a = Some c' /\ wf c' = true /\ yield c' = print a /\ visit repaired c' = Ok a.
Proof. exact print_fixpoint_lemma. Qed.
Print Assumptions print_fixpoint.

(* objects assembled from the public classes: when the object's grouping can
   be written (unvisit defined: a parenthetical node wherever precedence
   requires one), the tree is well formed, its yield is exactly the printed
   tokens, and the visitor reads it back to an object with the same meaning *)
Theorem programmatic_roundtrip : forall (a : aexpr) (c : pattern),
  aprint a = true -> unvisit a = Some c -> sem c = true ->
  wf c = true /\ yield c = print a /\
  exists a', visit repaired c = Ok a' /\ meaning_ast a' = meaning_ast a.
Proof. exact programmatic_roundtrip_lemma. Qed.
Print Assumptions programmatic_roundtrip.

(* unvisit is defined on every printable object of the shape the visitor produces *)
Theorem unvisit_total_on_visitor_shape : forall a, vexpr a = true -> aprint a = true -> exists u, unv a = Some u.
Proof. exact unv_total. Qed.
Print Assumptions unvisit_total_on_visitor_shape.

(* ---- the hypotheses are satisfiable ---- *)
Definition ex_path : objpath :=
  ObjPath (kt KIdentHyphen "network-traffic") (kt KIdent "extensions")
          (Some (OPathStep (OPathStep (OStep (KeyStep (kt KString "'http-request-ext'"))) (KeyStep (kt KIdent "request_header")))
                           (KeyStep (kt KString "'Accept-Encoding'")))).
(* [network-traffic:extensions.'http-request-ext'.request_header.'Accept-Encoding' NOT LIKE 'it\'s %' AND
    network-traffic:src_port IN (80, 443)] REPEATS 2 TIMES FOLLOWEDBY ([a:b[*].c >= 1.5] OR [a:d = t'2020-02-29T23:59:59.5Z']) *)
Definition ex_obs (e : cmpor) : obs := OSimple e.
Definition ex_single (p : proptest) : cmpor := COrBase (CAndBase p).
Definition ex_o1 : obs :=
  OQual (ex_obs (COrBase (CAnd (CAndBase (PTStr SLike ex_path true (kt KString "'it\00005C's %'")))
                               (PTSet (ObjPath (kt KIdentHyphen "network-traffic") (kt KIdent "src_port") None) false
                                      [kt KIntPos "80"; kt KIntPos "443"]))))
        (QRepeat (kt KIntPos "2")).
Definition ex_o2 : obs :=
  ex_obs (ex_single (PTOrder (ObjPath (kt KIdent "a") (kt KIdent "b")
                                      (Some (OPathStep (OStep (IndexStep (kt KASTERISK "*"))) (KeyStep (kt KIdent "c")))))
                             false (kt KGE ">=") (kt KFloatPos "1.5"))).
Definition ex_o3 : obs :=
  ex_obs (ex_single (PTEqual (ObjPath (kt KIdent "a") (kt KIdent "d") None) false (kt KEQ "=")
                             (kt KTimestamp "t'2020-02-29T23:59:59.5Z'"))).
Definition ex_pattern : pattern :=
  OFb (OFbBase (OOrBase (OAndBase ex_o1)))
      (OOrBase (OAndBase (OCompound (OFbBase (OOr (OOrBase (OAndBase ex_o2)) (OAndBase ex_o3)))))).
Example ex_admissible : wf ex_pattern = true /\ sem ex_pattern = true /\ printable ex_pattern = true.
Proof. vm_compute. repeat split. Qed.
Example ex_programmatic : exists c,
  let a := ECompound OpAnd
             [EParen (ECompound OpOr [EObs (ECmp KlEq (APath (u "file") [ABasic (u "hashes"); ABasic (u "SHA-256")]) (CString (u "it's") true) true);
                                      EObs (ECmp KlIn (APath (u "a") [AList (u "b") (IdxInt 1)]) (CList [CInt 1; CBool true]) false)]);
              EObs (ECmp KlLt (APath (u "a") [ARef (u "src_ref"); ABasic (u "c")]) (CFloat (FVal false [49%N] [53%N])) false);
              EQualified (EObs (ECmp KlMatches (APath (u "x-y") [ABasic (u "z")]) (CString (u "^\d+'$") true) false))
                         (AQWithin (CInt 5))] in
  aprint a = true /\ unvisit a = Some c /\ sem c = true.
Proof. eexists. vm_compute. repeat split. Qed.

(* ---- the pinned visitor does not have the property (witnesses) ---- *)
Theorem visit_preserves_refuted_not_neq :          (* [a:b NOT != 1] *)
  wf w_not_neq = true /\ forall a, visit pinned w_not_neq = Ok a -> meaning_ast a <> meaning_cst w_not_neq.
Proof. exact not_neq_loses. Qed.
Print Assumptions visit_preserves_refuted_not_neq.

Theorem visit_preserves_refuted_not_in :           (* [a:b NOT IN (1, 2)] *)
  wf w_not_in = true /\ forall a, visit pinned w_not_in = Ok a -> meaning_ast a <> meaning_cst w_not_in.
Proof. exact not_in_loses. Qed.
Print Assumptions visit_preserves_refuted_not_in.

Theorem visit_preserves_refuted_not_like :         (* [a:b NOT LIKE 'x'], and MATCHES / ISSUBSET / ISSUPERSET *)
  forall o, wf (w_not_str o) = true /\ forall a, visit pinned (w_not_str o) = Ok a -> meaning_ast a <> meaning_cst (w_not_str o).
Proof. intros o; destruct o; [exact not_like_loses|exact not_matches_loses|exact not_issubset_loses|exact not_issuperset_loses]. Qed.
Print Assumptions visit_preserves_refuted_not_like.

Theorem visit_preserves_refuted_not_order :        (* [a:b NOT > 1] *)
  wf w_not_gt = true /\ visit pinned w_not_gt = Raise TypeError.
Proof. exact not_order_crashes. Qed.
Print Assumptions visit_preserves_refuted_not_order.

Theorem visit_preserves_refuted_within_float :     (* [a:b = 1] WITHIN 5.5 SECONDS *)
  wf w_within_float = true /\ visit pinned w_within_float = Raise ValueError.
Proof. exact within_float_crashes. Qed.
Print Assumptions visit_preserves_refuted_within_float.

Theorem visit_refuted_exists :                     (* [EXISTS a:b], under every variant *)
  forall g, wf w_exists = true /\ visit g w_exists = Raise Junk.
Proof. exact exists_crashes. Qed.
Print Assumptions visit_refuted_exists.

(* Props/C10.v -- property C10: pattern text <-> pattern object model.
   Statements only; proofs are in Proofs/Pattern*.v.

   Vocabulary
   Model/PatternSyntax.v:
     pattern        parse trees of the STIX 2.1 pattern grammar, one constructor per alternative
     wf c           every token carried by c has the lexical class the grammar asks for at its place
     yield c        the token sequence of c
     visit g c      stix2/pattern_visitor.py;  print g a : the tokens of str(a) (every __str__ of
                    stix2/patterns.py);  unvisit g a : a parse tree for the object a;
                    g : cfg is the variant of the code -- `pinned` the tree as found, `repaired` with
                    every proposed fix (NOT passed through, WITHIN <float>, positional floats, quoted
                    keys, h'', root_types updated on append, 'k'[*])
     meaning_cst c / meaning_ast g a   what a tree / an object says: every comparison with operator and
                    negation, typed constants, path steps, qualifiers, grouping
   Spec/PatternSpec.v:
     sv_fb c        the object the visitor builds, as plain structural recursion
     sem c          the visitor's remaining side conditions: representable timestamps, no EXISTS, no
                    [i][j], no AND over disjoint object types (listed findings / deliberate refusal),
                    and every float `fshort`
     fshort f       at most 15 significant digits, at most 300 integer and 300 fraction digits: the
                    floats Python holds exactly.  The model keeps every digit of a float; beyond
                    this bound float() rounds, the model is not a model of the library, and no
                    theorem below says anything (sem and aprint both require fshort)
     aprint a       names and constants of an object print to single tokens (floats fshort)
     well_grouped a, obs_level a   a parenthetical node wherever precedence requires one (syntactic)
     constructible a               the classes accept the object (ANDs have a common object type)
     vexpr a        the shape of the objects the visitor produces                                   *)
From Coq Require Import NArith ZArith List String Bool.
From V Require Import Model.PatternSyntax Spec.PatternSpec.
From V Require Proofs.PatternEscape Proofs.PatternRefuted Proofs.PatternObs Proofs.PatternMeaning Proofs.PatternFixpoint.
Import ListNotations.

(* string constants are escaped correctly: the literal the printer writes for
   a string lexes (StringLiteral rule) back to exactly that string *)
Theorem string_escape_roundtrip : forall s : ustring, lex_string (print_string s) = Some s.
Proof. exact PatternEscape.string_escape_roundtrip_lemma. Qed.
Print Assumptions string_escape_roundtrip.

(* the visitor yields an object with the same meaning *)
Theorem visit_preserves : forall c : pattern, wf c = true -> sem c = true ->
  exists a, visit repaired c = Ok a /\ meaning_ast repaired a = meaning_cst c.
Proof. exact PatternMeaning.visit_preserves_lemma. Qed.
Print Assumptions visit_preserves.

(* the visitor is the structural function sv_fb on those trees *)
Theorem visit_is_structural : forall c : pattern, wf c = true -> sem c = true -> visit repaired c = Ok (sv_fb c).
Proof. exact PatternObs.visit_sv. Qed.
Print Assumptions visit_is_structural.

(* printing is a fixed point of parse-then-print: the tokens printed for the
   object the visitor yields are exactly the yield of a well-formed parse tree
   that the visitor maps back to the same object (so, the grammar being
   unambiguous, parsing the printed text gives the same object and printing
   it again the same text); that tree is again within `sem` and has the
   meaning of the tree the object came from.
   NOT modelled: that the lexer cuts the characters of str(a) into exactly the
   tokens `print a` (maximal munch, the spaces str() writes); only string
   literals are proved at character level (string_escape_roundtrip).  The
   correspondence run compares the real lexer's tokens of str(a) with `print a`. *)
Theorem print_fixpoint : forall (c : pattern) (a : aexpr),
  wf c = true -> sem c = true -> visit repaired c = Ok a ->
  exists c', unvisit repaired a = Some c' /\ wf c' = true /\ sem c' = true /\ yield c' = print repaired a /\
             visit repaired c' = Ok a /\ meaning_cst c' = meaning_cst c.
Proof. exact PatternFixpoint.print_fixpoint_lemma. Qed.
Print Assumptions print_fixpoint.

(* objects assembled from the public classes, grouping expressed with the
   parenthetical node: the printed tokens are the yield of a well-formed parse
   tree within `sem`, and the visitor reads that tree back to an object with the
   same MEANING -- not the same structure: a left-nested chain of one operator,
   And(And(x, y), z), prints without parentheses and reads back as the n-ary
   And(x, y, z); meaning_ast reads n-ary chains the way the text does *)
Theorem programmatic_roundtrip : forall a : aexpr,
  aprint a = true -> well_grouped a = true -> obs_level a = true -> constructible a = true ->
  exists c, unvisit repaired a = Some c /\ wf c = true /\ sem c = true /\ yield c = print repaired a /\
  exists a', visit repaired c = Ok a' /\ meaning_ast repaired a' = meaning_ast repaired a.
Proof. exact PatternFixpoint.programmatic_roundtrip_lemma. Qed.
Print Assumptions programmatic_roundtrip.

(* unvisit is defined on every well grouped printable object *)
Theorem unvisit_total : forall a : aexpr,
  well_grouped a = true -> obs_level a = true -> aprint a = true -> exists c, unvisit repaired a = Some c.
Proof. exact PatternFixpoint.unvisit_defined. Qed.
Print Assumptions unvisit_total.

(* ---- the hypotheses are satisfiable ---- *)
Definition kt := PatternRefuted.kt.
Definition ex_path : objpath :=
  ObjPath (kt KIdentHyphen "network-traffic") (kt KIdent "extensions")
          (Some (OPathStep (OPathStep (OStep (KeyStep (kt KString "'http-request-ext'"))) (KeyStep (kt KIdent "request_header")))
                           (KeyStep (kt KString "'Accept Encoding'")))).
(* [network-traffic:extensions.'http-request-ext'.request_header.'Accept Encoding' NOT LIKE 'it\'s %' AND
    network-traffic:src_port IN (80, 443)] REPEATS 2 TIMES
   FOLLOWEDBY ([a:b[*].c >= 0.00001] OR [a:d = t'2020-02-29T23:59:59.5Z']) *)
Definition ex_obs (e : cmpor) : obs := OSimple e.
Definition ex_single (p : proptest) : cmpor := COrBase (CAndBase p).
Definition ex_o1 : obs :=
  OQual (ex_obs (COrBase (CAnd (CAndBase (PTStr SLike ex_path true (kt KString "'it\00005C's %'")))
                               (PTSet (ObjPath (kt KIdentHyphen "network-traffic") (kt KIdent "src_port") None) false
                                      [kt KIntPos "80"; kt KIntPos "443"]))))
        (QRepeat (kt KIntPos "2")).
Definition ex_o2 : obs :=
  ex_obs (ex_single (PTOrder (ObjPath (kt KIdent "a") (kt KIdent "b")
                                      (Some (OPathStep (OStep (IndexStep (kt KASTERISK "*"))) (KeyStep (kt KIdent "c")))))
                             false (kt KGE ">=") (kt KFloatPos "0.00001"))).
Definition ex_o3 : obs :=
  ex_obs (ex_single (PTEqual (ObjPath (kt KIdent "a") (kt KIdent "d") None) false (kt KEQ "=")
                             (kt KTimestamp "t'2020-02-29T23:59:59.5Z'"))).
Definition ex_pattern : pattern :=
  OFb (OFbBase (OOrBase (OAndBase ex_o1)))
      (OOrBase (OAndBase (OCompound (OFbBase (OOr (OOrBase (OAndBase ex_o2)) (OAndBase ex_o3)))))).
Example ex_admissible : wf ex_pattern = true /\ sem ex_pattern = true.
Proof. vm_compute. repeat split. Qed.
(* the float bound: 15 significant digits are inside sem / aprint, 16 are not
   (float('0.1234567890123456') still prints back, float('0.12345678901234567')
   does not: the bound is the safe one, DBL_DIG), magnitude does not count *)
Definition ex_float (s : string) : pattern :=
  OFbBase (OOrBase (OAndBase (ex_obs (ex_single (PTEqual (ObjPath (kt KIdent "a") (kt KIdent "b") None) false (kt KEQ "=")
                                                         (kt KFloatPos s)))))).
Example ex_float_bound :
  wf (ex_float "0.123456789012345") = true /\ sem (ex_float "0.123456789012345") = true /\
  wf (ex_float "999999999999999000000.0") = true /\ sem (ex_float "999999999999999000000.0") = true /\
  wf (ex_float "0.1234567890123456") = true /\ sem (ex_float "0.1234567890123456") = false /\
  aprint (ECmp KlEq (APath (u "a") [ABasic (u "b")]) (CFloat (FVal false [] [49;50;51;52;53;54;55;56;57;48;49;50;51;52;53;54]%N)) false) = false.
Proof. vm_compute. repeat split. Qed.
Example ex_programmatic :
  let a := ECompound OpAnd
             [EParen (ECompound OpOr [EObs (ECmp KlEq (APath (u "file") [ABasic (u "hashes"); ABasic (u "SHA-256")]) (CString (u "it's") true) true);
                                      EObs (ECmp KlIn (APath (u "a") [AList (u "b") (IdxInt 1)]) (CList [CInt 1; CBool true]) false)]);
              EObs (EBool true [ECmp KlLt (APath (u "a") [ARef (u "src_ref"); ABasic (u "c d")]) (CFloat (FVal false [49%N] [53%N])) false;
                                EParen (EBool false [ECmp KlEq (APath (u "a") [ABasic (u "x")]) (CInt 1) false;
                                                     ECmp KlEq (APath (u "b") [ABasic (u "x")]) (CInt 2) false])]);
              EQualified (EObs (ECmp KlMatches (APath (u "x-y") [ABasic (u "z")]) (CString (u "^\d+'$") true) false))
                         (AQWithin (CInt 5))] in
  aprint a = true /\ well_grouped a = true /\ obs_level a = true /\ constructible a = true.
Proof. vm_compute. repeat split. Qed.

(* ---- the tree as found (`pinned`) does not have the property: witnesses ---- *)
Import PatternRefuted.
Theorem visit_preserves_refuted_not_neq :          (* [a:b NOT != 1] *)
  wf w_not_neq = true /\ forall a, visit pinned w_not_neq = Ok a -> meaning_ast pinned a <> meaning_cst w_not_neq.
Proof. exact not_neq_loses. Qed.
Print Assumptions visit_preserves_refuted_not_neq.

Theorem visit_preserves_refuted_not_in :           (* [a:b NOT IN (1, 2)] *)
  wf w_not_in = true /\ forall a, visit pinned w_not_in = Ok a -> meaning_ast pinned a <> meaning_cst w_not_in.
Proof. exact not_in_loses. Qed.
Print Assumptions visit_preserves_refuted_not_in.

Theorem visit_preserves_refuted_not_like :         (* [a:b NOT LIKE 'x'], and MATCHES / ISSUBSET / ISSUPERSET *)
  forall o, wf (w_not_str o) = true /\ forall a, visit pinned (w_not_str o) = Ok a -> meaning_ast pinned a <> meaning_cst (w_not_str o).
Proof. intros o; destruct o; [exact not_like_loses|exact not_matches_loses|exact not_issubset_loses|exact not_issuperset_loses]. Qed.
Print Assumptions visit_preserves_refuted_not_like.

Theorem visit_preserves_refuted_not_order :        (* [a:b NOT > 1] *)
  wf w_not_gt = true /\ visit pinned w_not_gt = Raise TypeError.
Proof. exact not_order_crashes. Qed.
Print Assumptions visit_preserves_refuted_not_order.

Theorem visit_preserves_refuted_within_float :     (* [a:b = 1] WITHIN 5.5 SECONDS *)
  wf w_within_float = true /\ visit pinned w_within_float = Raise ValueError.
Proof. exact within_float_crashes. Qed.
Print Assumptions visit_preserves_refuted_within_float.

Theorem visit_preserves_refuted_hex_empty :        (* [a:b = h''] *)
  wf w_hex_empty = true /\ visit pinned w_hex_empty = Raise ValueError.
Proof. exact hex_empty_crashes. Qed.
Print Assumptions visit_preserves_refuted_hex_empty.

Theorem visit_preserves_refuted_key_star :         (* [a:b.'a-b'[*] = 1] *)
  wf w_key_star = true /\ visit pinned w_key_star = Raise AttributeError.
Proof. exact key_star_crashes. Qed.
Print Assumptions visit_preserves_refuted_key_star.

Theorem visit_preserves_refuted_root_types :       (* [(x:b = 1 OR y:b = 1 OR a:b = 1) AND a:b = 1] *)
  wf w_rt_stale = true /\ visit pinned w_rt_stale = Raise ValueError.
Proof. exact rt_stale_crashes. Qed.
Print Assumptions visit_preserves_refuted_root_types.

Theorem print_fixpoint_refuted_float :             (* [a:b = 0.00001] prints 1e-05 *)
  wf w_float_small = true /\ exists a, visit pinned w_float_small = Ok a /\ forallb token_ok (print pinned a) = false.
Proof. exact float_exponent_invalid. Qed.
Print Assumptions print_fixpoint_refuted_float.

Theorem print_fixpoint_refuted_quoted_key :        (* [a:b.'a b' = 1] prints a:b.a b *)
  wf w_key_space = true /\ exists a, visit pinned w_key_space = Ok a /\ forallb token_ok (print pinned a) = false.
Proof. exact quoted_key_invalid. Qed.
Print Assumptions print_fixpoint_refuted_quoted_key.

Theorem visit_refuted_exists :                     (* [EXISTS a:b], under every variant *)
  forall g, wf w_exists = true /\ visit g w_exists = Raise Junk.
Proof. exact exists_crashes. Qed.
Print Assumptions visit_refuted_exists.

(* Props/C10.v -- property C10: pattern text <-> pattern object model.
   Statements only; proofs are in Proofs/Pattern*.v.                         *)
From Coq Require Import NArith ZArith List String Bool.
From V Require Import Model.PatternSyntax Proofs.PatternEscape Proofs.PatternRefuted
  Proofs.PatternLit Proofs.PatternPath Proofs.PatternCmp Proofs.PatternObs Proofs.PatternMeaning.
Import ListNotations.

(* string constants are escaped correctly: the literal the printer writes for
   a string lexes (StringLiteral rule) back to exactly that string *)
Theorem string_escape_roundtrip : forall s : ustring, lex_string (print_string s) = Some s.
Proof. exact string_escape_roundtrip_lemma. Qed.
Print Assumptions string_escape_roundtrip.

(* For every well-formed parse tree (wf: one constructor per grammar
   alternative, every token of the lexical class the grammar asks for) that
   satisfies the side conditions `sem` (Proofs/PatternObs.v: real timestamps,
   no EXISTS, paths the visitor can build, ANDs the library does not refuse --
   each exclusion is a listed finding or a deliberate refusal), the visitor with
   NOT handled (`repaired`) yields an object with the same meaning: every
   comparison with its operator and negation, every constant, every path
   step, every qualifier, and the grouping. *)
Theorem visit_preserves : forall c : pattern, wf c = true -> sem c = true ->
  exists a, visit repaired c = Ok a /\ meaning_ast a = meaning_cst c.
Proof. exact visit_preserves_lemma. Qed.
Print Assumptions visit_preserves.

(* the visitor is the structural function sv_fb on those trees *)
Theorem visit_is_structural : forall c : pattern, wf c = true -> sem c = true -> visit repaired c = Ok (sv_fb c).
Proof. exact visit_sv. Qed.
Print Assumptions visit_is_structural.

(* ---- the pinned visitor does not have the property (witnesses) ---- *)
Theorem visit_preserves_refuted_not_neq :
  wf w_not_neq = true /\ forall a, visit pinned w_not_neq = Ok a -> meaning_ast a <> meaning_cst w_not_neq.
Proof. exact not_neq_loses. Qed.
Print Assumptions visit_preserves_refuted_not_neq.

Theorem visit_preserves_refuted_not_in :
  wf w_not_in = true /\ forall a, visit pinned w_not_in = Ok a -> meaning_ast a <> meaning_cst w_not_in.
Proof. exact not_in_loses. Qed.
Print Assumptions visit_preserves_refuted_not_in.

Theorem visit_preserves_refuted_not_order : wf w_not_gt = true /\ visit pinned w_not_gt = Raise TypeError.
Proof. exact not_order_crashes. Qed.
Print Assumptions visit_preserves_refuted_not_order.

(* Props/C16.v -- property C16 (canonical JSON conforms to RFC 8785), stated on
   the model Model/Jcs.v of NumberToJson.py / Canonicalize.py against
   Spec/Rfc8785.v and Spec/JcsSpec.v.  Statements only; proofs are in Proofs/Jcs*.v. *)
From Coq Require Import String NArith ZArith List Bool Sorted Permutation.
From V Require Import Base.UString Base.Json Model.JcsText Model.Jcs Spec.Rfc8785 Spec.JcsSpec Spec.JsonParse
  Spec.NumValue Proofs.JcsNumFacts Proofs.JcsEscFacts Proofs.JcsKeyFacts Proofs.JcsCanonFacts Proofs.JcsWsFacts Proofs.JcsParseFacts
  Spec.Reread Proofs.JcsNumValue Proofs.JcsNumRound Proofs.JcsReread.
Import ListNotations.
Open Scope N_scope.

(* ---- numbers ------------------------------------------------------------------- *)
(* the text written for a double whose shortest round-trip digits are ds (1..17 of
   them) with decimal exponent n is the ECMAScript Number::toString text -- for
   every digit string and every exponent in Z *)
Theorem num_es6 : forall neg ds n, wf_digits ds ->
  convert2es6 (py_repr neg ds n) = JOk (es6_tostring neg ds n).
Proof. exact num_es6_proof. Qed.
Print Assumptions num_es6.

Example num_es6_hyp_satisfiable : wf_digits [1; 2; 5].
Proof. exact wf_digits_example. Qed.

Theorem num_zero : convert2es6 [c_0; c_dot; c_0] = JOk [c_0] /\ convert2es6 [c_minus; c_0; c_dot; c_0] = JOk [c_0].
Proof. exact (conj num_zero_pos num_zero_neg). Qed.
Print Assumptions num_zero.

Theorem num_nan_inf_refused :
  convert2es6 (u "nan") = JRaise ValueError /\ convert2es6 (u "inf") = JRaise ValueError /\
  convert2es6 (u "-inf") = JRaise ValueError.
Proof. exact num_nan_inf_refused_proof. Qed.
Print Assumptions num_nan_inf_refused.

(* an int that float() cannot hold (it rounds to 2^1024 or beyond) is refused like NaN / Infinity *)
Theorem canon_refuses_too_large_int : forall z, float_overflows z = true -> canon (JInt z) = JRaise ValueError.
Proof. exact canon_refuses_too_large_int_proof. Qed.
Print Assumptions canon_refuses_too_large_int.

(* ---- strings --------------------------------------------------------------------- *)
Theorem canon_escape_minimal : forall s, escape s = rfc_escape s.
Proof. exact canon_escape_minimal_proof. Qed.
Print Assumptions canon_escape_minimal.

(* ---- member order ------------------------------------------------------------------ *)
(* the byte order of the model's sort key (key.encode('utf-16_be')) is the UTF-16
   code unit order of RFC 8785, and the key exists exactly for Unicode strings *)
Theorem sort_key_is_utf16_order : forall k1 k2 b1 b2, sort_key k1 = Some b1 -> sort_key k2 = Some b2 ->
  ustr_compare b1 b2 = ustr_compare (utf16 k1) (utf16 k2).
Proof. exact sort_key_compare. Qed.
Print Assumptions sort_key_is_utf16_order.

Theorem sort_key_defined_iff_scalar : forall k, (exists b, sort_key k = Some b) <-> Forall scalar k.
Proof.
  exact (fun k => conj (fun '(ex_intro _ b H) => proj1 (sort_key_some k b H))
                       (fun H => ex_intro _ _ (sort_key_scalar k H))).
Qed.
Print Assumptions sort_key_defined_iff_scalar.

(* canon is: order the members of every object by UTF-16 code units, then write the
   value down plainly (emit: no whitespace, RFC escaping, ES6 numbers) *)
Theorem canon_emit : forall v, keys_scalar v -> canon v = emit (sort_deep v).
Proof. exact canon_emit_proof. Qed.
Print Assumptions canon_emit.

Theorem canon_ok_emit : forall v t, canon v = JOk t -> keys_scalar v /\ emit (sort_deep v) = JOk t.
Proof. exact (fun v t H => conj (canon_ok_keys_scalar v t H) (canon_emit_ok_proof v t H)). Qed.
Print Assumptions canon_ok_emit.

(* members ordered by UTF-16 code units at every depth, for every value *)
Theorem canon_sorted : forall v, deep_ordered (sort_deep v).
Proof. exact canon_sorted_proof. Qed.
Print Assumptions canon_sorted.

(* sort_deep only reorders members (at every depth): the value canon_emit / canon_parse /
   canon_injective speak about is the original one up to member order -- nothing is dropped,
   duplicated or altered *)
Theorem sort_deep_jperm : forall v, jperm v (sort_deep v).
Proof. exact sort_deep_jperm_proof. Qed.
Print Assumptions sort_deep_jperm.

(* with distinct keys (a JSON object proper; every Python dict) the order is strict *)
Theorem canon_sorted_strict : forall v, nodup_keys v -> keys_scalar v -> deep_sorted (sort_deep v).
Proof. exact canon_sorted_strict_proof. Qed.
Print Assumptions canon_sorted_strict.

(* independence from member insertion order *)
Theorem canon_perm : forall ms ms', Permutation ms ms' -> NoDup (map fst ms) ->
  canon (JObj ms) = canon (JObj ms').
Proof. exact canon_perm_proof. Qed.
Print Assumptions canon_perm.

Theorem canon_perm_deep : forall v w, jperm v w -> nodup_keys v -> canon v = canon w.
Proof. exact canon_jperm_proof. Qed.
Print Assumptions canon_perm_deep.

(* ---- whitespace ---------------------------------------------------------------------- *)
Theorem canon_no_ws : forall v t, canon v = JOk t -> nums_clean v ->
  Forall (fun c => ~ is_ws c) (outside false t).
Proof. exact canon_no_ws_proof. Qed.
Print Assumptions canon_no_ws.

(* ---- fixed point ------------------------------------------------------------------------ *)
Theorem sort_deep_idem : forall v, sort_deep (sort_deep v) = sort_deep v.
Proof. exact sort_deep_idem_proof. Qed.
Print Assumptions sort_deep_idem.

Theorem canon_fixpoint : forall v, keys_scalar v -> canon (sort_deep v) = canon v.
Proof. exact canon_fixpoint_proof. Qed.
Print Assumptions canon_fixpoint.

(* ---- reading the text back ------------------------------------------------------------------ *)
(* an independent JSON reader (Spec/JsonParse.v) applied to the canonical text
   returns the value itself: members in key order, numbers as their canonical text *)
Theorem canon_parse : forall v t, canon v = JOk t -> nums_wf v -> parse_json t = Some (json_of v).
Proof. exact canon_parse_proof. Qed.
Print Assumptions canon_parse.

(* hence the canonical text determines the JSON value (used by C06) *)
Theorem canon_injective : forall v w t, canon v = JOk t -> canon w = JOk t -> nums_wf v -> nums_wf w ->
  json_of v = json_of w.
Proof. exact canon_injective_proof. Qed.
Print Assumptions canon_injective.

(* the hypotheses are satisfiable and the definitions compute: a key above U+FFFF
   sorts before a BMP key above the surrogate range (UTF-16 order, not code point order) *)
Example canon_example :
  let v := JObj [(u "\00FFFF", JInt 1); (u "\010000", JArr [JFloat (u "1e+21"); JStr (u "a\00000A")])] in
  nums_wf v /\ keys_scalar v /\ nodup_keys v /\
  option_map show_ustr (match canon v with JOk t => Some t | _ => None end) =
    Some "{\000022\010000\000022:[1e+21,\000022a\00005Cn\000022],\000022\00FFFF\000022:1}"%string /\
  (match canon v with JOk t => parse_json t | _ => None end) = Some (json_of v).
Proof.
  cbv zeta. split; [|split; [|split; [|split]]].
  - repeat constructor; discriminate.
  - repeat constructor; cbv; auto; intros H; discriminate.
  - repeat constructor; simpl; intuition discriminate.
  - vm_compute. reflexivity.
  - vm_compute. reflexivity.
Qed.

(* NaN and the infinities are refused wherever they occur in the value *)
Theorem canon_refuses_nonfinite : forall v, nonfinite v -> forall t, canon v <> JOk t.
Proof. exact canon_refuses_nonfinite_proof. Qed.
Print Assumptions canon_refuses_nonfinite.

(* ---- numbers keep their value ------------------------------------------------------------- *)
(* Spec/NumValue.v reads a JSON number text as (+/-) M * 10^E exactly.  The ECMAScript
   text written for digits ds and exponent n denotes 0.d1...dk * 10^n ... *)
Theorem es6_denotes : forall neg ds n, wf_digits ds -> denotes (es6_tostring neg ds n) neg ds n.
Proof. exact es6_denotes_proof. Qed.
Print Assumptions es6_denotes.

(* ... and so does the repr text the converter starts from: the conversion preserves the number *)
Theorem num_value_preserved : forall neg ds n, wf_digits ds ->
  exists t, convert2es6 (py_repr neg ds n) = JOk t /\ denotes (py_repr neg ds n) neg ds n /\ denotes t neg ds n.
Proof. exact num_value_preserved_proof. Qed.
Print Assumptions num_value_preserved.

(* the canonical text of a double is read back (Spec/JsonParse.v) as a number literal
   that denotes the double's decimal value: "parses back to the same value" for numbers *)
Theorem num_roundtrip : forall neg ds n, wf_digits ds ->
  exists t, canon (JFloat (py_repr neg ds n)) = JOk t /\ parse_json t = Some (JFloat t) /\
            denotes (py_repr neg ds n) neg ds n /\ denotes t neg ds n.
Proof. exact num_roundtrip_proof. Qed.
Print Assumptions num_roundtrip.

Example denotes_example : denotes (u "1.5e+21") false [1; 5] 22 /\ denotes (u "1500") false [1; 5] 4 /\
                          denotes (u "0.0000015") false [1; 5] (-5).
Proof. repeat split; [exists O|exists 2%nat|exists O]; vm_compute; reflexivity. Qed.

(* ---- the fixed point through a reader that interprets numbers -------------------------------- *)
(* canonicalize(json.loads(t)) = t.  Binary floating point is not modelled; what it must
   provide is stated as hypotheses of the theorem (not axioms), about two parameters:
     is_double neg ds n   (neg, ds, n) are the shortest round-trip digits of a finite non-zero double
     rr t                 repr(float(<the JSON number t>))  (through int first for integer texts)
   H_wf    such digits are 1..17 digits without leading / trailing zero;
   H_read  reading ANY text that denotes the decimal 0.d1...dk * 10^n gives that double back, and
           its repr is the one built from the shortest digits (correct rounding of float()/int->float,
           shortest-digits repr);
   H_zero  rr "0" = "0.0".
   Under them: the canonical text parses (independent reader) to json_of v, and canonicalizing what a
   number-interpreting reader returns for it gives the same text again.                              *)
Theorem canon_reread_fixpoint :
  forall (is_double : bool -> list N -> Z -> Prop) (rr : ustring -> ustring),
  (forall neg ds n, is_double neg ds n -> wf_digits ds) ->
  (forall neg ds n t, is_double neg ds n -> denotes t neg ds n -> rr t = py_repr neg ds n) ->
  rr [c_0] = [c_0; c_dot; c_0] ->
  forall v t, nums_double is_double v -> canon v = JOk t ->
    parse_json t = Some (json_of v) /\ canon (reread_deep rr (json_of v)) = JOk t.
Proof. exact canon_reread_fixpoint_proof. Qed.
Print Assumptions canon_reread_fixpoint.

(* the hypotheses of canon_reread_fixpoint are satisfiable non-trivially (instance built by the
   reviewer): is_double = exactly the double 1.5, rr = "0" -> "0.0", anything else -> "1.5";
   all three premises hold and nums_double holds of [1.5].  (nums_double has no JInt case: the
   reread fixed point does not speak about values containing Python ints.)                       *)
Definition ex_is_double (neg : bool) (ds : list N) (n : Z) : Prop := neg = false /\ ds = [1; 5] /\ n = 1%Z.
Definition ex_rr (t : ustring) : ustring := if ustr_eqb t [c_0] then [c_0; c_dot; c_0] else py_repr false [1; 5] 1.

Example canon_reread_fixpoint_hyps_satisfiable :
  (forall neg ds n, ex_is_double neg ds n -> wf_digits ds) /\
  (forall neg ds n t, ex_is_double neg ds n -> denotes t neg ds n -> ex_rr t = py_repr neg ds n) /\
  ex_rr [c_0] = [c_0; c_dot; c_0] /\
  nums_double ex_is_double (JArr [JFloat (py_repr false [1; 5] 1)]) /\
  (exists t, canon (JArr [JFloat (py_repr false [1; 5] 1)]) = JOk t /\
             canon (reread_deep ex_rr (json_of (JArr [JFloat (py_repr false [1; 5] 1)]))) = JOk t).
Proof.
  split; [|split; [|split; [|split]]].
  - intros neg ds n [_ [H _]]. subst. exact wf_digits_15.
  - intros neg ds n t [H1 [H2 H3]] D. subst. unfold ex_rr.
    destruct (ustr_eqb t [c_0]) eqn:E; [|reflexivity].
    exfalso. apply ustr_eqb_eq in E. subst t. destruct D as [z D].
    replace (read_number [c_0]) with (Some (false, 0, 0%Z)) in D by (vm_compute; reflexivity).
    injection D as D1 D2. change (dval [1; 5]) with 15 in D1.
    symmetry in D1. destruct (10 ^ N.of_nat z) eqn:P; [apply N.pow_nonzero in P; [exact P|discriminate]|discriminate].
  - reflexivity.
  - constructor. constructor; [|constructor]. constructor. right. right. exists false, [1; 5], 1%Z. repeat split.
  - eexists. split; vm_compute; reflexivity.
Qed.

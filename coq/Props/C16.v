(* Props/C16.v -- property C16 (canonical JSON conforms to RFC 8785), stated on
   the model Model/Jcs.v of NumberToJson.py / Canonicalize.py.  Statements only;
   proofs are in Proofs/Jcs*.v.                                               *)
From Coq Require Import String NArith ZArith List Bool.
From V Require Import Base.UString Base.Json Model.JcsText Model.Jcs Spec.Rfc8785 Proofs.JcsNumFacts.
Import ListNotations.
Open Scope N_scope.

Theorem num_zero : convert2es6 [c_0; c_dot; c_0] = JOk [c_0] /\ convert2es6 [c_minus; c_0; c_dot; c_0] = JOk [c_0].
Proof. exact (conj num_zero_pos num_zero_neg). Qed.
Print Assumptions num_zero.

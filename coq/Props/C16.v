(* Props/C16.v -- property C16 (canonical JSON conforms to RFC 8785), stated on
   the model Model/Jcs.v of NumberToJson.py / Canonicalize.py.  Statements only;
   proofs are in Proofs/Jcs*.v.                                               *)
From Coq Require Import String NArith ZArith List Bool.
From V Require Import Base.UString Base.Json Model.JcsText Model.Jcs Spec.Rfc8785 Proofs.JcsNumFacts.
Import ListNotations.
Open Scope N_scope.

(* numbers: the text written for a double whose shortest round-trip digits are
   ds (1..17 of them) with decimal exponent n is the ECMAScript text -- for every
   digit string and every exponent in Z *)
Theorem num_es6 : forall neg ds n, wf_digits ds ->
  convert2es6 (py_repr neg ds n) = JOk (es6_tostring neg ds n).
Proof. exact num_es6_proof. Qed.
Print Assumptions num_es6.

Example num_es6_hyp_satisfiable : wf_digits [1; 2; 5].
Proof. exact wf_digits_example. Qed.

Theorem num_zero : convert2es6 [c_0; c_dot; c_0] = JOk [c_0] /\ convert2es6 [c_minus; c_0; c_dot; c_0] = JOk [c_0].
Proof. exact (conj num_zero_pos num_zero_neg). Qed.
Print Assumptions num_zero.

Theorem num_nan_inf_refused :
  convert2es6 (u "nan") = JRaise ValueError /\ convert2es6 (u "inf") = JRaise ValueError /\
  convert2es6 (u "-inf") = JRaise ValueError.
Proof. exact num_nan_inf_refused_proof. Qed.
Print Assumptions num_nan_inf_refused.

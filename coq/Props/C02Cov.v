(* Props/C02Cov.v -- C02, larger coverage: the statement of Props/C02.v:strict_sound_partial with the
   coverage predicate class_proved replaced by the larger class_proved2 (Proofs/SchemaCovProved.v).
   Only statements; proofs are in Proofs/SchemaCov*.v (which reuse the object-level lemmas of
   Proofs/SchemaObject.v unchanged).

   class_proved2 n w oc = true: the class of the result, and every class it can embed, only uses
     property kinds   leaf_proved (Proofs/SchemaProved.v) + KId, KRef, KHashes (hash_names_ok), KFloat,
                      KMarking, KExtensions (every registered extension class of the version covered),
                      KObservable (every registered observable class covered and writing its own `type`),
                      lists and embedded objects of covered kinds / classes;
     co-constraints   constr_proved + CRaiseIf, CWhen (conditions: truthiness of non-object properties
                      and of wrapped marking objects, presence, is True / is not False, timestamps
                      compared as instants, and / or / not), CLegalHashes, CSocketOptions (repaired
                      variant vr_sock_int), CPatternValidator (2.1: pattern_type a required string
                      property), CTlp;
     __init__ forms   init_proved + v21 MarkingDefinition.__init__ (IMarkingDefinition V21: every
                      registered marking class covered, never empty, `tlp` never elided).
   NOT covered, and why:
     2.0/MarkingDefinition   IMarkingDefinition V20 switches the precision of `created` per instance and
                             emits a `created` without milliseconds: known finding
                             C02-v20-marking-definition-created-without-milliseconds (the frozen
                             specification refuses the output; only the relaxed one accepts it);
     2.0/Bundle, 2.1/Bundle  KStixObject: a bundle member may be a 2.0 marking-definition (the version of
                             a member is detected per member), so no bundle can be covered while the
                             class above is not.
   lib_covered2 lists the classes of the generated tables for which class_proved2 holds; it is
   recomputed by the kernel on every build (coverage_counts = (|lib_covered2|, |lib_covered|, all)).   *)
From Coq Require Import NArith ZArith List String Bool.
From V Require Import Base.UString Base.Json Model.SchemaTypes Model.PyBase Model.Schema Model.SchemaRun
     Spec.StixValid Spec.SchemaRefine Gen.Tables Gen.SpecTables
     Proofs.SchemaScope Proofs.SchemaProved Proofs.SchemaKnot Proofs.SchemaTables Proofs.SchemaC02
     Proofs.SchemaCovProved Proofs.SchemaCovKnot Proofs.SchemaCovC02.
Import ListNotations.

(* for an ARBITRARY class table w and specification table sp *)
Theorem strict_sound_partial2 :
  forall (vr : variant) (ev : env) (w sp : world)
         (pattern_ok : ver -> ustring -> bool) (selectors_ok : list (ustring * pval) -> pval -> result bool)
         (fuel n : nat) (req : request) oc inner dfl hc,
    variant_sound vr = true -> env_ok ev = true -> world_refines w sp = true ->
    req_strict req = true -> req_scope req = true ->
    run vr ev w pattern_ok selectors_ok fuel req = Ok (PObject oc inner dfl hc) ->
    class_proved2 n w oc = true ->
    hc = false /\ exists m, valid_obj sp pattern_ok m oc (encode false (PObject oc inner dfl hc)) = true.
Proof. exact strict_sound_partial2_gen. Qed.
Print Assumptions strict_sound_partial2.

(* ... instantiated with the tables regenerated from /repo and the frozen specification (relaxed where
   Props/C02.v:lib_refines_spec_modulo_failures says) *)
Theorem strict_sound_partial2_generated_tables :
  forall (vr : variant) (ev : env) pattern_ok selectors_ok fuel req oc inner dfl hc,
    variant_sound vr = true -> env_ok ev = true ->
    req_strict req = true -> req_scope req = true ->
    run vr ev lib pattern_ok selectors_ok fuel req = Ok (PObject oc inner dfl hc) ->
    In oc lib_covered2 ->
    hc = false /\ exists m, valid_obj spec_relaxed pattern_ok m oc (encode false (PObject oc inner dfl hc)) = true.
Proof. exact strict_sound_partial2_lib. Qed.
Print Assumptions strict_sound_partial2_generated_tables.

(* the larger predicate covers every class the smaller one does (generated tables) *)
Theorem covered2_contains_covered : forallb (fun c => mem_ustr c lib_covered2) lib_covered = true.
Proof. exact lib_covered_sub. Qed.
Print Assumptions covered2_contains_covered.

(* the defective socket-option variant (isinstance(True, int)) is refuted: a strict, in-scope request
   that succeeds and whose serialization no validator fuel accepts *)
Theorem strict_sound_refuted_socket_option_boolean :
  req_strict req_sock_bool = true /\ req_scope req_sock_bool = true /\
  exists oc inner dfl,
    run vr_sock_bool sentinel_env sock_world witness_pok witness_sok 6 req_sock_bool = Ok (PObject oc inner dfl false) /\
    forall m, valid_obj sock_world witness_pok m oc (encode false (PObject oc inner dfl false)) = false.
Proof. exact refuted_sock_bool. Qed.
Print Assumptions strict_sound_refuted_socket_option_boolean.

(* the hypotheses are satisfiable; how much is covered *)
Example covered2_nonempty : lib_covered2 <> []. Proof. discriminate. Qed.
Eval vm_compute in coverage_counts.
Eval vm_compute in map show_ustr lib_uncovered2.

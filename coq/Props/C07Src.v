(* Props/C07Src.v -- C07 for the model instance denoted by the CURRENT SOURCE TEXT (see Props/C08Src.v):
   the startswith tests of granular get_markings / is_marked and the `inherited` branch of
   markings.is_marked, as read from the ast by translators/tr_markings.py. *)
From Coq Require Import String.
From Coq Require Import NArith ZArith List Bool.
From V Require Import Base.UString Model.Markings Spec.MarkingSpec Gen.MarkingFacts
                      Proofs.MarkingsC08 Proofs.MarkingsC07Sets Proofs.MarkingsC07Ops Proofs.MarkingsC07Query Proofs.MarkingsSrc.
Import ListNotations.

Theorem source_text_is_repaired : c_api src_cfg = SameMarking /\ c_inherit src_cfg = ByPathTree.
Proof. exact (conj src_api src_inherit). Qed.
Print Assumptions source_text_is_repaired.

Theorem source_query_agreement : forall o m sels i d b res,
  nonempty m = true ->
  is_marked src_cfg o [m] sels i d = Ok b ->
  get_markings src_cfg o sels i d true true = Ok res ->
  (b = true <-> In m res).
Proof. exact src_query_agreement. Qed.
Print Assumptions source_query_agreement.

Theorem source_inherit_is_tree : forall o sels i d res m,
  g_get_markings src_cfg o sels i d true true = Ok res ->
  (In m res <->
   exists us a, In us sels /\ In (a, m) (pairs (gms_list o)) /\
     (us = a \/ (i = true /\ proper_ancestor a us) \/ (d = true /\ proper_ancestor us a))).
Proof. exact src_inherit_is_tree. Qed.
Print Assumptions source_inherit_is_tree.

(* the text asks versioning.new_version to change nothing but object_marking_refs / granular_markings
   (src_nv_changed_keys: keyword names of the new_version calls in granular_markings.py, object_markings.py) *)
Theorem source_changes_only_marking_keys : forall k, In k src_nv_changed_keys -> In k marking_keys.
Proof. exact src_changes_only_marking_keys. Qed.
Print Assumptions source_changes_only_marking_keys.

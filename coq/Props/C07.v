(* Props/C07.v -- property C07: data-marking operations form a consistent
   algebra over (selector, marking) pairs.  Statements only; proofs in
   Proofs/MarkingsC07Sets.v, MarkingsC07Ops.v, MarkingsC07Query.v.

   Model/Markings.v mirrors stix2/markings/{__init__,granular_markings,
   object_markings,utils}.py and the part of versioning.new_version / the
   constructor the marking functions go through; every deviation of the pinned
   code is a variant parameter (record cfg).  Spec/MarkingSpec.v: `pairs gs`
   is the set of (selector, marking) pairs a list of granular markings stands
   for; same_set = equality as sets; product sels ms = sels x ms;
   real ms = ms without the empty string; minus; well_kinded; cleared;
   proper_ancestor / ancestor_or_self on '.'-separated paths.
   A theorem about an operation has the hypothesis "the operation returned Ok
   o'" -- when it raises (invalid selector, marking not found, revoked, ...)
   there is no result to speak about; which error is raised is part of the
   correspondence run, not of these statements.                           *)
From Coq Require Import String.
From Coq Require Import NArith ZArith List Bool.
From V Require Import Base.UString Model.Markings Spec.MarkingSpec
                      Proofs.MarkingsC08 Proofs.MarkingsC07Sets Proofs.MarkingsC07Ops Proofs.MarkingsC07Query.
Import ListNotations.

(* ---- the normal form: expand / compress keep the pair set ---- *)

Theorem pairs_expand : forall gs, same_set (pairs (expand_markings gs)) (pairs gs).
Proof. exact MarkingsC07Sets.pairs_expand. Qed.
Print Assumptions pairs_expand.

(* olist = what .get('granular_markings', []) sees of compress_markings' result (None when empty) *)
Theorem pairs_compress : forall gs, same_set (pairs (olist (compress_markings gs))) (pairs gs).
Proof. exact MarkingsC07Sets.pairs_compress. Qed.
Print Assumptions pairs_compress.

Theorem compress_well_kinded : forall gs, well_kinded (olist (compress_markings gs)).
Proof. exact MarkingsC07Sets.compress_well_kinded. Qed.
Print Assumptions compress_well_kinded.

(* ---- granular operations on the pair set (every variant c) ---- *)

Theorem add_pairs : forall c o ms sels o',
  g_add_markings c o ms sels = Ok o' ->
  same_set (pairs (gms_list o')) (pairs (gms_list o) ++ product sels (real ms)).
Proof. exact g_add_pairs. Qed.
Print Assumptions add_pairs.

Theorem add_idempotent : forall c o ms sels o1 o2,
  g_add_markings c o ms sels = Ok o1 -> g_add_markings c o1 ms sels = Ok o2 ->
  same_set (pairs (gms_list o2)) (pairs (gms_list o1)).
Proof. exact MarkingsC07Ops.add_idempotent. Qed.
Print Assumptions add_idempotent.

Theorem add_commutes : forall c o ma sa mb sb oa oab ob oba,
  g_add_markings c o ma sa = Ok oa -> g_add_markings c oa mb sb = Ok oab ->
  g_add_markings c o mb sb = Ok ob -> g_add_markings c ob ma sa = Ok oba ->
  same_set (pairs (gms_list oab)) (pairs (gms_list oba)).
Proof. exact MarkingsC07Ops.add_commutes. Qed.
Print Assumptions add_commutes.

(* well_kinded: every marking_ref is a marking-definition id and no lang tag is one.  It holds for
   every result of a mutator (compress_well_kinded / *_frame) and for every constructed object. *)
Theorem remove_pairs : forall c o ms sels o',
  well_kinded (gms_list o) ->
  g_remove_markings c o ms sels = Ok o' ->
  same_set (pairs (gms_list o')) (minus (pairs (gms_list o)) (product sels ms)).
Proof. exact g_remove_pairs. Qed.
Print Assumptions remove_pairs.

(* "removing what was just added restores the previous set": the hypothesis that the added pairs
   were new is needed -- a set has no multiplicities, so removing (s, m) that was present before
   the add takes it away (remove_after_add_general says exactly what is left). *)
Theorem remove_after_add : forall c o ms sels o1 o2,
  (forall p, In p (product sels ms) -> ~ In p (pairs (gms_list o))) ->
  g_add_markings c o ms sels = Ok o1 -> g_remove_markings c o1 ms sels = Ok o2 ->
  same_set (pairs (gms_list o2)) (pairs (gms_list o)).
Proof. exact MarkingsC07Ops.remove_after_add. Qed.
Print Assumptions remove_after_add.

Theorem remove_after_add_general : forall c o ms sels o1 o2,
  g_add_markings c o ms sels = Ok o1 -> g_remove_markings c o1 ms sels = Ok o2 ->
  same_set (pairs (gms_list o2)) (minus (pairs (gms_list o)) (product sels ms)).
Proof. exact MarkingsC07Ops.remove_after_add_general. Qed.
Print Assumptions remove_after_add_general.

(* clearing with the default flags: nothing left on the cleared selectors, everything elsewhere kept *)
Theorem clear_pairs : forall c o sels o',
  g_clear_markings c o sels true true = Ok o' ->
  same_set (pairs (gms_list o')) (filter (fun p => negb (mem_ustr (fst p) sels)) (pairs (gms_list o))).
Proof. exact g_clear_pairs_all. Qed.
Print Assumptions clear_pairs.

(* with the marking_ref / lang flags: cleared sels r l (s, m) = s in sels and (if is_marking m then r else l) *)
Theorem clear_pairs_flags : forall c o sels r l o',
  well_kinded (gms_list o) ->
  g_clear_markings c o sels r l = Ok o' ->
  same_set (pairs (gms_list o')) (filter (fun p => negb (cleared sels r l p)) (pairs (gms_list o))).
Proof. exact g_clear_pairs. Qed.
Print Assumptions clear_pairs_flags.

Theorem set_is_clear_add : forall c o ms sels r l,
  g_set_markings c o ms sels r l =
  match g_clear_markings c o sels r l with Err e => Err e | Ok o1 => g_add_markings c o1 ms sels end.
Proof. exact g_set_is_clear_add. Qed.
Print Assumptions set_is_clear_add.

Theorem set_pairs : forall c o ms sels r l o',
  well_kinded (gms_list o) ->
  g_set_markings c o ms sels r l = Ok o' ->
  same_set (pairs (gms_list o'))
           (filter (fun p => negb (cleared sels r l p)) (pairs (gms_list o)) ++ product sels (real ms)).
Proof. exact g_set_pairs. Qed.
Print Assumptions set_pairs.

(* ---- after adding the marking is reported; after clearing it is not ---- *)

Theorem add_then_get : forall c o ms sels o1 s m i d res,
  g_add_markings c o ms sels = Ok o1 ->
  In s sels -> In m ms -> nonempty m = true ->
  g_get_markings c o1 [s] i d true true = Ok res ->
  In m res.
Proof. exact MarkingsC07Query.add_then_get. Qed.
Print Assumptions add_then_get.

Theorem add_then_is_marked : forall c o ms sels o1 s m i d b,
  g_add_markings c o ms sels = Ok o1 ->
  In s sels -> In m ms -> nonempty m = true ->
  g_is_marked c o1 [m] [s] i d = Ok b ->
  b = true.
Proof. exact MarkingsC07Query.add_then_is_marked. Qed.
Print Assumptions add_then_is_marked.

Theorem clear_then_get : forall c o sels o1 s res,
  g_clear_markings c o sels true true = Ok o1 -> In s sels ->
  g_get_markings c o1 [s] false false true true = Ok res ->
  res = [].
Proof. exact MarkingsC07Query.clear_then_get. Qed.
Print Assumptions clear_then_get.

(* ---- object level: the same laws on the set of object markings ---- *)

Theorem obj_level_add : forall c o ms o',
  o_add_markings c o ms = Ok o' ->
  (forall x, In x (omr_list o') <-> In x (omr_list o) \/ In x ms) /\
  gms_list o' = gms_list o /\ o_props o' = bumped (o_props o) /\ o_kind o' = o_kind o.
Proof. exact o_add_set. Qed.
Print Assumptions obj_level_add.

Theorem obj_level_remove : forall c o ms o',
  o_remove_markings c o ms = Ok o' ->
  (forall x, In x (omr_list o') <-> In x (omr_list o) /\ ~ In x ms) /\
  (forall x, In x ms -> omr_list o <> [] -> In x (omr_list o)) /\
  gms_list o' = gms_list o.
Proof. exact o_remove_set. Qed.
Print Assumptions obj_level_remove.

Theorem obj_level_clear : forall c o o',
  o_clear_markings c o = Ok o' -> omr_list o' = [] /\ gms_list o' = gms_list o /\ o_props o' = bumped (o_props o).
Proof. exact o_clear_set. Qed.
Print Assumptions obj_level_clear.

Theorem obj_level_set_is_clear_add : forall c o ms,
  o_set_markings c o ms = match o_clear_markings c o with Err e => Err e | Ok o1 => o_add_markings c o1 ms end.
Proof. exact o_set_is_clear_add. Qed.
Print Assumptions obj_level_set_is_clear_add.

Theorem obj_level_set : forall c o ms o',
  o_set_markings c o ms = Ok o' -> (forall x, In x (omr_list o') <-> In x ms) /\ gms_list o' = gms_list o.
Proof. exact o_set_set. Qed.
Print Assumptions obj_level_set.

Theorem obj_level_add_idempotent : forall c o ms o1 o2,
  o_add_markings c o ms = Ok o1 -> o_add_markings c o1 ms = Ok o2 ->
  forall x, In x (omr_list o2) <-> In x (omr_list o1).
Proof. exact o_add_idempotent. Qed.
Print Assumptions obj_level_add_idempotent.

Theorem obj_level_remove_after_add : forall c o ms o1 o2,
  (forall x, In x ms -> ~ In x (omr_list o)) ->
  o_add_markings c o ms = Ok o1 -> o_remove_markings c o1 ms = Ok o2 ->
  forall x, In x (omr_list o2) <-> In x (omr_list o).
Proof. exact o_remove_after_add. Qed.
Print Assumptions obj_level_remove_after_add.

(* ---- every result is a new version whose non-marking content is unchanged ---- *)
(* bumped props = props with `modified` replaced by the new timestamp (and None-valued keys dropped, as
   new_version does); that the new timestamp is strictly later is C05's theorem, checked here on the
   implementation by the oracle.  remove / clear return the object itself when it has no granular marking. *)

Theorem add_is_new_version : forall c o ms sels o',
  g_add_markings c o ms sels = Ok o' ->
  omr_list o' = omr_list o /\ o_props o' = bumped (o_props o) /\ o_kind o' = o_kind o /\
  well_kinded (gms_list o').
Proof. exact g_add_frame. Qed.
Print Assumptions add_is_new_version.

Theorem remove_is_new_version : forall c o ms sels o',
  g_remove_markings c o ms sels = Ok o' ->
  o' = o \/ (omr_list o' = omr_list o /\ o_props o' = bumped (o_props o) /\ o_kind o' = o_kind o /\
             well_kinded (gms_list o')).
Proof. exact g_remove_frame. Qed.
Print Assumptions remove_is_new_version.

Theorem clear_is_new_version : forall c o sels r l o',
  g_clear_markings c o sels r l = Ok o' ->
  o' = o \/ (omr_list o' = omr_list o /\ o_props o' = bumped (o_props o) /\ o_kind o' = o_kind o /\
             well_kinded (gms_list o')).
Proof. exact g_clear_frame. Qed.
Print Assumptions clear_is_new_version.

(* a result that is a rebuilt object passed the constructor's checks, and the input was versionable *)
Theorem result_is_valid : forall c o omr' gms' o',
  new_version c o omr' gms' = Ok o' ->
  o_kind o' = o_kind o /\ o_v21 o' = o_v21 o /\ o_vtype o' = o_vtype o /\
  o_props o' = bumped (o_props o) /\
  omr_list o' = opt_ulist omr' /\ gms_list o' = olist gms' /\
  ctor_check c o' = None /\ check_versionable o = None /\ is_revoked o = false.
Proof. exact new_version_ok. Qed.
Print Assumptions result_is_valid.

(* every mutator result is the input itself or versioning.new_version of it with only the two marking
   properties replaced (set: two such steps).  Props/C07Versioning.v carries C05's theorems over to
   exactly these calls: the result is strictly later and all other content is kept. *)
Theorem mutators_via_new_version : forall c o m sels r l o',
  (add_markings c o m sels = Ok o' \/ remove_markings c o m sels = Ok o' \/ clear_markings c o sels r l = Ok o') ->
  o' = o \/ exists omr' gms', new_version c o omr' gms' = Ok o'.
Proof. exact MarkingsC07Ops.mutators_via_new_version. Qed.
Print Assumptions mutators_via_new_version.

Theorem set_via_new_version : forall c o m sels r l o',
  set_markings c o m sels r l = Ok o' ->
  exists o1, via_new_version c o o1 /\ via_new_version c o1 o'.
Proof. exact MarkingsC07Ops.set_via_new_version. Qed.
Print Assumptions set_via_new_version.

(* ---- the hypotheses "... = Ok o'" of the theorems above are satisfiable: a constructed (KObj, so the
        constructor's checks run) 2.1 identity carrying the object marking GREEN goes through every mutator,
        in the repaired and in the pinned variant, with the pair sets the laws give ---- *)
Definition ex_identity_obj : sobj :=
  mkobj KObj true true
        [(u "type", VStr (u "identity")); (u "name", VStr (u "ACME")); (u "created", VTime (u "t0"));
         (u "modified", VTime (u "t0"))]
        (Some [green_id]) None.

Definition mutators_succeed_for (c : cfg) : Prop :=
  match g_add_markings c ex_identity_obj [red_id] [u "name"] with
  | Err _ => False
  | Ok o1 =>
      pairs (gms_list o1) = [(u "name", red_id)] /\ omr_list o1 = [green_id] /\
      match g_set_markings c o1 [green_id] [u "name"] true true,
            g_remove_markings c o1 [red_id] [u "name"],
            g_clear_markings c o1 [u "name"] true true,
            o_add_markings c o1 [red_id] with
      | Ok o2, Ok o3, Ok o4, Ok o5 =>
          pairs (gms_list o2) = [(u "name", green_id)] /\ pairs (gms_list o3) = [] /\ pairs (gms_list o4) = [] /\
          omr_list o5 = [green_id; red_id] /\ pairs (gms_list o5) = [(u "name", red_id)] /\
          match o_remove_markings c o5 [green_id] with
          | Ok o6 => omr_list o6 = [red_id] /\ o6 <> o5
          | Err _ => False
          end
      | _, _, _, _ => False
      end
  end.

Example mutators_succeed : mutators_succeed_for cfg_repaired /\ mutators_succeed_for cfg_pinned.
Proof. split; vm_compute; repeat split; try reflexivity; discriminate. Qed.

(* ---- the queries agree with one another ---- *)

Theorem query_agreement_granular : forall c o m sels i d b res,
  nonempty m = true ->
  g_is_marked c o [m] sels i d = Ok b ->
  g_get_markings c o sels i d true true = Ok res ->
  (b = true <-> In m res).
Proof. exact g_query_agreement. Qed.
Print Assumptions query_agreement_granular.

Theorem query_errors_agree : forall c o ms sels i d r l e,
  g_is_marked c o ms sels i d = Err e <-> g_get_markings c o sels i d r l = Err e.
Proof. exact g_query_errors_agree. Qed.
Print Assumptions query_errors_agree.

(* the dispatching API (object level when sels = None; object markings joined in when inherited):
   full for the repaired combination, refuted by a witness for the pinned one *)
Theorem query_agreement : forall c, c_api c = SameMarking ->
  forall o m sels i d b res,
    nonempty m = true ->
    is_marked c o [m] sels i d = Ok b ->
    get_markings c o sels i d true true = Ok res ->
    (b = true <-> In m res).
Proof. exact MarkingsC07Query.query_agreement. Qed.
Print Assumptions query_agreement.

Theorem query_agreement_refuted :
  exists o m sels i d res,
    nonempty m = true /\
    is_marked (with_api AnyObjectMarking) o [m] sels i d = Ok true /\
    get_markings (with_api AnyObjectMarking) o sels i d true true = Ok res /\ ~ In m res.
Proof. exact api_refuted. Qed.
Print Assumptions query_agreement_refuted.

(* is_marked with a list of markings (outside the property text, which speaks of one marking M): the
   granular function demands ALL of them, the object-level function ANY -- both docstrings say ANY.
   Stated here so that the behaviour is pinned; the correspondence run covers the dispatching mixture. *)
Theorem is_marked_many_granular : forall c o ms sels i d b res,
  ms <> [] -> (forall m, In m ms -> nonempty m = true) ->
  g_is_marked c o ms sels i d = Ok b ->
  g_get_markings c o sels i d true true = Ok res ->
  (b = true <-> forall m, In m ms -> In m res).
Proof. exact g_is_marked_many. Qed.
Print Assumptions is_marked_many_granular.

Theorem is_marked_many_object : forall o ms, ms <> [] ->
  (o_is_marked o ms = true <-> exists m, In m ms /\ In m (omr_list o)).
Proof. exact o_is_marked_many. Qed.
Print Assumptions is_marked_many_object.

(* is_marked without a marking = "get_markings reports something", when every granular marking carries an
   identifier (labelled; true after every mutator: compress_labelled) *)
Theorem is_marked_none : forall c o sels i d b res,
  labelled (gms_list o) ->
  g_is_marked c o [] sels i d = Ok b ->
  g_get_markings c o sels i d true true = Ok res ->
  (b = true <-> res <> []).
Proof. exact g_is_marked_none. Qed.
Print Assumptions is_marked_none.

Theorem compress_labelled : forall gs, labelled (olist (compress_markings gs)).
Proof. exact MarkingsC07Query.compress_labelled. Qed.
Print Assumptions compress_labelled.

(* the API functions dispatch on `selectors is None` and nothing else *)
Theorem dispatch : forall c o m ss r l i d,
  add_markings c o m (Some ss) = g_add_markings c o m ss /\ add_markings c o m None = o_add_markings c o m /\
  remove_markings c o m (Some ss) = g_remove_markings c o m ss /\ remove_markings c o m None = o_remove_markings c o m /\
  clear_markings c o (Some ss) r l = g_clear_markings c o ss r l /\ clear_markings c o None r l = o_clear_markings c o /\
  set_markings c o m (Some ss) r l = g_set_markings c o m ss r l /\ set_markings c o m None r l = o_set_markings c o m /\
  get_markings c o None i d r l = Ok (omr_list o) /\ is_marked c o m None i d = Ok (o_is_marked o m).
Proof. exact MarkingsC07Query.dispatch. Qed.
Print Assumptions dispatch.

(* ---- inherited and descendant lookups follow the path tree ---- *)

Theorem get_pairs : forall c o sels i d res m,
  g_get_markings c o sels i d true true = Ok res ->
  (In m res <-> exists us a, In us sels /\ In (a, m) (pairs (gms_list o)) /\ sel_match c i d us a = true).
Proof. exact g_get_pairs. Qed.
Print Assumptions get_pairs.

Theorem dotted_prefix_is_ancestor : forall a s,
  ustr_prefix (a ++ [dot]) s = true <-> proper_ancestor a s.
Proof. exact MarkingsC07Query.dotted_prefix_is_ancestor. Qed.
Print Assumptions dotted_prefix_is_ancestor.

Theorem inherit_is_tree : forall c, c_inherit c = ByPathTree ->
  forall o sels i d res m,
    g_get_markings c o sels i d true true = Ok res ->
    (In m res <->
     exists us a, In us sels /\ In (a, m) (pairs (gms_list o)) /\
       (us = a \/ (i = true /\ proper_ancestor a us) \/ (d = true /\ proper_ancestor us a))).
Proof. exact MarkingsC07Query.inherit_is_tree. Qed.
Print Assumptions inherit_is_tree.

Theorem inherited_lookup : forall c, c_inherit c = ByPathTree ->
  forall o s res m,
    g_get_markings c o [s] true false true true = Ok res ->
    (In m res <-> exists a, In (a, m) (pairs (gms_list o)) /\ ancestor_or_self a s).
Proof. exact MarkingsC07Query.inherited_lookup. Qed.
Print Assumptions inherited_lookup.

Theorem descendant_lookup : forall c, c_inherit c = ByPathTree ->
  forall o s res m,
    g_get_markings c o [s] false true true true = Ok res ->
    (In m res <-> exists a, In (a, m) (pairs (gms_list o)) /\ ancestor_or_self s a).
Proof. exact MarkingsC07Query.descendant_lookup. Qed.
Print Assumptions descendant_lookup.

Theorem inherit_refuted :
  exists o s res m,
    g_get_markings (with_inherit ByPrefix) o [s] true false true true = Ok res /\ In m res /\
    ~ exists a, In (a, m) (pairs (gms_list o)) /\ ancestor_or_self a s.
Proof. exact MarkingsC07Query.inherit_refuted. Qed.
Print Assumptions inherit_refuted.

(* the hypotheses are satisfiable, and the repaired variants behave on the witnesses *)
Example repaired_satisfies_hypotheses : c_api cfg_repaired = SameMarking /\ c_inherit cfg_repaired = ByPathTree.
Proof. split; reflexivity. Qed.

Theorem witnesses_when_repaired :
  g_get_markings (with_inherit ByPathTree) inherit_witness [u "created_by_ref"] true false true true = Ok [] /\
  g_get_markings (with_inherit ByPathTree) inherit_witness [u "created"] true false true true = Ok [red_id] /\
  is_marked (with_api SameMarking) api_witness [red_id] (Some [u "name"]) true false = Ok false /\
  is_marked (with_api SameMarking) api_witness [green_id] (Some [u "name"]) true false = Ok true.
Proof.
  exact (conj (proj1 inherit_repaired_on_witness) (conj (proj2 inherit_repaired_on_witness)
        (conj (proj1 api_repaired_on_witness) (proj2 api_repaired_on_witness)))).
Qed.
Print Assumptions witnesses_when_repaired.

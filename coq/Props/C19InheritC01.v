(* Props/C19InheritC01.v -- property C19, `registered custom types enjoy the same round-trip
   guarantees`: the C01 builder's round-trip theorems (Props/C01.v: roundtrip_equal_partial,
   reserialize_identical_partial, roundtrip_equal_parse_partial -- stated for an arbitrary class table
   under boolean table conditions) instantiated at the library world extended by a registered custom
   type, and the table conditions evaluated by the kernel for example custom types of every kind
   (the same examples as Props/C19InheritC02.v).  For an arbitrary custom type the table conditions
   (closed_okw, registry_ok, parse_class_ok: the C01 builder's coverage predicates) remain premises.
   Statements only; proofs in Proofs/C19InheritC01.v.                                          *)
From Coq Require Import NArith ZArith List String Bool.
From V Require Import Base.UString Base.Json Model.SchemaTypes Model.PyBase Model.Schema Model.Serialize
     Proofs.C01Kinds Proofs.C01KindsAll Proofs.C01Object Proofs.C01Roundtrip Proofs.C01Parse Proofs.C01LibInstance Gen.Tables
     Model.RegistryBuilder Proofs.C19Inherit Proofs.C19InheritC02 Proofs.C19InheritC01.
From V Require Model.Registry.
Import ListNotations.

Theorem custom_type_roundtrip_equal :
  forall vr ev bv k V n xt user cn pattern_ok selectors_ok, vr_year_pad vr = true ->
  forall ids, closed_okw vr (world_add lib k V n (custom_cls bv k V n xt user cn)) ids = true ->
  forall fuel kid allow interop kw vrefs o,
    mem_ustr kid ids = true -> plain_dict kw = true ->
    id_given (world_add lib k V n (custom_cls bv k V n xt user cn)) kid kw = true ->
    run vr ev (world_add lib k V n (custom_cls bv k V n xt user cn)) pattern_ok selectors_ok fuel
        (RConstruct kid allow interop kw vrefs) = Ok o ->
    run vr ev (world_add lib k V n (custom_cls bv k V n xt user cn)) pattern_ok selectors_ok fuel
        (RConstruct kid allow interop (omem o) vrefs) = Ok o.
Proof. exact custom_type_roundtrip_equal_lemma. Qed.
Print Assumptions custom_type_roundtrip_equal.

Theorem custom_type_reserialize_identical :
  forall vr ev bv k V n xt user cn pattern_ok selectors_ok, vr_year_pad vr = true ->
  forall ids, closed_okw vr (world_add lib k V n (custom_cls bv k V n xt user cn)) ids = true ->
  forall fuel kid allow interop kw vrefs o o' (opts : sopts),
    mem_ustr kid ids = true -> plain_dict kw = true ->
    id_given (world_add lib k V n (custom_cls bv k V n xt user cn)) kid kw = true ->
    run vr ev (world_add lib k V n (custom_cls bv k V n xt user cn)) pattern_ok selectors_ok fuel
        (RConstruct kid allow interop kw vrefs) = Ok o ->
    run vr ev (world_add lib k V n (custom_cls bv k V n xt user cn)) pattern_ok selectors_ok fuel
        (RConstruct kid allow interop (omem o) vrefs) = Ok o' ->
    serialize_value opts o' = serialize_value opts o.
Proof. exact custom_type_reserialize_identical_lemma. Qed.
Print Assumptions custom_type_reserialize_identical.

Theorem custom_type_roundtrip_parse :
  forall vr ev bv k V n xt user cn pattern_ok selectors_ok, vr_year_pad vr = true ->
  let w := world_add lib k V n (custom_cls bv k V n xt user cn) in
  forall ids, closed_okw vr w ids = true -> registry_ok w = true ->
  forall pids, forallb (fun k => mem_ustr k ids) pids = true ->
    forallb (fun k => match find_class (wclasses w) k with Some c => parse_class_ok w c | None => false end) pids = true ->
  forall fuel allow interop d ci S dfl hc,
    plain_dict d = true ->
    mem_ustr ci pids = true ->
    (amem id_key d = true \/ forall t, alookup type_key d = Some (JStr t) -> amem t (robservables (wreg21 w)) = false) ->
    run vr ev w pattern_ok selectors_ok fuel (RParse allow interop None d) = Ok (PObject ci S dfl hc) ->
    run vr ev w pattern_ok selectors_ok fuel (RParse allow interop None (omem (PObject ci S dfl hc))) = Ok (PObject ci S dfl hc).
Proof. exact custom_type_roundtrip_parse_lemma. Qed.
Print Assumptions custom_type_roundtrip_parse.

(* the table conditions hold: a 2.1 / 2.0 custom object, a 2.1 / 2.0 custom observable, a 2.1 property-extension and
   a custom marking, each together with every library class the C01 theorems cover, in the world extended by it *)
Theorem custom_types_c01_conditions_examples :
  c01_ok_in_extended CObject V21 (u "x-ex-object") ex_object21 = true /\
  c01_ok_in_extended CObject V20 (u "x-ex-object") ex_object20 = true /\
  c01_ok_in_extended CObservable V21 (u "x-ex-observable") ex_observable21 = true /\
  c01_ok_in_extended CObservable V20 (u "x-ex-observable") ex_observable20 = true /\
  c01_ok_in_extended CExtension V21 (u "x-ex-ext") ex_extension21 = true /\
  c01_ok_in_extended CMarking V21 (u "x-ex-marking") ex_marking = true.
Proof. exact ex_custom_types_c01_ok_lemma. Qed.
Print Assumptions custom_types_c01_conditions_examples.

Theorem custom_objects_parse_conditions_examples :
  registry_ok (world_add lib CObject V21 (u "x-ex-object") ex_object21) = true /\
  parse_class_ok (world_add lib CObject V21 (u "x-ex-object") ex_object21) ex_object21 = true /\
  registry_ok (world_add lib CObject V20 (u "x-ex-object") ex_object20) = true /\
  parse_class_ok (world_add lib CObject V20 (u "x-ex-object") ex_object20) ex_object20 = true.
Proof. exact ex_custom_objects_parse_ok_lemma. Qed.
Print Assumptions custom_objects_parse_conditions_examples.

(* Props/C14.v -- property C14: a requested spec version is honoured
   everywhere and never alters strictness.  Only statements here; proofs in
   Proofs/DispatchFacts.v (generic), Proofs/C14Dispatch.v (kernel evaluation
   over the call-site table regenerated from the current source),
   Proofs/C14Detect.v, Proofs/C14Registry.v.

   Reading guide.  `Tgen` is the table tr_callsites.py regenerates from /repo on
   every run.  `entries Tgen` are the defs with a `version` parameter, the pure
   forwarders to one (Environment.parse), the store methods (DataStoreMixin
   forwarders resolved through the store's source/sink components) and the
   workbench aliases.  `reachable Tgen (e_init E) s` : s is a state (def being
   run + symbolic value of each parameter) reached from the entry point along
   ANY chain of call sites of the table.  A terminal state is an activation of
   parsing.dict_to_stix2 / parsing.parse_observable; `got s p` is the symbolic
   value of its parameter p: SArg q = the entry point's own argument q,
   SCtor q = constructor argument q of the object it is a method of.          *)
From Coq Require Import NArith List String Bool.
From V Require Import Base.UString Base.Json Model.CallTable Model.Dispatch Model.DispatchPinned
  Model.VersionDetect Model.IdCheck Gen.CallSites
  Proofs.DispatchFacts Proofs.C14Dispatch Proofs.C14Detect Proofs.C14Registry Proofs.C14Uuid.
Import ListNotations.
Open Scope string_scope.

(* ---- argument forwarding (finite table = the quantifier) ---- *)
Theorem version_forwarded : forall E, In E (entries Tgen) -> taxii_entry E = false ->
  forall s, reachable Tgen (e_init E) s -> is_terminal s = true -> got s "version" = SArg "version".
Proof. exact (version_forwarded_pf Tgen gen_in_scope). Qed.
Print Assumptions version_forwarded.

Theorem interop_not_from_version : forall E, In E (entries Tgen) -> taxii_entry E = false ->
  forall s, reachable Tgen (e_init E) s -> is_terminal s = true ->
    got s "interoperability" = (if smem "interoperability" (e_own E) then SArg "interoperability" else SConst "False")
    /\ ~ In "arg:version" (roots (got s "interoperability")).
Proof. exact (interop_not_from_version_pf Tgen gen_in_scope). Qed.
Print Assumptions interop_not_from_version.

Theorem allow_custom_forwarded : forall E, In E (entries Tgen) -> taxii_entry E = false ->
  forall s, reachable Tgen (e_init E) s -> is_terminal s = true ->
    (forall r, In r (roots (got s "allow_custom")) -> r = "arg:allow_custom" \/ r = "ctor:allow_custom")
    /\ (In "allow_custom" (e_own E) -> got s "allow_custom" = SArg "allow_custom")
    /\ (~ In "allow_custom" (e_own E) -> e_kind E = EDef -> In "allow_custom" (e_ctor E) -> got s "allow_custom" = SCtor "allow_custom").
Proof. exact (allow_custom_forwarded_pf Tgen gen_in_scope). Qed.
Print Assumptions allow_custom_forwarded.

(* non-vacuity: the entry points the property enumerates are in the table, and every entry reaches the parser *)
Theorem entry_points_covered :
  (forall n, In n expected_entries -> exists E, In E (entries Tgen) /\ e_name E = n /\ taxii_entry E = false)
  /\ (forall E, In E (entries Tgen) -> exists s, reachable Tgen (e_init E) s /\ is_terminal s = true).
Proof. exact (entry_points_covered_pf Tgen gen_covered). Qed.
Print Assumptions entry_points_covered.

(* inside the parser: the class is looked up under the version parameter (re-bound only by
   `if not version: version = detect_spec_version(..)`), the class is constructed with the two switches *)
Theorem parser_uses_its_parameters : forall f, In f terminal_fns ->
  (exists sg, find_sig Tgen f = Some sg /\ In "version" (f_idioms sg)) /\
  forall s, In s (t_sites Tgen) -> s_caller s = f ->
    (s_callee s = "registry.class_for_type" -> assoc "stix_version" (s_binds s) = Some (FromParam "version")) /\
    (s_callee s = "<obj_class>" ->
       assoc "allow_custom" (s_binds s) = Some (FromParam "allow_custom") /\
       assoc "interoperability" (s_binds s) = Some (FromParam "interoperability")).
Proof. exact (parser_uses_its_parameters_pf Tgen gen_sites). Qed.
Print Assumptions parser_uses_its_parameters.

(* the id check receives the class's own spec_version and the caller's switch, nothing derived from `version` *)
Theorem id_check_switch_unchanged : forall s, In s (t_sites Tgen) ->
  (s_callee s = "properties._check_uuid" ->
     assoc "spec_version" (s_binds s) = Some (FromParam "spec_version") /\
     assoc "interoperability" (s_binds s) = Some (FromParam "interoperability")) /\
  (s_callee s = "properties._validate_id" ->
     assoc "spec_version" (s_binds s) = Some (FromAttr "spec_version") /\
     (assoc "interoperability" (s_binds s) = Some (FromParam "interoperability") \/ assoc "interoperability" (s_binds s) = None)).
Proof. exact (id_check_switch_unchanged_pf Tgen gen_sites). Qed.
Print Assumptions id_check_switch_unchanged.

(* ---- concrete arguments ---- *)
Theorem naming_version_never_relaxes : forall E, In E (entries Tgen) -> taxii_entry E = false ->
  forall s, reachable Tgen (e_init E) s -> is_terminal s = true ->
  forall cargs v v',
    eval_sym E (("arg:version", v) :: cargs) (got s "interoperability")
      = eval_sym E (("arg:version", v') :: cargs) (got s "interoperability")
    /\ eval_sym E (("arg:version", v) :: cargs) (got s "allow_custom")
      = eval_sym E (("arg:version", v') :: cargs) (got s "allow_custom").
Proof. exact (naming_version_never_relaxes_pf Tgen gen_in_scope). Qed.
Print Assumptions naming_version_never_relaxes.

Theorem same_strictness : forall E, In E (entries Tgen) -> taxii_entry E = false ->
  forall s, reachable Tgen (e_init E) s -> is_terminal s = true ->
  forall cargs,
    eval_sym E cargs (got s "version") = eval_sym E cargs (SArg "version")
    /\ eval_sym E cargs (got s "interoperability")
       = (if smem "interoperability" (e_own E) then eval_sym E cargs (SArg "interoperability") else PBool false).
Proof. exact (same_strictness_pf Tgen gen_in_scope). Qed.
Print Assumptions same_strictness.

(* ---- TAXII (in the table; needs a server, not driven) ---- *)
Theorem taxii_version_forwarded : forall E, In E (entries Tgen) -> taxii_entry E = true ->
  forall s, reachable Tgen (e_init E) s -> is_terminal s = true ->
    (~ In (e_name E) taxii_reparse -> got s "version" = SArg "version")
    /\ (got s "version" = SArg "version" \/ got s "version" = SConst "None")
    /\ ~ In "arg:version" (roots (got s "interoperability")).
Proof. exact (taxii_version_forwarded_pf Tgen gen_taxii). Qed.
Print Assumptions taxii_version_forwarded.

(* the call site  all_versions -> self.query(query=.., _composite_filters=..)  is the ONLY place of the whole table
   (TAXII included) where the version is not handed on: with that one site also binding version <- version
   (`with_query_version`, the identity on a table that already does), EVERY entry point forwards it *)
Theorem taxii_single_deviation :
  map e_name (entries (with_query_version Tgen)) = map e_name (entries Tgen) /\
  forall E, In E (entries (with_query_version Tgen)) ->
  forall s, reachable (with_query_version Tgen) (e_init E) s -> is_terminal s = true ->
    got s "version" = SArg "version" /\ ~ In "arg:version" (roots (got s "interoperability")).
Proof. split. exact gen_repair_keeps_entries. exact (all_entries_forward _ gen_single_site_repair). Qed.
Print Assumptions taxii_single_deviation.

(* the deviation itself, on a frozen excerpt of the TAXII source (as of /repo 9bfe19c): all_versions reaches the
   parser with version None (through self.query), and the one-site repair removes it *)
Theorem taxii_all_versions_first_parse_unversioned_refuted :
  (exists E s, In E (entries pinned_taxii) /\ e_name E = "taxii.TAXIICollectionSource.all_versions"
     /\ reachable pinned_taxii (e_init E) s /\ is_terminal s = true /\ got s "version" = SConst "None")
  /\ all_entries_check (with_query_version pinned_taxii) = true.
Proof. split. exact taxii_all_versions_first_parse_unversioned_pf. exact pinned_taxii_repaired. Qed.
Print Assumptions taxii_all_versions_first_parse_unversioned_refuted.

(* ---- the defective variant: frozen excerpt of the table of the pinned tree (before the repair) ---- *)
Theorem store_call_sites_positional_refuted :
  exists E s, In E (entries pinned_defective) /\ e_name E = "memory.MemorySink.add"
    /\ reachable pinned_defective (e_init E) s /\ is_terminal s = true
    /\ got s "interoperability" = SArg "version" /\ got s "version" = SConst "None".
Proof. exact store_call_sites_positional_refuted_pf. Qed.
Print Assumptions store_call_sites_positional_refuted.

(* ---- version detection ---- *)
(* `emitted md obs21 V d` (Proofs/C14Detect.v) is a hand-written description of what the serialiser writes for version V.
   It carries two restrictions, both visible in its constructors: a 2.0 object (em_obj20) must have a type that is NOT
   registered as a 2.1 observable (umem t obs21 = false), and the member-less 2.1 bundle (em_bundle21_empty) is included
   only for the repaired detect_spec_version (bundle_default md = true).  Nothing in Coq connects `emitted` to the
   serialiser model of the schema family; that link is the own-output oracle of the check (real serialisations of every
   class handed back without a version). *)
Theorem detect_own_output : forall md obs21,
  (forall V d, emitted md obs21 V d -> detect md obs21 d = DVal (JStr V) /\ (V = v20 \/ V = v21)).
Proof. intros md obs21. exact (proj1 (detect_emitted md obs21)). Qed.
Print Assumptions detect_own_output.

Theorem builtin_registries_separate :
  (forall t, In t reg_objects20 -> umem (u t) obs21_builtin = false) /\
  (forall t, In t reg_observables21 -> umem (u t) obs21_builtin = true).
Proof. exact builtin_registries_separate_pf. Qed.
Print Assumptions builtin_registries_separate.

(* outside the domain of `emitted`: a 2.0 object whose type name is also registered as a 2.1 observable (reachable with
   the public decorators: a custom 2.0 object and a custom 2.1 observable of the same name) is read as 2.1, not 2.0 *)
Theorem custom_20_object_named_like_21_observable_refuted : forall md obs21 m t i,
  jlookup k_type m = Some (JStr t) -> ustr_eqb t s_bundle = false ->
  jlookup k_spec_version m = None -> jlookup k_id m = Some i -> umem t obs21 = true ->
  detect md obs21 (JObj m) = DVal (JStr v21) /\ DVal (JStr v21) <> DVal (JStr v20).
Proof. exact collision_20_object_21_observable. Qed.
Print Assumptions custom_20_object_named_like_21_observable_refuted.

Example collision_witness :
  detect pinned_mode (u "x-c14-collide" :: obs21_builtin)
    (JObj [(k_type, JStr (u "x-c14-collide")); (k_id, JStr (u "x-c14-collide--x")); (u "name", JStr (u "a"))])
  = DVal (JStr v21).
Proof. exact collision_witness_pf. Qed.

(* the pinned detect_spec_version does not recognise the 2.1 bundle the library emits when it has no members *)
Theorem empty_bundle21_not_recognised_refuted : forall md obs21 m i,
  jlookup k_type m = Some (JStr s_bundle) -> jlookup k_spec_version m = None -> jlookup k_id m = Some i ->
  jlookup k_objects m = None -> bundle_default md = false ->
  detect md obs21 (JObj m) = DKeyError k_objects.
Proof. exact empty_bundle21_pinned. Qed.
Print Assumptions empty_bundle21_not_recognised_refuted.

(* ---- identifier strictness (im : which variant of _check_uuid / the interoperability regex the code matches) ---- *)
Theorem relaxed_ignores_spec_version : forall im s v v', check_uuid im s v true = check_uuid im s v' true.
Proof. exact relaxed_ignores_spec_version_pf. Qed.
Print Assumptions relaxed_ignores_spec_version.

Theorem strict_v20_implies_any : forall im s v,
  check_uuid im s v20s false = UOk true -> check_uuid im s v false = UOk true.
Proof. exact strict_v20_implies_any_pf. Qed.
Print Assumptions strict_v20_implies_any.

(* for EVERY text, once _check_uuid demands the canonical text (repair 979414d) *)
Theorem strict_subset_relaxed : forall im s v, canonical_text im = true ->
  check_uuid im s v false = UOk true -> check_uuid im s v true = UOk true.
Proof. exact strict_subset_relaxed_repaired_pf. Qed.
Print Assumptions strict_subset_relaxed.

(* in either variant, for texts of the 8-4-4-4-12 shape *)
Theorem strict_subset_relaxed_on_shape : forall im s v,
  interop_match im s = true -> check_uuid im s v false = UOk true -> check_uuid im s v true = UOk true.
Proof. exact strict_subset_relaxed_pf. Qed.
Print Assumptions strict_subset_relaxed_on_shape.

(* the acceptance direction: the canonical text of EVERY 128-bit value is read back as that value
   (through the model of uuid.UUID / int(.., 16)), so strict mode decides on the variant / version bits alone *)
Theorem strict_accepts_canonical : forall im n v, (n < 2 ^ 128)%N ->
  check_uuid im (canon_text n) v false
  = UOk (if variant_rfc4122 n && ustr_eqb v v20s then (uuid_version n =? 4)%N else variant_rfc4122 n).
Proof. exact strict_accepts_canonical_pf. Qed.
Print Assumptions strict_accepts_canonical.

Theorem strictness_witnesses :
  both_modes (fun im =>
    check_uuid im zero_uuid v20s true = UOk true /\ check_uuid im zero_uuid v20s false = UOk false
    /\ check_uuid im zero_uuid v21 true = UOk true /\ check_uuid im zero_uuid v21 false = UOk false)
  /\ both_modes (fun im => check_uuid im v1_uuid v21 false = UOk true /\ check_uuid im v1_uuid v20s false = UOk false)
  /\ both_modes (fun im => check_uuid im v4_uuid v20s false = UOk true /\ check_uuid im v4_uuid v21 false = UOk true
                           /\ check_uuid im v4_uuid v21 true = UOk true)
  /\ (check_uuid pinned_idmode braced_uuid v21 false = UOk true /\ check_uuid pinned_idmode braced_uuid v21 true = UOk false
      /\ check_uuid repaired_idmode braced_uuid v21 false = UOk false).
Proof. exact strictness_witnesses_pf. Qed.
Print Assumptions strictness_witnesses.

(* ---- hypotheses are satisfiable ---- *)
Example emitted_shapes_exist :
  emitted pinned_mode obs21_builtin v21
    (JObj [(k_type, JStr (u "identity")); (k_spec_version, JStr v21); (k_id, JStr (u "identity--x"))])
  /\ emitted pinned_mode obs21_builtin v20
    (JObj [(k_type, JStr (u "identity")); (k_id, JStr (u "identity--x"))])
  /\ emitted pinned_mode obs21_builtin v21
    (JObj [(k_type, JStr (u "file")); (k_id, JStr (u "file--x"))]).
Proof. exact emitted_shapes_exist_pf. Qed.

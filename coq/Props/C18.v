(* Props/C18.v -- property C18: a composite source answers as the de-duplicated
   union of its members; relationship navigation equals a scan of the stored
   relationship objects.

   Only statements here; proofs are in Proofs/StoreComposite.v and
   Proofs/StoreNav.v.  The model is Model/Store.v (sources as records of their
   five methods, CompositeDataSource, DataSource navigation, Environment
   wiring), tied to stix2/datastore/__init__.py, stix2/utils.py and
   stix2/environment.py by the correspondence run of every check.
     ver_of o      obj.get("modified") or obj.get("created")
     dkey_of o     the key deduplicate() uses: id, or (id, version)
     newest_of l r r is an element of l with the greatest version (None iff l = [])
     sound_src own m   whatever m returns satisfies the filters handed to it, its own, and the query
     rel_scan P a rt so to   the relationships of population P that involve a (what a scan gives)
     neighbour rels a i      i is the other end of one of rels
     scans qf P / answers qf P   the query function returns filter q P / the same objects in some order  *)
From Coq Require Import NArith ZArith List Bool Permutation.
From V Require Import Base.UString Model.Store Model.StoreRun Model.StoreCases Spec.StoreSpec Spec.StoreNavSpec
  Proofs.StoreBase Proofs.StoreMem Proofs.StoreFs Proofs.StoreAgree Proofs.StoreComposite Proofs.StoreNav Proofs.StoreRefute.
From V Require Import Model.Factory Proofs.FactoryFacts.
Import ListNotations.
Open Scope list_scope.

(* ---- lookup by id ---- *)

(* any members, any attached filters: for every order of attachment the composite returns an answer of a member
   with the greatest version, and the version does not depend on the order *)
Theorem cget_newest_any_order : forall (af : list sfilter) (ms ms' : list source) (cf : list sfilter) (id : ustring)
    (rs : list (option obj)),
  ms <> [] -> Permutation ms ms' ->
  collect (fun m => s_get m (af ++ cf) id) ms = Ok rs ->
  versioned_all (somes rs) ->
  exists r r', cget af ms cf id = Ok r /\ cget af ms' cf id = Ok r' /\
    newest_of (somes rs) r /\ option_map ver_of r = option_map ver_of r'.
Proof. exact cget_any_order. Qed.
Print Assumptions cget_newest_any_order.

(* objects without modified and created (SCOs): the copy of the last member that has one *)
Theorem cget_unversioned_last : forall (l : list obj) (cur : option (obj * vkey)),
  (forall o, In o l -> ver_of o = VNone) ->
  cget_loop cur l = Ok match rev l with
                       | [] => match cur with Some (o, _) => Some o | None => None end
                       | o :: _ => Some o
                       end.
Proof. exact cget_loop_unversioned. Qed.
Print Assumptions cget_unversioned_last.

(* members that are memory stores with histories Ls (property C11's domain): the newest version of the id over
   the union of all histories *)
Theorem composite_get_newest_of_union : forall mode iot (Ls : list (list obj)) (id : ustring),
  Ls <> [] ->
  Forall (fun L => Forall clean (map (norm_obj mode iot) L) /\ uniform (map (norm_obj mode iot) L)) Ls ->
  (forall o, In o (union_of mode iot Ls) -> exists t, omod o = VInst t) ->
  exists r, cget [] (mem_members mode iot Ls) [] id = Ok r /\
    match r with
    | Some o => In o (union_of mode iot Ls) /\ oid o = id /\
                forall o', In o' (union_of mode iot Ls) -> oid o' = id -> v_ge (omod o) (omod o')
    | None => versions id (union_of mode iot Ls) = []
    end.
Proof. exact composite_get_newest. Qed.
Print Assumptions composite_get_newest_of_union.

Theorem composite_get_member_order : forall mode iot (Ls Ls' : list (list obj)) (id : ustring),
  Permutation Ls Ls' -> Ls <> [] ->
  Forall (fun L => Forall clean (map (norm_obj mode iot) L) /\ uniform (map (norm_obj mode iot) L)) Ls ->
  (forall o, In o (union_of mode iot Ls) -> exists t, omod o = VInst t) ->
  exists r r', cget [] (mem_members mode iot Ls) [] id = Ok r /\ cget [] (mem_members mode iot Ls') [] id = Ok r' /\
               option_map omod r = option_map omod r'.
Proof. exact composite_get_any_order. Qed.
Print Assumptions composite_get_member_order.

(* ---- all_versions and query: each distinct (id, version) once ---- *)

Theorem deduplicate_spec : forall l : list obj,
  (forall o, In o (dedupe l) -> In o l) /\
  (forall o, In o l -> exists o', In o' (dedupe l) /\ dkey_of o' = dkey_of o) /\
  NoDup (map dkey_of (dedupe l)).
Proof. exact dedupe_spec. Qed.
Print Assumptions deduplicate_spec.

Theorem call_distinct_once : forall (af : list sfilter) (ms : list source) (cf : list sfilter) (id : ustring)
    (rs : list (list obj)),
  ms <> [] -> collect (fun m => s_all m (af ++ cf) id) ms = Ok rs ->
  exists res, call af ms cf id = Ok res /\
    (forall o, In o res -> exists r, In r rs /\ In o r) /\
    (forall r o, In r rs -> In o r -> exists o', In o' res /\ dkey_of o' = dkey_of o) /\
    NoDup (map dkey_of res).
Proof. exact call_distinct_once_l. Qed.
Print Assumptions call_distinct_once.

Theorem cquery_distinct_once : forall (af : list sfilter) (ms : list source) (cf q : list sfilter) (rs : list (list obj)),
  ms <> [] -> collect (fun m => s_query m (af ++ cf) q) ms = Ok rs ->
  exists res, cquery af ms cf q = Ok res /\
    (forall o, In o res -> exists r, In r rs /\ In o r) /\
    (forall r o, In r rs -> In o r -> exists o', In o' res /\ dkey_of o' = dkey_of o) /\
    NoDup (map dkey_of res).
Proof. exact cquery_distinct_once_l. Qed.
Print Assumptions cquery_distinct_once.

(* memory-store members with attached filters, a composite with attached filters: exactly the members' stored
   objects that pass the query, their member's filters and the composite's; each (id, version) once *)
Theorem cquery_memory_members : forall mode iot (afs : list (list sfilter * list obj)) (af q : list sfilter),
  afs <> [] ->
  exists res, cquery af (map (fun p => mem_source (fst p) (mem_run mode iot (snd p))) afs) [] q = Ok res /\
    NoDup (map dkey_of res) /\
    (forall o, In o res -> exists p, In p afs /\ In o (mem_objs (mem_run mode iot (snd p))) /\
                 all_hold q o = true /\ all_hold (fst p) o = true /\ all_hold af o = true) /\
    (forall p o, In p afs -> In o (mem_objs (mem_run mode iot (snd p))) ->
                 all_hold q o = true -> all_hold (fst p) o = true -> all_hold af o = true ->
                 exists o', In o' res /\ dkey_of o' = dkey_of o).
Proof. exact cquery_distinct_once_mem. Qed.
Print Assumptions cquery_memory_members.

(* ---- attached filters ---- *)

Theorem store_sources_sound : forall (af : list sfilter) (m : mem) (s : fs),
  sound_src af (mem_source af m) /\ sound_src af (fs_source af s).
Proof. exact (fun af m s => conj (mem_source_sound (fun _ => None) af m) (fs_source_sound (fun _ => None) af s)). Qed.
Print Assumptions store_sources_sound.

(* filters attached to a composite (and those handed down to it) bound everything it returns, whatever its
   members are -- stores, or composites of any depth *)
Theorem composite_filters_reach_members : forall (rm : related_mode) (af : list sfilter) (ms : list source)
    (owns : source -> list sfilter),
  (forall m, In m ms -> sound_src (owns m) m) -> sound_src af (composite_source rm af ms).
Proof. exact (Proofs.StoreComposite.composite_filters_reach_members (fun _ => None)). Qed.
Print Assumptions composite_filters_reach_members.

(* ---- navigation through a source or store ---- *)

Theorem relationships_is_scan : forall (qf : queryfn) (P : list obj) (a : ustring) (rt : option ustring) (so to : bool),
  scans qf P ->
  relationships qf a rt so to = if so && to then Err EValue else Ok (rel_scan P a rt so to).
Proof. exact relationships_scan. Qed.
Print Assumptions relationships_is_scan.

Theorem relationships_memory : forall (m : mem) (a : ustring) (rt : option ustring) (so to : bool),
  s_rels (mem_source [] m) a rt so to = if so && to then Err EValue else Ok (rel_scan (mem_objs m) a rt so to).
Proof. exact relationships_mem. Qed.
Print Assumptions relationships_memory.

(* related_to = the objects of the population, with multiplicity, that pass the extra filters and whose id is
   the other end of a relationship of the scan *)
Theorem related_is_scan : forall (qf : queryfn) (P : list obj) (a : ustring) (rt : option ustring) (so to : bool)
    (fl : list sfilter),
  scans qf P -> so && to = false ->
  (forall r, In r (rel_scan P a rt so to) -> prop_get k_source_ref r <> None /\ prop_get k_target_ref r <> None) ->
  exists (ids : list ustring) (res : list obj),
    NoDup ids /\ (forall i, In i ids <-> neighbour (rel_scan P a rt so to) a i) /\
    related_to (relationships qf) qf a rt so to fl = Ok res /\
    Permutation res (filter (fun o => all_hold fl o && id_in ids o) P).
Proof. exact related_scan_perm. Qed.
Print Assumptions related_is_scan.

Theorem related_memory : forall (m : mem) (a : ustring) (rt : option ustring) (so to : bool) (fl : list sfilter),
  so && to = false ->
  (forall r, In r (rel_scan (mem_objs m) a rt so to) -> prop_get k_source_ref r <> None /\ prop_get k_target_ref r <> None) ->
  exists (ids : list ustring) (res : list obj),
    NoDup ids /\ (forall i, In i ids <-> neighbour (rel_scan (mem_objs m) a rt so to) a i) /\
    s_related (mem_source [] m) a rt so to fl = Ok res /\
    Permutation res (filter (fun o => all_hold fl o && id_in ids o) (mem_objs m)).
Proof. exact related_mem. Qed.
Print Assumptions related_memory.

(* any relationships method / query function with membership semantics (filesystem source, composite) *)
Theorem related_membership : forall (relf : ustring -> option ustring -> bool -> bool -> res (list obj)) (qf : queryfn)
    (P : list obj) (a : ustring) (rt : option ustring) (so to : bool) (fl : list sfilter) (rels : list obj),
  relf a rt so to = Ok rels -> answers qf P ->
  (forall r, In r rels -> prop_get k_source_ref r <> None /\ prop_get k_target_ref r <> None) ->
  exists res, related_to relf qf a rt so to fl = Ok res /\
    forall o, In o res <-> In o P /\ all_hold fl o = true /\ neighbour rels a (oid o).
Proof. exact related_to_spec. Qed.
Print Assumptions related_membership.

Theorem navigation_filesystem : forall (ts2fn : Z -> ustring) (L : list obj) (s : fs) (a : ustring) (rt : option ustring)
    (so to : bool) (fl : list sfilter),
  FsInv ts2fn L s -> so && to = false ->
  let P := map fobj s in
  (forall r, In r (rel_scan P a rt so to) -> prop_get k_source_ref r <> None /\ prop_get k_target_ref r <> None) ->
  exists rels res,
    s_rels (fs_source [] s) a rt so to = Ok rels /\ (forall r, In r rels <-> In r (rel_scan P a rt so to)) /\
    s_related (fs_source [] s) a rt so to fl = Ok res /\
    (forall o, In o res <-> In o P /\ all_hold fl o = true /\ neighbour (rel_scan P a rt so to) a (oid o)).
Proof. exact navigation_fs. Qed.
Print Assumptions navigation_filesystem.

(* DEFINITIONAL in the model: this is the body of creator_of (DataSource.creator_of / Environment.creator_of); the
   tie to the code is the correspondence run and source_navigation_choices.  The content-bearing statement is
   creator_memory below (with mem_refines: the newest version of the creator id). *)
Theorem creator_is_lookup : forall (src : source) (o : obj),
  creator_of src o = match prop_get k_created_by_ref o with
                     | Some (c :: r) => s_get src [] (c :: r)
                     | _ => Ok None
                     end.
Proof. exact creator_lookup. Qed.
Print Assumptions creator_is_lookup.

Theorem creator_memory : forall mode iot (L : list obj) (o : obj) (cid : ustring),
  prop_get k_created_by_ref o = Some cid -> cid <> [] ->
  creator_of (mem_source [] (mem_run mode iot L)) o = Ok (mem_get [] cid (mem_run mode iot L)).
Proof. exact creator_mem. Qed.
Print Assumptions creator_memory.

(* DEFINITIONAL in the model (env_source := composite_source, proof by reflexivity): it records that every theorem
   about composites applies to an Environment; that Environment.__init__ wires store.source then source into a
   CompositeDataSource is checked by the correspondence run and by the translator (c_environment) *)
Theorem environment_is_composite : forall (rm : related_mode) (af : list sfilter) (ms : list source),
  env_source rm af ms = composite_source rm af ms.
Proof. reflexivity. Qed.
Print Assumptions environment_is_composite.

(* relationships through a composite / Environment: the de-duplicated scan of the union of the members' populations;
   exactly the scan when copies of one (id, version) in several members are the same object *)
Theorem crelationships_is_union_scan : forall (ms : list source) (Ps : list (list obj)) (a : ustring)
    (rt : option ustring) (so to : bool),
  ms <> [] -> Forall2 scan_member ms Ps -> so && to = false ->
  let U := concat Ps in
  exists rels, crelationships ms a rt so to = Ok rels /\
    (forall r, In r rels -> In r (rel_scan U a rt so to)) /\
    (forall r, In r (rel_scan U a rt so to) -> exists r', In r' rels /\ dkey_of r' = dkey_of r) /\
    NoDup (map dkey_of rels) /\
    ((forall x y, In x U -> In y U -> dkey_of x = dkey_of y -> x = y) ->
     forall r, In r rels <-> In r (rel_scan U a rt so to)).
Proof. exact (crelationships_union_scan (fun _ => None)). Qed.
Print Assumptions crelationships_is_union_scan.

(* ---- related_to through a composite ---- *)

(* PerMember (the code before 7d18324): each member navigates within its own data.  DEFINITIONAL: this is the
   PerMember branch of crelated_to, kept to state what that variant computes next to its refutation *)
Theorem related_composite : forall (af : list sfilter) (ms : list source) (a : ustring) (rt : option ustring)
    (so to : bool) (fl : list sfilter),
  ms <> [] ->
  crelated_to PerMember af ms a rt so to fl =
  rbind (collect (fun m => s_related m a rt so to fl) ms) (fun rs => Ok (dedupe (concat rs))).
Proof. exact Proofs.StoreNav.related_composite. Qed.
Print Assumptions related_composite.

(* ... which is not the scan of the union: a and rel(a -> b) in one member, b in another *)
Theorem related_composite_vs_union_refuted : forall mode iot,
  let m1 := mem_source [] (mem_run mode iot [x_oa; x_rel]) in
  let m2 := mem_source [] (mem_run mode iot [x_ob]) in
  let all := mem_source [] (mem_run mode iot [x_oa; x_rel; x_ob]) in
  crelated_to PerMember [] [m1; m2] x_a None false false [] = Ok [] /\
  crelationships [m1; m2] x_a None false false = Ok [x_rel] /\
  cget [] [m1; m2] [] x_b = Ok (Some x_ob) /\
  s_related all x_a None false false [] = Ok [x_ob] /\
  crelated_to Federated [] [m1; m2] x_a None false false [] = Ok [x_ob].
Proof. exact related_composite_vs_union_refuted_l. Qed.
Print Assumptions related_composite_vs_union_refuted.

(* Federated (repaired): navigation on the federation as a whole is the scan of the union of the members'
   populations, copies of one (id, version) in several members being the same object *)
Theorem related_federated_is_union_scan : forall (ms : list source) (Ps : list (list obj)) (a : ustring)
    (rt : option ustring) (so to : bool) (fl : list sfilter),
  ms <> [] -> Forall2 scan_member ms Ps -> so && to = false ->
  let U := concat Ps in
  (forall x y, In x U -> In y U -> dkey_of x = dkey_of y -> x = y) ->
  (forall r, In r (rel_scan U a rt so to) -> prop_get k_source_ref r <> None /\ prop_get k_target_ref r <> None) ->
  exists res, crelated_to Federated [] ms a rt so to fl = Ok res /\
    forall o, In o res <-> In o U /\ all_hold fl o = true /\ neighbour (rel_scan U a rt so to) a (oid o).
Proof. exact (related_federated_union (fun _ => None)). Qed.
Print Assumptions related_federated_is_union_scan.

(* ---- the default-property factory behind Environment.create (Model/Factory.v, tied to
        stix2/environment.py:ObjectFactory by the correspondence run) ---- *)

(* a property that is not passed keeps its default *)
Theorem factory_default_applies : forall la (defaults kw : fdict) k, NoDup (map fst kw) ->
  dict_get ustr_eqb kw k = None -> dict_get ustr_eqb (create la defaults kw) k = dict_get ustr_eqb defaults k.
Proof. exact create_default. Qed.
Print Assumptions factory_default_applies.

(* an explicit argument wins (properties other than the two list properties, or any with list_append off) *)
Theorem factory_explicit_wins : forall la (defaults kw : fdict) k v, NoDup (map fst kw) ->
  is_list_prop k = false -> dict_get ustr_eqb kw k = Some v -> dict_get ustr_eqb (create la defaults kw) k = Some v.
Proof. exact create_explicit. Qed.
Print Assumptions factory_explicit_wins.

Theorem factory_replace_without_append : forall (defaults kw : fdict) k v, NoDup (map fst kw) ->
  dict_get ustr_eqb kw k = Some v -> dict_get ustr_eqb (create false defaults kw) k = Some v.
Proof. exact create_replace. Qed.
Print Assumptions factory_replace_without_append.

(* list_append: the passed value is appended to the default; None removes the default; no default: as passed *)
Theorem factory_list_append : forall (defaults kw : fdict) k kv, NoDup (map fst kw) ->
  is_list_prop k = true -> dict_get ustr_eqb kw k = Some kv ->
  dict_get ustr_eqb (create true defaults kw) k = merged (dict_get ustr_eqb defaults k) kv.
Proof. exact create_list_append. Qed.
Print Assumptions factory_list_append.

Theorem factory_created_is_modified : forall d v,
  dict_get ustr_eqb (set_default_created d v) k_created = Some v /\
  dict_get ustr_eqb (set_default_created d v) k_modified = Some v.
Proof. exact default_created_is_modified. Qed.
Print Assumptions factory_created_is_modified.

(* ---- hypotheses are satisfiable ---- *)
Example scan_member_inhabited : forall m : mem, scan_member (mem_source [] m) (mem_objs m).
Proof. exact (mem_scan_member). Qed.

(* composite_get_newest_of_union / composite_get_member_order on a concrete two-member composite (dictionary-kept
   content with timestamp text, repaired reading): the ...500000 version, in both member orders; no members: an
   exception, not a default *)
Example composite_get_two_members :
  cget [] (mem_members Chrono w_iot [[w_a]; [w_b]]) [] w_id = Ok (Some (norm_obj Chrono w_iot w_b)) /\
  cget [] (mem_members Chrono w_iot [[w_b]; [w_a]]) [] w_id = Ok (Some (norm_obj Chrono w_iot w_b)) /\
  omod (norm_obj Chrono w_iot w_b) = VInst 1577836800500000%Z /\
  cget [] [] [] w_id = Err EAttr.
Proof. vm_compute. repeat split; reflexivity. Qed.

(* Props/C18.v -- placeholder while the correspondence is brought up *)
From Coq Require Import List.
From V Require Import Base.UString Model.Store.
Theorem placeholder_c18 : forall (a : vkey), vkey_eqb VNone VNone = true.
Proof. intros; reflexivity. Qed.
Print Assumptions placeholder_c18.

(* Props/C04.v -- custom content is admitted only on request and is always detected.
   Model: Model/Schema.v (schema interpreter), Model/SchemaReparse.v (the strict reparse
   experiment); class tables Gen/Tables.v regenerated from /repo on every run.   *)
From Coq Require Import NArith ZArith List String Bool.
From V Require Import Base.UString Base.Json Model.SchemaTypes Model.PyBase Model.Schema Model.Serialize Model.SchemaReparse.
From V Require Import Gen.Tables Proofs.C04Strict Proofs.C04Witness.
Import ListNotations.

(* With customisation disallowed no property cleaner -- at any nesting site: lists, hash
   dictionaries, references, embedded objects, extensions, observed-data and bundle members,
   whatever the nested constructors / parsers do -- returns a value flagged as custom:
   it raises instead. *)
Theorem strict_cleaners_never_flag :
  forall vr w rec_construct rec_parse rec_parse_obs k interop v p hc,
    clean_kind vr w rec_construct rec_parse rec_parse_obs k false interop v = Ok (p, hc) -> hc = false.
Proof. exact C04Strict.clean_kind_strict. Qed.
Print Assumptions strict_cleaners_never_flag.

(* A strict constructor / parse / observable parse returns a flagged object only through the
   custom_properties loophole (the keyword / member is present), and a strict PARSE does so
   only in the variant without the guard. *)
Theorem strict_flag_only_by_loophole :
  forall vr ev w pattern_ok selectors_ok fuel r ci i d hc,
    strict_request r = true ->
    run vr ev w pattern_ok selectors_ok fuel r = Ok (PObject ci i d hc) ->
    hc = true ->
    amem (u "custom_properties") (request_kwargs r) = true /\
    (match r with RConstruct _ _ _ _ _ => True | _ => vr_parse_guard_custom vr = false end).
Proof. exact C04Strict.strict_flag_only_by_loophole. Qed.
Print Assumptions strict_flag_only_by_loophole.

(* Repaired variant: a strict parse never returns an object flagged as custom. *)
Theorem strict_parse_flag_false_guarded :
  forall vr ev w pattern_ok selectors_ok fuel interop version dd ci i d hc,
    vr_parse_guard_custom vr = true ->
    run vr ev w pattern_ok selectors_ok fuel (RParse false interop version dd) = Ok (PObject ci i d hc) -> hc = false.
Proof. exact C04Strict.strict_parse_flag_false_guarded. Qed.
Print Assumptions strict_parse_flag_false_guarded.

(* Pinned variant, refuted on the generated tables: a strict parse returns a flagged object. *)
Theorem strict_parse_custom_free_refuted_pinned :
  exists d fuel c i dfl,
    run variant_pinned env0 lib any_pattern any_selectors fuel (RParse false false None d) = Ok (PObject c i dfl true).
Proof. exact C04Witness.strict_parse_returns_flagged_object_pinned. Qed.
Print Assumptions strict_parse_custom_free_refuted_pinned.

(* Pinned variant, refuted on the generated tables: an allow-mode object with flag false whose
   serialization a strict parse refuses (reference to a registered type outside the category). *)
Theorem flag_iff_strict_reparse_refuted_pinned :
  exists d fuel c i dfl e,
    run variant_pinned env0 lib any_pattern any_selectors fuel (RParse true false None d) = Ok (PObject c i dfl false) /\
    reparse variant_pinned env0 lib any_pattern any_selectors fuel false (PObject c i dfl false) = Err e.
Proof. exact C04Witness.flag_false_and_strict_reparse_refused_pinned. Qed.
Print Assumptions flag_iff_strict_reparse_refuted_pinned.

(* The two witnesses under the repaired variant: refused where the property demands it. *)
Theorem witnesses_repaired :
  is_refused (run variant_repaired env0 lib any_pattern any_selectors 6 (RParse false false None identity_with_custom_properties)) = true /\
  is_refused (run variant_repaired env0 lib any_pattern any_selectors 6 (RParse true false None sighting_of_marking)) = true.
Proof. split; [exact C04Witness.strict_parse_refuses_loophole_repaired | exact C04Witness.registered_type_outside_category_refused_repaired]. Qed.
Print Assumptions witnesses_repaired.

(* Props/C04.v -- custom content is admitted only on request and is always detected.
   Model: Model/Schema.v (schema interpreter), Model/SchemaReparse.v (the strict reparse
   experiment); class tables Gen/Tables.v regenerated from /repo on every run.   *)
From Coq Require Import NArith ZArith List String Bool.
From V Require Import Base.UString Base.Json Model.SchemaTypes Model.PyBase Model.Schema Model.Serialize Model.SchemaReparse.
From V Require Import Gen.Tables Proofs.C04Strict Proofs.C04Witness.
From V Require Import Proofs.C01KindsAll Proofs.C01Object Proofs.C01Roundtrip Proofs.C01LibInstance Proofs.C04Modes Proofs.C04Flag Spec.CustomFree Proofs.C04CustomFree Proofs.C01Parse Proofs.C04Parse Proofs.C04Sim Proofs.C01Examples.
Import ListNotations.

(* With customisation disallowed no property cleaner -- at any nesting site: lists, hash
   dictionaries, references, embedded objects, extensions, observed-data and bundle members,
   whatever the nested constructors / parsers do -- returns a value flagged as custom:
   it raises instead. *)
Theorem strict_cleaners_never_flag :
  forall vr w rec_construct rec_parse rec_parse_obs k interop v p hc,
    clean_kind vr w rec_construct rec_parse rec_parse_obs k false interop v = Ok (p, hc) -> hc = false.
Proof. exact C04Strict.clean_kind_strict. Qed.
Print Assumptions strict_cleaners_never_flag.

(* A strict constructor / parse / observable parse returns a flagged object only through the
   custom_properties loophole (the keyword / member is present), and a strict PARSE does so
   only in the variant without the guard. *)
Theorem strict_flag_only_by_loophole :
  forall vr ev w pattern_ok selectors_ok fuel r ci i d hc,
    strict_request r = true ->
    run vr ev w pattern_ok selectors_ok fuel r = Ok (PObject ci i d hc) ->
    hc = true ->
    amem (u "custom_properties") (request_kwargs r) = true /\
    (match r with RConstruct _ _ _ _ _ => True | _ => vr_parse_guard_custom vr = false end).
Proof. exact C04Strict.strict_flag_only_by_loophole. Qed.
Print Assumptions strict_flag_only_by_loophole.

(* Repaired variant: a strict parse never returns an object flagged as custom. *)
Theorem strict_parse_flag_false_guarded :
  forall vr ev w pattern_ok selectors_ok fuel interop version dd ci i d hc,
    vr_parse_guard_custom vr = true ->
    run vr ev w pattern_ok selectors_ok fuel (RParse false interop version dd) = Ok (PObject ci i d hc) -> hc = false.
Proof. exact C04Strict.strict_parse_flag_false_guarded. Qed.
Print Assumptions strict_parse_flag_false_guarded.

(* Pinned variant, refuted on the generated tables: a strict parse returns a flagged object. *)
Theorem strict_parse_custom_free_refuted_pinned :
  exists d fuel c i dfl,
    run variant_pinned env0 lib any_pattern any_selectors fuel (RParse false false None d) = Ok (PObject c i dfl true).
Proof. exact C04Witness.strict_parse_returns_flagged_object_pinned. Qed.
Print Assumptions strict_parse_custom_free_refuted_pinned.

(* Pinned variant, refuted on the generated tables: an allow-mode object with flag false whose
   serialization a strict parse refuses (reference to a registered type outside the category). *)
Theorem flag_iff_strict_reparse_refuted_pinned :
  exists d fuel c i dfl e,
    run variant_pinned env0 lib any_pattern any_selectors fuel (RParse true false None d) = Ok (PObject c i dfl false) /\
    reparse variant_pinned env0 lib any_pattern any_selectors fuel false (PObject c i dfl false) = Err e.
Proof. exact C04Witness.flag_false_and_strict_reparse_refused_pinned. Qed.
Print Assumptions flag_iff_strict_reparse_refuted_pinned.

(* The two witnesses under the repaired variant: refused where the property demands it. *)
Theorem witnesses_repaired :
  is_refused (run variant_repaired env0 lib any_pattern any_selectors 6 (RParse false false None identity_with_custom_properties)) = true /\
  is_refused (run variant_repaired env0 lib any_pattern any_selectors 6 (RParse true false None sighting_of_marking)) = true.
Proof. split; [exact C04Witness.strict_parse_refuses_loophole_repaired | exact C04Witness.registered_type_outside_category_refused_repaired]. Qed.
Print Assumptions witnesses_repaired.

(* ------------------------------------------------------------------ the flag and the strict reparse *)

(* The FULL statement the property asks for (target): for every allow-mode run that returns an object,
   the flag is false exactly when a strict parse of the object's serialization succeeds. *)
Definition flag_iff_strict_reparse_full_statement : Prop :=
  forall vr ev w pattern_ok selectors_ok fuel r c i d hc,
    vr_ref_flip_unreg vr = true -> vr_parse_guard_custom vr = true -> vr_marking_flag vr = true -> vr_flag_from_stored vr = true ->
    (match r with RConstruct _ a _ _ _ => a | RParse a _ _ _ => a | RParseObs _ _ a _ _ => a end) = true ->
    run vr ev w pattern_ok selectors_ok fuel r = Ok (PObject c i d hc) ->
    (hc = false <-> exists fuel' o', reparse vr ev w pattern_ok selectors_ok fuel' false (PObject c i d hc) = Ok o').

(* A run that returns a custom-free object does not depend on the allow_custom switch: every property
   cleaner that reports no custom content behaves the same in both modes (repaired reference inversion),
   and so does the constructor of every proved class, at every fuel, on plain input. *)
Theorem custom_free_run_mode_independent :
  forall vr ev w pattern_ok selectors_ok, vr_ref_flip_unreg vr = true ->
  forall ids, closed_oki vr w ids = true ->
  forall fuel kid a a' interop kw vrefs o,
    mem_ustr kid ids = true -> plain_dict kw = true ->
    run vr ev w pattern_ok selectors_ok fuel (RConstruct kid a interop kw vrefs) = Ok o -> pval_has_custom o = false ->
    run vr ev w pattern_ok selectors_ok fuel (RConstruct kid a' interop kw vrefs) = Ok o.
Proof. exact C04Flag.run_mode. Qed.
Print Assumptions custom_free_run_mode_independent.

(* flag_iff_strict_reparse, constructor level, partial (proved classes: closed_ok; plain input; a 2.1 observable
   with its id): an allow_custom=True run returns flag false exactly when the allow_custom=False run on the
   object's own encoding succeeds.  Both directions; every fuel. *)
Theorem flag_iff_strict_reparse_partial :
  forall vr ev w pattern_ok selectors_ok, vr_year_pad vr = true -> vr_ref_flip_unreg vr = true ->
  forall ids, closed_oki vr w ids = true ->
  forall fuel kid interop kw vrefs o,
    mem_ustr kid ids = true -> plain_dict kw = true -> id_given w kid kw = true ->
    run vr ev w pattern_ok selectors_ok fuel (RConstruct kid true interop kw vrefs) = Ok o ->
    (pval_has_custom o = false <->
     exists o', run vr ev w pattern_ok selectors_ok fuel (RConstruct kid false interop (omem o) vrefs) = Ok o').
Proof. exact C04Flag.flag_iff_strict_reparse_construct. Qed.
Print Assumptions flag_iff_strict_reparse_partial.

(* strict_custom_free, constructor level, partial (proved classes: closed_ok; plain input): the object an
   allow_custom=False constructor returns contains no custom content at any depth, in the typed sense of
   Spec/CustomFree.v (cf_obj: every member a property of its class, hash names from the vocabulary,
   references to registered non-x- types, nested objects custom-free in turn, no flag anywhere).  Every fuel. *)
Definition strict_custom_free_full_statement : Prop :=
  forall vr ev w pattern_ok selectors_ok fuel kid interop kw vrefs o,
    run vr ev w pattern_ok selectors_ok fuel (RConstruct kid false interop kw vrefs) = Ok o ->
    cf_obj w fuel kid o = true.

Theorem strict_custom_free_partial :
  forall vr ev w pattern_ok selectors_ok ids, closed_oki vr w ids = true ->
  forall fuel kid interop kw vrefs o,
    mem_ustr kid ids = true -> plain_dict kw = true ->
    run vr ev w pattern_ok selectors_ok fuel (RConstruct kid false interop kw vrefs) = Ok o ->
    cf_obj w fuel kid o = true.
Proof. exact C04CustomFree.run_strict_custom_free. Qed.
Print Assumptions strict_custom_free_partial.

(* ... and "always detected": in either mode an object returned with the flag off is custom-free in that sense *)
Theorem unflagged_is_custom_free_partial :
  forall vr ev w pattern_ok selectors_ok ids, closed_oki vr w ids = true -> vr_ref_flip_unreg vr = true ->
  forall fuel kid a interop kw vrefs o,
    mem_ustr kid ids = true -> plain_dict kw = true ->
    run vr ev w pattern_ok selectors_ok fuel (RConstruct kid a interop kw vrefs) = Ok o -> pval_has_custom o = false ->
    cf_obj w fuel kid o = true.
Proof. exact C04CustomFree.run_unflagged_custom_free. Qed.
Print Assumptions unflagged_is_custom_free_partial.

(* flag_iff_strict_reparse at the level of stix2.parse (no version named), partial: for the parse entry points
   `pids` (registry_ok, parse_class_ok; 86 classes of the generated tables), plain input with its id when the
   type is a 2.1 observable type: the object an allow_custom=True parse returns has flag false exactly when the
   allow_custom=False parse of its own encoding succeeds.  Both directions; every fuel. *)
Theorem flag_iff_strict_reparse_parse_partial :
  forall vr ev w pattern_ok selectors_ok, vr_year_pad vr = true -> vr_ref_flip_unreg vr = true ->
  forall ids, closed_oki vr w ids = true -> registry_ok w = true ->
  forall pids, forallb (fun k => mem_ustr k ids) pids = true ->
    forallb (fun k => match find_class (wclasses w) k with Some c => parse_class_ok w c | None => false end) pids = true ->
  forall fuel interop d ci S dfl hc,
    plain_dict d = true -> mem_ustr ci pids = true ->
    (amem id_key d = true \/ forall t, alookup type_key d = Some (JStr t) -> amem t (robservables (wreg21 w)) = false) ->
    run vr ev w pattern_ok selectors_ok fuel (RParse true interop None d) = Ok (PObject ci S dfl hc) ->
    (hc = false <->
     exists o', run vr ev w pattern_ok selectors_ok fuel (RParse false interop None (omem (PObject ci S dfl hc))) = Ok o').
Proof. exact C04Parse.flag_iff_strict_reparse_parse. Qed.
Print Assumptions flag_iff_strict_reparse_parse_partial.

(* strict_custom_free at the level of stix2.parse, partial: what an allow_custom=False parse returns for a covered
   entry point is custom-free at every depth (Spec/CustomFree.v) *)
Theorem strict_custom_free_parse_partial :
  forall vr ev w pattern_ok selectors_ok ids, closed_oki vr w ids = true ->
  forall pids, forallb (fun k => mem_ustr k ids) pids = true ->
  forall f interop d ci S dfl hc,
    plain_dict d = true -> mem_ustr ci pids = true ->
    run vr ev w pattern_ok selectors_ok (Datatypes.S f) (RParse false interop None d) = Ok (PObject ci S dfl hc) ->
    cf_obj w f ci (PObject ci S dfl hc) = true.
Proof. exact C04Parse.strict_custom_free_parse. Qed.
Print Assumptions strict_custom_free_parse_partial.

(* "always detected", with the error named (the refused side of flag_iff_strict_reparse made definite): when the
   allow_custom=True run returns a FLAGGED object, the allow_custom=False run on the object's own encoding does not
   merely "not return Ok" -- it returns the error ExtraPropertiesError (EExtra) or InvalidValueError (EInvalidValue);
   never Unmodelled, never out of fuel.  Proofs/C04Sim.v: the strict run follows the lenient one step by step up to
   the first place where custom content is admitted, and raises there.  Constructor level, then stix2.parse level. *)
Theorem flagged_strict_reparse_refused_partial :
  forall vr ev w pattern_ok selectors_ok, vr_year_pad vr = true -> vr_ref_flip_unreg vr = true ->
  forall ids, closed_oki vr w ids = true ->
  forall fuel kid interop kw vrefs o,
    mem_ustr kid ids = true -> plain_dict kw = true -> id_given w kid kw = true ->
    run vr ev w pattern_ok selectors_ok fuel (RConstruct kid true interop kw vrefs) = Ok o -> pval_has_custom o = true ->
    run vr ev w pattern_ok selectors_ok fuel (RConstruct kid false interop (omem o) vrefs) = Err EExtra \/
    run vr ev w pattern_ok selectors_ok fuel (RConstruct kid false interop (omem o) vrefs) = Err EInvalidValue.
Proof. exact C04Sim.flagged_strict_reparse_refused_construct. Qed.
Print Assumptions flagged_strict_reparse_refused_partial.

Theorem flagged_strict_reparse_refused_parse_partial :
  forall vr ev w pattern_ok selectors_ok, vr_year_pad vr = true -> vr_ref_flip_unreg vr = true ->
  forall ids, closed_oki vr w ids = true -> registry_ok w = true ->
  forall pids, forallb (fun k => mem_ustr k ids) pids = true ->
    forallb (fun k => match find_class (wclasses w) k with Some c => parse_class_ok w c | None => false end) pids = true ->
  forall fuel interop d ci S dfl,
    plain_dict d = true -> mem_ustr ci pids = true ->
    (amem id_key d = true \/ forall t, alookup type_key d = Some (JStr t) -> amem t (robservables (wreg21 w)) = false) ->
    run vr ev w pattern_ok selectors_ok fuel (RParse true interop None d) = Ok (PObject ci S dfl true) ->
    run vr ev w pattern_ok selectors_ok fuel (RParse false interop None (omem (PObject ci S dfl true))) = Err EExtra \/
    run vr ev w pattern_ok selectors_ok fuel (RParse false interop None (omem (PObject ci S dfl true))) = Err EInvalidValue.
Proof. exact C04Sim.flagged_strict_reparse_refused_parse. Qed.
Print Assumptions flagged_strict_reparse_refused_parse_partial.

(* the hypotheses are met by the repaired variant on the generated tables (class list recomputed each run) *)
Theorem flag_theorem_applies_to_lib :
  vr_year_pad variant_repaired = true /\ vr_ref_flip_unreg variant_repaired = true /\
  closed_oki variant_repaired lib lib_proved_idsi = true /\ registry_ok lib = true /\
  forallb (fun k => mem_ustr k lib_proved_idsi) lib_parse_idsi = true /\
  forallb (fun k => match find_class (wclasses lib) k with Some c => parse_class_ok lib c | None => false end) lib_parse_idsi = true.
Proof.
  exact (conj eq_refl (conj eq_refl (conj C01LibInstance.lib_proved_closedi (conj C01LibInstance.lib_registry_ok
          (conj C01LibInstance.lib_parse_subi C01LibInstance.lib_parse_oki))))).
Qed.
Print Assumptions flag_theorem_applies_to_lib.

(* ------------------------------------------------------------------ a positive instance (Proofs/C01Examples.v) *)
(* a 2.1 identity carrying the custom property x_foo, parsed with allow_custom=True, is flagged; the strict parse of its
   own encoding is refused with a definite error (ExtraPropertiesError); the input is plain and its class is one of the
   covered parse entry points (identity_parse_facts in Props/C01.v) *)
Example identity_custom_flagged_and_refused :
  flagged (run variant_repaired env0 lib any_pattern any_selectors 6 (RParse true false None identity21_custom)) = true /\
  strict_rerun_error (run variant_repaired env0 lib any_pattern any_selectors 6 (RParse true false None identity21_custom)) = Some EExtra /\
  plain_dict identity21_custom = true.
Proof. exact C01Examples.identity_custom_flagged_and_refused. Qed.

(* Props/C09Src.v -- C09: the choices of the hand-written model Model/PatternEq.v are the choices of the
   CURRENT SOURCE TEXT.  Gen/PatternEqFacts.v is regenerated on every run by translators/tr_patterneq.py from the
   ast of stix2/equivalence/pattern/{__init__, compare/comparison, compare/observation, transform/__init__,
   transform/comparison, transform/observation, transform/specials}.py -- fail closed: a function whose text is
   neither the recorded one nor a recognised alternative aborts the translator and names the function.
   For every fact, Proofs/PatternEqSrcDefs.v has the model's function generalised over the alternatives; the
   theorems below say that at the choice read from the text it IS the model's function.  If the text regresses
   to another recognised choice (an operator table reordered, `negated` no longer compared or no longer copied
   by _dupe_ast, marked operands deleted in ascending order, the matched container operand not consumed, a pass
   dropped from a chain, the MATCHES or StringConstant guard removed, the arithmetic of _mask_bytes changed, a
   cache in find_equivalent_patterns, ...) the statement no longer holds of src_* and the build names the
   obligation.  The harness additionally requires that the variant of the special-value pass shown by running
   the witnesses is src_variant.                                                                              *)
From Coq Require Import NArith ZArith List Bool Lia.
From V Require Import Base.UString Model.PatternEq Proofs.PatternEqCmp Proofs.PatternEqNorm Proofs.PatternEqSrcDefs Gen.PatternEqFacts.
Import ListNotations.
Open Scope list_scope.

(* ---- the type-order tables ---- *)

Theorem source_comparison_op_order : forall a b,
    cop_cmp a b = match index_of cop_eqb a src_cop_order, index_of cop_eqb b src_cop_order with
                  | Some i, Some j => N.compare i j | _, _ => Eq end.
Proof. intros a b. destruct a, b; reflexivity. Qed.
Print Assumptions source_comparison_op_order.

(* constants of different non-numeric types are ordered by _CONSTANT_TYPE_ORDER, lists last; numbers come before all *)
Theorem source_constant_type_order :
  table_is_const_rank src_const_type_order = true /\
  (forall x y, ckind_of_prim x <> ckind_of_prim y -> prim_cmp x y = N.compare (rank_of_ckind (ckind_of_prim x)) (rank_of_ckind (ckind_of_prim y))) /\
  (forall x l, const_cmp (KP x) (KList l) = Lt /\ const_cmp (KList l) (KP x) = Gt).
Proof.
  split; [vm_compute; reflexivity|]. split.
  - intros x y H. destruct x, y; try reflexivity; contradiction H; reflexivity.
  - intros; split; reflexivity.
Qed.
Print Assumptions source_constant_type_order.

Theorem source_constant_cmp_numbers_first : forall x y, ckind_of_prim x = KNum -> ckind_of_prim y <> KNum ->
    prim_cmp x y = src_num_first /\ prim_cmp y x = src_num_second.
Proof. exact const_numbers_first. Qed.
Print Assumptions source_constant_cmp_numbers_first.

Theorem source_observation_type_order :
  table_is_otype_index src_obs_type_order = true /\
  (forall a b, okind_of a <> okind_of b -> ocmp a b = N.compare (rank_of_okind (okind_of a)) (rank_of_okind (okind_of b))).
Proof.
  split; [vm_compute; reflexivity|]. intros a b H. destruct a, b; try reflexivity; contradiction H; reflexivity.
Qed.
Print Assumptions source_observation_type_order.

Theorem source_qualifier_type_order :
  table_is_qual_rank src_qual_type_order = true /\
  (forall a b, qkind_of a <> qkind_of b -> qual_cmp a b = N.compare (qrank (qkind_of a)) (qrank (qkind_of b))).
Proof. split; [vm_compute; reflexivity | exact qual_cmp_kinds]. Qed.
Print Assumptions source_qualifier_type_order.

(* ---- hex constants are compared as the bytes they denote (leading zero bytes count, h'' is a value); set literals
        lexicographically after sorting (a proper prefix is smaller, not equal) ---- *)

Theorem source_constant_comparators :
  (forall x y, prim_cmp (PHex x) (PHex y) = hex_cmp_g src_hex_cmp x y) /\
  (forall l1 l2, list_cmp l1 l2 = list_cmp_g src_list_cmp l1 l2).
Proof. split; reflexivity. Qed.
Print Assumptions source_constant_comparators.

Theorem alternative_hex_as_number_refuted :
  hex_cmp_g HexNumber [48; 48; 102; 102]%N [102; 102]%N = Eq /\ prim_cmp (PHex [48; 48; 102; 102]%N) (PHex [102; 102]%N) = Lt.
Proof. split; vm_compute; reflexivity. Qed.
Print Assumptions alternative_hex_as_number_refuted.

Theorem alternative_list_zip_refuted :
  list_cmp_g ListZip [PInt 0] [PInt 0; PInt 2] = Eq /\ list_cmp [PInt 0] [PInt 0; PInt 2] = Lt.
Proof. split; vm_compute; reflexivity. Qed.
Print Assumptions alternative_list_zip_refuted.

(* ---- both DNF transformers transform again the AND / FOLLOWEDBY terms they have just built
        (Model/PatternEq.v: cdnf and odnf call themselves on every product term) ---- *)

Theorem source_dnf_redistributes : src_dnf_redistributes_c = true /\ src_dnf_redistributes_o = true.
Proof. split; reflexivity. Qed.
Print Assumptions source_dnf_redistributes.

(* ---- WITHIN windows are compared as the real numbers of seconds they are (1.2 and 1.5 are different windows) ---- *)

Theorem source_within_cmp : forall m1 e1 m2 e2,
    qual_cmp (QWithin m1 e1) (QWithin m2 e2) = within_cmp_g src_within_cmp m1 e1 m2 e2.
Proof. reflexivity. Qed.
Print Assumptions source_within_cmp.

Theorem alternative_within_truncated_refuted :
  within_cmp_g WithinTruncated 12 1 15 1 = Eq /\ qual_cmp (QWithin 12 1) (QWithin 15 1) = Lt.
Proof. split; vm_compute; reflexivity. Qed.
Print Assumptions alternative_within_truncated_refuted.

(* ---- path steps: a list index is never equal to a key (x:y[12] is not x:y.'12'), indices come first ---- *)

Theorem source_path_steps :
  src_step_cmp = IndexBeforeKey /\ (forall z s, step_cmp (SIdx z) (SKey s) = Lt /\ step_cmp (SKey s) (SIdx z) = Gt).
Proof. split; [reflexivity | intros; split; reflexivity]. Qed.
Print Assumptions source_path_steps.

(* ---- simple_comparison_expression_cmp compares path, operator, negated (non-negated first), constant, in this order ---- *)

Theorem source_comparison_fields : forall x y, atom_cmp x y = atom_cmp_by src_atom_steps x y.
Proof. exact atom_cmp_steps. Qed.
Print Assumptions source_comparison_fields.

(* ---- _dupe_ast hands every field to the constructor: the duplicate is the comparison itself
        (the model's DNF shares the operands it distributes) ---- *)

Theorem source_dupe_ast_is_identity : src_dupe_compound_faithful = true /\ forall a, dupe_atom src_dupe_c_args a = Some a.
Proof. split; [reflexivity|]. intros [t p o n k]. reflexivity. Qed.
Print Assumptions source_dupe_ast_is_identity.

Theorem alternative_dupe_without_negated_refuted :
  exists a, dupe_atom [DOp; DType; DPath; DRhs] a <> Some a.
Proof. exists (mkAtom [] [] OpEq true (KP (PBool true))). discriminate. Qed.
Print Assumptions alternative_dupe_without_negated_refuted.

(* ---- absorption deletes the marked operands from the highest index down: that is remove_marked ---- *)

Theorem source_absorption_deletion : forall (A : Type) (ops : list A) del, List.length del = List.length ops ->
    delete_in_order src_absorb_delete_c ops del = remove_marked ops del /\
    delete_in_order src_absorb_delete_o ops del = remove_marked ops del.
Proof. intros A ops del H. split; exact (delete_descending ops del H). Qed.
Print Assumptions source_absorption_deletion.

Theorem alternative_ascending_deletion_refuted :
  delete_in_order Ascending [1; 2; 3; 4]%N [true; true; false; false] = [2; 4]%N /\
  remove_marked [1; 2; 3; 4]%N [true; true; false; false] = [3; 4]%N.
Proof. split; reflexivity. Qed.
Print Assumptions alternative_ascending_deletion_refuted.

(* ---- __is_contained_and consumes the operand of the container it has matched ---- *)

Theorem source_contained_and_consumes : forall (A : Type) (cmp : A -> A -> comparison) ees c,
    contained_and_g src_contained_and_consumes cmp ees c = contained_and cmp ees c.
Proof. intros A cmp ees c. exact (contained_and_consuming cmp ees c). Qed.
Print Assumptions source_contained_and_consumes.

Theorem alternative_contained_and_not_consuming_refuted :
  contained_and_g false N.compare [1; 1]%N [1; 2]%N = true /\ contained_and N.compare [1; 1]%N [1; 2]%N = false.
Proof. split; reflexivity. Qed.
Print Assumptions alternative_contained_and_not_consuming_refuted.

(* ---- the chains: which transformers, in which order; ChainTransformer reports a change iff one of them does ---- *)

Theorem source_simplify_chains :
  src_chain_flag = AnyChanged /\
  (forall e, csimplify e = run_chain cpass src_comp_simplify e) /\ (forall e, osimplify e = run_chain opass src_obs_simplify e).
Proof. split; [reflexivity | split; [exact csimplify_chain | exact osimplify_chain]]. Qed.
Print Assumptions source_simplify_chains.

(* cnormalize = special values; settle; DNF; settle -- onormalize = comparison expressions; settle; DNF; settle
   (Model/PatternEq.v: cnormalize, onormalize are these four binds, by definition) *)
Theorem source_normalize_chains :
  src_comp_normalize = [SSpecial; SSettle; SDnf; SSettle] /\ src_pattern_normalize = [SNormCmp; SSettle; SDnf; SSettle] /\
  (forall v fuel c, cnormalize v fuel c =
                    (e <- cspecial v c ;; ' (e1, c1) <- csettle fuel e ;; ' (e2, c2) <- cdnf fuel e1 ;; ' (e3, c3) <- csettle fuel e2 ;;
                     Ok (e3, c1 || c2 || c3))) /\
  (forall v fuel p, onormalize v fuel p =
                    (' (e0, _) <- onormcmp v fuel p ;; ' (e1, _) <- osettle fuel e0 ;; ' (e2, _) <- odnf fuel e1 ;;
                     ' (e3, _) <- osettle fuel e2 ;; Ok e3)).
Proof. repeat split. Qed.
Print Assumptions source_normalize_chains.

(* ---- the special-value pass of the text is the repaired variant (guards on the constant's type, MATCHES left alone),
        the one the soundness and totality theorems of Props/C09.v are about ---- *)

Theorem source_special_value_variant : src_variant = repaired.
Proof. reflexivity. Qed.
Print Assumptions source_special_value_variant.

(* ---- _mask_bytes with the arithmetic of the text is the model's mask_bytes ---- *)

Theorem source_mask_bytes : forall bs prefix,
    mask_bytes_g src_mb_fixed src_mb_zero src_mb_ones src_mb_mask bs prefix = mask_bytes bs prefix.
Proof.
  apply mask_bytes_g_model; try (intros; reflexivity).
  intros n Hn. assert (Hc : (n = 0 \/ n = 1 \/ n = 2 \/ n = 3 \/ n = 4 \/ n = 5 \/ n = 6 \/ n = 7)%Z) by lia.
  repeat (destruct Hc as [Hc|Hc]; [subst n; reflexivity|]). subst n; reflexivity.
Qed.
Print Assumptions source_mask_bytes.

(* ---- the entry points: the verdict is `comparator = 0` on the two normal forms; the search parses, normalises and
        compares EVERY member (the model's find_go; Props/C09.v find_is_filter); both hand stix_version to the parser
        by keyword (its second positional parameter is something else) ---- *)

Theorem source_entry_points : src_equiv_test = CmpIsZero /\ src_find_loop = FindEveryMember /\ src_equiv_version = ByKeyword.
Proof. repeat split. Qed.
Print Assumptions source_entry_points.

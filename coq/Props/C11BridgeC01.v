(* Props/C11BridgeC01.v -- OPTIONAL bridge group (depends on property C01's files, owned by another builder). C11's assumption "what is read back from a file / a bundle has the same store view as what
   was written" obtained from property C01 (Props/C01.v roundtrip_equal_partial) for the classes C01 covers:
   an object re-constructed from its own encoding has the same id, type, modified, created (as instants) and the
   same source_ref / target_ref / relationship_type / created_by_ref -- all that Model/Store.v keeps of it.      *)
From Coq Require Import NArith ZArith List String Bool.
From V Require Import Base.UString Base.Json Model.SchemaTypes Model.PyBase Model.Schema Model.Serialize.
From V Require Import Spec.JsonValue Proofs.C01Basics Proofs.C01Serialize.
From V Require Import Proofs.C01Kinds Proofs.C01KindsAll Proofs.C01Object Proofs.C01Roundtrip Proofs.StoreRoundtrip.
Import ListNotations.

Theorem roundtrip_preserves_store_view :
  forall vr ev w pattern_ok selectors_ok, vr_year_pad vr = true ->
  forall ids, closed_okw vr w ids = true ->
  forall fuel kid allow interop kw vrefs o o' tag,
    mem_ustr kid ids = true -> plain_dict kw = true -> id_given w kid kw = true ->
    run vr ev w pattern_ok selectors_ok fuel (RConstruct kid allow interop kw vrefs) = Ok o ->
    run vr ev w pattern_ok selectors_ok fuel (RConstruct kid allow interop (omem o) vrefs) = Ok o' ->
    o' = o /\ store_view tag o' = store_view tag o.
Proof. exact Proofs.StoreRoundtrip.roundtrip_preserves_store_view. Qed.
Print Assumptions roundtrip_preserves_store_view.

(* bundles (save_to_file / load_from_file, bundlify): a bundle re-constructed from its own encoding holds members
   with the same store views, in the same order (from Props/C01.v roundtrip_equal_bundle_partial) *)
From V Require Import Proofs.C01Parse Proofs.C01Bundle.
Theorem bundle_roundtrip_preserves_store_views :
  forall vr ev w pattern_ok selectors_ok, vr_year_pad vr = true ->
  forall ids, closed_ok vr w ids = true -> registry_ok w = true ->
  forall pids, forallb (fun k => mem_ustr k ids) pids = true ->
    forallb (fun k => match find_class (wclasses w) k with Some c => parse_class_ok w c | None => false end) pids = true ->
  forall fuel kid allow interop kw vrefs o o' c tag,
    find_class (wclasses w) kid = Some c -> bundle_ok vr w ids c = true ->
    plain_dict kw = true ->
    run vr ev w pattern_ok selectors_ok fuel (RConstruct kid allow interop kw vrefs) = Ok o ->
    bundle_members_ok w pids kw o = true ->
    run vr ev w pattern_ok selectors_ok fuel (RConstruct kid allow interop (omem o) vrefs) = Ok o' ->
    o' = o /\ bundle_views tag o' = bundle_views tag o.
Proof. exact Proofs.StoreRoundtrip.bundle_roundtrip_preserves_store_views. Qed.
Print Assumptions bundle_roundtrip_preserves_store_views.

(* store_view is not the trivial None: a concrete identity object has the expected view.  The hypotheses of the two
   theorems (closed_okw / closed_ok, registry_ok, bundle_ok, ...) are property C01's coverage predicates; that they
   hold of the tables generated from /repo is C01's lib_proved_closedw / lib_bundle_okb (Props/C01.v), not restated here. *)
Example store_view_is_informative :
  store_view 7 sv_example =
  Some (Store.mkObj (u "identity--00000001-0000-4000-8000-000000000001") (u "identity")
                    (Store.VInst 1577836800000000%Z) (Store.VInst 1420070400000000%Z) 7
                    [(Store.k_created_by_ref, u "identity--00000002-0000-4000-8000-000000000002")]).
Proof. exact store_view_example. Qed.

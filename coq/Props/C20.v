(* Props/C20.v -- property C20, stated on the model regenerated from the
   current stix2/confidence/scales.py.  Only statements here; proofs are in
   Proofs/ChainFacts.v (generic) and Proofs/C20Proofs.v (kernel evaluation).
   Value = a label/number is returned, Refused = ValueError is raised,
   FellThrough = the function returned None (no branch matched).            *)
From Coq Require Import ZArith List String.
From V Require Import Model.Chain Spec.ConfidenceSpec Gen.Scales Proofs.ChainFacts Proofs.C20Proofs.
Open Scope Z_scope.

(* ---- scale nlmh ---- *)
Theorem nlmh_total : forall x, 0 <= x <= 100 -> exists l, eval_vchain value_to_none_low_medium_high_chain x = Value l.
Proof. exact (scale_total _ _ nlmh_chain_ok nlmh_contiguous). Qed.
Print Assumptions nlmh_total.

Theorem nlmh_refuses : forall x, x < 0 \/ 100 < x -> eval_vchain value_to_none_low_medium_high_chain x = Refused.
Proof. exact (scale_refuses _ _ nlmh_chain_ok nlmh_inside). Qed.
Print Assumptions nlmh_refuses.

Theorem nlmh_monotone : forall x y, 0 <= x -> x <= y -> y <= 100 ->
  exists lx ly, eval_vchain value_to_none_low_medium_high_chain x = Value lx /\ eval_vchain value_to_none_low_medium_high_chain y = Value ly /\
    (rank (labels_of nlmh_ranges) lx <= rank (labels_of nlmh_ranges) ly)%nat.
Proof. exact (scale_monotone _ _ nlmh_chain_ok nlmh_contiguous nlmh_nodup). Qed.
Print Assumptions nlmh_monotone.

Theorem nlmh_roundtrip : forall s v, eval_lfun none_low_med_high_to_value_fun s = Value v -> eval_vchain value_to_none_low_medium_high_chain v = Value s.
Proof. exact (scale_roundtrip _ _ _ _ nlmh_chain_ok nlmh_fun_ok nlmh_rt). Qed.
Print Assumptions nlmh_roundtrip.

Theorem nlmh_unknown_refused : forall s, ~ In s (map fst nlmh_labels) -> eval_lfun none_low_med_high_to_value_fun s = Refused.
Proof. exact (scale_unknown_refused _ _ nlmh_fun_ok). Qed.
Print Assumptions nlmh_unknown_refused.

Theorem nlmh_agrees_spec :
  (forall x, eval_vchain value_to_none_low_medium_high_chain x = spec_label nlmh_ranges x) /\
  (forall s, eval_lfun none_low_med_high_to_value_fun s = spec_value nlmh_labels s).
Proof. exact (scale_agrees_spec _ _ _ _ nlmh_chain_ok nlmh_fun_ok). Qed.
Print Assumptions nlmh_agrees_spec.

(* ---- scale zero_ten ---- *)
Theorem zero_ten_total : forall x, 0 <= x <= 100 -> exists l, eval_vchain value_to_zero_ten_chain x = Value l.
Proof. exact (scale_total _ _ zero_ten_chain_ok zero_ten_contiguous). Qed.
Print Assumptions zero_ten_total.

Theorem zero_ten_refuses : forall x, x < 0 \/ 100 < x -> eval_vchain value_to_zero_ten_chain x = Refused.
Proof. exact (scale_refuses _ _ zero_ten_chain_ok zero_ten_inside). Qed.
Print Assumptions zero_ten_refuses.

Theorem zero_ten_monotone : forall x y, 0 <= x -> x <= y -> y <= 100 ->
  exists lx ly, eval_vchain value_to_zero_ten_chain x = Value lx /\ eval_vchain value_to_zero_ten_chain y = Value ly /\
    (rank (labels_of zero_ten_ranges) lx <= rank (labels_of zero_ten_ranges) ly)%nat.
Proof. exact (scale_monotone _ _ zero_ten_chain_ok zero_ten_contiguous zero_ten_nodup). Qed.
Print Assumptions zero_ten_monotone.

Theorem zero_ten_roundtrip : forall s v, eval_lfun zero_ten_to_value_fun s = Value v -> eval_vchain value_to_zero_ten_chain v = Value s.
Proof. exact (scale_roundtrip _ _ _ _ zero_ten_chain_ok zero_ten_fun_ok zero_ten_rt). Qed.
Print Assumptions zero_ten_roundtrip.

Theorem zero_ten_unknown_refused : forall s, ~ In s (map fst zero_ten_labels) -> eval_lfun zero_ten_to_value_fun s = Refused.
Proof. exact (scale_unknown_refused _ _ zero_ten_fun_ok). Qed.
Print Assumptions zero_ten_unknown_refused.

Theorem zero_ten_agrees_spec :
  (forall x, eval_vchain value_to_zero_ten_chain x = spec_label zero_ten_ranges x) /\
  (forall s, eval_lfun zero_ten_to_value_fun s = spec_value zero_ten_labels s).
Proof. exact (scale_agrees_spec _ _ _ _ zero_ten_chain_ok zero_ten_fun_ok). Qed.
Print Assumptions zero_ten_agrees_spec.

(* ---- scale admiralty ---- *)
Theorem admiralty_total : forall x, 0 <= x <= 100 -> exists l, eval_vchain value_to_admiralty_credibility_chain x = Value l.
Proof. exact (scale_total _ _ admiralty_chain_ok admiralty_contiguous). Qed.
Print Assumptions admiralty_total.

Theorem admiralty_refuses : forall x, x < 0 \/ 100 < x -> eval_vchain value_to_admiralty_credibility_chain x = Refused.
Proof. exact (scale_refuses _ _ admiralty_chain_ok admiralty_inside). Qed.
Print Assumptions admiralty_refuses.

Theorem admiralty_monotone : forall x y, 0 <= x -> x <= y -> y <= 100 ->
  exists lx ly, eval_vchain value_to_admiralty_credibility_chain x = Value lx /\ eval_vchain value_to_admiralty_credibility_chain y = Value ly /\
    (rank (labels_of admiralty_ranges) lx <= rank (labels_of admiralty_ranges) ly)%nat.
Proof. exact (scale_monotone _ _ admiralty_chain_ok admiralty_contiguous admiralty_nodup). Qed.
Print Assumptions admiralty_monotone.

Theorem admiralty_roundtrip : forall s v, eval_lfun admiralty_credibility_to_value_fun s = Value v -> eval_vchain value_to_admiralty_credibility_chain v = Value s.
Proof. exact (scale_roundtrip _ _ _ _ admiralty_chain_ok admiralty_fun_ok admiralty_rt). Qed.
Print Assumptions admiralty_roundtrip.

Theorem admiralty_unknown_refused : forall s, ~ In s (map fst admiralty_labels) -> eval_lfun admiralty_credibility_to_value_fun s = Refused.
Proof. exact (scale_unknown_refused _ _ admiralty_fun_ok). Qed.
Print Assumptions admiralty_unknown_refused.

Theorem admiralty_agrees_spec :
  (forall x, eval_vchain value_to_admiralty_credibility_chain x = spec_label admiralty_ranges x) /\
  (forall s, eval_lfun admiralty_credibility_to_value_fun s = spec_value admiralty_labels s).
Proof. exact (scale_agrees_spec _ _ _ _ admiralty_chain_ok admiralty_fun_ok). Qed.
Print Assumptions admiralty_agrees_spec.

(* ---- scale wep ---- *)
Theorem wep_total : forall x, 0 <= x <= 100 -> exists l, eval_vchain value_to_wep_chain x = Value l.
Proof. exact (scale_total _ _ wep_chain_ok wep_contiguous). Qed.
Print Assumptions wep_total.

Theorem wep_refuses : forall x, x < 0 \/ 100 < x -> eval_vchain value_to_wep_chain x = Refused.
Proof. exact (scale_refuses _ _ wep_chain_ok wep_inside). Qed.
Print Assumptions wep_refuses.

Theorem wep_monotone : forall x y, 0 <= x -> x <= y -> y <= 100 ->
  exists lx ly, eval_vchain value_to_wep_chain x = Value lx /\ eval_vchain value_to_wep_chain y = Value ly /\
    (rank (labels_of wep_ranges) lx <= rank (labels_of wep_ranges) ly)%nat.
Proof. exact (scale_monotone _ _ wep_chain_ok wep_contiguous wep_nodup). Qed.
Print Assumptions wep_monotone.

Theorem wep_roundtrip : forall s v, eval_lfun wep_to_value_fun s = Value v -> eval_vchain value_to_wep_chain v = Value s.
Proof. exact (scale_roundtrip _ _ _ _ wep_chain_ok wep_fun_ok wep_rt). Qed.
Print Assumptions wep_roundtrip.

Theorem wep_unknown_refused : forall s, ~ In s (map fst wep_labels) -> eval_lfun wep_to_value_fun s = Refused.
Proof. exact (scale_unknown_refused _ _ wep_fun_ok). Qed.
Print Assumptions wep_unknown_refused.

Theorem wep_agrees_spec :
  (forall x, eval_vchain value_to_wep_chain x = spec_label wep_ranges x) /\
  (forall s, eval_lfun wep_to_value_fun s = spec_value wep_labels s).
Proof. exact (scale_agrees_spec _ _ _ _ wep_chain_ok wep_fun_ok). Qed.
Print Assumptions wep_agrees_spec.

(* ---- scale dni ---- *)
Theorem dni_total : forall x, 0 <= x <= 100 -> exists l, eval_vchain value_to_dni_chain x = Value l.
Proof. exact (scale_total _ _ dni_chain_ok dni_contiguous). Qed.
Print Assumptions dni_total.

Theorem dni_refuses : forall x, x < 0 \/ 100 < x -> eval_vchain value_to_dni_chain x = Refused.
Proof. exact (scale_refuses _ _ dni_chain_ok dni_inside). Qed.
Print Assumptions dni_refuses.

Theorem dni_monotone : forall x y, 0 <= x -> x <= y -> y <= 100 ->
  exists lx ly, eval_vchain value_to_dni_chain x = Value lx /\ eval_vchain value_to_dni_chain y = Value ly /\
    (rank (labels_of dni_ranges) lx <= rank (labels_of dni_ranges) ly)%nat.
Proof. exact (scale_monotone _ _ dni_chain_ok dni_contiguous dni_nodup). Qed.
Print Assumptions dni_monotone.

Theorem dni_roundtrip : forall s v, eval_lfun dni_to_value_fun s = Value v -> eval_vchain value_to_dni_chain v = Value s.
Proof. exact (scale_roundtrip _ _ _ _ dni_chain_ok dni_fun_ok dni_rt). Qed.
Print Assumptions dni_roundtrip.

Theorem dni_unknown_refused : forall s, ~ In s (map fst dni_labels) -> eval_lfun dni_to_value_fun s = Refused.
Proof. exact (scale_unknown_refused _ _ dni_fun_ok). Qed.
Print Assumptions dni_unknown_refused.

Theorem dni_agrees_spec :
  (forall x, eval_vchain value_to_dni_chain x = spec_label dni_ranges x) /\
  (forall s, eval_lfun dni_to_value_fun s = spec_value dni_labels s).
Proof. exact (scale_agrees_spec _ _ _ _ dni_chain_ok dni_fun_ok). Qed.
Print Assumptions dni_agrees_spec.

(* non-vacuity: the hypotheses are met by concrete points *)
Example nlmh_points :
  eval_vchain value_to_none_low_medium_high_chain 29 = Value "Low"%string /\
  eval_vchain value_to_none_low_medium_high_chain 30 = Value "Med"%string /\
  eval_vchain value_to_none_low_medium_high_chain 101 = Refused /\
  eval_lfun none_low_med_high_to_value_fun "Med" = Value 50.
Proof. vm_compute. repeat split. Qed.

(* one boundary example per scale (the *_agrees_spec theorems imply them; they show the
   hypotheses 0 <= v <= 100 are met by the interesting points) *)
Example zero_ten_points :
  eval_vchain value_to_zero_ten_chain 4 = Value "0"%string /\
  eval_vchain value_to_zero_ten_chain 5 = Value "1"%string /\
  eval_vchain value_to_zero_ten_chain 95 = Value "10"%string /\
  eval_vchain value_to_zero_ten_chain 100 = Value "10"%string /\
  eval_vchain value_to_zero_ten_chain 101 = Refused /\
  eval_lfun zero_ten_to_value_fun "7" = Value 70 /\
  eval_lfun zero_ten_to_value_fun "07" = Refused.
Proof. vm_compute. repeat split. Qed.

Example admiralty_points :
  eval_vchain value_to_admiralty_credibility_chain 19 = Value "5 - Improbable"%string /\
  eval_vchain value_to_admiralty_credibility_chain 20 = Value "4 - Doubtful"%string /\
  eval_vchain value_to_admiralty_credibility_chain 100 = Value "1 - Confirmed by other sources"%string /\
  eval_vchain value_to_admiralty_credibility_chain (-1) = Refused /\
  eval_lfun admiralty_credibility_to_value_fun "6 - Truth cannot be judged" = Refused.
Proof. vm_compute. repeat split. Qed.

Example wep_points :
  eval_vchain value_to_wep_chain 0 = Value "Impossible"%string /\
  eval_vchain value_to_wep_chain 1 = Value "Highly Unlikely/Almost Certainly Not"%string /\
  eval_vchain value_to_wep_chain 99 = Value "Highly likely/Almost Certain"%string /\
  eval_vchain value_to_wep_chain 100 = Value "Certain"%string /\
  eval_lfun wep_to_value_fun "Unlikely/Probably Not" = Value 30.
Proof. vm_compute. repeat split. Qed.

Example dni_points :
  eval_vchain value_to_dni_chain 9 = Value "Almost No Chance / Remote"%string /\
  eval_vchain value_to_dni_chain 10 = Value "Very Unlikely / Highly Improbable"%string /\
  eval_vchain value_to_dni_chain 90 = Value "Almost Certain / Nearly Certain"%string /\
  eval_vchain value_to_dni_chain 100 = Value "Almost Certain / Nearly Certain"%string /\
  eval_vchain value_to_dni_chain 101 = Refused.
Proof. vm_compute. repeat split. Qed.


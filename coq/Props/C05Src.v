(* Props/C05Src.v -- property C05 at what the SOURCE TEXT of stix2/versioning.py says.

   src_cfg (Gen/VersioningSrc.v) is regenerated on every run from the ast of _fudge_modified,
   new_version, revoke and _check_versionable_object; model_cfg (Model/VersioningCfg.v) is what the
   hand-written model of Props/C05.v mirrors.  The obligations below are evaluated by the kernel on the
   generated record: the comparisons and constants of _fudge_modified give strictly later serialized
   times, the supplied-modified test refuses every non-later time, new_version makes its checks in the
   order the refusal theorems rely on, and every recorded choice is the one the model makes -- so the
   theorems of Props/C05.v (nv_strict, supplied_modified_strict, revoked_final, ...) are statements
   about the function the text denotes.                                       *)
From Coq Require Import String ZArith List Bool.
From V Require Import Base.UString Model.Timestamp Model.Versioning Model.VersioningCfg Spec.VersioningSpec
  Gen.VersioningSrc Proofs.VersioningFacts Proofs.VersioningSrcFacts.
Import ListNotations.
Open Scope Z_scope.

(* _fudge_modified, 2.1 branch, as written: strictly later for every old time and every clock reading *)
Theorem src_fudge_strict_21 : forall old now, ser21 (fudge21_src src_cfg (ser21 old) now) > ser21 old.
Proof. apply fudge21_src_strict. vm_compute. reflexivity. Qed.
Print Assumptions src_fudge_strict_21.

(* 2.0 branch, as written: strictly later after truncation to milliseconds *)
Theorem src_fudge_strict_20 : forall old now, ser20 (fudge20_src src_cfg (ser20 old) now) > ser20 old.
Proof. apply fudge20_src_strict. vm_compute. reflexivity. Qed.
Print Assumptions src_fudge_strict_20.

(* the test on a caller-supplied modified time, as written: accepted only if strictly later *)
Theorem src_supplied_modified_strict : forall new old, supplied_accepted_src src_cfg new old = true -> new > old.
Proof. apply supplied_src_strict. vm_compute. reflexivity. Qed.
Print Assumptions src_supplied_modified_strict.

(* new_version tests data.get('revoked') itself, unconditionally, right after the version check *)
Theorem src_revoked_tested : (s_i_check src_cfg <? s_i_revoked src_cfg) && (s_i_revoked src_cfg <? s_i_copy src_cfg) = true.
Proof. vm_compute. reflexivity. Qed.
Print Assumptions src_revoked_tested.

(* the unmodifiable and the SCO-locked lists are both chained, and tested by membership in the changes *)
Theorem src_unmodifiable_tested :
  s_unmod_lists src_cfg = s_unmod_lists model_cfg /\ s_unmod_test src_cfg = s_unmod_test model_cfg /\
  s_sco_version src_cfg = s_sco_version model_cfg /\ s_sco_uuid_test src_cfg = s_sco_uuid_test model_cfg.
Proof. repeat split; vm_compute; reflexivity. Qed.
Print Assumptions src_unmodifiable_tested.

(* version check, revoked test, unmodifiable test, timestamps, branch, update: in this order *)
Theorem src_order : order_ok src_cfg = true.
Proof. vm_compute. reflexivity. Qed.
Print Assumptions src_order.

(* both timestamps are parsed at millisecond precision, "min" for 2.1 and "exact" otherwise; the clock is
   get_timestamp and _fudge_modified gets the 2.1 rules unless the version is 2.0 *)
Theorem src_timestamps :
  s_parse_precision src_cfg = s_parse_precision model_cfg /\ s_parse_constraint src_cfg = s_parse_constraint model_cfg /\
  s_old_sources src_cfg = s_old_sources model_cfg /\
  (s_constraint_21 src_cfg, s_constraint_test src_cfg, s_constraint_else src_cfg)
  = (s_constraint_21 model_cfg, s_constraint_test model_cfg, s_constraint_else model_cfg) /\
  s_fudge_flag src_cfg = s_fudge_flag model_cfg /\ s_clock src_cfg = s_clock model_cfg.
Proof. repeat split; vm_compute; reflexivity. Qed.
Print Assumptions src_timestamps.

(* revoke: refuses a non-mapping and a revoked object, then is new_version(data, revoked=True) *)
Theorem src_revoke : s_revoke_tests src_cfg = s_revoke_tests model_cfg /\ s_revoke_call src_cfg = s_revoke_call model_cfg.
Proof. split; vm_compute; reflexivity. Qed.
Print Assumptions src_revoke.

(* _check_versionable_object: the tests and refusals, in order *)
Theorem src_check_versionable : s_cvo src_cfg = s_cvo model_cfg.
Proof. vm_compute. reflexivity. Qed.
Print Assumptions src_check_versionable.

(* every recorded choice (positions aside) is the model's *)
Theorem src_is_model : strip src_cfg = strip model_cfg.
Proof. vm_compute. reflexivity. Qed.
Print Assumptions src_is_model.

(* the hand-written model computes the arithmetic of the text *)
Theorem model_fudge_is_text_21 : forall l o now r, fudge V21 (l, Some o) now = Ok r ->
  utc_of r = fudge21_src src_cfg (l - o) now /\ snd r <> None.
Proof. intros l o now r. apply model_fudge_21; vm_compute; reflexivity. Qed.
Print Assumptions model_fudge_is_text_21.

Theorem model_fudge_is_text_20 : forall l o now r, fudge V20 (l, Some o) now = Ok r ->
  utc_of r = fudge20_src src_cfg (l - o) now /\ snd r <> None.
Proof. intros l o now r. apply model_fudge_20; vm_compute; reflexivity. Qed.
Print Assumptions model_fudge_is_text_20.

Theorem model_supplied_test_is_text : forall a b dlt, ts_diff a b = Some dlt ->
  (dlt <=? 0) = negb (supplied_accepted_src src_cfg (utc_of a) (utc_of b)).
Proof. intros a b dlt. apply model_supplied_test. vm_compute. reflexivity. Qed.
Print Assumptions model_supplied_test_is_text.

(* Props/C19InheritC02.v -- property C19, `registered custom types enjoy the same
   guarantees`, end to end for C02 (whatever the library emits in strict mode is
   valid STIX): the schema family's generic theorem (Props/C02.v,
   strict_sound_partial, stated for an arbitrary class table) instantiated at
   the library world extended by ANY registered custom type.  Statements only;
   proofs in Proofs/C19InheritC02.v.                                          *)
From Coq Require Import NArith ZArith List String Bool.
From V Require Import Base.UString Base.Json Model.SchemaTypes Model.PyBase Model.Schema
     Spec.StixValid Spec.SchemaRefine Proofs.SchemaScope Proofs.SchemaProved Proofs.SchemaKnot Proofs.SchemaC02 Proofs.SchemaTables
     Proofs.SchemaCovProved Proofs.SchemaCovKnot Proofs.SchemaCovC02
     Gen.Tables Gen.SpecTables Model.RegistryBuilder Proofs.C19Inherit Proofs.C19InheritRefine Proofs.C19InheritC02.
From V Require Model.Registry.
Import ListNotations.

(* run ... (world_add lib k V n c): the schema interpreter on the library's tables plus the class
   table the decorator built (Model/RegistryBuilder.v, compared with the live class every run);
   valid_obj (world_add spec_relaxed k V n c): validity against the specification tables plus what the
   specification says of a custom type -- the common properties (Props/C19Inherit.v:
   standard_properties_are_the_specifications) and the declared ones.  class_proved is the schema
   family's coverage predicate (Proofs/SchemaProved.v), the same premise Props/C02.v carries. *)
Theorem custom_type_strict_sound :
  forall (vr : variant) (ev : env) bv k V n xt user cn
         (pattern_ok : ver -> ustring -> bool) (selectors_ok : list (ustring * pval) -> pval -> result bool)
         (fuel m : nat) (req : request) oc inner dfl hc,
    variant_sound vr = true -> env_ok ev = true ->
    forallb slot_kind_ok user = true -> name_ok_for k n = true ->
    req_strict req = true -> req_scope req = true ->
    run vr ev (world_add lib k V n (custom_cls bv k V n xt user cn)) pattern_ok selectors_ok fuel req
      = Ok (PObject oc inner dfl hc) ->
    class_proved m (world_add lib k V n (custom_cls bv k V n xt user cn)) oc = true ->
    hc = false /\
    exists f, valid_obj (world_add spec_relaxed k V n (custom_cls bv k V n xt user cn)) pattern_ok f oc
                        (encode false (PObject oc inner dfl hc)) = true.
Proof. exact custom_type_strict_sound_lemma. Qed.
Print Assumptions custom_type_strict_sound.

(* the coverage premise holds at a custom type (a custom marking with a string and an enum property) ... *)
Theorem custom_type_covered_example :
  class_proved 1 (world_add lib CMarking V21 (u "x-ex-marking") ex_marking) (cid ex_marking) = true.
Proof. exact ex_marking_covered_lemma. Qed.
Print Assumptions custom_type_covered_example.

(* ... and the built-in classes the C02 theorem covers stay covered in the extended world *)
Theorem builtins_still_covered_example :
  forallb (fun c => class_proved cover_depth (world_add lib CMarking V21 (u "x-ex-marking") ex_marking) c) lib_covered = true.
Proof. exact ex_builtin_still_covered_lemma. Qed.
Print Assumptions builtins_still_covered_example.

(* ---------------- with the schema family's larger coverage predicate (Props/C02.v, strict_sound_partial_wide) ---------------- *)

Theorem custom_type_strict_sound_wide :
  forall (vr : variant) (ev : env) bv k V n xt user cn
         (pattern_ok : ver -> ustring -> bool) (selectors_ok : list (ustring * pval) -> pval -> result bool)
         (fuel m : nat) (req : request) oc inner dfl hc,
    variant_sound vr = true -> env_ok ev = true ->
    forallb slot_kind_ok user = true -> name_ok_for k n = true ->
    req_strict req = true -> req_scope req = true ->
    run vr ev (world_add lib k V n (custom_cls bv k V n xt user cn)) pattern_ok selectors_ok fuel req
      = Ok (PObject oc inner dfl hc) ->
    class_proved2 m (world_add lib k V n (custom_cls bv k V n xt user cn)) oc = true ->
    hc = false /\
    exists f, valid_obj (world_add spec_relaxed k V n (custom_cls bv k V n xt user cn)) pattern_ok f oc
                        (encode false (PObject oc inner dfl hc)) = true.
Proof. exact custom_type_strict_sound_wide_lemma. Qed.
Print Assumptions custom_type_strict_sound_wide.

(* the coverage premise holds at custom types of every kind: a 2.1 and a 2.0 custom object, a 2.1 and a 2.0
   custom observable, a 2.1 property-extension and a custom marking (string, bounded integer, reference and
   list properties), each in the library world extended by it *)
Theorem custom_types_covered_examples :
  covered_in_extended CObject V21 (u "x-ex-object") ex_object21 = true /\
  covered_in_extended CObject V20 (u "x-ex-object") ex_object20 = true /\
  covered_in_extended CObservable V21 (u "x-ex-observable") ex_observable21 = true /\
  covered_in_extended CObservable V20 (u "x-ex-observable") ex_observable20 = true /\
  covered_in_extended CExtension V21 (u "x-ex-ext") ex_extension21 = true /\
  covered_in_extended CMarking V21 (u "x-ex-marking") ex_marking = true.
Proof. exact ex_custom_types_covered_lemma. Qed.
Print Assumptions custom_types_covered_examples.

Theorem builtins_still_covered_wide_example :
  forallb (fun c => class_proved2 cover2_depth (world_add lib CObject V21 (u "x-ex-object") ex_object21) c) lib_covered2 = true.
Proof. exact ex_builtins_still_covered_wide_lemma. Qed.
Print Assumptions builtins_still_covered_wide_example.

(* Props/C06Src.v -- C06 for what the CURRENT SOURCE TEXT says.
   Gen/ScoIdTables.v (translators/tr_scoid.py, regenerated on every run, fail closed)
   holds, read from the ast: the shape of _Observable._generate_id (loop, presence test,
   the `hashes` special case, the serializer, the emptiness guard, the canonicalize call
   and its utf8 flag, the uuid5 call and namespace name, the id format), the dispatch of
   _make_json_serializable, the guard of the 2.1 _Observable.__init__, the preference
   chain of _choose_one_hash and the value of SCO_DET_ID_NAMESPACE.  Each statement below
   says that the text is the one Model/ScoId.v transcribes (Model/ScoIdSrc.v lists the
   correspondence point by point); an edit of any of these points breaks the named
   obligation.                                                                     *)
From Coq Require Import String NArith List Bool.
From Coq Require Import ZArith Permutation.
From V Require Import Base.UString Base.Json Model.ScoId Model.ScoIdSrc Gen.ScoIdTables Spec.ScoIdSpec Spec.ScoIdOrder
  Proofs.ScoIdOrderProofs.
Import ListNotations.

(* `if key in self:` and `self[key]` -- presence, not truthiness *)
Theorem source_presence_test : gs_presence gen_genid = PresenceIn /\ gs_value gen_genid = ValueIndex.
Proof. vm_compute. split; reflexivity. Qed.
Print Assumptions source_presence_test.

Theorem source_hashes_special_case :
  gs_hashes_key gen_genid = k_hashes /\ gs_hashes_fn gen_genid = u "_choose_one_hash" /\
  gs_hashes_none_raises gen_genid = u "InvalidValueError" /\ gs_other_fn gen_genid = u "_make_json_serializable".
Proof. vm_compute. repeat split. Qed.
Print Assumptions source_hashes_special_case.

Theorem source_hash_chain : gen_hash_prefs = spec_hash_preference.
Proof. vm_compute. reflexivity. Qed.
Print Assumptions source_hash_chain.

(* the else branch of _choose_one_hash takes the name that sorts first (min), not the first in
   dictionary order: the repaired variant.  (On a tree with next(iter(..)) this obligation fails by
   name and the check reports the order-dependent witness.) *)
Theorem source_hash_fallback : gen_hash_else = ByName.
Proof. vm_compute. reflexivity. Qed.
Print Assumptions source_hash_fallback.

(* hence, for the source as it is, independence from nested dictionary order holds with no side
   condition on `hashes` *)
Theorem source_id_order_indep_nested : forall uuid5 ty contrib obj obj',
  same_props obj obj' -> Forall (fun kv => pnodup (snd kv)) obj ->
  gen_id uuid5 gen_hash_prefs gen_hash_else ty contrib obj = gen_id uuid5 gen_hash_prefs gen_hash_else ty contrib obj'.
Proof.
  intros uuid5 ty contrib obj obj' S N. apply id_order_indep_nested_proof; [exact S|exact N|].
  apply Forall_forall. intros kv _ _. left. exact source_hash_fallback.
Qed.
Print Assumptions source_id_order_indep_nested.

Theorem source_canonicalize_call :
  gs_nonempty_guard gen_genid = true /\ gs_canon_fn gen_genid = u "canonicalize" /\ gs_canon_utf8 gen_genid = Some false.
Proof. vm_compute. repeat split. Qed.
Print Assumptions source_canonicalize_call.

(* uuid.uuid5(SCO_DET_ID_NAMESPACE, data) with the namespace of STIX 2.1 section 2.9, and "{}--{}" of type and uuid *)
Theorem source_uuid5_and_format :
  gs_uuid_fn gen_genid = u "uuid.uuid5" /\ gs_namespace_name gen_genid = u "SCO_DET_ID_NAMESPACE" /\
  gen_namespace = u "00abedb4-aa42-466c-9c01-fed23315a9b7" /\
  gs_id_format gen_genid = u "{}--{}" /\ gs_id_args gen_genid = [u "self._type"; u "str(uuid_)"].
Proof. vm_compute. repeat split. Qed.
Print Assumptions source_uuid5_and_format.

Theorem source_generate_id_is_pinned : gen_genid = expected_genid.
Proof. vm_compute. reflexivity. Qed.
Print Assumptions source_generate_id_is_pinned.

Theorem source_make_json_serializable_is_pinned : gen_mjs = expected_mjs.
Proof. vm_compute. reflexivity. Qed.
Print Assumptions source_make_json_serializable_is_pinned.

Theorem source_init21_is_pinned : gen_init21 = expected_init21.
Proof. vm_compute. reflexivity. Qed.
Print Assumptions source_init21_is_pinned.

(* Props/C05.v -- property C05 stated on the model of stix2/versioning.py
   (Model/Versioning.v); proofs in Proofs/Versioning*.v.                      *)
From Coq Require Import ZArith List String.
From V Require Import Base.UString Model.Versioning Spec.VersioningSpec Gen.VersioningTables Proofs.VersioningFacts.
Import ListNotations.
Open Scope Z_scope.

(* the tables regenerated from /repo agree with the frozen specification *)
Theorem tables_unmod : forallb (fun k => mem k live_unmod) spec_unmod = true.
Proof. vm_compute. reflexivity. Qed.
Print Assumptions tables_unmod.

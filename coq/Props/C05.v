(* Props/C05.v -- property C05 stated on the model of stix2/versioning.py
   (Model/Versioning.v); proofs in Proofs/Versioning*.v.

   T   : the tables the code reads (any; `live_tables` is what the translator read from /repo)
   nm  : what parse_into_datetime does with naive datetimes (both variants)
   cp, ck : the class constructor, abstractly: ck v d = None if the class of version v accepts the
         properties d, else the exception it raises; cp v k x = what property k's clean() stores for x.
         Both are arbitrary (universally quantified): the constructor can only fail or store the
         cleaned form of what it is given.  A dict is rebuilt as it is.
   c   : object of a v2.0 / v2.1 class, plain dict, or not a mapping
   d   : the object's properties as an insertion-ordered association list (keys distinct, as in
         a Python dict); ch : the keyword arguments of new_version (distinct; None removes)
   now : the clock reading, ANY integer number of microseconds
   ser_value nm v x : the UTC instant an object of spec version v holds and serializes for the
         value x (2.0: truncated to milliseconds, 2.1: every microsecond), None if x is no timestamp
   later nm v d d' : both version times serialize, and that of d' is strictly later.          *)
From Coq Require Import String ZArith List Bool Sorting.Sorted.
From V Require Import Base.UString Base.Json Model.Timestamp Model.Versioning Spec.VersioningSpec
  Spec.TimestampSpec Gen.VersioningTables Proofs.VersioningFacts Proofs.VersioningProofs Proofs.VersioningChain
  Proofs.VersioningText Proofs.VersioningRefute Proofs.VersioningAudit.
Import ListNotations.
Open Scope bool_scope. Open Scope list_scope. Open Scope Z_scope.

(* ---- the tables regenerated from /repo against the frozen specification ---- *)
Theorem tables_unmod : subset spec_unmod live_unmod = true.
Proof. vm_compute. reflexivity. Qed.
Print Assumptions tables_unmod.

Theorem tables_verprops : seteq live_verprops spec_verprops = true.
Proof. vm_compute. reflexivity. Qed.
Print Assumptions tables_verprops.

Theorem tables_registry : reg_agree live_registry spec_registry && reg_agree spec_registry live_registry = true.
Proof. vm_compute. reflexivity. Qed.
Print Assumptions tables_registry.

Theorem tables_sco_contributing : sco_agree live_sco21 spec_sco21 && sco_agree spec_sco21 live_sco21 = true.
Proof. vm_compute. reflexivity. Qed.
Print Assumptions tables_sco_contributing.

Theorem tables_header_unmodifiable : tables_ok live_tables.
Proof. split; vm_compute; reflexivity. Qed.
Print Assumptions tables_header_unmodifiable.

(* ---- the arithmetic of _fudge_modified (DESIGN A.1): every clock reading ---- *)
Theorem fudge_strict_20 : forall old now, ser20 (fudge20 (ser20 old) now) > ser20 old.
Proof. exact fudge20_strict. Qed.
Print Assumptions fudge_strict_20.

Theorem fudge_strict_21 : forall old now, ser21 (fudge21 (ser21 old) now) > ser21 old.
Proof. exact fudge21_strict. Qed.
Print Assumptions fudge_strict_21.

(* the 2.1 rule at the 2.0 precision would not be strict: the two branches are both needed *)
Theorem fudge_rules_not_interchangeable : exists old now, ~ ser20 (fudge21 (ser20 old) now) > ser20 old.
Proof. exact fudge21_rule_at_ms_precision_not_strict. Qed.
Print Assumptions fudge_rules_not_interchangeable.

(* ---- a new version is strictly newer after serialization, whatever the clock reads ---- *)
Theorem nv_strict : forall T nm cp ck c d ch now d' v, good_ver v -> NoDup (keys d) -> NoDup (keys ch) ->
  check_versionable T c d = Ok v -> new_version T nm cp ck c d ch now = Ok d' -> later nm v d d'.
Proof. exact nv_strict_lemma. Qed.
Print Assumptions nv_strict.

(* ... and no clock reading can make the operation fail: a versionable, unrevoked object whose version
   time is an aware timestamp gets a new version for every `now` (an object: provided its class accepts
   the changed properties whatever the modified time) *)
Theorem nv_succeeds : forall T nm cp ck c d ch v locked l o, check_versionable T c d = Ok v ->
  revoked_flag d = false -> sco_locked T d = Ok locked ->
  existsb (fun k => has_key k ch) (t_unmod T ++ locked) = false -> plookup kmod ch = None ->
  parse_ts nm v (version_time d) = Ok (l, Some o) ->
  (forall v0 l' o', c = CObject v0 -> ck v0 (drop_none (update d (ch ++ [(kmod, PDt l' o')]))) = None) ->
  forall now, exists d', new_version T nm cp ck c d ch now = Ok d'.
Proof. exact nv_succeeds_lemma. Qed.
Print Assumptions nv_succeeds.

(* a caller-supplied modified time is accepted only if strictly later after serialization, and is applied *)
Theorem supplied_modified_strict : forall T nm cp ck c d ch now d' v s, good_ver v -> NoDup (keys d) -> NoDup (keys ch) ->
  check_versionable T c d = Ok v -> plookup kmod ch = Some s -> new_version T nm cp ck c d ch now = Ok d' ->
  exists a b, ser_value nm v (version_time d) = Some a /\ ser_value nm v (Some s) = Some b /\
              ser_value nm v (version_time d') = Some b /\ a < b.
Proof. exact supplied_modified_lemma. Qed.
Print Assumptions supplied_modified_strict.

(* ---- identity: type, id, created and creator are kept (in an object: in their cleaned form, which is
   the value itself when cleaning leaves the object's own, already clean, values alone) ---- *)
Theorem nv_identity_stored : forall T nm cp ck c d ch now d' k, NoDup (keys d) -> NoDup (keys ch) ->
  new_version T nm cp ck c d ch now = Ok d' -> In k (t_unmod T) -> ustr_eqb k kmod = false ->
  plookup k d' = stored cp c k (pget k d).
Proof. exact nv_identity_stored_lemma. Qed.
Print Assumptions nv_identity_stored.

Theorem nv_identity : forall nm cp ck c d ch now d' k, NoDup (keys d) -> NoDup (keys ch) ->
  new_version live_tables nm cp ck c d ch now = Ok d' -> In k spec_unmod ->
  (forall x, pget k d = Some x -> stored cp c k (Some x) = Some x) ->
  pget k d' = pget k d.
Proof. intros nm cp ck c d ch now d' k. apply nv_identity_spec_lemma. exact tables_unmod. Qed.
Print Assumptions nv_identity.

(* ---- exactly the requested changes; None removes; nothing else differs except modified.  Object and
   dict routes: every property other than modified holds the requested value -- as given (dict),
   cleaned (object) ---- *)
Theorem nv_exact : forall T nm cp ck c d ch now d', NoDup (keys d) -> NoDup (keys ch) ->
  new_version T nm cp ck c d ch now = Ok d' ->
  forall k, ustr_eqb k kmod = false -> plookup k d' = stored cp c k (requested ch d k).
Proof. exact nv_exact_lemma. Qed.
Print Assumptions nv_exact.

Theorem nv_exact_dict : forall T nm cp ck d ch now d', NoDup (keys d) -> NoDup (keys ch) ->
  new_version T nm cp ck CDict d ch now = Ok d' ->
  forall k, ustr_eqb k kmod = false -> pget k d' = requested ch d k.
Proof. exact nv_exact_dict_lemma. Qed.
Print Assumptions nv_exact_dict.

(* ---- refusals ---- *)
Theorem nv_unmodifiable : forall T nm cp ck c d ch now k, In k (t_unmod T) -> has_key k ch = true ->
  forall d', new_version T nm cp ck c d ch now <> Ok d'.
Proof. exact nv_unmodifiable_lemma. Qed.
Print Assumptions nv_unmodifiable.

Theorem nv_sco_locked : forall T nm cp ck c d ch now locked k, sco_locked T d = Ok locked -> In k locked -> has_key k ch = true ->
  forall d', new_version T nm cp ck c d ch now <> Ok d'.
Proof. exact nv_sco_locked_lemma. Qed.
Print Assumptions nv_sco_locked.

(* ... where the locked properties of a 2.1 observable with a version-5 UUID are its id-contributing ones *)
Theorem sco_locked_when_deterministic : forall T d ty id contrib,
  detect T d = Ok V21 -> plookup (u "type") d = Some (PJ (JStr ty)) -> sco_lookup ty (t_sco21 T) = Some contrib ->
  plookup (u "id") d = Some (PJ (JStr id)) -> uuid_shape 0 (last36 id) = true -> is_uuid5 (last36 id) = true ->
  sco_locked T d = Ok contrib.
Proof. exact sco_locked_uuid5. Qed.
Print Assumptions sco_locked_when_deterministic.

(* a revoked object can be neither versioned nor revoked again, by any operation *)
Theorem revoked_final : forall T nm cp ck c d o, revoked_flag d = true -> forall d', apply_op T nm cp ck c d o <> New d'.
Proof. exact revoked_final_lemma. Qed.
Print Assumptions revoked_final.

Theorem revoke_revokes : forall T nm cp ck c d now d', NoDup (keys d) ->
  (forall v0, c = CObject v0 -> truthy (cp v0 (u "revoked") (PJ (JBool true))) = true) ->   (* clean(True) is true *)
  revoke T nm cp ck c d now = Ok d' -> revoked_flag d' = true.
Proof. exact revoke_sets_lemma. Qed.
Print Assumptions revoke_revokes.

Theorem revoked_chain_ends : forall T nm cp ck ops c d, revoked_flag d = true -> new_versions T nm cp ck c d ops = [].
Proof. exact revoked_chain_lemma. Qed.
Print Assumptions revoked_chain_ends.

(* ---- which exception a refusal is (the theorems above only say "no new version") ---- *)
Theorem revoked_raises : forall T nm cp ck c d ch now v, check_versionable T c d = Ok v -> revoked_flag d = true ->
  new_version T nm cp ck c d ch now = Raise "RevokeError"%string.
Proof. exact revoked_raises_lemma. Qed.
Print Assumptions revoked_raises.

Theorem revoke_revoked_raises : forall T nm cp ck c d now, c <> CNonMapping -> revoked_flag d = true ->
  revoke T nm cp ck c d now = Raise "RevokeError"%string.
Proof. exact revoke_revoked_raises_lemma. Qed.
Print Assumptions revoke_revoked_raises.

Theorem unmodifiable_raises : forall T nm cp ck c d ch now v locked k, check_versionable T c d = Ok v -> revoked_flag d = false ->
  sco_locked T d = Ok locked -> In k (t_unmod T ++ locked) -> has_key k ch = true ->
  new_version T nm cp ck c d ch now = Raise "UnmodifiablePropertyError"%string.
Proof. exact unmodifiable_raises_lemma. Qed.
Print Assumptions unmodifiable_raises.

Theorem supplied_not_later_raises : forall T nm cp ck c d ch now v locked old s nmv dlt, check_versionable T c d = Ok v ->
  revoked_flag d = false -> sco_locked T d = Ok locked ->
  existsb (fun k => has_key k ch) (t_unmod T ++ locked) = false ->
  parse_ts nm v (version_time d) = Ok old -> plookup kmod ch = Some s -> parse_ts nm v (Some s) = Ok nmv ->
  ts_diff nmv old = Some dlt -> dlt <= 0 ->
  new_version T nm cp ck c d ch now = Raise "InvalidValueError"%string.
Proof. exact supplied_not_later_raises_lemma. Qed.
Print Assumptions supplied_not_later_raises.

(* ---- along any chain of new_version / revoke / marking operations, with any clock readings,
   the serialized modified times strictly increase (induction over the history).  op_ok: keyword
   arguments are distinct and, for a dict, no change set rewrites spec_version. ---- *)
Theorem chain_increasing : forall T nm cp ck ops c d v, good_ver v -> tables_ok T ->
  get_stix_version T c d = Ok v -> NoDup (keys d) -> Forall (op_ok c) ops ->
  StronglySorted (later nm v) (d :: new_versions T nm cp ck c d ops).
Proof. exact chain_increasing_lemma. Qed.
Print Assumptions chain_increasing.

(* the same for the tables of /repo, whose unmodifiable list protects type and id *)
Theorem chain_increasing_live : forall nm cp ck ops c d v, good_ver v ->
  get_stix_version live_tables c d = Ok v -> NoDup (keys d) -> Forall (op_ok c) ops ->
  StronglySorted (later nm v) (d :: new_versions live_tables nm cp ck c d ops).
Proof. intros nm cp ck ops c d v GV. apply chain_increasing_lemma; [exact GV|exact tables_header_unmodifiable]. Qed.
Print Assumptions chain_increasing_live.

(* the remaining hypothesis is needed: rewriting spec_version turns a 2.0 dict into a 2.1 dict whose
   next version is one microsecond later -- not later at the millisecond precision of the chain *)
Theorem chain_spec_version_rewrite_refuted :
  get_stix_version live_tables CDict cx_dict = Ok V20 /\
  ~ StronglySorted (later NaiveUtc V20) (cx_dict :: new_versions live_tables NaiveUtc clean_id accept_all CDict cx_dict cx_ops).
Proof. exact spec_version_rewrite_counterexample. Qed.
Print Assumptions chain_spec_version_rewrite_refuted.

(* ---- "after serialization": ser_value is what the text written by the library denotes
   (format_datetime through the C15 model, read by the strict reader of Spec/TimestampSpec.v) ---- *)
Theorem ser_is_serialized_text : forall nm v x t, good_ver v -> value_ok v x ->
  ser_value nm v (Some x) = Some t -> in_range t = true ->
  exists i txt rd, tsinput_of x = Some i /\ write nm Pad4 PMilli (pconstraint_of v) i = Ok txt /\
                   spec_read txt = Some rd /\ denotes rd t.
Proof. exact ser_text_lemma. Qed.
Print Assumptions ser_is_serialized_text.

Theorem nv_strict_text : forall T nm cp ck c d ch now d' v xo xn, good_ver v -> NoDup (keys d) -> NoDup (keys ch) ->
  check_versionable T c d = Ok v -> new_version T nm cp ck c d ch now = Ok d' ->
  version_time d = Some xo -> version_time d' = Some xn -> value_ok v xo -> value_ok v xn ->
  (forall t, ser_value nm v (Some xo) = Some t -> in_range t = true) ->
  (forall t, ser_value nm v (Some xn) = Some t -> in_range t = true) ->
  exists io i_n txt_o txt_n rd_o rd_n a b,
    tsinput_of xo = Some io /\ tsinput_of xn = Some i_n /\
    write nm Pad4 PMilli (pconstraint_of v) io = Ok txt_o /\ write nm Pad4 PMilli (pconstraint_of v) i_n = Ok txt_n /\
    spec_read txt_o = Some rd_o /\ spec_read txt_n = Some rd_n /\ denotes rd_o a /\ denotes rd_n b /\ a < b.
Proof. exact nv_strict_text_lemma. Qed.
Print Assumptions nv_strict_text.

(* ---- the hypotheses are satisfiable; the model computes ---- *)
Definition ex_identity : pdict :=
  [(u "type", PJ (JStr (u "identity"))); (u "id", PJ (JStr (u "identity--311b2d2d-f010-4473-83ec-1edf84858f4c")));
   (u "created", PJ (JStr (u "2020-01-01T00:00:00.000Z"))); (u "modified", PJ (JStr (u "2020-01-01T00:00:00.001Z")));
   (u "name", PJ (JStr (u "x"))); (u "description", PJ (JStr (u "d"))); (u "revoked", PJ (JBool false))].
Definition t2020 : Z := 63713433600000000.

(* clock 999 us after a millisecond-precision modified time: pushed to the next millisecond *)
Example ex_v20_push :
  match new_version live_tables NaiveUtc clean_id accept_all (CObject V20) ex_identity [(u "description", PJ JNull)] (t2020 + 1999) with
  | Ok d' => plookup kmod d' = Some (PDt (t2020 + 2000) (Some 0)) /\ has_key (u "description") d' = false
  | Raise _ => False
  end.
Proof. vm_compute. split; reflexivity. Qed.

Example ex_v21_equal_clock :
  match new_version live_tables NaiveUtc clean_id accept_all CDict ((u "spec_version", PJ (JStr (u "2.1"))) :: ex_identity) [] (t2020 + 1000) with
  | Ok d' => plookup kmod d' = Some (PDt (t2020 + 1001) (Some 0))
  | Raise _ => False
  end.
Proof. vm_compute. reflexivity. Qed.

Example ex_unmodifiable :
  new_version live_tables NaiveUtc clean_id accept_all (CObject V21) ex_identity [(u "id", PJ (JStr (u "identity--x")))] t2020
  = Raise "UnmodifiablePropertyError"%string.
Proof. vm_compute. reflexivity. Qed.

Example ex_good_chain_hyps : good_ver V20 /\ get_stix_version live_tables CDict ex_identity = Ok V20 /\ NoDup (keys ex_identity).
Proof.
  split; [now left|]. split; [vm_compute; reflexivity|].
  unfold keys. cbn [map fst ex_identity]. repeat (constructor; [cbn; intros H; repeat (destruct H as [H|H]; [discriminate H|]); exact H|]).
  constructor.
Qed.

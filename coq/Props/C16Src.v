(* Props/C16Src.v -- C16 for what the CURRENT SOURCE TEXT says.
   Gen/NumToJson.v is the ast of stix2/canonicalization/NumberToJson.py:convert2Es6Format
   translated statement by statement into the language of Model/PyMini.v;
   Gen/CanonFacts.v holds what Canonicalize.py says about the member sort, separators,
   ensure_ascii, the escape table, the number and literal branches (both regenerated on
   every run by translators/tr_numtojson.py, fail closed).  The interpreter of the
   program text computes the model function on EVERY input, so the number theorem holds of
   the text itself; a changed threshold, a dropped branch or any other edit of the function
   breaks `source_numtojson_is_pinned` by name.                                   *)
From Coq Require Import String NArith ZArith List Bool.
From V Require Import Base.UString Base.Json Model.JcsText Model.Jcs Model.PyMini Model.CanonSrc Spec.Rfc8785
  Gen.NumToJson Gen.CanonFacts Proofs.JcsNumFacts Proofs.NumToJsonSrc Proofs.CanonSrcFacts.
Import ListNotations.
Open Scope N_scope.

(* ---- NumberToJson.py --------------------------------------------------------------------- *)
Theorem source_numtojson_is_pinned : gen_convert2es6 = expected_convert2es6.
Proof. vm_compute. reflexivity. Qed.
Print Assumptions source_numtojson_is_pinned.

(* the pinned program text, run by the interpreter, is the model function -- for every input text *)
Theorem pinned_text_is_model : forall arg, run_fun arg expected_convert2es6 = convert2es6 arg.
Proof. exact expected_run. Qed.
Print Assumptions pinned_text_is_model.

Theorem source_convert2es6 : forall arg, run_fun arg gen_convert2es6 = convert2es6 arg.
Proof. rewrite source_numtojson_is_pinned. exact expected_run. Qed.
Print Assumptions source_convert2es6.

(* the number theorem, of the source text: every digit string of length 1..17, every exponent *)
Theorem source_num_es6 : forall neg ds n, wf_digits ds ->
  run_fun (py_repr neg ds n) gen_convert2es6 = JOk (es6_tostring neg ds n).
Proof. intros neg ds n W. rewrite source_convert2es6. exact (num_es6_proof neg ds n W). Qed.
Print Assumptions source_num_es6.

Theorem source_nan_inf_refused :
  run_fun (u "nan") gen_convert2es6 = JRaise ValueError /\ run_fun (u "inf") gen_convert2es6 = JRaise ValueError /\
  run_fun (u "-inf") gen_convert2es6 = JRaise ValueError.
Proof. rewrite !source_convert2es6. exact num_nan_inf_refused_proof. Qed.
Print Assumptions source_nan_inf_refused.

(* `fvalue = float(value)` is guarded: an int too large for a double is refused with ValueError
   (Jcs.float_overflows / canon_refuses_too_large_int transcribe this) *)
Theorem source_float_overflow_refused : gen_float_overflow_guard = true.
Proof. reflexivity. Qed.
Print Assumptions source_float_overflow_refused.

(* ---- Canonicalize.py ------------------------------------------------------------------------- *)
Theorem source_sort_key :
  cs_sort_key src_canon = KeyUtf16BE /\ cs_sort_guard_sort_keys src_canon = true /\ cs_canonicalize_sort_keys src_canon = true.
Proof. vm_compute. repeat split. Qed.
Print Assumptions source_sort_key.

Theorem source_separators :
  cs_separators_default src_canon = ([c_comma], [c_colon]) /\ cs_indent_default_none src_canon = true.
Proof. vm_compute. repeat split. Qed.
Print Assumptions source_separators.

Theorem source_ensure_ascii : cs_ensure_ascii_default src_canon = false.
Proof. vm_compute. reflexivity. Qed.
Print Assumptions source_ensure_ascii.

Theorem source_escape_table_is_pinned :
  cs_escape_table src_canon = expected_escape_table /\ cs_escape_fill_bound src_canon = 32 /\
  cs_escape_fill_format src_canon = expected_fill_format /\ cs_escape_regex src_canon = expected_escape_regex.
Proof. vm_compute. repeat split. Qed.
Print Assumptions source_escape_table_is_pinned.

(* the source's table, completed by its fill loop, denotes the model's escaping -- every code point *)
Theorem source_escape_char : forall c,
  escape_char_of (cs_escape_table src_canon) (cs_escape_fill_bound src_canon) c = escape_char c.
Proof.
  rewrite (proj1 source_escape_table_is_pinned), (proj1 (proj2 source_escape_table_is_pinned)).
  exact expected_table_denotes_escape_char.
Qed.
Print Assumptions source_escape_char.

Theorem source_numbers_and_literals :
  cs_numbers_via_convert2es6 src_canon = true /\ cs_literals src_canon = (u "null", u "true", u "false").
Proof. vm_compute. repeat split. Qed.
Print Assumptions source_numbers_and_literals.

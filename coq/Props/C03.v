(* Props/C03.v -- C03: every specification-valid object is accepted and its content preserved.
   Only statements; proofs are in Proofs/Schema*.v.

   FULL statement (the target; NOT yet proved -- the check's oracle and the correspondence of
   Model/Schema.v carry the property meanwhile):

     spec_complete :
       forall vr ev w sp pok sok cid j,
         variant_complete vr = true -> env_ok ev = true -> spec_refines sp w = true ->
         (exists m, valid_obj sp pok m cid j = true) ->
         exists fuel inner dfl,
           run vr ev w pok sok fuel (RConstruct cid false false (members_of j) None) = Ok (PObject cid inner dfl false) /\
           preserves j (encode false (PObject cid inner dfl false)) /\
           extras_are_default_optionals w cid j (encode false (PObject cid inner dfl false)).

   What is proved below is its decidable side condition on the tables regenerated from /repo (the
   part that catches a table edit: a vocabulary entry dropped, a bound tightened, `required` added,
   a constraint added), in the form of DESIGN Appendix A.7: the frozen specification's tables,
   narrowed at exactly the places accept_failures names (none on a conforming tree: restrict _ _ []
   is the identity), are nowhere laxer than the library's tables.                                  *)
From Coq Require Import NArith ZArith List String Bool.
From V Require Import Base.UString Base.Json Model.SchemaTypes Model.PyBase Model.Schema
     Spec.StixValid Spec.SchemaRefine Gen.Tables Gen.SpecTables
     Proofs.SchemaTables Proofs.SchemaComplete.
Import ListNotations.

Theorem spec_refines_lib_modulo_failures :
  spec_refines (restrict lib spec (accept_failures spec lib)) lib = true.
Proof. rewrite spec_restricted_eq. exact restricted_refines_lib. Qed.
Print Assumptions spec_refines_lib_modulo_failures.

Theorem restrict_nothing_is_spec : restrict lib spec [] = spec.
Proof. exact restrict_nil_spec. Qed.
Print Assumptions restrict_nothing_is_spec.

(* Per-kind completeness of Property.clean (the leaf level of spec_complete), for ARBITRARY tables: a value
   the specification's rule for kind k' accepts (any validator fuel n, any JSON value j) is let through in
   strict, non-interoperability mode by every library kind k that the table check relates to it
   (kind_accepts k k' = true), without a custom flag, and serializes back to the same value (jsame:
   equal JSON; timestamps as instants; lists element-wise).  Partial: kind_complete k = true names the
   kinds proved so far (string-like, fixed, integer, boolean, enumeration, hexadecimal, dictionary and
   lists of those).                                                                                *)
Theorem clean_complete_partial :
  forall (vr : variant) (w sp : world) (pattern_ok : ver -> ustring -> bool)
         (rc : ustring -> bool -> bool -> list (ustring * jvalue) -> result pval)
         (rp : bool -> bool -> list (ustring * jvalue) -> result pval)
         (ro : ver -> list (ustring * ustring) -> bool -> list (ustring * jvalue) -> result pval)
         (k k' : pkind) (j : jvalue) (n : nat),
    kind_complete k = true -> kind_accepts k k' = true ->
    valid_kind sp pattern_ok n k' j = true ->
    exists pv, clean_kind vr w rc rp ro k false false j = Ok (pv, false) /\ jsame k' j (encode true pv).
Proof. intros. eapply kind_complete_sound; eauto. Qed.
Print Assumptions clean_complete_partial.

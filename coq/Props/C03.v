(* Props/C03.v -- C03: every specification-valid object is accepted and its content preserved.
   Only statements; proofs are in Proofs/Schema*.v.

   FULL statement (the target; proved below in the partial form spec_complete_partial, under the explicit
   boolean coverage predicates class_complete / input_complete -- the check's oracle and the
   correspondence of Model/Schema.v carry the rest):

     spec_complete :
       forall vr ev w sp pok sok cid j,
         variant_complete vr = true -> env_ok ev = true -> spec_refines sp w = true ->
         (exists m, valid_obj sp pok m cid j = true) ->
         exists fuel inner dfl,
           run vr ev w pok sok fuel (RConstruct cid false false (members_of j) None) = Ok (PObject cid inner dfl false) /\
           preserves j (encode false (PObject cid inner dfl false)) /\
           extras_are_default_optionals w cid j (encode false (PObject cid inner dfl false)).

   What is proved below is its decidable side condition on the tables regenerated from /repo (the
   part that catches a table edit: a vocabulary entry dropped, a bound tightened, `required` added,
   a constraint added), in the form of DESIGN Appendix A.7: the frozen specification's tables,
   narrowed at exactly the places accept_failures names (none on a conforming tree: restrict _ _ []
   is the identity), are nowhere laxer than the library's tables.                                  *)
From Coq Require Import NArith ZArith List String Bool.
From V Require Import Base.UString Base.Json Model.SchemaTypes Model.PyBase Model.Schema
     Spec.StixValid Spec.SchemaRefine Gen.Tables Gen.SpecTables
     Model.SchemaRun Proofs.SchemaBasics Proofs.SchemaObject Proofs.SchemaTables Proofs.SchemaComplete
     Proofs.SchemaCompKinds Proofs.SchemaCompObject Proofs.SchemaCompRun Proofs.SchemaCompC03.
Import ListNotations.

Theorem spec_refines_lib_modulo_failures :
  spec_refines (restrict lib spec (accept_failures spec lib)) lib = true.
Proof. rewrite spec_restricted_eq. exact restricted_refines_lib. Qed.
Print Assumptions spec_refines_lib_modulo_failures.

Theorem restrict_nothing_is_spec : restrict lib spec [] = spec.
Proof. exact restrict_nil_spec. Qed.
Print Assumptions restrict_nothing_is_spec.

(* Per-kind completeness of Property.clean (the leaf level of spec_complete), for ARBITRARY tables: a value
   the specification's rule for kind k' accepts (any validator fuel n, any JSON value j) is let through in
   strict, non-interoperability mode by every library kind k that the table check relates to it
   (kind_accepts k k' = true), without a custom flag, and serializes back to the same value (jsame:
   equal JSON; timestamps as instants; lists element-wise).  Partial: kind_complete k = true names the
   kinds proved so far (string-like, fixed, integer, boolean, enumeration, hexadecimal, dictionary and
   lists of those).                                                                                *)
Theorem clean_complete_partial :
  forall (vr : variant) (w sp : world) (pattern_ok : ver -> ustring -> bool)
         (rc : ustring -> bool -> bool -> list (ustring * jvalue) -> result pval)
         (rp : bool -> bool -> list (ustring * jvalue) -> result pval)
         (ro : ver -> list (ustring * ustring) -> bool -> list (ustring * jvalue) -> result pval)
         (k k' : pkind) (j : jvalue) (n : nat),
    kind_complete k = true -> kind_accepts k k' = true ->
    valid_kind sp pattern_ok n k' j = true ->
    exists pv, clean_kind vr w rc rp ro k false false j = Ok (pv, false) /\ jsame k' j (encode true pv).
Proof. intros. eapply kind_complete_sound; eauto. Qed.
Print Assumptions clean_complete_partial.

(* The same with the wider kind coverage of Proofs/SchemaComp*.v (identifiers, references, selectors,
   timestamps, floats and lists of those), for values the library can represent (jin_ok: a timestamp
   text denotes an instant, i.e. at most six fraction digits -- the rest is the known finding
   C03-timestamp-more-than-six-fraction-digits; an integer given for a float is below 10^16).      *)
Theorem clean_complete_partial_wide :
  forall (vr : variant) (w sp : world) (pattern_ok : ver -> ustring -> bool)
         (rc : ustring -> bool -> bool -> list (ustring * jvalue) -> result pval)
         (rp : bool -> bool -> list (ustring * jvalue) -> result pval)
         (ro : ver -> list (ustring * ustring) -> bool -> list (ustring * jvalue) -> result pval)
         (k k' : pkind) (j : jvalue) (n : nat),
    variant_complete vr = true -> spec_refines sp w = true ->
    kind_complete2 k = true -> kind_accepts k k' = true ->
    jin_ok k' j = true -> valid_kind sp pattern_ok n k' j = true ->
    exists pv, clean_kind vr w rc rp ro k false false j = Ok (pv, false) /\ jsame k' j (encode true pv).
Proof.
  intros vr w sp pok rc rp ro k k' j n Hvr Hsr Hk Ha Hj Hv.
  exact (kind_complete2_sound vr w sp pok rc rp ro Hvr Hsr k k' Hk Ha j n Hj Hv).
Qed.
Print Assumptions clean_complete_partial_wide.

(* Object level, for ARBITRARY tables: the members of an object the specification's class accepts (any
   validator fuel) are accepted by the strict constructor of the library's class without a custom flag;
   every given property is stored with the same value (jsame); anything else stored is a property with a
   default.  Partial: class_complete / input_complete are explicit boolean coverage predicates (classes
   whose co-constraints and __init__ forms are covered; inputs that give no nested object, `extensions`
   or `granular_markings` member).                                                                  *)
Theorem spec_complete_partial :
  forall (vr : variant) (ev : env) (w sp : world) pattern_ok selectors_ok cid mem m,
    variant_complete vr = true -> env_complete ev = true -> spec_refines sp w = true ->
    valid_obj sp pattern_ok (S m) cid (JObj mem) = true -> NoDup (map fst mem) ->
    class_complete w sp cid = true ->
    (forall c sc, find_class (wclasses w) cid = Some c -> find_class (wclasses sp) cid = Some sc ->
                  input_complete c sc mem = true) ->
    exists c sc inner dfl,
      find_class (wclasses w) cid = Some c /\ find_class (wclasses sp) cid = Some sc /\
      run vr ev w pattern_ok selectors_ok (S m) (RConstruct cid false false mem None) = Ok (PObject cid inner dfl false) /\
      (forall k v, In (k, v) mem -> exists x s', alookup k inner = Some x /\ find_slot sc k = Some s' /\
                                                 jsame (skind s') v (encode true x)) /\
      (forall k x, alookup k inner = Some x -> alookup k mem = None ->
                   exists s, find_slot c k = Some s /\ sdef s <> DNone).
Proof. exact spec_complete_partial_gen. Qed.
Print Assumptions spec_complete_partial.

(* ... on the tables regenerated from /repo and the frozen specification (narrowed where
   spec_refines_lib_modulo_failures says); lib_complete is the kernel-computed list of covered classes *)
Theorem spec_complete_partial_generated_tables :
  forall (vr : variant) (ev : env) pattern_ok selectors_ok cid mem m,
    variant_complete vr = true -> env_complete ev = true ->
    valid_obj spec_restricted pattern_ok (S m) cid (JObj mem) = true -> NoDup (map fst mem) ->
    In cid lib_complete ->
    (forall c sc, find_class (wclasses lib) cid = Some c -> find_class (wclasses spec_restricted) cid = Some sc ->
                  input_complete c sc mem = true) ->
    exists c sc inner dfl,
      find_class (wclasses lib) cid = Some c /\ find_class (wclasses spec_restricted) cid = Some sc /\
      run vr ev lib pattern_ok selectors_ok (S m) (RConstruct cid false false mem None) = Ok (PObject cid inner dfl false) /\
      (forall k v, In (k, v) mem -> exists x s', alookup k inner = Some x /\ find_slot sc k = Some s' /\
                                                 jsame (skind s') v (encode true x)) /\
      (forall k x, alookup k inner = Some x -> alookup k mem = None ->
                   exists s, find_slot c k = Some s /\ sdef s <> DNone).
Proof. exact spec_complete_partial_lib. Qed.
Print Assumptions spec_complete_partial_generated_tables.

(* The same two statements with the conclusion about NOT-given properties strengthened from "the slot has some
   default" to "what is stored IS that default" (reviewer's point C03-2; proofs by r-c02-cov, Proofs/SchemaCompRun.v:
   default_entry vr ev c k x = the slot of k has a default and x is the fixed value / the constructor's clock reading
   cleaned for the property's precision / "<prefix><uuid4>" / the constant -- or, for the id of a 2.1 observable with
   contributing properties, the deterministic "<type>--<uuid5>" written over the uuid4 default). *)
Theorem spec_complete_partial_defaults :
  forall (vr : variant) (ev : env) (w sp : world) pattern_ok selectors_ok cid mem m,
    variant_complete vr = true -> env_complete ev = true -> spec_refines sp w = true ->
    valid_obj sp pattern_ok (S m) cid (JObj mem) = true -> NoDup (map fst mem) ->
    class_complete w sp cid = true ->
    (forall c sc, find_class (wclasses w) cid = Some c -> find_class (wclasses sp) cid = Some sc ->
                  input_complete c sc mem = true) ->
    exists c sc inner dfl,
      find_class (wclasses w) cid = Some c /\ find_class (wclasses sp) cid = Some sc /\
      run vr ev w pattern_ok selectors_ok (S m) (RConstruct cid false false mem None) = Ok (PObject cid inner dfl false) /\
      (forall k v, In (k, v) mem -> exists x s', alookup k inner = Some x /\ find_slot sc k = Some s' /\
                                                 jsame (skind s') v (encode true x)) /\
      (forall k x, alookup k inner = Some x -> alookup k mem = None -> default_entry vr ev c k x).
Proof. exact spec_complete_partial_defaults_gen. Qed.
Print Assumptions spec_complete_partial_defaults.

Theorem spec_complete_partial_defaults_generated_tables :
  forall (vr : variant) (ev : env) pattern_ok selectors_ok cid mem m,
    variant_complete vr = true -> env_complete ev = true ->
    valid_obj spec_restricted pattern_ok (S m) cid (JObj mem) = true -> NoDup (map fst mem) ->
    In cid lib_complete ->
    (forall c sc, find_class (wclasses lib) cid = Some c -> find_class (wclasses spec_restricted) cid = Some sc ->
                  input_complete c sc mem = true) ->
    exists c sc inner dfl,
      find_class (wclasses lib) cid = Some c /\ find_class (wclasses spec_restricted) cid = Some sc /\
      run vr ev lib pattern_ok selectors_ok (S m) (RConstruct cid false false mem None) = Ok (PObject cid inner dfl false) /\
      (forall k v, In (k, v) mem -> exists x s', alookup k inner = Some x /\ find_slot sc k = Some s' /\
                                                 jsame (skind s') v (encode true x)) /\
      (forall k x, alookup k inner = Some x -> alookup k mem = None -> default_entry vr ev c k x).
Proof. exact spec_complete_partial_defaults_lib. Qed.
Print Assumptions spec_complete_partial_defaults_generated_tables.

(* the hypotheses are jointly satisfiable on non-trivial inputs; every hypothesis of
   spec_complete_partial_generated_tables is evaluated by the kernel.  The full set is shown on a 2.1 ipv4-addr with
   reference lists (a class whose table the proposed repair of C02-modified-before-created would not touch, so that
   this file also compiles on a tree that carries it); the reviewer's witness, a 2.1 identity with
   object_marking_refs, is shown valid and representable. *)
Definition ex_pok : ver -> ustring -> bool := fun _ _ => false.
Definition ex_ipv4 : list (ustring * jvalue) :=
  [ (u "type", JStr (u "ipv4-addr")); (u "spec_version", JStr (u "2.1"));
    (u "id", JStr (u "ipv4-addr--ff26c055-6336-5bc5-b98d-13d6226742dd"));
    (u "value", JStr (u "198.51.100.3"));
    (u "resolves_to_refs", JArr [JStr (u "mac-addr--8d1c5bdf-5a0e-4b8e-9a3c-1f2e3d4c5b6a")]);
    (u "belongs_to_refs", JArr [JStr (u "autonomous-system--8d1c5bdf-5a0e-4b8e-9a3c-1f2e3d4c5b6b")]);
    (u "defanged", JBool false) ].

Example hypotheses_satisfiable_ipv4 :
  variant_complete variant_repaired = true /\ env_complete SchemaRun.sentinel_env = true /\
  valid_obj spec_restricted ex_pok 8 (u "2.1/IPv4Address") (JObj ex_ipv4) = true /\
  NoDup (map fst ex_ipv4) /\ In (u "2.1/IPv4Address") lib_complete /\
  (forall c sc, find_class (wclasses lib) (u "2.1/IPv4Address") = Some c ->
                find_class (wclasses spec_restricted) (u "2.1/IPv4Address") = Some sc -> input_complete c sc ex_ipv4 = true).
Proof.
  split; [reflexivity|]. split; [vm_compute; reflexivity|]. split; [vm_compute; reflexivity|].
  split; [apply unodup_NoDup; vm_compute; reflexivity|]. split; [apply (proj1 (mem_ustr_In _ _)); vm_compute; reflexivity|].
  intros c sc Hc Hsc.
  assert (E : match find_class (wclasses lib) (u "2.1/IPv4Address"), find_class (wclasses spec_restricted) (u "2.1/IPv4Address") with
              | Some c, Some sc => input_complete c sc ex_ipv4 | _, _ => false end = true) by (vm_compute; reflexivity).
  rewrite Hc, Hsc in E. exact E.
Qed.

Definition ex_identity : list (ustring * jvalue) :=
  [ (u "type", JStr (u "identity")); (u "spec_version", JStr (u "2.1"));
    (u "id", JStr (u "identity--8d1c5bdf-5a0e-4b8e-9a3c-1f2e3d4c5b6a"));
    (u "created", JStr (u "2016-01-01T00:00:00.000Z")); (u "modified", JStr (u "2016-01-02T00:00:00.123Z"));
    (u "name", JStr (u "John Smith")); (u "confidence", JInt 100%Z);
    (u "object_marking_refs", JArr [JStr (u "marking-definition--613f2e26-407d-48c7-9eca-b8e91df99dc9")]) ].

Example identity_valid_and_representable :
  valid_obj spec_restricted ex_pok 8 (u "2.1/Identity") (JObj ex_identity) = true /\ NoDup (map fst ex_identity) /\
  match find_class (wclasses lib) (u "2.1/Identity"), find_class (wclasses spec_restricted) (u "2.1/Identity") with
  | Some c, Some sc => input_complete c sc ex_identity | _, _ => false end = true.
Proof. split; [vm_compute; reflexivity|]. split; [apply unodup_NoDup; vm_compute; reflexivity|vm_compute; reflexivity]. Qed.

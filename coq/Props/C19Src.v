(* Props/C19Src.v -- property C19: the CONTROL FLOW of stix2/registration.py and
   stix2/registry.class_for_type, read from the current source by
   translators/tr_regflow.py (Gen/RegFlow.v, fail-closed), is what
   Model/Registry.v transcribes: an interpreter of the source's step lists
   (Model/RegistryFlow.v) is the model's register_* function -- so the order
   "checks, duplicate test, write", the map and the version key written are the
   source's --, _validate_props has the shape the model's variant stands for,
   and class_for_type dispatches on the category with an exclusive `else`.
   Statements only; proofs in Proofs/C19Src.v.                                *)
From Coq Require Import NArith List String Bool.
From V Require Import Base.UString Model.Registry Model.RegistryInit Model.RegistryFlow Gen.Regexes Gen.RegFlow
                      Spec.NamingSpec Proofs.RegistryFacts Proofs.NamingFacts Proofs.C19Proofs Proofs.C19Src.
Import ListNotations.

Theorem src_register_object_is_model : forall vt r V n d cls,
  interp vt (plain_ctx V n d cls) src_register_object_flow None r = register_object vt r V n d cls.
Proof. exact interp_object_flow. Qed.
Print Assumptions src_register_object_is_model.

Theorem src_register_marking_is_model : forall vt r V n d cls,
  interp vt (plain_ctx V n d cls) src_register_marking_flow None r = register_marking vt r V n d cls.
Proof. exact interp_marking_flow. Qed.
Print Assumptions src_register_marking_is_model.

Theorem src_register_observable_is_model : forall vt r V n d cls,
  interp vt (plain_ctx V n d cls) src_register_observable_flow None r = register_observable vt r V n d cls.
Proof. exact interp_observable_flow. Qed.
Print Assumptions src_register_observable_is_model.

Theorem src_register_extension_is_model : forall vt r V n xt user cls,
  interp vt (extension_ctx V n xt user cls) src_register_extension_flow None r = register_extension vt r V n xt user cls.
Proof. exact interp_extension_flow. Qed.
Print Assumptions src_register_extension_is_model.

(* the variant selected from the regex texts agrees with the control flow read from the source *)
Theorem src_ext_name_check_is_variants : forall v, source_variant = Some v -> extid v = src_ext_name_check.
Proof. intros v H. vm_compute in H. inversion H. reflexivity. Qed.
Print Assumptions src_ext_name_check_is_variants.

Theorem src_validate_props_shape_is_variants : forall v, source_variant = Some v -> vp_shape_of (pmode v) = src_validate_props_shape.
Proof. intros v H. vm_compute in H. inversion H. reflexivity. Qed.
Print Assumptions src_validate_props_shape_is_variants.

(* class_for_type: `if category: <that map> else: <the four maps in the model's order>` *)
Theorem src_class_for_type_dispatch :
  src_cft_category_exclusive = true /\ src_cft_search_order = model_cft_search_order.
Proof. split; reflexivity. Qed.
Print Assumptions src_class_for_type_dispatch.

Theorem class_for_type_with_category : forall r n V k,
  class_for_type r n (version_text V) (Some (match k with Objects => u "objects" | Observables => u "observables"
                                                        | Markings => u "markings" | Extensions => u "extensions" end))
  = lookup r V k n.
Proof. exact cft_with_category_lemma. Qed.
Print Assumptions class_for_type_with_category.

Theorem class_for_type_without_category : forall r n V,
  class_for_type r n (version_text V) None
  = fold_right (fun k acc => orelse (lookup r V k n) acc) None model_cft_search_order.
Proof. exact cft_without_category_lemma. Qed.
Print Assumptions class_for_type_without_category.

(* the decorators work on their own copy of the caller's `properties` (a registered class table is a value,
   as in the model), and extension_name= always goes through _register_extension (with_extension_name of the
   model: a taken name is a DuplicateRegistrationError) *)
Theorem src_decorators_copy_and_register :
  src_properties_copied = true /\ src_extname_registers_unconditionally = true.
Proof. split; reflexivity. Qed.
Print Assumptions src_decorators_copy_and_register.

(* _validate_ref_props has the form the model's ref_ok transcribes: the text after the LAST underscore
   (Registry.tail_us) is compared with "ref" / "refs" *)
Theorem src_ref_rule_shape : src_ref_rule_last_underscore = true.
Proof. reflexivity. Qed.
Print Assumptions src_ref_rule_shape.

Example tail_us_examples :
  tail_us (u "src_host_ref") = u "ref" /\ tail_us (u "a_ref_b") = u "b" /\ tail_us (u "ref") = u "ref" /\
  tail_us (u "related_host_refs") = u "refs".
Proof. vm_compute. repeat split. Qed.

(* ---------------- the naming rules, AT THE CURRENT SOURCE ----------------
   The equivalences of Props/C19.v (type_name_rule, ext_name_rule, prop_name_rule) are conditional on
   the variant; here they are discharged for the variant the regex texts of the current source
   denote.  A source whose regexes fall back to `$`, to consecutive hyphens or to the first-character
   check breaks these obligations (and the *_refuted theorems of Props/C19.v then apply).           *)
Theorem source_variant_is_repaired : source_variant = Some repaired.
Proof. vm_compute. reflexivity. Qed.
Print Assumptions source_variant_is_repaired.

Theorem source_naming_rules : forall v, source_variant = Some v ->
  (forall V s, validate_type v V s = true <-> spec_type_name (sv V) s) /\
  (forall V n, validate_ext_name v V n = true <-> spec_ext_name V n) /\
  (forall V s, validate_prop_name v V s = true <-> spec_prop_name (sv V) s).
Proof.
  intros v H. rewrite source_variant_is_repaired in H. inversion H; subst v. split; [|split].
  - intros. apply type_name_rule_lemma. apply repaired_strict.
  - intros. apply ext_name_rule_lemma; [apply repaired_strict | reflexivity].
  - intros. apply prop_name_rule_lemma. reflexivity.
Qed.
Print Assumptions source_naming_rules.

(* so, at the current source: a name that breaks the rules is refused and nothing is registered *)
Theorem source_invalid_names_refused : forall v, source_variant = Some v -> forall r q,
  (r_kind q <> Extensions -> ~ spec_type_name (sv (r_ver q)) (r_name q) -> decorate v r q = (r, Failed EValue)) /\
  (r_kind q = Extensions -> ~ spec_ext_name (r_ver q) (r_name q) -> decorate v r q = (r, Failed EValue)) /\
  (forall n k, In (n, k) (r_props q) -> ~ spec_prop_name (sv (r_ver q)) n -> exists e, snd (decorate v r q) = Failed e).
Proof.
  intros v H r q. rewrite source_variant_is_repaired in H. inversion H; subst v. split; [|split].
  - intros. apply invalid_type_name_refused_lemma; auto. apply repaired_strict.
  - intros. apply invalid_ext_name_refused_lemma; auto. apply repaired_strict.
  - intros n k I NS. eapply invalid_prop_name_refused_lemma; eauto.
Qed.
Print Assumptions source_invalid_names_refused.

(* Props/C06.v -- property C06 (STIX 2.1 observable identifiers are deterministic
   and specification-exact), stated on the model Model/ScoId.v of
   _generate_id / _choose_one_hash / _make_json_serializable (stix2/base.py) over
   the C16 model of the canonicalizer, with the tables regenerated from /repo
   (Gen/ScoIdTables.v).  uuid5 is universally quantified.  Statements only; proofs
   are in Proofs/ScoId*.v.                                                        *)
From Coq Require Import String NArith ZArith List Bool Permutation.
From V Require Import Base.UString Base.Json Model.JcsText Model.Jcs Model.ScoId Gen.ScoIdTables Model.ScoIdRun
  Spec.Rfc8785 Spec.JcsSpec Spec.JsonParse Spec.ScoIdSpec Spec.ScoIdOrder
  Proofs.ScoIdFacts Proofs.ScoIdProofs Proofs.ScoIdHashFacts Proofs.ScoIdOrderFacts Proofs.ScoIdOrderProofs.
Import ListNotations.
Open Scope N_scope.

(* ---- the generated tables against the standard ---------------------------------------- *)
(* every registered 2.1 observable type has the ID contributing properties of STIX 2.1
   part 6, and no other type is registered (re-evaluated on the regenerated table) *)
Theorem contrib_tables_match_spec : table_matches_spec sco_types sco_contrib = true.
Proof. vm_compute. reflexivity. Qed.
Print Assumptions contrib_tables_match_spec.

(* the if/elif chain of _choose_one_hash tests MD5, SHA-1, SHA-256, SHA-512 in this order *)
Theorem hash_preference_is_spec : gen_hash_prefs = spec_hash_preference.
Proof. vm_compute. reflexivity. Qed.
Print Assumptions hash_preference_is_spec.

(* ---- determinism -------------------------------------------------------------------------- *)
Theorem id_only_contrib : forall uuid5 prefs hp ty contrib obj obj',
  (forall k, In k contrib -> plookup k obj = plookup k obj') ->
  gen_id uuid5 prefs hp ty contrib obj = gen_id uuid5 prefs hp ty contrib obj'.
Proof. exact id_only_contrib_proof. Qed.
Print Assumptions id_only_contrib.

Theorem id_order_indep_args : forall uuid5 prefs hp ty contrib obj obj',
  Permutation obj obj' -> NoDup (map fst obj) ->
  gen_id uuid5 prefs hp ty contrib obj = gen_id uuid5 prefs hp ty contrib obj'.
Proof. exact id_arg_order_proof. Qed.
Print Assumptions id_order_indep_args.

Theorem id_order_indep_contrib_list : forall uuid5 prefs hp ty contrib contrib' obj m,
  Permutation contrib contrib' -> project prefs hp contrib obj [] = IOk m ->
  gen_id uuid5 prefs hp ty contrib obj = gen_id uuid5 prefs hp ty contrib' obj.
Proof. exact id_contrib_order_proof. Qed.
Print Assumptions id_order_indep_contrib_list.

(* nested dictionary order: objects holding the same properties, each value the same
   up to the order of dictionaries / nested object members at any depth, get the same
   id -- unconditionally for the repaired hash fallback, and for the pinned one when
   `hashes` holds a preferred algorithm *)
Theorem id_order_indep_nested : forall uuid5 prefs hp ty contrib obj obj',
  same_props obj obj' -> Forall (fun kv => pnodup (snd kv)) obj ->
  Forall (fun kv => fst kv = k_hashes -> hash_ok prefs hp (snd kv)) obj ->
  gen_id uuid5 prefs hp ty contrib obj = gen_id uuid5 prefs hp ty contrib obj'.
Proof. exact id_order_indep_nested_proof. Qed.
Print Assumptions id_order_indep_nested.

(* _make_json_serializable maps values equal up to dictionary order to JSON values
   equal up to member order (or fails on both) *)
Theorem jsonable_order : forall v w, pperm v w -> pnodup v -> Rres (jsonable v) (jsonable w).
Proof. exact jsonable_pperm. Qed.
Print Assumptions jsonable_order.

Example id_order_indep_nested_hyps_satisfiable :
  let v1 := PDict [(u "pdf-ext", PDict [(u "version", PStr (u "1.7")); (u "is_optimized", PBool false)]); (u "ntfs-ext", PDict [(u "sid", PStr (u "S-1"))])] in
  let v2 := PDict [(u "ntfs-ext", PDict [(u "sid", PStr (u "S-1"))]); (u "pdf-ext", PDict [(u "is_optimized", PBool false); (u "version", PStr (u "1.7"))])] in
  let h1 := PDict [(u "SHA-256", PStr (u "aa")); (u "SSDEEP", PStr (u "3:a:b"))] in
  let h2 := PDict [(u "SSDEEP", PStr (u "3:a:b")); (u "SHA-256", PStr (u "aa"))] in
  same_props [(u "extensions", v1); (u "hashes", h1)] [(u "extensions", v2); (u "hashes", h2)] /\
  pnodup v1 /\ pnodup h1 /\ hash_ok gen_hash_prefs ByDictOrder h1.
Proof.
  cbv zeta. split; [|split; [|split]].
  - constructor; [|constructor; [|constructor]].
    + split; [reflexivity|]. simpl. eapply pp_dict; [|apply perm_swap].
      constructor; [split; [reflexivity|]|constructor; [split; [reflexivity|apply pp_refl]|constructor]].
      simpl. eapply pp_dict; [|apply perm_swap]. repeat constructor.
    + split; [reflexivity|]. simpl. eapply pp_dict; [|apply perm_swap]. repeat constructor.
  - repeat constructor; simpl; intuition discriminate.
  - repeat constructor; simpl; intuition discriminate.
  - right. intros h E. inversion E; subst. vm_compute. discriminate.
Qed.

(* ---- the choice of one hash ----------------------------------------------------------------- *)
Theorem id_hash_choice : forall hp (h : list (ustring * pval)),
  (forall v, plookup k_md5 h = Some v -> choose_one_hash spec_hash_preference hp h = Some (k_md5, v)) /\
  (forall v, plookup k_md5 h = None -> plookup k_sha1 h = Some v ->
             choose_one_hash spec_hash_preference hp h = Some (k_sha1, v)) /\
  (forall v, plookup k_md5 h = None -> plookup k_sha1 h = None -> plookup k_sha256 h = Some v ->
             choose_one_hash spec_hash_preference hp h = Some (k_sha256, v)) /\
  (forall v, plookup k_md5 h = None -> plookup k_sha1 h = None -> plookup k_sha256 h = None ->
             plookup k_sha512 h = Some v -> choose_one_hash spec_hash_preference hp h = Some (k_sha512, v)) /\
  (plookup k_md5 h = None -> plookup k_sha1 h = None -> plookup k_sha256 h = None -> plookup k_sha512 h = None ->
     choose_one_hash spec_hash_preference hp h = match hp with ByDictOrder => hd_error h | ByName => min_member h end).
Proof. exact hash_choice_chain. Qed.
Print Assumptions id_hash_choice.

(* the fallback of the repaired variant: the member whose name sorts first *)
Theorem hash_fallback_least_name : forall (h : list (ustring * pval)) k v, min_member h = Some (k, v) ->
  In (k, v) h /\ forall k' v', In (k', v') h -> ustr_ltb k' k = false.
Proof. exact min_member_spec. Qed.
Print Assumptions hash_fallback_least_name.

Theorem hash_choice_order_indep : forall prefs (h h' : list (ustring * pval)),
  Permutation h h' -> NoDup (map fst h) -> choose_one_hash prefs ByName h = choose_one_hash prefs ByName h'.
Proof. exact choose_byname_perm. Qed.
Print Assumptions hash_choice_order_indep.

Theorem hash_choice_preferred_order_indep : forall prefs hp (h h' : list (ustring * pval)) kv,
  Permutation h h' -> NoDup (map fst h) -> first_present prefs h = Some kv ->
  choose_one_hash prefs hp h = choose_one_hash prefs hp h'.
Proof. exact choose_preferred_perm. Qed.
Print Assumptions hash_choice_preferred_order_indep.

(* the pinned variant (first in dictionary order) is refuted: witness *)
Theorem hash_choice_dictorder_refuted :
  Permutation w_hashes1 w_hashes2 /\ NoDup (map fst w_hashes1) /\
  choose_one_hash spec_hash_preference ByDictOrder w_hashes1 <> choose_one_hash spec_hash_preference ByDictOrder w_hashes2 /\
  choose_one_hash spec_hash_preference ByName w_hashes1 = choose_one_hash spec_hash_preference ByName w_hashes2.
Proof. exact choose_dictorder_refuted_proof. Qed.
Print Assumptions hash_choice_dictorder_refuted.

Theorem id_dictorder_refuted : forall uuid5,
  match gen_id uuid5 spec_hash_preference ByDictOrder (u "file") [u "hashes"; u "name"] [(u "hashes", PDict w_hashes1)],
        gen_id uuid5 spec_hash_preference ByDictOrder (u "file") [u "hashes"; u "name"] [(u "hashes", PDict w_hashes2)] with
  | IdDet d1 _, IdDet d2 _ => d1 <> d2
  | _, _ => False
  end.
Proof. exact id_dictorder_refuted_proof. Qed.
Print Assumptions id_dictorder_refuted.

(* ---- what is hashed --------------------------------------------------------------------------- *)
Theorem id_input_spec : forall uuid5 prefs hp ty contrib obj data id,
  gen_id uuid5 prefs hp ty contrib obj = IdDet data id ->
  exists m, m <> [] /\ NoDup (map fst m) /\
    (forall k jv, In (k, jv) m <-> In k contrib /\ member_of prefs hp obj k jv) /\
    canon (JObj m) = JOk data /\ id = ty ++ dashes ++ uuid5 data.
Proof. exact id_input_spec_proof. Qed.
Print Assumptions id_input_spec.

Theorem id_input_injective : forall uuid5 prefs hp ty contrib obj1 obj2 d1 d2 i1 i2 m1 m2,
  project prefs hp contrib obj1 [] = IOk m1 -> project prefs hp contrib obj2 [] = IOk m2 ->
  gen_id uuid5 prefs hp ty contrib obj1 = IdDet d1 i1 -> gen_id uuid5 prefs hp ty contrib obj2 = IdDet d2 i2 ->
  nums_wf (JObj m1) -> nums_wf (JObj m2) ->
  json_of (JObj m1) <> json_of (JObj m2) -> d1 <> d2.
Proof. exact id_input_injective_proof. Qed.
Print Assumptions id_input_injective.

(* the hypotheses of id_input_injective are satisfiable with nested dictionaries and timestamps:
   two network-traffic-like objects that differ in one nested extension value *)
Definition ex_obj (port : Z) : list (ustring * pval) :=
  [(u "start", PStamp Timestamp.Pad4 Timestamp.PAny Timestamp.CExact 63082281600123000);
   (u "protocols", PList [PStr (u "tcp"); PStr (u "http")]);
   (u "extensions", PDict [(u "socket-ext", PDict [(u "address_family", PStr (u "AF_INET"));
                                                   (u "options", PDict [(u "SO_RCVBUF", PInt port)])])]);
   (u "is_active", PBool false)].
Definition ex_contrib : list ustring := [u "start"; u "end"; u "protocols"; u "extensions"].

Example id_input_injective_hyps_satisfiable :
  exists m1 m2 d1 d2 i1 i2,
    project gen_hash_prefs gen_hash_else ex_contrib (ex_obj 8192) [] = IOk m1 /\
    project gen_hash_prefs gen_hash_else ex_contrib (ex_obj 4096) [] = IOk m2 /\
    gen_id (fun d => d) gen_hash_prefs gen_hash_else (u "network-traffic") ex_contrib (ex_obj 8192) = IdDet d1 i1 /\
    gen_id (fun d => d) gen_hash_prefs gen_hash_else (u "network-traffic") ex_contrib (ex_obj 4096) = IdDet d2 i2 /\
    nums_wf (JObj m1) /\ nums_wf (JObj m2) /\ json_of (JObj m1) <> json_of (JObj m2) /\ d1 <> d2.
Proof.
  do 6 eexists. split; [vm_compute; reflexivity|]. split; [vm_compute; reflexivity|].
  split; [vm_compute; reflexivity|]. split; [vm_compute; reflexivity|].
  split; [repeat constructor; discriminate|]. split; [repeat constructor; discriminate|].
  split; vm_compute; discriminate.
Qed.

(* SHA-1 collision freedom cannot be proved: it is the hypothesis uuid5 d1 <> uuid5 d2 *)
Theorem id_distinct_partial : forall uuid5 prefs hp ty contrib obj1 obj2 d1 d2 i1 i2,
  gen_id uuid5 prefs hp ty contrib obj1 = IdDet d1 i1 -> gen_id uuid5 prefs hp ty contrib obj2 = IdDet d2 i2 ->
  uuid5 d1 <> uuid5 d2 -> i1 <> i2.
Proof. exact id_distinct_partial_proof. Qed.
Print Assumptions id_distinct_partial.

(* ---- random ids --------------------------------------------------------------------------------- *)
Theorem id_random_when_none : forall uuid5 prefs hp ty contrib obj,
  (forall k, In k contrib -> plookup k obj = None) -> gen_id uuid5 prefs hp ty contrib obj = IdRandom.
Proof. exact id_random_when_none_proof. Qed.
Print Assumptions id_random_when_none.

Theorem id_random_only_when_none : forall uuid5 prefs hp ty contrib obj,
  gen_id uuid5 prefs hp ty contrib obj = IdRandom -> forall k, In k contrib -> plookup k obj = None.
Proof. exact id_random_only_when_none_proof. Qed.
Print Assumptions id_random_only_when_none.

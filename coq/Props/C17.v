(* Props/C17.v -- C17: bad input is reported only through the library's error
   family.  Statements only; proofs are in Proofs/ErrorsFacts.v and
   Proofs/ErrorsWitness.v. *)
From Coq Require Import NArith ZArith List String Bool.
From V Require Import Base.UString Base.Json Model.Errors Gen.C17Classes Proofs.ErrorsFacts Proofs.ErrorsWitness Proofs.ErrorsRefine.
Import ListNotations.

(* _check_property: whatever Exception subclass clean() raises (known class or
   any user-defined class derived from one), what leaves the wrapper is an
   InvalidValueError (or a subclass of it, re-raised as is). *)
Theorem wrapper_total :
  forall e : exn, is_exception e = true ->
  exists e', check_property_wrapper (CleanRaise e None) = Exc e' S_lib /\ subclass e' K_InvalidValueError = true.
Proof. exact wrapper_total_lemma. Qed.
Print Assumptions wrapper_total.

(* ... and the wrapper never lets anything else out: an exception leaving it is
   an InvalidValueError or is not an Exception at all (KeyboardInterrupt ...). *)
Theorem wrapper_only :
  forall r e s, (forall e0 sf, r = CleanRaise e0 sf -> sf = None) -> check_property_wrapper r = Exc e s ->
  s = S_lib /\ (subclass e K_InvalidValueError = true \/ is_exception e = false).
Proof. exact wrapper_never_returns_other. Qed.
Print Assumptions wrapper_only.

(* The wrapper words the reason with str(exc) inside its `except` handler.  wrapper_total / wrapper_only are
   about exceptions whose __str__ returns; when it raises e' instead, e' is what escapes -- whatever its class.
   (So the totality of the library's own exception classes' __str__ is an obligation of its own:
   library_exception_str_templates_constant below, generated from stix2/exceptions.py.) *)
Theorem wrapper_str_failure_escapes :
  forall e e', is_exception e = true -> subclass e K_InvalidValueError = false ->
  check_property_wrapper (CleanRaise e (Some e')) = Exc e' S_lib.
Proof. exact wrapper_str_failure. Qed.
Print Assumptions wrapper_str_failure_escapes.

(* the library's own exception classes (stix2/exceptions.py, re-read on every run): every message is produced by
   `.format` / `%` on a CONSTANT template whose fields exist -- input is never spliced into a template, so their
   __str__ cannot fail on hostile text ({x}, {0.a}, %s ...) *)
Theorem library_exception_str_templates_constant : exceptions_str_templates_constant = true.
Proof. exact exceptions_templates_ok. Qed.
Print Assumptions library_exception_str_templates_constant.

(* THE SITE LIST AGAINST THE SOURCE (audit C17-1, C17-5).  The model is closed-world: a non-family class can only be
   produced at one of its enumerated sites, so the family_only theorems below check the model's own labelling.  What ties
   the list to the code, besides the correspondence run: translators/tr_c17flow.py walks the AST of the 20 functions the
   model mirrors (parse, dict_to_stix2, parse_observable, _get_dict, detect_spec_version, class_for_type, _STIXBase.__init__,
   _check_property, _check_object_constraints, _Observable.__init__/_check_ref/_check_property, check_tlp_marking, the
   MarkingDefinition and Indicator hooks) in the repository under check and lists every subscript, attribute access /
   method call on a non-module receiver, call of a plain name, call into a third-party module and raise, with the
   handlers of the enclosing try blocks.  source_inventory_reviewed = true says: each of them is covered by an automatic
   rule, by an entry of the hand-reviewed table (with the guard text / handlers that entry needs present), or is the
   operation of one of the model's sites.  New code indexing raw input, a removed handler or guard makes it false. *)
Theorem source_flow_inventory_closed : source_inventory_reviewed = true.
Proof. exact source_inventory_ok. Qed.
Print Assumptions source_flow_inventory_closed.

(* ... and the same walk finds every site of the inventoried functions in its guarded form in the current source.
   The 15th site (float() of a huge integer in the vendored canonicaliser, reached from _generate_id) is not in an
   inventoried function; its guard is looked up directly and appears as a hypothesis below, so that these
   statements hold before and after its fix. *)
Theorem current_source_all_guarded : forall s, s <> S_genid_number_range -> source_variant s = true.
Proof. exact source_all_guarded. Qed.
Print Assumptions current_source_all_guarded.

(* parse(): for every input value, every decoder behaviour (json.loads), every
   registry without unknown hooks and EVERY behaviour of the property cleaners
   (a black box that returns or raises any Exception class), an escaping
   exception that is outside the family originates at an unguarded site. *)
Theorem nonfamily_only_at_unguarded_sites :
  forall (V : variant) (R : registry) (cl : blackbox) (strictext refuse : bool) (dec : decoder) (x : jvalue) (ac io : bool) (version : option ustring),
  reg_known R = true ->
  well_behaved cl ->
  forall e s, In (Exc e s) (parse V R (clean_via cl) strictext refuse dec x ac io version) -> family e = false -> V s = false.
Proof.
  intros V R cl strictext refuse dec x ac io version HR Hcl e s Hin Hf.
  eapply ok_nonfamily_site; [|exact Hin|exact Hf].
  apply ok_parse; [apply ok_clean_via; exact Hcl|exact HR].
Qed.
Print Assumptions nonfamily_only_at_unguarded_sites.

(* the repaired variants: only the family escapes *)
Theorem family_only :
  forall (V : variant) (R : registry) (cl : blackbox) (strictext refuse : bool) (dec : decoder) (x : jvalue) (ac io : bool) (version : option ustring),
  all_guarded V -> reg_known R = true ->
  well_behaved cl ->
  forall e s, In (Exc e s) (parse V R (clean_via cl) strictext refuse dec x ac io version) -> family e = true.
Proof.
  intros V R cl strictext refuse dec x ac io version HV HR Hcl e s Hin.
  eapply ok_all_guarded; [exact HV| |exact Hin].
  apply ok_parse; [apply ok_clean_via; exact Hcl|exact HR].
Qed.
Print Assumptions family_only.

Theorem family_only_parse_observable :
  forall (V : variant) (R : registry) (cl : blackbox) (strictext refuse : bool) (dec : decoder) (x vr : jvalue) (ac io : bool) (version : option ustring),
  all_guarded V -> reg_known R = true ->
  well_behaved cl ->
  forall e s, In (Exc e s) (parse_observable V R (clean_via cl) strictext refuse dec x vr ac io version) -> family e = true.
Proof.
  intros V R cl strictext refuse dec x vr ac io version HV HR Hcl e s Hin.
  eapply ok_all_guarded; [exact HV| |exact Hin].
  apply ok_parse_observable; [apply ok_clean_via; exact Hcl|exact HR].
Qed.
Print Assumptions family_only_parse_observable.

(* stix2.parsing.dict_to_stix2 called directly on a value (nonstr: the dict has a key that is not a string) *)
Theorem family_only_dict_to_stix2 :
  forall (V : variant) (R : registry) (cl : blackbox) (strictext refuse : bool) (dec : decoder) (d : jvalue) (nonstr ac io : bool)
         (version : option ustring),
  all_guarded V -> reg_known R = true ->
  well_behaved cl ->
  forall e s, In (Exc e s) (dict_to_stix2 V R (clean_via cl) strictext refuse dec d nonstr ac io version) -> family e = true.
Proof.
  intros V R cl strictext refuse dec d nonstr ac io version HV HR Hcl e s Hin.
  eapply ok_all_guarded; [exact HV| |exact Hin].
  apply ok_dict_to_stix2; [apply ok_clean_via; exact Hcl|exact HR].
Qed.
Print Assumptions family_only_dict_to_stix2.

(* parse(file-like object) *)
Theorem family_only_parse_file :
  forall (V : variant) (R : registry) (cl : blackbox) (strictext refuse : bool) (dec : decoder) (tr : textres) (ac io : bool) (version : option ustring),
  all_guarded V -> reg_known R = true ->
  well_behaved cl ->
  forall e s, In (Exc e s) (parse_file V R (clean_via cl) strictext refuse dec tr ac io version) -> family e = true.
Proof.
  intros V R cl strictext refuse dec tr ac io version HV HR Hcl e s Hin.
  eapply ok_all_guarded; [exact HV| |exact Hin].
  apply ok_parse_file; [apply ok_clean_via; exact Hcl|exact HR].
Qed.
Print Assumptions family_only_parse_file.

(* the variant read off the current source, on the live class tables *)
Theorem current_source_family_only :
  forall (cl : blackbox) (strictext refuse : bool) (dec : decoder) (x : jvalue) (ac io : bool) (version : option ustring),
  well_behaved cl -> source_variant S_genid_number_range = true ->
  forall e s, In (Exc e s) (parse source_variant live (clean_via cl) strictext refuse dec x ac io version) -> family e = true.
Proof.
  intros cl strictext refuse dec x ac io version Hcl Hg e s Hin.
  eapply ok_all_guarded; [exact (source_all_guarded_given Hg)| |exact Hin].
  apply ok_parse; [apply ok_clean_via; exact Hcl|exact live_known].
Qed.
Print Assumptions current_source_family_only.

(* direct construction of any class without unknown hooks *)
Theorem family_only_construct :
  forall (V : variant) (R : registry) (cl : blackbox) (strictext : bool) (dec : decoder) (c : cls) (ac io : bool) (kw : list (ustring * jvalue)),
  all_guarded V -> reg_known R = true -> cls_known c = true ->
  well_behaved cl ->
  forall e s, In (Exc e s) (construct V R (clean_via cl) strictext dec c ac io kw) -> family e = true.
Proof.
  intros V R cl strictext dec c ac io kw HV HR Hc Hcl e s Hin.
  eapply ok_all_guarded; [exact HV| |exact Hin].
  apply ok_construct; [apply ok_clean_via; exact Hcl|exact HR|exact Hc].
Qed.
Print Assumptions family_only_construct.

(* the set-valued cleaner used when the model is evaluated in the correspondence run is covered as well *)
Theorem family_only_evaluated_model :
  forall (V : variant) (R : registry) (strictext refuse : bool) (dec : decoder) (x : jvalue) (ac io : bool) (version : option ustring),
  reg_known R = true ->
  forall e s, In (Exc e s) (parse V R clean_any strictext refuse dec x ac io version) -> family e = false -> V s = false.
Proof.
  intros V R strictext refuse dec x ac io version HR e s Hin Hf.
  eapply ok_nonfamily_site; [|exact Hin|exact Hf].
  apply ok_parse; [apply ok_clean_any|exact HR].
Qed.
Print Assumptions family_only_evaluated_model.

(* the outcome set evaluated in the correspondence run (set-valued cleaner) covers the model under every
   black-box behaviour of the cleaners: each outcome is in the evaluated set, or is an InvalidValueError
   subclass re-raised by the wrapper where the evaluated set has InvalidValueError *)
Theorem evaluated_model_covers_every_cleaner :
  forall (V : variant) (R : registry) (cl : blackbox) (strictext refuse : bool) (dec : decoder) (x : jvalue) (ac io : bool) (version : option ustring),
  well_behaved cl ->
  forall r, In r (parse V R (clean_via cl) strictext refuse dec x ac io version) ->
  exists r', In r' (parse V R clean_any strictext refuse dec x ac io version) /\
             (r = r' \/ exists e, r = Exc e S_lib /\ subclass e K_InvalidValueError = true /\
                                  r' = Exc (Known K_InvalidValueError) S_lib).
Proof.
  intros V R cl strictext refuse dec x ac io version Hcl r Hr.
  exact (cov_parse V R _ _ strictext refuse (cov_clean_via_any cl Hcl) dec x ac io version r Hr).
Qed.
Print Assumptions evaluated_model_covers_every_cleaner.

(* the structural cleaner (embedded-object and list-of-embedded-object slots constructed with this same model, to any
   depth `fuel`), which is what the correspondence run evaluates: non-family outcomes only at unguarded sites, and
   every outcome is one the coarse evaluation has as well *)
Theorem structural_model_family_only :
  forall (fuel : nat) (V : variant) (R : registry) (classes : list (string * cls)) (strictext refuse : bool) (dec : decoder)
         (x : jvalue) (ac io : bool) (version : option ustring),
  reg_known R = true ->
  forall e s, In (Exc e s) (parse V R (clean_struct fuel V R strictext refuse classes) strictext refuse dec x ac io version) ->
  family e = false -> V s = false.
Proof.
  intros fuel V R classes strictext refuse dec x ac io version HR e s Hin Hf.
  eapply ok_nonfamily_site; [|exact Hin|exact Hf].
  apply ok_parse; [intros; apply ok_clean_struct|exact HR].
Qed.
Print Assumptions structural_model_family_only.

Theorem structural_model_refines_coarse :
  forall (fuel : nat) (V : variant) (R : registry) (classes : list (string * cls)) (strictext refuse : bool) (dec : decoder)
         (x : jvalue) (ac io : bool) (version : option ustring) r,
  In r (parse V R (clean_struct fuel V R strictext refuse classes) strictext refuse dec x ac io version) ->
  exists r', In r' (parse V R clean_any strictext refuse dec x ac io version) /\
             (r = r' \/ exists e, r = Exc e S_lib /\ subclass e K_InvalidValueError = true /\
                                  r' = Exc (Known K_InvalidValueError) S_lib).
Proof.
  intros fuel V R classes strictext refuse dec x ac io version r Hr.
  exact (cov_parse V R _ _ strictext refuse (cov_clean_struct_any fuel V R strictext refuse classes) dec x ac io version r Hr).
Qed.
Print Assumptions structural_model_refines_coarse.

(* the class tables generated from the live classes contain no hook the model does not know *)
Theorem live_registry_known : reg_known live = true /\ forallb (fun kc => cls_known (snd kc)) all_classes = true.
Proof. split; [exact live_known|exact all_classes_known]. Qed.
Print Assumptions live_registry_known.

(* ... nor do the registries after user registrations through the public decorators (toplevel-property-extensions,
   custom object / observable / marking), against which the custom-registry correspondence is evaluated *)
Theorem custom_registry_known : reg_known live_custom = true.
Proof. exact live_custom_known. Qed.
Print Assumptions custom_registry_known.

(* every unguarded site is a real hole: with the live class tables and only
   that site unguarded, some input makes an exception outside the family escape at that site *)
Theorem each_site_refuted :
  forall s, s <> S_lib ->
  exists x ac dec e, In (Exc e s) (parse (unguarded_at [s]) live clean_any true false dec x ac false None) /\ family e = false.
Proof. exact site_refuted. Qed.
Print Assumptions each_site_refuted.

Theorem pinned_family_only_refuted :
  ~ (forall x ac dec e s, In (Exc e s) (parse pinned live clean_any true false dec x ac false None) -> family e = true).
Proof.
  intros H.
  assert (Hin : In (Exc (Known K_KeyError) S_detect_objects)
                   (parse pinned live clean_any true false (dec_table []) w_detect_objects false false None)).
  { vm_compute. left. reflexivity. }
  specialize (H _ _ _ _ _ Hin). vm_compute in H. discriminate H.
Qed.
Print Assumptions pinned_family_only_refuted.

(* DEFINITIONAL IN THE MODEL (audit C17-2): store_add_one is defined to return the old store next to an escaping
   exception, and registries are read-only parameters of every model function (no function returns one), so this
   theorem and the next state how the model was written, not a fact about the code.  What ties the clause "a failed
   construction leaves registries and stores unchanged" to the code is the oracle: deep registry snapshots and store
   snapshots around every failing call of the correspondence run. *)
Theorem failed_construct_no_effect :
  forall V R clean strictext refuse dec (st : store) (x : jvalue) version st' e s,
  In (st', Escaped e s) (store_add_one V R clean strictext refuse dec st x version) ->
  st' = st /\ In (Exc e s) (parse V R clean strictext refuse dec x true false version).
Proof.
  intros V R clean strictext refuse dec st x version st' e s Hin.
  apply store_add_one_cases in Hin. destruct Hin as [[Ha _]|[e' [s' [Ha [Hst Hp]]]]]; [discriminate Ha|].
  inversion Ha; subst. split; [reflexivity|exact Hp].
Qed.
Print Assumptions failed_construct_no_effect.

(* adding a list: the store grows exactly by the inputs before the first failing one,
   each of which was constructed successfully *)
Theorem store_add_list_effect :
  forall V R clean strictext refuse dec xs (st : store) version st' a,
  In (st', a) (store_add_list V R clean strictext refuse dec st xs version) ->
  exists k, (k <= List.length xs)%nat /\ st' = (st ++ firstn k xs)%list /\
            Forall (fun x => exists p, In (Val p) (parse V R clean strictext refuse dec x true false version)) (firstn k xs) /\
            match a with
            | Added => k = List.length xs
            | Escaped e s => exists x, nth_error xs k = Some x /\ In (Exc e s) (parse V R clean strictext refuse dec x true false version)
            end.
Proof. intros. eapply store_add_list_prefix. eassumption. Qed.
Print Assumptions store_add_list_effect.

(* hypotheses are satisfiable / the statements are not vacuous *)
Example repaired_all_guarded : all_guarded repaired.
Proof. intros s. reflexivity. Qed.
Example blackbox_exists : exists cl : blackbox, well_behaved cl.
Proof. exists (fun _ _ _ _ => CleanRaise (Derived 7 (Known K_RecursionError)) None). intros ac io s ov e sf H. inversion H. split; reflexivity. Qed.
(* ... and one that lets every cleaning succeed (audit C17-4): with it the repaired model on the live tables accepts a
   plain 2.1 identity, so the theorems are not about a model that can only fail *)
Example blackbox_ok_exists : exists cl : blackbox, well_behaved cl /\
  In (Val PObject) (parse repaired live (clean_via cl) true true (dec_table []) (identity21 []) false false None).
Proof.
  exists (fun _ _ _ _ => CleanOk). split; [intros ac io s ov e sf H; discriminate H|].
  vm_compute. left. reflexivity.
Qed.
Example junk_value_is_refused :
  parse repaired live clean_any true true (dec_table []) (JInt 5) false false None = [Exc (Known K_ValueError) S_lib].
Proof. vm_compute. reflexivity. Qed.
Example recursion_error_is_wrapped :
  check_property_wrapper (CleanRaise (Known K_RecursionError) None) = Exc (Known K_InvalidValueError) S_lib.
Proof. reflexivity. Qed.
Example keyerror_not_family : family (Known K_KeyError) = false /\ family (Known K_JSONDecodeError) = true.
Proof. split; reflexivity. Qed.

(* Props/C18BridgeC12.v -- OPTIONAL bridge group (depends on property C12's files, owned by another builder);
   see Props/C11BridgeC12.v.                                                                                   *)
From Coq Require Import NArith ZArith List Bool Permutation.
From V Require Import Base.UString Model.Store Model.StoreRun Spec.StoreSpec
  Proofs.StoreBase Proofs.StoreMem Proofs.StoreFs Proofs.StoreAgree Proofs.StoreComposite.
From V Require Model.Filters Proofs.FiltersBasics Proofs.StoreFilters.
Import ListNotations.
Open Scope list_scope.

(* the same with the real filter semantics of property C12 (StoreFilters.cf: concrete filter -> model filter, verdict
   = Filter._check_filter on the dictionary view of the object; holds_b = verdict of a whole filter list) *)
Theorem cquery_real_filters : forall (tsm : Filters.ts_mode) (view : obj -> Filters.pv) mode iot
    (afs : list (list Filters.flt * list obj)) (af q : list Filters.flt),
  afs <> [] ->
  (forall p o, In p afs -> In o (mem_objs (mem_run mode iot (snd p))) -> StoreFilters.viewed tsm view o) ->
  exists res,
    cquery (map (StoreFilters.cf tsm view) af)
           (map (fun p => mem_source (map (StoreFilters.cf tsm view) (fst p)) (mem_run mode iot (snd p))) afs) []
           (map (StoreFilters.cf tsm view) q) = Ok res /\
    NoDup (map dkey_of res) /\
    (forall o, In o res -> exists p, In p afs /\ In o (mem_objs (mem_run mode iot (snd p))) /\
        FiltersBasics.holds_b tsm q (view o) = true /\ FiltersBasics.holds_b tsm (fst p) (view o) = true /\
        FiltersBasics.holds_b tsm af (view o) = true) /\
    (forall p o, In p afs -> In o (mem_objs (mem_run mode iot (snd p))) ->
        FiltersBasics.holds_b tsm q (view o) = true -> FiltersBasics.holds_b tsm (fst p) (view o) = true ->
        FiltersBasics.holds_b tsm af (view o) = true ->
        exists o', In o' res /\ dkey_of o' = dkey_of o).
Proof. exact StoreFilters.cquery_concrete. Qed.
Print Assumptions cquery_real_filters.


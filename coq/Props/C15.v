(* Props/C15.v -- property C15 stated on the model of stix2/utils.py
   (Model/Timestamp.v, Model/Calendar.v) against the strict reader of
   Spec/TimestampSpec.v; proofs in Proofs/.

   Instants are Z microseconds since 0001-01-01T00:00:00Z; `in_range t` is
   0 <= t < 10000-01-01 (Python's datetime range, i.e. years 1..9999); every
   statement quantifies over all such instants, the three precisions and the
   two precision constraints.  `Pad4` is the year mode of the repaired code
   ("{:04d}".format(year)), `Unpadded` that of strftime('%Y') on glibc.
   `nm` is what parse_into_datetime does with a naive datetime (kept naive, or
   localised to UTC): every statement about `write` holds for both.          *)
From Coq Require Import String ZArith List.
From V Require Import Base.UString Model.Calendar Model.Timestamp Spec.TimestampSpec
  Proofs.TimestampFacts Proofs.C15Proofs Proofs.CalendarFacts Proofs.C15Audit.
Import ListNotations.
Open Scope list_scope. Open Scope Z_scope.

(* the civil calendar: every day number of Z is a valid date that counts back to it *)
Theorem civil_roundtrip : forall n,
  let '(y, m, d) := civil_of_days n in valid_date y m d = true /\ days_of_civil y m d = n.
Proof. exact civil_roundtrip_lemma. Qed.
Print Assumptions civil_roundtrip.

(* ... and it is the Gregorian calendar: the day number agrees with an independent closed form (the Julian
   Day Number of Fliegel and Van Flandern, truncating division) on every date of years 1..9999 *)
Theorem calendar_is_gregorian : forall y m d, 1 <= y <= 9999 -> 1 <= m <= 12 ->
  days_of_civil y m d = jdn y m d - jdn_epoch.
Proof. exact days_of_civil_is_jdn. Qed.
Print Assumptions calendar_is_gregorian.

(* SPEC-SIDE fact (about floor_to of Spec/TimestampSpec.v, not about the model's format; fmt_denotes ties
   the two): truncation never rounds -- the truncated instant is the largest multiple of the unit not after t *)
Theorem floor_is_truncation : forall p c t,
  floor_to p c t <= t < floor_to p c t + unit_of p c /\ (floor_to p c t) mod unit_of p c = 0.
Proof. exact floor_le_lemma. Qed.
Print Assumptions floor_is_truncation.

(* canonical form YYYY-MM-DDTHH:MM:SS[.d+]Z with a four-digit year *)
Theorem fmt_canonical : forall p c t, in_range t = true -> is_canonical (format Pad4 p c t) = true.
Proof. exact fmt_canonical_lemma. Qed.
Print Assumptions fmt_canonical.

(* ... which the unpadded strftime variant violates (year 999) *)
Theorem fmt_canonical_refuted :
  exists t, in_range t = true /\ forall p c, is_canonical (format Unpadded p c t) = false.
Proof. exact fmt_canonical_refuted_lemma. Qed.
Print Assumptions fmt_canonical_refuted.

(* the text, read strictly, denotes exactly the instant truncated to the precision *)
Theorem fmt_denotes : forall p c t, in_range t = true ->
  exists rd, spec_read (format Pad4 p c t) = Some rd /\ denotes rd (floor_to (sp p) (sc c) t).
Proof. exact fmt_denotes_lemma. Qed.
Print Assumptions fmt_denotes.

(* exactly / at least the number of fractional digits the precision requires *)
Theorem fmt_digits : forall p c t, in_range t = true ->
  exists secs ds, spec_read (format Pad4 p c t) = Some (secs, ds) /\ digit_rule (sp p) (sc c) ds /\
                  (length ds <= 6)%nat.
Proof. exact fmt_digits_lemma. Qed.
Print Assumptions fmt_digits.

(* the library's own reader (strptime) reads the written text back as the truncated instant *)
Theorem fmt_reads_back : forall p c t, in_range t = true ->
  parse_strptime (format Pad4 p c t) = Some (floor_to (sp p) (sc c) t).
Proof. exact parse_format_lemma. Qed.
Print Assumptions fmt_reads_back.

(* write, read back, write again: a fixed point *)
Theorem fmt_fixpoint : forall nm p c t, in_range t = true ->
  write nm Pad4 p c (InStr (format Pad4 p c t)) = Ok (format Pad4 p c t).
Proof. exact fmt_fixpoint_lemma. Qed.
Print Assumptions fmt_fixpoint.

(* SPEC-SIDE fact (floor_to is monotone); the statement about the model's texts is fmt_order below *)
Theorem floor_monotone : forall p c t1 t2, t1 <= t2 -> floor_to p c t1 <= floor_to p c t2.
Proof. exact floor_monotone_lemma. Qed.
Print Assumptions floor_monotone.

(* later instants are never written as earlier ones: what the written texts denote is ordered like the inputs *)
Theorem fmt_order : forall p c t1 t2 rd1 rd2 x1 x2, in_range t1 = true -> in_range t2 = true -> t1 <= t2 ->
  spec_read (format Pad4 p c t1) = Some rd1 -> spec_read (format Pad4 p c t2) = Some rd2 ->
  denotes rd1 x1 -> denotes rd2 x2 -> x1 <= x2.
Proof. exact fmt_order_lemma. Qed.
Print Assumptions fmt_order.

(* distinct truncated instants are never written as the same text *)
Theorem fmt_injective : forall p c t1 t2, in_range t1 = true -> in_range t2 = true ->
  format Pad4 p c t1 = format Pad4 p c t2 -> floor_to (sp p) (sc c) t1 = floor_to (sp p) (sc c) t2.
Proof. exact fmt_injective_lemma. Qed.
Print Assumptions fmt_injective.

(* inputs of parse_into_datetime / TimestampProperty.clean: what is written is the text of the
   input instant converted to UTC (so all of the above applies to it)        *)
Theorem write_naive : forall nm p c l, in_range l = true ->
  write nm Pad4 p c (InDatetime l None) = Ok (format Pad4 p c l).
Proof. exact write_naive_lemma. Qed.
Print Assumptions write_naive.

Theorem write_aware : forall nm p c l o, in_range (l - o) = true -> o mod unit_of (sp p) (sc c) = 0 ->
  write nm Pad4 p c (InDatetime l (Some o)) = Ok (format Pad4 p c (l - o)).
Proof. exact write_aware_lemma. Qed.
Print Assumptions write_aware.

(* every whole-second UTC offset satisfies the hypothesis of write_aware *)
Theorem whole_second_offsets : forall p c o, o mod 1000000 = 0 -> o mod unit_of p c = 0.
Proof. exact whole_second_offset. Qed.
Print Assumptions whole_second_offsets.

(* conversions that leave years 1..9999 write nothing *)
Theorem write_overflow : forall nm ym p c l o, o mod unit_of (sp p) (sc c) = 0 -> in_range (l - o) = false ->
  in_range l = true -> write nm ym p c (InDatetime l (Some o)) = Raise "OverflowError"%string.
Proof. exact write_overflow_lemma. Qed.
Print Assumptions write_overflow.

Theorem write_date : forall nm p c y m d, valid_fields y m d 0 0 0 0 = true ->
  write nm Pad4 p c (InDate y m d) = Ok (format Pad4 p c (instant_of y m d 0 0 0 0)).
Proof. exact write_date_lemma. Qed.
Print Assumptions write_date.

(* accepted timestamp strings: written as the instant the reader took them for, which is in range *)
Theorem write_string : forall nm p c s t, parse_strptime s = Some t ->
  write nm Pad4 p c (InStr s) = Ok (format Pad4 p c t) /\ in_range t = true.
Proof. exact write_string_lemma. Qed.
Print Assumptions write_string.

Theorem write_string_rejected : forall nm p c s, parse_strptime s = None ->
  write nm Pad4 p c (InStr s) = Raise "ValueError"%string.
Proof. exact write_string_rejected_lemma. Qed.
Print Assumptions write_string_rejected.

(* a value cleaned at (p, c) and written at (p', c') -- a STIXdatetime that lost or changed its precision
   attributes, or one re-used for another property: the text is that of the instant truncated at (p, c), read
   strictly it denotes that instant truncated again at (p', c'): still a floor of the input *)
Theorem write_as_aware : forall nm p c p' c' l o, in_range (l - o) = true -> o mod unit_of (sp p) (sc c) = 0 ->
  write_as nm Pad4 p c p' c' (InDatetime l (Some o)) = Ok (format Pad4 p' c' (floor_to (sp p) (sc c) (l - o))).
Proof. exact write_as_aware_lemma. Qed.
Print Assumptions write_as_aware.

Theorem write_as_denotes : forall nm p c p' c' l o, in_range (l - o) = true -> o mod unit_of (sp p) (sc c) = 0 ->
  exists txt rd, write_as nm Pad4 p c p' c' (InDatetime l (Some o)) = Ok txt /\ spec_read txt = Some rd /\
                 denotes rd (floor_to (sp p') (sc c') (floor_to (sp p) (sc c) (l - o))) /\
                 floor_to (sp p') (sc c') (floor_to (sp p) (sc c) (l - o)) <= l - o.
Proof. exact write_as_denotes_lemma. Qed.
Print Assumptions write_as_denotes.

Theorem reparse_string : forall nm p c p' c' s t, parse_strptime s = Some t ->
  write nm Pad4 p' c' (reparse nm p c (InStr s)) = Ok (format Pad4 p' c' (floor_to (sp p) (sc c) t)).
Proof. exact reparse_string_lemma. Qed.
Print Assumptions reparse_string.

(* the offset hypothesis of write_aware cannot be dropped (an offset of half a second) *)
Theorem subsecond_offset_excluded :
  exists l o, in_range (l - o) = true /\ forall nm,
    write nm Pad4 PSecond CExact (InDatetime l (Some o)) <> Ok (format Pad4 PSecond CExact (l - o)).
Proof. exact subsecond_offset_counterexample. Qed.
Print Assumptions subsecond_offset_excluded.

(* calendar anchors: known dates (day 0 = 0001-01-01, a Monday) *)
Example anchor_unix_epoch : days_of_civil 1970 1 1 = 719162 /\ 719162 mod 7 = 3.       (* a Thursday *)
Proof. split; reflexivity. Qed.
Example anchor_1900_not_leap : valid_date 1900 2 29 = false /\ valid_date 1900 2 28 = true.
Proof. split; reflexivity. Qed.
Example anchor_2000_leap : valid_date 2000 2 29 = true /\ days_of_civil 2000 3 1 = days_of_civil 2000 2 28 + 2.
Proof. split; reflexivity. Qed.
Example anchor_1600_leap : valid_date 1600 2 29 = true /\ valid_date 1700 2 29 = false.
Proof. split; reflexivity. Qed.
Example anchor_2000_03_01 : days_of_civil 2000 3 1 = 730179 /\ civil_of_days 730179 = (2000, 3, 1).
Proof. split; reflexivity. Qed.
Example anchor_end_of_range : days_of_civil 10000 1 1 = max_days /\ civil_of_days (max_days - 1) = (9999, 12, 31).
Proof. split; reflexivity. Qed.
Example anchor_gregorian_reform_day : days_of_civil 1582 10 15 = 577735 /\ 577735 mod 7 = 4.   (* a Friday *)
Proof. split; reflexivity. Qed.
Example anchor_y2038 : instant_of 2038 1 19 3 14 7 0 - instant_of 1970 1 1 0 0 0 0 = 2147483647 * 1000000.
Proof. reflexivity. Qed.

(* hypotheses are satisfiable; the model computes *)
Example ex_in_range : in_range (dt 2016 2 29 23 59 59 999999) = true.
Proof. reflexivity. Qed.
Example ex_format_milli_exact :
  format Pad4 PMilli CExact (dt 2016 2 29 23 59 59 999999) = u "2016-02-29T23:59:59.999Z".
Proof. vm_compute. reflexivity. Qed.
Example ex_format_year1 : format Pad4 PAny CExact (dt 1 1 1 0 0 0 120000) = u "0001-01-01T00:00:00.12Z".
Proof. vm_compute. reflexivity. Qed.
Example ex_parse_lenient : parse_strptime (u "2016-2-3t4:5:6.5z") = Some (dt 2016 2 3 4 5 6 500000).
Proof. vm_compute. reflexivity. Qed.
Example ex_seven_digits_rejected : parse_strptime (u "2016-02-03T04:05:06.1234567Z") = None.
Proof. vm_compute. reflexivity. Qed.

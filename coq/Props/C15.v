(* Props/C15.v -- property C15 stated on the model of stix2/utils.py
   (Model/Timestamp.v); proofs in Proofs/.                                   *)
From Coq Require Import ZArith List.
From V Require Import Base.UString Model.Calendar Model.Timestamp Spec.TimestampSpec Proofs.C15Proofs.
Open Scope Z_scope.

Theorem floor_le : forall p c t,
  floor_to p c t <= t < floor_to p c t + unit_of p c /\ (floor_to p c t) mod unit_of p c = 0.
Proof. exact floor_le_lemma. Qed.
Print Assumptions floor_le.

Theorem fmt_monotone : forall p c t1 t2, t1 <= t2 -> floor_to p c t1 <= floor_to p c t2.
Proof. exact floor_monotone_lemma. Qed.
Print Assumptions fmt_monotone.

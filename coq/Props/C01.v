(* Props/C01.v -- serialize/parse round trip is lossless for every object and option set.
   Model: Model/Schema.v (schema interpreter; encode), Model/Serialize.v (options),
   Spec/JsonValue.v (what "the same JSON value" means).

   SCOPE of the round-trip theorems below (what they do NOT cover is named here once):
   - variant hypotheses: every one needs vr_year_pad vr = true; the class lists of the generated tables
     (lib_proved_idsw, lib_parse_idsw, lib_bundle_ids, ...) are evaluated at variant_repaired, where init_ok uses
     vr_positional_none, md_ok uses vr_md20_default_ms and bundle_ok uses vr_bundle20_recheck;
   - input: plain_dict / plain_json (Proofs/C01KindsAll.v) forbid ANY member named `extensions` or `custom_properties`
     at any depth and any null / [] member value: no object carrying an extension -- registered or custom -- is
     covered (custom properties are); a 2.1 observable needs its id (id_given);
   - level: "every class has a theorem" (lib_unproved_ids = []) is constructor level (RConstruct); at stix2.parse
     level (RParse) 89 of the 123 classes are covered -- Bundle and both ObservedData classes are not;
   - the JSON text (separators, indentation, byte identity) is not modelled: serialize_value yields ordered members. *)
From Coq Require Import NArith ZArith List String Bool Permutation.
From V Require Import Base.UString Base.Json Model.SchemaTypes Model.PyBase Model.Schema Model.Serialize.
From V Require Import Spec.JsonValue Proofs.C01Basics Proofs.C01Serialize.
From V Require Import Proofs.C01Kinds Proofs.C01KindsAll Proofs.C01Object Proofs.C01Roundtrip Proofs.C01Parse Proofs.C01Bundle Proofs.C01Observed Proofs.C01Pretty Proofs.C01LibInstance Proofs.C04Witness Proofs.C01Examples Gen.Tables.
Import ListNotations.

(* All serialization options denote the same JSON value: whatever the option set, the value written
   has the members of the plain encoder with the same include_optional_defaults, at every depth,
   possibly in another order (sort_keys, pretty). *)
Theorem options_same_value : forall (o : sopts) (obj : pval),
  jequiv (encode (o_incl o) obj) (serialize_value o obj).
Proof. exact C01Serialize.options_same_value. Qed.
Print Assumptions options_same_value.

(* indent and compact separators do not reach the members at all.  DEFINITIONAL in this model: serialize_value does
   not read o_indent / o_compact (they belong to the unmodelled text layer); the proof is reflexivity. *)
Theorem indent_compact_irrelevant : forall p i s n1 c1 n2 c2 obj,
  serialize_value {| o_pretty := p; o_incl := i; o_sort_keys := s; o_indent := n1; o_compact := c1 |} obj =
  serialize_value {| o_pretty := p; o_incl := i; o_sort_keys := s; o_indent := n2; o_compact := c2 |} obj.
Proof. exact C01Serialize.indent_compact_irrelevant. Qed.
Print Assumptions indent_compact_irrelevant.

(* include_optional_defaults: the two encoders differ exactly by the members that an object's
   defaulted-optional list names, at every depth of the stored value.  Close to DEFINITIONAL: it re-reads the
   `incl || not defaulted` test of Schema.encode through the relation `omitted`; a model fact, not a statement
   about the written text. *)
Theorem encoders_differ_by_defaulted : forall v, omitted v (encode false v) (encode true v).
Proof. exact C01Serialize.encoders_differ_by_defaulted. Qed.
Print Assumptions encoders_differ_by_defaulted.

(* pretty=True lists the top-level members in the order of the object's own property list *)
Theorem pretty_toplevel_order : forall c inner dfl hc incl,
  NoDup (map fst inner) ->
  forallb (fun kv => negb (key_isdigit (fst kv))) inner = true ->
  forallb (fun kv => pyeq (snd kv) (snd kv)) inner = true ->
  forall fuel ms,
  pretty_enc (S fuel) (PObject c inner dfl hc) incl (PObject c inner dfl hc) = JObj ms ->
  map fst ms = map fst (kept incl dfl inner).
Proof. exact C01Serialize.pretty_toplevel_order. Qed.
Print Assumptions pretty_toplevel_order.

(* ------------------------------------------------------------------ the round trip *)

(* The FULL statements the property asks for (targets; what is proved so far follows, each with the
   explicit boolean predicates that name the covered kinds / classes / inputs):
     roundtrip_equal        every object a run returns is returned again by parse of its own encoding
     reserialize_identical  and encoding that object gives the same ordered members              *)
Definition roundtrip_equal_full_statement : Prop :=
  forall vr ev w pattern_ok selectors_ok fuel r c i d hc,
    vr_year_pad vr = true ->
    run vr ev w pattern_ok selectors_ok fuel r = Ok (PObject c i d hc) ->
    exists fuel', run vr ev w pattern_ok selectors_ok fuel'
                    (RParse (match r with RConstruct _ a _ _ _ => a | RParse a _ _ _ => a | RParseObs _ _ a _ _ => a end || hc)
                            false None (omem (PObject c i d hc))) = Ok (PObject c i d hc).
Definition reserialize_identical_full_statement : Prop :=
  forall vr ev w pattern_ok selectors_ok fuel fuel' a o o' (opts : sopts),
    vr_year_pad vr = true ->
    run vr ev w pattern_ok selectors_ok fuel' (RParse a false None (omem o)) = Ok o' ->
    (exists r, run vr ev w pattern_ok selectors_ok fuel r = Ok o) ->
    serialize_value opts o' = serialize_value opts o.

(* clean_encode_idem: every proved property kind re-cleans the encoding of what it cleaned to the same
   value with the same custom flag.  kind_proved names the kinds: all but ObservableProperty,
   STIXObjectProperty, ExtensionsProperty; hash dictionaries whose specification names are legal
   dictionary keys; embedded objects / lists of objects of a class in P whose constructor is idempotent
   (rc_idem).  plain_json: no member named custom_properties / extensions, no null / [] members. *)
Theorem clean_encode_idem :
  forall vr w rc rp ro, vr_year_pad vr = true ->
  forall P, rc_idem rc ro P ->
  forall k, kind_proved vr P k = true ->
  forall allow interop v p hc, plain_json v = true ->
    clean_kind vr w rc rp ro k allow interop v = Ok (p, hc) ->
    clean_kind vr w rc rp ro k allow interop (encode false p) = Ok (p, hc).
Proof. exact C01KindsAll.clean_kind_idem. Qed.
Print Assumptions clean_encode_idem.

(* roundtrip_equal, constructor level, partial: for every class set `ids` closed under nesting whose
   tables pass class_okw (closed_okw: distinct slot names, proved slot kinds, defaults of the expected
   shape, no reserved slot names, and a class __init__ that leaves the keyword arguments alone or is the
   MarkingDefinition one (`definition` wrapped into the registered marking class, in 2.0 with the
   precision of `created` switched per instance: md_ok) or the 2.1 Indicator one (pattern_version defaults
   to "2.1" for a stix pattern: ind_ok), every
   fuel and every plain input -- a 2.1 observable with its id given, as in serialized text --
   constructing from the object's own encoding returns the same object: same class, same members in
   the same order, same defaulted list, same custom flag. *)
Theorem roundtrip_equal_partial :
  forall vr ev w pattern_ok selectors_ok, vr_year_pad vr = true ->
  forall ids, closed_okw vr w ids = true ->
  forall fuel kid allow interop kw vrefs o,
    mem_ustr kid ids = true -> plain_dict kw = true -> id_given w kid kw = true ->
    run vr ev w pattern_ok selectors_ok fuel (RConstruct kid allow interop kw vrefs) = Ok o ->
    run vr ev w pattern_ok selectors_ok fuel (RConstruct kid allow interop (omem o) vrefs) = Ok o.
Proof. exact C01Roundtrip.construct_roundtrip. Qed.
Print Assumptions roundtrip_equal_partial.

(* reserialize_identical, constructor level, partial: ... and that object is written with the same
   ordered members under every option set (hence byte-identical text under the abstract injective render) *)
Theorem reserialize_identical_partial :
  forall vr ev w pattern_ok selectors_ok, vr_year_pad vr = true ->
  forall ids, closed_okw vr w ids = true ->
  forall fuel kid allow interop kw vrefs o o' (opts : sopts),
    mem_ustr kid ids = true -> plain_dict kw = true -> id_given w kid kw = true ->
    run vr ev w pattern_ok selectors_ok fuel (RConstruct kid allow interop kw vrefs) = Ok o ->
    run vr ev w pattern_ok selectors_ok fuel (RConstruct kid allow interop (omem o) vrefs) = Ok o' ->
    serialize_value opts o' = serialize_value opts o.
Proof. exact C01Roundtrip.reserialize_identical_construct. Qed.
Print Assumptions reserialize_identical_partial.

(* pretty_toplevel_spec_order, partial (the covered classes; plain input): pretty=True writes the top-level
   members of a constructed object -- those that are kept: all of them, or those not defaulted -- in the
   object's own order (pretty_toplevel_order above), and that order is the class's property list in class
   (specification) order followed by the custom property names, which are a fixpoint of usort (sorted by code
   points, no duplicates: `usort customs = customs`).  Side conditions of the serialization
   layer: no all-digit top-level key, values equal to themselves under Python == (no NaN). *)
Theorem pretty_toplevel_spec_order_partial :
  forall vr ev w pattern_ok selectors_ok, vr_year_pad vr = true ->
  forall ids, closed_okw vr w ids = true ->
  forall f kid allow interop kw vrefs ci inner dfl hc c incl g ms,
    mem_ustr kid ids = true -> plain_dict kw = true -> id_given w kid kw = true ->
    run vr ev w pattern_ok selectors_ok (S f) (RConstruct kid allow interop kw vrefs) = Ok (PObject ci inner dfl hc) ->
    find_class (wclasses w) kid = Some c ->
    forallb (fun kv => negb (key_isdigit (fst kv))) inner = true ->
    forallb (fun kv => pyeq (snd kv) (snd kv)) inner = true ->
    pretty_enc (S g) (PObject ci inner dfl hc) incl (PObject ci inner dfl hc) = JObj ms ->
    map fst ms = map fst (kept incl dfl inner) /\
    exists customs,
      map fst inner = filter (fun n => amem n inner) (PN c ++ customs) /\
      NoDup (PN c ++ customs) /\ (forall x, In x customs -> mem_ustr x (PN c) = false) /\ usort customs = customs.
Proof. exact C01Pretty.pretty_spec_order. Qed.
Print Assumptions pretty_toplevel_spec_order_partial.

(* roundtrip_equal at the level of stix2.parse(text) with no version named (detect_own_output included):
   the object's own encoding is detected as the same spec version, looked up as the same class and
   constructed as the same object.  Table conditions: closed_okw on `ids`; registry_ok (every registered
   type name leads to a class of that version and type); parse_class_ok on the entry points `pids`
   (type / spec_version / id slots of the expected shape).  Input: plain JSON whose id is given when
   its type is a 2.1 observable type. *)
Theorem roundtrip_equal_parse_partial :
  forall vr ev w pattern_ok selectors_ok, vr_year_pad vr = true ->
  forall ids, closed_okw vr w ids = true -> registry_ok w = true ->
  forall pids, forallb (fun k => mem_ustr k ids) pids = true ->
    forallb (fun k => match find_class (wclasses w) k with Some c => parse_class_ok w c | None => false end) pids = true ->
  forall fuel allow interop d ci S dfl hc,
    plain_dict d = true ->
    mem_ustr ci pids = true ->
    (amem id_key d = true \/ forall t, alookup type_key d = Some (JStr t) -> amem t (robservables (wreg21 w)) = false) ->
    run vr ev w pattern_ok selectors_ok fuel (RParse allow interop None d) = Ok (PObject ci S dfl hc) ->
    run vr ev w pattern_ok selectors_ok fuel (RParse allow interop None (omem (PObject ci S dfl hc))) = Ok (PObject ci S dfl hc).
Proof. exact C01Parse.parse_roundtrip. Qed.
Print Assumptions roundtrip_equal_parse_partial.

(* roundtrip_equal for Bundle, constructor level, partial: the members of a Bundle are not constructed by a class
   named in the tables but parsed, each from its own dictionary (STIXObjectProperty.clean -> stix2.parse).  For a
   Bundle class that passes bundle_ok (table conditions; for 2.0 the repaired member re-check vr_bundle20_recheck),
   plain input, and members that (bundle_members_ok) are dictionaries without reserved argument names, given with
   their id when their type is a 2.1 observable type, and stored as objects of parse-covered classes `pids`:
   constructing from the bundle's own encoding returns the same bundle -- same members in the same order, each the
   same object.  Members' round trip is roundtrip_equal_parse_partial, one fuel level down. *)
Theorem roundtrip_equal_bundle_partial :
  forall vr ev w pattern_ok selectors_ok, vr_year_pad vr = true ->
  forall ids, closed_okw vr w ids = true -> registry_ok w = true ->
  forall pids, forallb (fun k => mem_ustr k ids) pids = true ->
    forallb (fun k => match find_class (wclasses w) k with Some c => parse_class_ok w c | None => false end) pids = true ->
  forall fuel kid allow interop kw vrefs o c,
    find_class (wclasses w) kid = Some c -> bundle_ok vr w ids c = true ->
    plain_dict kw = true ->
    run vr ev w pattern_ok selectors_ok fuel (RConstruct kid allow interop kw vrefs) = Ok o ->
    bundle_members_ok w pids kw o = true ->
    run vr ev w pattern_ok selectors_ok fuel (RConstruct kid allow interop (omem o) vrefs) = Ok o.
Proof. exact C01Bundle.bundle_roundtripw. Qed.
Print Assumptions roundtrip_equal_bundle_partial.

(* roundtrip_equal for ObservedData in its STIX 2.1 form (object_refs; no `objects` member), constructor level,
   partial: the deprecated `objects` property (ObservableProperty) is not cleaned when it is not given, and
   is not written back; with that slot set aside (observed_ok: table conditions on the other slots) the run
   is covered like any other class.  ObservedData WITH an `objects` dictionary of observables -- the 2.0 form
   and the deprecated 2.1 form -- is OUTSIDE the round-trip theorems. *)
Theorem roundtrip_equal_observed_partial :
  forall vr ev w pattern_ok selectors_ok, vr_year_pad vr = true ->
  forall ids, closed_okw vr w ids = true ->
  forall fuel kid allow interop kw vrefs o c,
    find_class (wclasses w) kid = Some c -> observed_ok vr w ids c = true ->
    plain_dict kw = true -> alookup OBJ kw = None ->
    run vr ev w pattern_ok selectors_ok fuel (RConstruct kid allow interop kw vrefs) = Ok o ->
    run vr ev w pattern_ok selectors_ok fuel (RConstruct kid allow interop (omem o) vrefs) = Ok o.
Proof. exact C01Observed.observed_roundtrip. Qed.
Print Assumptions roundtrip_equal_observed_partial.

(* roundtrip_equal for ObservedData in its STIX 2.0 form (an `objects` dictionary of observables), constructor
   level, partial: every member is parsed by parse_observable with the member types of the whole container as valid
   references (ObservableProperty.clean); re-cleaning the written dictionary parses every member to the same
   object (Proofs/C01KindsAll.v observable_idem, through ro_idem_at: the observable parser is idempotent on its own
   output and keeps `type`; Proofs/C01Observed.v ro20_idem derives that from the constructor-level theorem one
   fuel level down, for registered types AND for unregistered types kept as dictionaries under allow_custom).
   Table conditions observed20_ok: every registered 2.0 observable type leads to a covered class whose `type` is a
   fixed property.  OUTSIDE: 2.1/ObservedData given the deprecated `objects` (its members are 2.1 observables whose
   id may be generated after construction). *)
Theorem roundtrip_equal_observed20_partial :
  forall vr ev w pattern_ok selectors_ok, vr_year_pad vr = true ->
  forall ids, closed_okw vr w ids = true ->
  forall fuel kid allow interop kw vrefs o c,
    find_class (wclasses w) kid = Some c -> observed20_ok vr w ids c = true ->
    plain_dict kw = true ->
    run vr ev w pattern_ok selectors_ok fuel (RConstruct kid allow interop kw vrefs) = Ok o ->
    run vr ev w pattern_ok selectors_ok fuel (RConstruct kid allow interop (omem o) vrefs) = Ok o.
Proof. exact C01Observed.observed20_roundtrip. Qed.
Print Assumptions roundtrip_equal_observed20_partial.

(* the generated tables of /repo: which classes the constructor-level theorems above cover (recomputed by
   the kernel on every run; 119 of 123 at the current tables, plus the two Bundle classes (lib_bundle_ids) by
   roundtrip_equal_bundle_partial = 121, plus 2.1/ObservedData without `objects` (lib_observed_ids) by
   roundtrip_equal_observed_partial, plus 2.0/ObservedData (lib_observed20_ids) by
   roundtrip_equal_observed20_partial: every one of the 123 classes has a theorem (lib_unproved_ids = []) --
   OUTSIDE: 2.1/ObservedData given the deprecated `objects`; lib_proved_ids (116: without the two
   MarkingDefinition classes and 2.1 Indicator)
   is the set of the parse-level theorem and of the C04 theorems *)
Theorem lib_classes_covered :
  closed_okw variant_repaired lib lib_proved_idsw = true /\ closed_ok variant_repaired lib lib_proved_ids = true /\
  forallb (fun k => mem_ustr k lib_proved_idsw) lib_proved_ids = true /\
  forallb (fun k => match find_class (wclasses lib) k with
                    | Some c => bundle_ok variant_repaired lib lib_proved_idsw c
                    | None => false
                    end) lib_bundle_ids = true /\
  forallb (fun k => match find_class (wclasses lib) k with
                    | Some c => observed_ok variant_repaired lib lib_proved_idsw c
                    | None => false
                    end) lib_observed_ids = true /\
  forallb (fun k => match find_class (wclasses lib) k with
                    | Some c => observed20_ok variant_repaired lib lib_proved_idsw c
                    | None => false
                    end) lib_observed20_ids = true /\
  lib_unproved_ids = [].
Proof.
  exact (conj C01LibInstance.lib_proved_closedw (conj C01LibInstance.lib_proved_closed
          (conj C01LibInstance.lib_proved_sub (conj C01LibInstance.lib_bundle_okbw (conj C01LibInstance.lib_observed_okb
            (conj C01LibInstance.lib_observed20_okb eq_refl)))))).
Qed.
Print Assumptions lib_classes_covered.

Example lib_coverage_count :
  fst lib_coverage = (List.length lib_proved_idsw + List.length lib_bundle_ids)%nat /\ snd lib_coverage = List.length (wclasses lib).
Proof. split; vm_compute; reflexivity. Qed.

(* ... and which of them are parse entry points covered by roundtrip_equal_parse_partial: lib_parse_idsw (89 at the
   current tables, incl. both MarkingDefinition classes and 2.1 Indicator); lib_parse_ids (86, closed_ok) is kept for reference; the parse-level C04 theorems use lib_parse_idsi (87): the
   parse-level C04 theorems.  OUTSIDE at parse level: Bundle (constructor level only), ObservedData. *)
Theorem lib_parse_classes_covered :
  registry_ok lib = true /\
  forallb (fun k => mem_ustr k lib_proved_idsw) lib_parse_idsw = true /\
  forallb (fun k => match find_class (wclasses lib) k with Some c => parse_class_ok lib c | None => false end) lib_parse_idsw = true /\
  forallb (fun k => mem_ustr k lib_proved_ids) lib_parse_ids = true /\
  forallb (fun k => match find_class (wclasses lib) k with Some c => parse_class_ok lib c | None => false end) lib_parse_ids = true.
Proof.
  exact (conj C01LibInstance.lib_registry_ok (conj C01LibInstance.lib_parse_subw (conj C01LibInstance.lib_parse_okw
          (conj C01LibInstance.lib_parse_sub C01LibInstance.lib_parse_ok)))).
Qed.
Print Assumptions lib_parse_classes_covered.

(* ------------------------------------------------------------------ positive instances (Proofs/C01Examples.v) *)
(* The hypotheses of the theorems above are jointly satisfiable with ordinary objects on the generated tables, under
   variant_repaired: a 2.1 identity with object_marking_refs parses strictly, is plain, its class is a covered parse entry
   point, and roundtrip_equal_parse_partial applies to it; a 2.1 bundle with that identity as member (bundle_ok,
   bundle_members_ok) and a 2.0 observed-data container with a file and a directory that refer to each other (observed20_ok)
   are re-constructed from their own encoding as the same object. *)
Example identity_parse_facts :
  result_class (run variant_repaired env0 lib any_pattern any_selectors 6 (RParse false false None identity21)) = Some (u "2.1/Identity") /\
  plain_dict identity21 = true /\ mem_ustr (u "2.1/Identity") lib_parse_idsw = true /\ mem_ustr (u "2.1/Identity") lib_parse_idsi = true.
Proof. exact C01Examples.identity_parse_facts. Qed.

Example identity_parse_roundtrip :
  exists o, run variant_repaired env0 lib any_pattern any_selectors 6 (RParse false false None identity21) = Ok o /\
            run variant_repaired env0 lib any_pattern any_selectors 6 (RParse false false None (omem o)) = Ok o.
Proof. exact C01Examples.identity_parse_roundtrip. Qed.

Example bundle_construct_roundtrip :
  exists o, run variant_repaired env0 lib any_pattern any_selectors 7 (RConstruct (u "2.1/Bundle") false false bundle21 None) = Ok o /\
            run variant_repaired env0 lib any_pattern any_selectors 7 (RConstruct (u "2.1/Bundle") false false (omem o) None) = Ok o.
Proof. exact C01Examples.bundle_construct_roundtrip. Qed.

Example observed20_construct_roundtrip :
  exists o, run variant_repaired env0 lib any_pattern any_selectors 7 (RConstruct (u "2.0/ObservedData") false false observed20 None) = Ok o /\
            run variant_repaired env0 lib any_pattern any_selectors 7 (RConstruct (u "2.0/ObservedData") false false (omem o) None) = Ok o.
Proof. exact C01Examples.observed20_construct_roundtrip. Qed.

(* Props/C01.v -- serialize/parse round trip is lossless for every object and option set.
   Model: Model/Schema.v (schema interpreter; encode), Model/Serialize.v (options),
   Spec/JsonValue.v (what "the same JSON value" means).                       *)
From Coq Require Import NArith ZArith List String Bool Permutation.
From V Require Import Base.UString Base.Json Model.SchemaTypes Model.PyBase Model.Schema Model.Serialize.
From V Require Import Spec.JsonValue Proofs.C01Basics Proofs.C01Serialize.
Import ListNotations.

(* All serialization options denote the same JSON value: whatever the option set, the value written
   has the members of the plain encoder with the same include_optional_defaults, at every depth,
   possibly in another order (sort_keys, pretty). *)
Theorem options_same_value : forall (o : sopts) (obj : pval),
  jequiv (encode (o_incl o) obj) (serialize_value o obj).
Proof. exact C01Serialize.options_same_value. Qed.
Print Assumptions options_same_value.

(* indent and compact separators do not reach the members at all *)
Theorem indent_compact_irrelevant : forall p i s n1 c1 n2 c2 obj,
  serialize_value {| o_pretty := p; o_incl := i; o_sort_keys := s; o_indent := n1; o_compact := c1 |} obj =
  serialize_value {| o_pretty := p; o_incl := i; o_sort_keys := s; o_indent := n2; o_compact := c2 |} obj.
Proof. exact C01Serialize.indent_compact_irrelevant. Qed.
Print Assumptions indent_compact_irrelevant.

(* include_optional_defaults: the two encoders differ exactly by the members that an object's
   defaulted-optional list names, at every depth of the stored value *)
Theorem encoders_differ_by_defaulted : forall v, omitted v (encode false v) (encode true v).
Proof. exact C01Serialize.encoders_differ_by_defaulted. Qed.
Print Assumptions encoders_differ_by_defaulted.

(* pretty=True lists the top-level members in the order of the object's own property list *)
Theorem pretty_toplevel_order : forall c inner dfl hc incl,
  NoDup (map fst inner) ->
  forallb (fun kv => negb (key_isdigit (fst kv))) inner = true ->
  forallb (fun kv => pyeq (snd kv) (snd kv)) inner = true ->
  forall fuel ms,
  pretty_enc (S fuel) (PObject c inner dfl hc) incl (PObject c inner dfl hc) = JObj ms ->
  map fst ms = map fst (kept incl dfl inner).
Proof. exact C01Serialize.pretty_toplevel_order. Qed.
Print Assumptions pretty_toplevel_order.

(* Props/C19.v -- property C19: custom type registration is exact, exclusive
   and version-scoped; the naming rules are enforced.  Only statements here;
   proofs are in Proofs/RegistryFacts.v, Proofs/NamingFacts.v (generic, for
   every variant `vt` of the model and every registry / history) and
   Proofs/C19Proofs.v (kernel evaluation on what tr_regex read from the
   current source, Gen/Regexes.v).

   decorate vt r q = (r', o): one use of a Custom* decorator (request q) on the
   registry r;  lookup r V c n: STIX2_OBJ_MAPS[V][c].get(n);  state_after vt r
   ops: the registry after a history of registrations, lookups and parses.
   side_entry q: the extension that `extension_name=` of the v21 CustomObject /
   CustomObservable registers on the side (None otherwise).                  *)
From Coq Require Import NArith List String Bool Arith.
From V Require Import Base.UString Model.Registry Model.RegistryInit Gen.Regexes Spec.NamingSpec
                      Proofs.RegistryFacts Proofs.NamingFacts Proofs.C19Proofs.
From V Require Model.SchemaTypes Model.RegistryBuilder Proofs.C19Inherit Proofs.C19Bridge.
Import ListNotations.

(* ---------------- tie to the current source ---------------- *)

Theorem source_regexes_known : exists v, source_variant = Some v.
Proof. exact source_regexes_known_lemma. Qed.
Print Assumptions source_regexes_known.

Theorem source_validate_type_shape :
  vt_regex_20 = "TYPE_REGEX"%string /\ vt_regex_else = "TYPE_21_REGEX"%string
  /\ vt_len_min = type_len_min /\ vt_len_max = type_len_max.
Proof. exact source_validate_type_shape_lemma. Qed.
Print Assumptions source_validate_type_shape.

Theorem source_default_version : version_of (u DEFAULT_VERSION_text) = Some V21.
Proof. exact source_default_version_lemma. Qed.
Print Assumptions source_default_version.

Theorem builtin_rows_wellformed : registry_of_rows builtin_rows = Some builtin_registry.
Proof. exact builtin_rows_wellformed_lemma. Qed.
Print Assumptions builtin_rows_wellformed.

Theorem builtin_registry_is_partial_function : NoDup (map key_of builtin_registry).
Proof. exact builtin_NoDup. Qed.
Print Assumptions builtin_registry_is_partial_function.

Theorem builtin_names_obey_rule : forall e, In e builtin_registry ->
  match e_cat e with
  | Extensions => spec_ext_name (e_ver e) (e_name e)
  | _ => spec_type_name (sv (e_ver e)) (e_name e)
  end.
Proof. exact builtin_names_obey_rule_lemma. Qed.
Print Assumptions builtin_names_obey_rule.

(* ---------------- one registration ---------------- *)

(* exact: after success exactly (version, category, name) maps to the new class (and the
   extension named by extension_name= to its class); every other lookup is unchanged *)
Theorem reg_exact : forall vt r q r',
  decorate vt r q = (r', Done) ->
  lookup r' (r_ver q) (r_kind q) (r_name q) = Some (r_cls q)
  /\ (forall e, side_entry q = Some e -> lookup r' (e_ver e) (e_cat e) (e_name e) = Some (e_cls e))
  /\ (forall V c n, (V, c, n) <> (r_ver q, r_kind q, r_name q) ->
                    (forall e, side_entry q = Some e -> key_of e <> (V, c, n)) ->
                    lookup r' V c n = lookup r V c n).
Proof. exact reg_exact_lemma. Qed.
Print Assumptions reg_exact.

(* a refused registration changes nothing (without extension_name=: the registry is the
   same list; with it, only the side extension may have been added) *)
Theorem reg_failed_frame : forall vt r q r' e,
  decorate vt r q = (r', Failed e) ->
  (side_entry q = None -> r' = r)
  /\ (forall V c n, (forall s, side_entry q = Some s -> key_of s <> (V, c, n)) -> lookup r' V c n = lookup r V c n).
Proof. exact reg_failed_frame_lemma. Qed.
Print Assumptions reg_failed_frame.

(* exclusive: a name that is taken is refused and the earlier registration stays *)
Theorem reg_exclusive : forall vt r q c0,
  lookup r (r_ver q) (r_kind q) (r_name q) = Some c0 ->
  exists e, snd (decorate vt r q) = Failed e
            /\ lookup (fst (decorate vt r q)) (r_ver q) (r_kind q) (r_name q) = Some c0
            /\ (side_entry q = None -> fst (decorate vt r q) = r /\ (e = EDuplicate \/ e = EValue)).
Proof. exact reg_exclusive_lemma. Qed.
Print Assumptions reg_exclusive.

(* version-scoped: whatever a registration for one version does, every lookup of the other
   version is untouched *)
Theorem reg_version_scoped : forall vt r q V c n,
  V <> r_ver q -> lookup (fst (decorate vt r q)) V c n = lookup r V c n.
Proof. exact reg_version_scoped_lemma. Qed.
Print Assumptions reg_version_scoped.

(* ---------------- every history ---------------- *)

(* the registry is a growing partial function *)
Theorem registry_grows : forall vt ops r V c n x,
  lookup r V c n = Some x -> lookup (state_after vt r ops) V c n = Some x.
Proof. exact history_grows. Qed.
Print Assumptions registry_grows.

Theorem registry_stays_partial_function : forall vt ops r,
  NoDup (map key_of r) -> NoDup (map key_of (state_after vt r ops)).
Proof. exact history_NoDup. Qed.
Print Assumptions registry_stays_partial_function.

Theorem registry_only_registered : forall vt ops r V c n x,
  lookup (state_after vt r ops) V c n = Some x ->
  lookup r V c n = Some x
  \/ exists q, In (Register q) ops
               /\ ((V, c, n, x) = (r_ver q, r_kind q, r_name q, r_cls q)
                   \/ exists e, side_entry q = Some e /\ (V, c, n, x) = (e_ver e, e_cat e, e_name e, e_cls e)).
Proof. exact history_only_registered. Qed.
Print Assumptions registry_only_registered.

Theorem registry_frame : forall vt ops r V c n,
  (forall q, In (Register q) ops ->
     (r_ver q, r_kind q, r_name q) <> (V, c, n) /\ (forall e, side_entry q = Some e -> key_of e <> (V, c, n))) ->
  lookup (state_after vt r ops) V c n = lookup r V c n.
Proof. exact history_frame. Qed.
Print Assumptions registry_frame.

Theorem registry_version_scoped : forall vt ops r V c n,
  (forall q, In (Register q) ops -> r_ver q <> V) ->
  lookup (state_after vt r ops) V c n = lookup r V c n.
Proof. exact history_version_scoped. Qed.
Print Assumptions registry_version_scoped.

Theorem registration_sticks : forall vt r ops1 q ops2,
  snd (decorate vt (state_after vt r ops1) q) = Done ->
  lookup (state_after vt r (ops1 ++ Register q :: ops2)) (r_ver q) (r_kind q) (r_name q) = Some (r_cls q).
Proof. exact history_registration_sticks. Qed.
Print Assumptions registration_sticks.

Theorem registration_exclusive_for_ever : forall vt r ops1 q ops2 q',
  snd (decorate vt (state_after vt r ops1) q) = Done ->
  (r_ver q', r_kind q', r_name q') = (r_ver q, r_kind q, r_name q) ->
  exists e, snd (decorate vt (state_after vt r (ops1 ++ Register q :: ops2)) q') = Failed e.
Proof. exact history_exclusive. Qed.
Print Assumptions registration_exclusive_for_ever.

(* from the built-in registries of the current source *)
Theorem builtin_history_partial_function : forall vt ops,
  NoDup (map key_of (state_after vt builtin_registry ops)).
Proof. exact builtin_history_functional_lemma. Qed.
Print Assumptions builtin_history_partial_function.

Theorem builtin_never_displaced : forall vt ops e, In e builtin_registry ->
  lookup (state_after vt builtin_registry ops) (e_ver e) (e_cat e) (e_name e) = Some (e_cls e).
Proof. exact builtin_never_displaced_lemma. Qed.
Print Assumptions builtin_never_displaced.

Theorem builtin_name_taken : forall vt ops q e, In e builtin_registry ->
  (r_ver q, r_kind q, r_name q) = (e_ver e, e_cat e, e_name e) ->
  exists x, snd (decorate vt (state_after vt builtin_registry ops) q) = Failed x.
Proof. exact builtin_name_taken_lemma. Qed.
Print Assumptions builtin_name_taken.

(* ---------------- parse dispatch ---------------- *)

Theorem parse_registered_object : forall vt r q r' ops specv has_id ac exts,
  decorate vt r q = (r', Done) -> r_kind q = Objects ->
  parse_dispatch (state_after vt r' ops) (r_name q) specv has_id (Some (version_text (r_ver q))) ac exts
  = DClass (r_cls q).
Proof. exact parse_dispatch_registered_object. Qed.
Print Assumptions parse_registered_object.

Theorem parse_registered_observable : forall vt r q r' ops specv has_id ac,
  decorate vt r q = (r', Done) -> r_kind q = Observables ->
  parse_observable_dispatch (state_after vt r' ops) (r_name q) specv has_id (Some (version_text (r_ver q))) ac
  = DClass (r_cls q).
Proof. exact parse_dispatch_registered_observable. Qed.
Print Assumptions parse_registered_observable.

Theorem parse_unregistered : forall r n specv has_id V exts,
  lookup r V Objects n = None -> lookup r V Observables n = None ->
  parse_dispatch r n specv has_id (Some (version_text V)) false exts
  = if loophole exts then DDict else DExc EParse.
Proof. exact parse_dispatch_unregistered. Qed.
Print Assumptions parse_unregistered.

(* the default path: no version is forced and utils.detect_spec_version decides (a bundle's own
   version detection recurses into its members and is left to C14: DUnmodelled) *)
Theorem parse_registered_object_default_21 : forall vt r q r' ops has_id ac exts,
  decorate vt r q = (r', Done) -> r_kind q = Objects -> r_ver q = V21 -> r_name q <> s_bundle ->
  parse_dispatch (state_after vt r' ops) (r_name q) (Some s_v21) has_id None ac exts = DClass (r_cls q).
Proof. exact parse_default_object_21. Qed.
Print Assumptions parse_registered_object_default_21.

Theorem parse_registered_object_default_20 : forall vt r q r' ops has_id ac exts,
  decorate vt r q = (r', Done) -> r_kind q = Objects -> r_ver q = V20 -> r_name q <> s_bundle ->
  (has_id = false \/ lookup (state_after vt r' ops) V21 Observables (r_name q) = None) ->
  parse_dispatch (state_after vt r' ops) (r_name q) None has_id None ac exts = DClass (r_cls q).
Proof. exact parse_default_object_20. Qed.
Print Assumptions parse_registered_object_default_20.

Theorem parse_registered_observable_default_21 : forall vt r q r' ops specv ac,
  decorate vt r q = (r', Done) -> r_kind q = Observables -> r_ver q = V21 -> r_name q <> s_bundle ->
  (specv = None \/ specv = Some s_v21) ->
  parse_observable_dispatch (state_after vt r' ops) (r_name q) specv true None ac = DClass (r_cls q).
Proof. exact parse_default_observable_21. Qed.
Print Assumptions parse_registered_observable_default_21.

Theorem parse_registered_observable_default_20 : forall vt r q r' ops ac,
  decorate vt r q = (r', Done) -> r_kind q = Observables -> r_ver q = V20 ->
  parse_observable_dispatch (state_after vt r' ops) (r_name q) None false None ac = DClass (r_cls q).
Proof. exact parse_default_observable_20. Qed.
Print Assumptions parse_registered_observable_default_20.

(* markings (MarkingDefinition.__init__) and extensions (ExtensionsProperty.clean) *)
Theorem marking_dispatch_registered : forall vt r q r' ops,
  decorate vt r q = (r', Done) -> r_kind q = Markings ->
  marking_dispatch (state_after vt r' ops) (r_ver q) (r_name q) = DClass (r_cls q).
Proof. exact marking_dispatch_registered_lemma. Qed.
Print Assumptions marking_dispatch_registered.

Theorem extension_dispatch_registered : forall vt r q r' ops ac ok,
  decorate vt r q = (r', Done) -> r_kind q = Extensions ->
  extension_dispatch (state_after vt r' ops) (r_ver q) (r_name q) ac ok = DClass (r_cls q).
Proof. exact extension_dispatch_registered_lemma. Qed.
Print Assumptions extension_dispatch_registered.

Theorem marking_dispatch_unregistered : forall r V n, lookup r V Markings n = None -> marking_dispatch r V n = DExc EValue.
Proof. exact marking_dispatch_unregistered_lemma. Qed.
Print Assumptions marking_dispatch_unregistered.

Theorem extension_dispatch_unregistered : forall r V n ac ok, lookup r V Extensions n = None ->
  forall c, extension_dispatch r V n ac ok <> DClass c.
Proof. exact extension_dispatch_unregistered_lemma. Qed.
Print Assumptions extension_dispatch_unregistered.

(* ---------------- the naming rules ---------------- *)

(* repaired recognisers (`\Z` anchor; single hyphens in 2.1): exactly the rule *)
Theorem type_name_rule : forall vt V s,
  strict_type_rule vt V -> (validate_type vt V s = true <-> spec_type_name (sv V) s).
Proof. exact type_name_rule_lemma. Qed.
Print Assumptions type_name_rule.

Theorem type_name_rule_repaired : forall V s, validate_type repaired V s = true <-> spec_type_name (sv V) s.
Proof. exact (fun V s => type_name_rule_lemma repaired V s (repaired_strict V)). Qed.
Print Assumptions type_name_rule_repaired.

(* every variant: what exactly is accepted *)
Theorem type_name_accepted : forall vt V s,
  validate_type vt V s = true <->
  (3 <= List.length s <= 250)%nat /\
  (lang vt V s = true \/ (end_of vt V = Dollar /\ exists w, s = (w ++ [10%N])%list /\ lang vt V w = true)).
Proof. exact type_name_accepted_lemma. Qed.
Print Assumptions type_name_accepted.

Theorem type_name_language : forall vt V s, (2 <= List.length s)%nat ->
  (lang vt V s = true <-> Forall type_char s /\ hyphens_of vt V s /\ leading_of V s).
Proof. exact lang_spec. Qed.
Print Assumptions type_name_language.

(* the code as found: `$` anchors admit a final newline, the 2.1 regex admits "--" *)
Theorem type_name_rule_dollar_refuted : forall vt V,
  end_of vt V = Dollar -> exists s, validate_type vt V s = true /\ ~ spec_type_name (sv V) s.
Proof. exact type_name_rule_dollar_refuted_lemma. Qed.
Print Assumptions type_name_rule_dollar_refuted.

Theorem type_name_rule_double_hyphen_refuted : forall vt,
  hyph21 vt = AnyHyphens -> exists s, validate_type vt V21 s = true /\ ~ spec_type_name (sv V21) s.
Proof. exact type_name_rule_double_hyphen_refuted_lemma. Qed.
Print Assumptions type_name_rule_double_hyphen_refuted.

(* ... and nothing else: in every variant a name that breaks the rule otherwise is refused *)
Theorem type_name_refused : forall vt V s,
  ~ spec_type_name (sv V) s -> (forall w, s <> (w ++ [10%N])%list) ->
  (V = V21 -> hyph21 vt = AnyHyphens -> no_double_hyphen s) ->
  validate_type vt V s = false.
Proof. exact type_name_refused_lemma. Qed.
Print Assumptions type_name_refused.

Theorem ext_name_rule : forall vt V n,
  strict_type_rule vt V -> extid vt = OwnRegex ->
  (validate_ext_name vt V n = true <-> spec_ext_name V n).
Proof. exact ext_name_rule_lemma. Qed.
Print Assumptions ext_name_rule.

Theorem prop_name_rule : forall vt V s,
  pmode vt = FullRule -> (validate_prop_name vt V s = true <-> spec_prop_name (sv V) s).
Proof. exact prop_name_rule_lemma. Qed.
Print Assumptions prop_name_rule.

(* the code as found checks only the first character (2.1) or nothing (2.0) *)
Theorem prop_name_as_found : forall vt V s,
  pmode vt = FirstCharOnly ->
  validate_prop_name vt V s = match V with V20 => true | V21 => re_prefix21 s end.
Proof. exact prop_name_firstchar_lemma. Qed.
Print Assumptions prop_name_as_found.

Theorem prop_name_rule_firstchar_refuted : forall vt V,
  pmode vt = FirstCharOnly -> exists s, validate_prop_name vt V s = true /\ ~ spec_prop_name (sv V) s.
Proof. exact prop_name_rule_firstchar_refuted_lemma. Qed.
Print Assumptions prop_name_rule_firstchar_refuted.

(* ---------------- names that break the rules are refused, nothing is registered ---------------- *)

Theorem invalid_type_name_refused : forall vt r q,
  strict_type_rule vt (r_ver q) -> r_kind q <> Extensions ->
  ~ spec_type_name (sv (r_ver q)) (r_name q) ->
  decorate vt r q = (r, Failed EValue).
Proof. exact invalid_type_name_refused_lemma. Qed.
Print Assumptions invalid_type_name_refused.

Theorem invalid_ext_name_refused : forall vt r q,
  strict_type_rule vt (r_ver q) -> extid vt = OwnRegex -> r_kind q = Extensions ->
  ~ spec_ext_name (r_ver q) (r_name q) ->
  decorate vt r q = (r, Failed EValue).
Proof. exact invalid_ext_name_refused_lemma. Qed.
Print Assumptions invalid_ext_name_refused.

(* every variant: the name check comes first and its failure leaves the registry as it was *)
Theorem name_check_refused : forall vt r q,
  name_check vt q = false -> decorate vt r q = (r, Failed EValue).
Proof. exact name_check_refused_lemma. Qed.
Print Assumptions name_check_refused.

Theorem invalid_prop_name_refused : forall vt r q n k,
  pmode vt = FullRule -> In (n, k) (r_props q) -> ~ spec_prop_name (sv (r_ver q)) n ->
  exists e, snd (decorate vt r q) = Failed e.
Proof. exact invalid_prop_name_refused_lemma. Qed.
Print Assumptions invalid_prop_name_refused.

(* ---------------- custom types inherit: the class table a decorator builds ----------------
   Model/RegistryBuilder.v gives, in the vocabulary of the schema family (SchemaTypes: slot, cls,
   world), the table each Custom* decorator builds; it is compared with the live classes on every
   run.  The generic theorems of the schema family are stated for an arbitrary class table / world;
   what they ask of a table is shown here for every table the builder produces (the parts stated
   with Spec/SchemaRefine.v or evaluated on the generated tables are in Props/C19Inherit.v).     *)
Module Inherit.
Import SchemaTypes RegistryBuilder C19Inherit C19Bridge.

(* property names are distinct, whatever the user passes (OrderedDict) *)
Theorem custom_table_names_distinct : forall bv k V n xt user, NoDup (names (custom_slots bv k V n xt user)).
Proof. exact custom_slots_NoDup_lemma. Qed.
Print Assumptions custom_table_names_distinct.

(* nothing but the standard properties and the user's *)
Theorem custom_table_only_standard_and_user : forall bv k V n xt user s,
  In s (custom_slots bv k V n xt user) -> In s (standard_slots bv k V n xt) \/ In s user.
Proof. exact custom_slots_In_lemma. Qed.
Print Assumptions custom_table_only_standard_and_user.

(* the standard properties around the user's, in the decorator's order *)
Theorem object_table_shape : forall bv V n user,
  NoDup (names user) -> (forall s, In s user -> ~ In (sname s) (standard_names CObject V)) ->
  custom_slots bv CObject V n None user =
  (sdo_pre V n ++ filter (fun s => negb (starts_x s)) user ++ sdo_post bv V ++ sort_by_name (filter starts_x user))%list.
Proof. exact object_table_shape_lemma. Qed.
Print Assumptions object_table_shape.

Theorem observable_table_shape : forall bv V n user,
  NoDup (names user) -> (forall s, In s user -> ~ In (sname s) (standard_names CObservable V)) ->
  custom_slots bv CObservable V n None user = (sco_pre V n ++ user ++ sco_post V)%list.
Proof. exact observable_table_shape_lemma. Qed.
Print Assumptions observable_table_shape.

(* whatever the user passes: a standard property whose name the user does not take is in the table as written *)
Theorem standard_property_intact : forall bv k V n user s,
  (k = CObject \/ k = CObservable) ->
  In s (standard_slots bv k V n None) -> (forall t, In t user -> sname t <> sname s) ->
  slot_named (custom_cls bv k V n None user (u "C")) (sname s) = Some s.
Proof. exact standard_property_intact_lemma. Qed.
Print Assumptions standard_property_intact.

(* registration model and schema world move together: a successful registration, mirrored by
   world_add of the builder's class, makes the name resolve -- in the registration model to the
   class id, in the world to that id and from there to the builder's table -- and keeps the two
   registries knowing the same names *)
Theorem registered_type_resolves_in_world : forall vt r w bv k V n xt user cn r',
  dom_agree r w ->
  Registry.decorate vt r (regreq_of k V n xt user cn) = (r', Registry.Done) ->
  find_class (wclasses w) (custom_cid cn) = None ->
  let c := custom_cls bv k V n xt user cn in
  let w' := world_add w k V n c in
  Registry.lookup r' (version_of_ver V) (category_of_ckind k) n = Some (custom_cid cn)
  /\ assoc n (cat_rows k (reg_of w' V)) = Some (custom_cid cn)
  /\ find_class (wclasses w') (custom_cid cn) = Some c
  /\ dom_agree r' w'.
Proof. exact registered_type_resolves_in_world_lemma. Qed.
Print Assumptions registered_type_resolves_in_world.
End Inherit.

(* ---------------- the hypotheses are satisfiable ---------------- *)

Definition ex_req (V : version) (n : string) : regreq :=
  {| r_kind := Objects; r_ver := V; r_name := u n; r_props := [(u "prop1", KPlain)];
     r_cls := u "stix2.custom.C"; r_exttype := None; r_extname := None |}.

Example ex_register_ok : snd (decorate as_found builtin_registry (ex_req V21 "x-new")) = Done.
Proof. vm_compute. reflexivity. Qed.

Example ex_register_twice :
  snd (decorate as_found (fst (decorate as_found builtin_registry (ex_req V21 "x-new"))) (ex_req V21 "x-new"))
  = Failed EDuplicate.
Proof. vm_compute. reflexivity. Qed.

Example ex_other_version_free :
  snd (decorate as_found (fst (decorate as_found builtin_registry (ex_req V21 "x-new"))) (ex_req V20 "x-new")) = Done.
Proof. vm_compute. reflexivity. Qed.

Example ex_builtin_taken : snd (decorate as_found builtin_registry (ex_req V21 "identity")) = Failed EDuplicate.
Proof. vm_compute. reflexivity. Qed.

Example ex_double_hyphen_as_found : snd (decorate as_found builtin_registry (ex_req V21 "x--double")) = Done.
Proof. vm_compute. reflexivity. Qed.

Example ex_double_hyphen_repaired : snd (decorate repaired builtin_registry (ex_req V21 "x--double")) = Failed EValue.
Proof. vm_compute. reflexivity. Qed.

Example ex_parse_default_version :
  parse_dispatch (fst (decorate as_found builtin_registry (ex_req V21 "x-new"))) (u "x-new") (Some s_v21) true None false []
  = DClass (u "stix2.custom.C").
Proof. vm_compute. reflexivity. Qed.

Example ex_strict_rule_satisfiable : strict_type_rule repaired V20 /\ strict_type_rule repaired V21.
Proof. split; apply repaired_strict. Qed.

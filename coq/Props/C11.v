(* Props/C11.v -- property C11: the memory store and the filesystem store
   behave like a plain list of the added objects, over every history.

   Only statements here; proofs are in Proofs/Store*.v.  The model is
   Model/Store.v (tied to stix2/datastore by the correspondence run of every
   check); `refines`, `uniform`, `v_ge`, `versions`, `vkey_of` are in
   Spec/StoreSpec.v; `clean`, `fs_ok` are the domain of the theorems:
     clean o  : `modified` and `created` are instants or absent,
     fs_ok o  : clean, the id starts with the type, a versioned id has the
                <type>--<UUID> shape the directory scan recognises.
   A history L is a list of added objects; NL = map (norm_obj mode iot) L is
   what the stores keep of them (identity unless mode = Chrono, the repaired
   reading in which timestamp text of dictionary-kept content counts as the
   instant it denotes).  mode / iot / ts2fn are arbitrary.                     *)
From Coq Require Import NArith ZArith List Bool Permutation.
From V Require Import Base.UString Model.Store Model.StoreRun Model.StoreCases Spec.StoreSpec
  Proofs.StoreBase Proofs.StoreMem Proofs.StoreFs Proofs.StoreAgree Proofs.StoreForms Proofs.StoreRefute.
Import ListNotations.
Open Scope list_scope.

(* memory store: no addition raises; get / all_versions / the queried population refine the list.
   NOTE the last conjunct (query = filter of the stored population) is DEFINITIONAL in the model (it is the body
   of mem_query, i.e. MemorySource.query's `apply_common_filters(all_objs, query)`); the content about queries is
   r_stored_sound / r_stored_complete / r_stored_distinct of `refines`: the population the filter runs over holds
   only added objects, every (id, version) added, each once.
   DOMAIN: `clean` admits `modified` as an instant or absent.  Under mode = TextOrder (the code as it is) norm_obj is
   the identity, so dictionary-kept content WITH a `modified` (text) is outside this theorem: for the pinned
   variant it covers registered-class objects and dictionary-kept content without `modified`; under mode = Chrono
   (the repaired reading) timestamp text is inside (latest_text_chrono, chrono_domain_inhabited). *)
Theorem mem_refines : forall mode iot (L : list obj),
  let NL := map (norm_obj mode iot) L in
  Forall clean NL -> uniform NL ->
  Forall (fun e => e = None) (mem_outcomes mode iot L []) /\
  refines NL (fun id => mem_get [] id (mem_run mode iot L)) (fun id => mem_all [] id (mem_run mode iot L))
             (mem_objs (mem_run mode iot L)) /\
  (forall fl, mem_query fl (mem_run mode iot L) = filter (all_hold fl) (mem_objs (mem_run mode iot L))).
Proof. exact mem_refines_thm. Qed.
Print Assumptions mem_refines.

(* filesystem store: an addition is stored or refused as a re-addition; lookups never raise; the same refinement;
   query (with its type/id search optimisation) = filter of the stored objects *)
Theorem fs_refines : forall mode iot ts2fn, (forall a b : Z, ts2fn a = ts2fn b -> a = b) -> forall (L : list obj),
  let NL := map (norm_obj mode iot) L in
  Forall fs_ok NL -> uniform NL ->
  Forall (fun e => e = None \/ e = Some EOverwrite) (fs_outcomes mode iot ts2fn L []) /\
  (forall id, exists x, fs_get [] id (fs_run mode iot ts2fn L) = Ok x) /\
  refines NL (fun id => fs_get_val id (fs_run mode iot ts2fn L)) (fun id => fs_all [] id (fs_run mode iot ts2fn L))
             (map fobj (fs_run mode iot ts2fn L)) /\
  (forall fl, Permutation (fs_query fl (fs_run mode iot ts2fn L))
                          (filter (all_hold fl) (map fobj (fs_run mode iot ts2fn L)))).
Proof. exact fs_refines_thm. Qed.
Print Assumptions fs_refines.

(* refinement pins the answers down when no (id, modified) is added twice *)
Theorem refinement_is_unique : forall L g a st g' a' st',
  NoDup (map vkey_of L) -> refines L g a st -> refines L g' a' st' ->
  (forall id, g id = g' id) /\ (forall id, Permutation (a id) (a' id)) /\ Permutation st st'.
Proof. exact refines_unique. Qed.
Print Assumptions refinement_is_unique.

(* the two stores agree on every history without re-additions: neither raises, same get, same versions, same query *)
Theorem stores_agree : forall mode iot ts2fn, (forall a b : Z, ts2fn a = ts2fn b -> a = b) -> forall (L : list obj),
  let NL := map (norm_obj mode iot) L in
  Forall fs_ok NL -> uniform NL -> NoDup (map vkey_of NL) ->
  Forall (fun e => e = None) (mem_outcomes mode iot L []) /\
  Forall (fun e => e = None) (fs_outcomes mode iot ts2fn L []) /\
  (forall id, fs_get [] id (fs_run mode iot ts2fn L) = Ok (mem_get [] id (mem_run mode iot L))) /\
  (forall id, Permutation (mem_all [] id (mem_run mode iot L)) (fs_all [] id (fs_run mode iot ts2fn L))) /\
  (forall fl, Permutation (mem_query fl (mem_run mode iot L)) (fs_query fl (fs_run mode iot ts2fn L))).
Proof. exact stores_agree_thm. Qed.
Print Assumptions stores_agree.

(* with re-additions both still refine the same list (mem_refines, fs_refines); they may keep different copies
   of the re-added version, and only the filesystem store raises *)
Theorem readd_difference : forall mode iot,
  mem_outcomes mode iot [r_a; r_b] [] = [None; None] /\
  mem_get [] n_id (mem_run mode iot [r_a; r_b]) = Some r_a /\
  mem_all [] n_id (mem_run mode iot [r_a; r_b]) = [r_b] /\
  fs_outcomes mode iot ts2fn_dec [r_a; r_b] [] = [None; Some EOverwrite] /\
  fs_get [] n_id (fs_run mode iot ts2fn_dec [r_a; r_b]) = Ok (Some r_a) /\
  fs_all [] n_id (fs_run mode iot ts2fn_dec [r_a; r_b]) = [r_a].
Proof. exact readd_difference_l. Qed.
Print Assumptions readd_difference.

(* an addition never removes or alters another version *)
Theorem no_silent_loss_memory : forall mode iot (L : list obj) (o : obj),
  let NL := map (norm_obj mode iot) (L ++ [o]) in
  Forall clean NL -> uniform NL ->
  snd (mem_add1 mode iot o (mem_run mode iot L)) = None /\
  forall o1, In o1 (mem_objs (mem_run mode iot L)) -> vkey_of o1 <> vkey_of (norm_obj mode iot o) ->
             In o1 (mem_objs (mem_run mode iot (L ++ [o]))).
Proof. exact no_silent_loss_mem. Qed.
Print Assumptions no_silent_loss_memory.

Theorem no_silent_loss_filesystem : forall mode iot ts2fn, (forall a b : Z, ts2fn a = ts2fn b -> a = b) ->
  forall (L : list obj) (o : obj),
  let NL := map (norm_obj mode iot) (L ++ [o]) in
  Forall fs_ok NL ->
  (snd (fs_add1 mode iot ts2fn o (fs_run mode iot ts2fn L)) = None /\
   fs_run mode iot ts2fn (L ++ [o]) = fs_run mode iot ts2fn L ++ [file_of ts2fn (norm_obj mode iot o)] /\
   forall o', In o' (map (norm_obj mode iot) L) -> vkey_of o' <> vkey_of (norm_obj mode iot o)) \/
  (snd (fs_add1 mode iot ts2fn o (fs_run mode iot ts2fn L)) = Some EOverwrite /\
   fs_run mode iot ts2fn (L ++ [o]) = fs_run mode iot ts2fn L /\
   exists o', In o' (map (norm_obj mode iot) L) /\ vkey_of o' = vkey_of (norm_obj mode iot o)).
Proof. exact no_silent_loss_fs. Qed.
Print Assumptions no_silent_loss_filesystem.

(* save_to_file, then load_from_file into a fresh store: same population; lookups present for the same ids and
   returning the same newest VERSION (with re-additions the copy may differ: readd_difference); see save_load_exact *)
Theorem save_load : forall mode iot (L : list obj),
  let NL := map (norm_obj mode iot) L in
  Forall clean NL -> uniform NL ->
  exists m2, mem_load_saved mode iot (mem_run mode iot L) [] = (m2, None) /\
    Permutation (mem_objs m2) (mem_objs (mem_run mode iot L)) /\
    (forall id, mem_get [] id m2 = None <-> mem_get [] id (mem_run mode iot L) = None) /\
    (forall id o2 o, mem_get [] id m2 = Some o2 -> mem_get [] id (mem_run mode iot L) = Some o -> omod o2 = omod o).
Proof. exact save_load_thm. Qed.
Print Assumptions save_load.

(* ... and when no (id, modified) was added twice: the SAME object for every lookup, the same versions, the same
   population *)
Theorem save_load_exact : forall mode iot (L : list obj),
  let NL := map (norm_obj mode iot) L in
  Forall clean NL -> uniform NL -> NoDup (map vkey_of NL) ->
  exists m2, mem_load_saved mode iot (mem_run mode iot L) [] = (m2, None) /\
    (forall id, mem_get [] id m2 = mem_get [] id (mem_run mode iot L)) /\
    (forall id, Permutation (mem_all [] id m2) (mem_all [] id (mem_run mode iot L))) /\
    Permutation (mem_objs m2) (mem_objs (mem_run mode iot L)).
Proof. exact save_load_exact_thm. Qed.
Print Assumptions save_load_exact.

(* input forms: a history of add() calls in any forms (objects, dictionaries, lists, nested lists, bundles) is
   the history of the objects they hand over before the first refused item *)
Theorem mem_forms_flatten : forall mode iot (calls : list (list segment)),
  let L := flat_map call_objs calls in
  Forall clean (map (norm_obj mode iot) L) -> uniform (map (norm_obj mode iot) L) ->
  mem_calls mode iot calls = mem_run mode iot L.
Proof. exact mem_calls_flatten. Qed.
Print Assumptions mem_forms_flatten.

Theorem mem_call_outcome : forall mode iot (segs : list segment) L0 m,
  MemInv L0 m -> Forall clean (map (norm_obj mode iot) (call_objs segs)) ->
  uniform (L0 ++ map (norm_obj mode iot) (call_objs segs)) ->
  mem_add_segs mode iot segs m =
    (fold_left (madd mode iot) (call_objs segs) m, if call_complete segs then None else Some EParse).
Proof. exact mem_call_flatten. Qed.
Print Assumptions mem_call_outcome.

(* filesystem, no hypothesis at all: after any call the store is the store after adding one by one an initial
   part of the call's objects, all of them if the call returned normally *)
Theorem fs_call_stores_prefix : forall mode iot ts2fn (segs : list segment) s s' e,
  fs_add_segs mode iot ts2fn segs s = (s', e) ->
  exists l1 l2, call_objs segs = l1 ++ l2 /\ s' = fold_left (fadd mode iot ts2fn) l1 s /\
                (e = None -> l2 = [] /\ call_complete segs = true).
Proof. exact fs_call_prefix. Qed.
Print Assumptions fs_call_stores_prefix.

(* ---- outside the domain: the defective variant and the necessity of the hypotheses ---- *)

(* TextOrder (the code as it is): `modified` of dictionary-kept content is compared as text; both stores return
   the version of 00:00:00Z although 00:00:00.5Z was added *)
Theorem latest_text_refuted :
  mem_get [] w_id (mem_run TextOrder w_iot [w_a; w_b]) = Some w_a /\
  fs_get [] w_id (fs_run TextOrder w_iot ts2fn_dec [w_a; w_b]) = Ok (Some w_a) /\
  In w_b [w_a; w_b] /\ oid w_b = w_id /\
  vinst w_iot (omod w_a) = Some 1577836800000000%Z /\ vinst w_iot (omod w_b) = Some 1577836800500000%Z.
Proof. exact latest_text_refuted_l. Qed.
Print Assumptions latest_text_refuted.

(* Chrono (repaired): the same history is in the domain of mem_refines / fs_refines and the later one is returned *)
Theorem latest_text_chrono :
  mem_get [] w_id (mem_run Chrono w_iot [w_a; w_b]) = Some (norm_obj Chrono w_iot w_b) /\
  fs_get [] w_id (fs_run Chrono w_iot ts2fn_dec [w_a; w_b]) = Ok (Some (norm_obj Chrono w_iot w_b)).
Proof. exact latest_text_chrono_l. Qed.
Print Assumptions latest_text_chrono.

(* a version whose modified is a timezone-naive datetime: memory raises TypeError after recording it, get ignores
   it; the filesystem store orders it as UTC *)
Theorem naive_refuted : forall mode iot,
  mem_outcomes mode iot [n_a; n_b] [] = [None; Some EType] /\
  mem_all [] n_id (mem_run mode iot [n_a; n_b]) = [n_a; n_b] /\
  mem_get [] n_id (mem_run mode iot [n_a; n_b]) = Some n_a /\
  fs_outcomes mode iot ts2fn_dec [n_a; n_b] [] = [None; None] /\
  fs_get [] n_id (fs_run mode iot ts2fn_dec [n_a; n_b]) = Ok (Some (aware_obj n_b)).
Proof. exact naive_refuted_l. Qed.
Print Assumptions naive_refuted.

(* `uniform` is needed: an id used with and without `modified` *)
Theorem mixed_kind_refuted : forall mode iot,
  mem_outcomes mode iot [m_v1; m_v2; m_u] [] = [None; None; None] /\
  mem_objs (mem_run mode iot [m_v1; m_v2; m_u]) = [m_u] /\
  fs_outcomes mode iot ts2fn_dec [m_v1; m_v2; m_u] [] = [None; None; None] /\
  map fobj (fs_run mode iot ts2fn_dec [m_v1; m_v2; m_u]) = [m_v1; m_v2; m_u] /\
  fs_get [] w_id (fs_run mode iot ts2fn_dec [m_v1; m_v2; m_u]) = Err EKey.
Proof. exact mixed_kind_refuted_l. Qed.
Print Assumptions mixed_kind_refuted.

(* ---- the hypotheses are satisfiable ---- *)
Example domain_inhabited : Forall fs_ok d_objs /\ uniform d_objs /\ NoDup (map vkey_of d_objs).
Proof. exact d_objs_ok. Qed.

Example chrono_domain_inhabited : Forall fs_ok (map (norm_obj Chrono w_iot) [w_a; w_b]) /\ uniform (map (norm_obj Chrono w_iot) [w_a; w_b]).
Proof. exact w_objs_ok. Qed.

Example injective_names_exist : exists f : Z -> ustring, forall a b, f a = f b -> a = b.
Proof. exact inj_names. Qed.

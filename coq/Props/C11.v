(* Props/C11.v -- placeholder while the pipeline is brought up *)
From Coq Require Import List.
From V Require Import Base.UString Model.Store.
Theorem placeholder_c11 : forall (a : vkey), vkey_eqb VNone VNone = true.
Proof. intros; reflexivity. Qed.
Print Assumptions placeholder_c11.

(* Props/C10Src.v -- C10, tie to the CURRENT SOURCE TEXT.  Gen/VisitorFacts.v is regenerated on every run by
   translators/tr_visitor.py from the ast of stix2/pattern_visitor.py and stix2/patterns.py (fail closed; an
   unrecognised shape is written as "?<source>").  Spec/PatternSource.v holds the same facts as the model
   Model/PatternSyntax.v transcribes them.  The first group ties those tables to the definitions of the model;
   the second states that the text read now is the text the model was written from, and that the variant the
   text denotes is the one the theorems of Props/C10.v are about (`repaired`).  A change of the text breaks the
   obligation that names the changed site.                                                                *)
From Coq Require Import NArith ZArith List String Bool.
From V Require Import Model.PatternSyntax Spec.PatternSource Gen.VisitorFacts Proofs.PatternSrc.
Import ListNotations.
Open Scope string_scope.
Open Scope nat_scope.

(* ---- the tables are what the model does ---- *)
Theorem model_reads_the_listed_children : model_reads_transcribed.
Proof. exact model_reads_ok. Qed.
Print Assumptions model_reads_the_listed_children.

Theorem model_equal_test_reads_operator_after_not : forall cs,
  m_pt_equal repaired cs =
  (lhs <- child cs (rd "visitPropTestEqual" 0) ;;
   let has_not := len_gt cs (rd "visitPropTestEqual" 3) in
   o <- child cs (if has_not then rd "visitPropTestEqual" 2 else rd "visitPropTestEqual" 1) ;; t <- as_tok o ;;
   rhs <- rhs_child cs ;;
   mk_cmp KlEq lhs rhs (xorb (negb (tkind_eqb (tk t) KEQ)) has_not)).
Proof. exact model_pt_equal. Qed.
Print Assumptions model_equal_test_reads_operator_after_not.

Theorem model_operator_spellings : map (fun p => u (snd p)) model_operators = ops_of_model.
Proof. exact model_operators_ok. Qed.
Print Assumptions model_operator_spellings.

Theorem model_template_literals :
  literals (tpl "ParentheticalExpression") = [tx t_LPAREN; tx t_RPAREN] /\
  literals (tpl "ListObjectPathComponent") = [[]; tx t_LBRACK; tx t_RBRACK] /\
  literals (tpl "RepeatQualifier") = [app (tx t_REPEATS) sp; app sp (tx t_TIMES)] /\
  literals (tpl "WithinQualifier") = [app (tx t_WITHIN) sp; app sp (tx t_SECONDS)] /\
  literals (tpl "StartStopQualifier") = [app (tx t_START) sp; app sp (app (tx t_STOP) sp); []] /\
  literals (tpl "QualifiedObservationExpression") = [[]; sp; []] /\
  literals (tpl "StringConstant") = [[c_quote]; [c_quote]] /\
  literals (tpl "BinaryConstant") = [u "b'"; [c_quote]] /\
  literals (tpl "HexConstant") = [u "h'"; [c_quote]] /\
  literals (tpl "TimestampConstant") = [u "t"; []] /\
  literals (tpl "ObjectPath") = [[]; tx t_COLON; []].
Proof. exact model_templates_ok. Qed.
Print Assumptions model_template_literals.

(* ---- the current text is the transcribed one ---- *)
Theorem source_text_is_repaired : src_flags = model_flags.
Proof. exact src_flags_ok. Qed.
Print Assumptions source_text_is_repaired.

(* ... and the variant record that flag list denotes is the `repaired` every theorem of Props/C10.v
   is stated for (cfg_of_flags reads each named flag into its field of cfg; the all-false list
   denotes `pinned`, so the reading is not constant) *)
Theorem source_variant_is_repaired : cfg_of_flags src_flags = Some repaired.
Proof. exact src_cfg_ok. Qed.
Print Assumptions source_variant_is_repaired.
Theorem all_false_flags_are_pinned : cfg_of_flags (map (fun f => (f, Some false)) flag_names) = Some pinned.
Proof. exact pinned_flags_cfg. Qed.
Print Assumptions all_false_flags_are_pinned.

Theorem source_child_indices : src_reads = model_reads.
Proof. exact src_reads_ok. Qed.
Print Assumptions source_child_indices.

Theorem source_instantiated_classes : src_classes = model_classes.
Proof. exact src_classes_ok. Qed.
Print Assumptions source_instantiated_classes.

Theorem source_variant_sites : src_sites = model_sites.
Proof. exact src_sites_ok. Qed.
Print Assumptions source_variant_sites.

Theorem source_terminal_dispatch : src_terminal = model_terminal.
Proof. exact src_terminal_ok. Qed.
Print Assumptions source_terminal_dispatch.

Theorem source_escape_expression : src_escape = model_escape.
Proof. exact src_escape_ok. Qed.
Print Assumptions source_escape_expression.

Theorem source_quote_if_needed :
  src_quote_body = model_quote_body /\ src_quote_regex = model_quote_regex /\ map u src_quote_keywords = keywords.
Proof. exact src_quote_ok. Qed.
Print Assumptions source_quote_if_needed.

Theorem source_str_templates : src_templates = model_templates.
Proof. exact src_templates_ok. Qed.
Print Assumptions source_str_templates.

Theorem source_operator_spellings :
  map (fun p => u (snd p)) src_operators = ops_of_model /\ map fst src_operators = map fst model_operators.
Proof. exact src_operators_ok. Qed.
Print Assumptions source_operator_spellings.

Theorem source_make_constant_dispatch : src_make_constant = model_make_constant.
Proof. exact src_make_constant_ok. Qed.
Print Assumptions source_make_constant_dispatch.

Theorem source_create_component_dispatch : src_create_component = model_create_component.
Proof. exact src_create_component_ok. Qed.
Print Assumptions source_create_component_dispatch.

(* string-encoded object paths: the body of ObjectPath.make_object_path is the transcribed one, and the model cuts the
   text at ':' (58) and '.' (46) exactly so *)
Theorem source_make_object_path : src_make_object_path = model_make_object_path.
Proof. exact src_make_object_path_ok. Qed.
Print Assumptions source_make_object_path.
Theorem model_make_object_path_splits : forall lhs,
  make_object_path lhs =
  match split_all 58 lhs with
  | ty :: p :: _ => Ok (APath ty (map create_component_str (split_all 46 p)))
  | _ => Raise IndexError
  end.
Proof. exact model_make_object_path_ok. Qed.
Print Assumptions model_make_object_path_splits.

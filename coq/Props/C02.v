(* Props/C02.v -- C02: whatever the library emits in strict mode is valid STIX.
   Only statements; proofs are in Proofs/Schema*.v.                              *)
From Coq Require Import NArith ZArith List String Bool.
From V Require Import Base.UString Base.Json Model.SchemaTypes Model.PyBase Model.Schema
     Spec.StixValid Spec.SchemaRefine Gen.Tables Gen.SpecTables Proofs.SchemaTables.
Import ListNotations.

(* The side condition of strict_sound, discharged by the kernel on the tables regenerated from /repo:
   the library's class tables are contained in the frozen specification's tables weakened at exactly
   the places refine_failures names (none on a conforming tree: relax _ _ [] is the identity).      *)
Theorem lib_refines_spec_modulo_failures :
  world_refines lib (relax lib spec (refine_failures lib spec)) = true.
Proof. rewrite spec_relaxed_eq. exact lib_refines_relaxed. Qed.
Print Assumptions lib_refines_spec_modulo_failures.

Theorem relax_nothing_is_spec : relax lib spec [] = spec.
Proof. exact relax_nil_spec. Qed.
Print Assumptions relax_nothing_is_spec.

(* Props/C02.v -- C02: whatever the library emits in strict mode is valid STIX.
   Only statements; proofs are in Proofs/Schema*.v.

   Vocabulary.  `run vr ev w pattern_ok selectors_ok fuel req` is the model of one API call
   (Model/Schema.v: parse / parse_observable / a class constructor, over the class tables `w`), `encode
   false o` is serialization, `valid_obj sp pattern_ok m cid j` is the specification validator
   (Spec/StixValid.v) for the class `cid` of the frozen tables `sp`, with fuel m.

   FULL statement (the target; not yet proved):

     strict_sound :
       forall vr ev w sp pok sok fuel req oc inner dfl hc,
         variant_sound vr = true -> env_ok ev = true -> world_refines w sp = true ->
         req_strict req = true ->
         run vr ev w pok sok fuel req = Ok (PObject oc inner dfl hc) ->
         hc = false /\ exists m, valid_obj sp pok m oc (encode false (PObject oc inner dfl hc)) = true.

   What is proved below is strict_sound_partial: the same statement with two explicit boolean
   restrictions, and nothing else (every input JSON value, every fuel, every class table):
     - req_scope req = true: the input uses neither documented loophole of strict mode -- no
       "custom_properties" member, no "extension-definition--..." extension key, no extension entry
       declaring itself a toplevel-property-extension (the library does not look inside those);
     - class_proved n w oc = true: the class of the result, and every class it can embed, only uses
       property kinds, co-constraint forms and __init__ forms whose soundness lemma is proved so far
       (Proofs/SchemaProved.v: leaf_proved, constr_proved, init_proved).  lib_covered lists the classes
       of the generated tables for which this holds; it is recomputed by the kernel on every build.  *)
From Coq Require Import NArith ZArith List String Bool.
From V Require Import Base.UString Base.Json Model.SchemaTypes Model.PyBase Model.Schema Model.SchemaRun
     Spec.StixValid Spec.SchemaRefine Gen.Tables Gen.SpecTables
     Proofs.SchemaScope Proofs.SchemaProved Proofs.SchemaKnot Proofs.SchemaTables Proofs.SchemaC02
     Proofs.SchemaCovProved Proofs.SchemaCovKnot Proofs.SchemaCovC02 Proofs.SchemaAudit.
Import ListNotations.

(* The side condition of strict_sound, discharged by the kernel on the tables regenerated from /repo:
   the library's class tables are contained in the frozen specification's tables weakened at exactly
   the places refine_failures names (none on a conforming tree: relax _ _ [] is the identity).      *)
Theorem lib_refines_spec_modulo_failures :
  world_refines lib (relax lib spec (refine_failures lib spec)) = true.
Proof. rewrite spec_relaxed_eq. exact lib_refines_relaxed. Qed.
Print Assumptions lib_refines_spec_modulo_failures.

Theorem relax_nothing_is_spec : relax lib spec [] = spec.
Proof. exact relax_nil_spec. Qed.
Print Assumptions relax_nothing_is_spec.

(* for an ARBITRARY class table w and specification table sp *)
Theorem strict_sound_partial :
  forall (vr : variant) (ev : env) (w sp : world)
         (pattern_ok : ver -> ustring -> bool) (selectors_ok : list (ustring * pval) -> pval -> result bool)
         (fuel n : nat) (req : request) oc inner dfl hc,
    variant_sound vr = true -> env_ok ev = true -> world_refines w sp = true ->
    req_strict req = true -> req_scope req = true ->
    run vr ev w pattern_ok selectors_ok fuel req = Ok (PObject oc inner dfl hc) ->
    class_proved n w oc = true ->
    hc = false /\ exists m, valid_obj sp pattern_ok m oc (encode false (PObject oc inner dfl hc)) = true.
Proof. exact strict_sound_partial_gen. Qed.
Print Assumptions strict_sound_partial.

(* ... instantiated with the tables regenerated from /repo and the frozen specification (relaxed where
   lib_refines_spec_modulo_failures says; spec_relaxed = spec when refine_failures lib spec = []) *)
Theorem strict_sound_partial_generated_tables :
  forall (vr : variant) (ev : env) pattern_ok selectors_ok fuel req oc inner dfl hc,
    variant_sound vr = true -> env_ok ev = true ->
    req_strict req = true -> req_scope req = true ->
    run vr ev lib pattern_ok selectors_ok fuel req = Ok (PObject oc inner dfl hc) ->
    In oc lib_covered ->
    hc = false /\ exists m, valid_obj spec_relaxed pattern_ok m oc (encode false (PObject oc inner dfl hc)) = true.
Proof. exact strict_sound_partial_lib. Qed.
Print Assumptions strict_sound_partial_generated_tables.

(* The same statement with the WIDER coverage predicate class_proved2 (Proofs/SchemaCov*.v: identifiers,
   references, hashes, floats, extensions, timestamp comparisons and conditional co-constraints,
   socket options are covered as well).  class_proved2 subsumes class_proved on the generated tables
   (covered2_contains_covered); lib_covered2 is recomputed by the kernel on every build.            *)
Theorem strict_sound_partial_wide :
  forall (vr : variant) (ev : env) (w sp : world)
         (pattern_ok : ver -> ustring -> bool) (selectors_ok : list (ustring * pval) -> pval -> result bool)
         (fuel n : nat) (req : request) oc inner dfl hc,
    variant_sound vr = true -> env_ok ev = true -> world_refines w sp = true ->
    req_strict req = true -> req_scope req = true ->
    run vr ev w pattern_ok selectors_ok fuel req = Ok (PObject oc inner dfl hc) ->
    class_proved2 n w oc = true ->
    hc = false /\ exists m, valid_obj sp pattern_ok m oc (encode false (PObject oc inner dfl hc)) = true.
Proof. exact strict_sound_partial2_gen. Qed.
Print Assumptions strict_sound_partial_wide.

Theorem strict_sound_partial_wide_generated_tables :
  forall (vr : variant) (ev : env) pattern_ok selectors_ok fuel req oc inner dfl hc,
    variant_sound vr = true -> env_ok ev = true ->
    req_strict req = true -> req_scope req = true ->
    run vr ev lib pattern_ok selectors_ok fuel req = Ok (PObject oc inner dfl hc) ->
    In oc lib_covered2 ->
    hc = false /\ exists m, valid_obj spec_relaxed pattern_ok m oc (encode false (PObject oc inner dfl hc)) = true.
Proof. exact strict_sound_partial2_lib. Qed.
Print Assumptions strict_sound_partial_wide_generated_tables.

Theorem covered2_contains_covered : forallb (fun c => mem_ustr c lib_covered2) lib_covered = true.
Proof. exact lib_covered_sub. Qed.
Print Assumptions covered2_contains_covered.

(* the defective variants are refuted: a strict, in-scope request that succeeds and whose serialization
   no validator fuel accepts (the witnesses are also run on the implementation by the check) *)
Theorem strict_sound_refuted_dollar_anchor : refuted_by vr_dollar_hex req_hex.
Proof. exact refuted_hex. Qed.
Print Assumptions strict_sound_refuted_dollar_anchor.

Theorem strict_sound_refuted_uuid_text : refuted_by vr_uuid_lax req_uuid.
Proof. exact refuted_uuid. Qed.
Print Assumptions strict_sound_refuted_uuid_text.

Theorem strict_sound_refuted_empty_extensions : refuted_by vr_ext_empty req_ext_empty.
Proof. exact refuted_ext_empty. Qed.
Print Assumptions strict_sound_refuted_empty_extensions.

(* ---- the audited validator valid_obj_x (2026-09-29) and what of it the theorems above cover ----
   valid_kind_x / valid_obj_x (Spec/StixValid.v) is the validator the check's ORACLE evaluates.  It is the knot
   valid_kind_g / valid_obj_g of the same two bodies as valid_kind / valid_obj with exactly two more clauses:
     leaf_extra k j     on every value of a property kind: KBinary -> strict RFC 4648 base64 text; KDict -> no null
                        and no empty list anywhere inside the values; every other kind -> true;
     marking_match      on every object: the `definition` of a marking-definition is an object of the marking type
                        its `definition_type` names.
   audited_clauses_are_all: with both clauses trivial the knot IS valid_kind / valid_obj -- so these two clauses are
   precisely what the soundness theorems above (stated with valid_obj) do not speak about.  Of them:
     KBinary   proved at the kind level (binary_clause_sound: BinaryProperty.clean with the strict decoder,
               vr_b64_strict = true, returns only text the clause accepts; any mode); not lifted through the
               object / knot induction.  The lenient decoder is refuted (strict_sound_refuted_binary_not_base64).
     KDict     false of the code in every variant (strict_sound_refuted_dictionary_null_value): known finding
               C02-dictionary-value-null-or-empty-list, no repair proposed.
     marking_match   not proved (oracle only; a JSON `definition` is rebuilt by the class named by definition_type,
               only an already constructed marking object given from Python can differ).
   The rule created <= modified is NOT one of the two clauses: it is a co-constraint of the frozen tables (audited
   override), hence part of valid_obj and inside the soundness theorems; on a tree that does not check it
   (known finding C02-modified-before-created) refine_failures names constraint|<class>|0 for the 37 classes and
   the generated-tables instances speak about spec_relaxed, i.e. the specification without that constraint there;
   strict_sound_refuted_modified_before_created is the refutation for tables without the rule.            *)
Theorem audited_clauses_are_all :
  forall (sw : world) pok n,
    (forall k j, valid_kind_g sw pok (fun _ _ => true) (fun _ _ _ => true) n k j = valid_kind sw pok n k j) /\
    (forall c j, valid_obj_g sw pok (fun _ _ => true) (fun _ _ _ => true) n c j = valid_obj sw pok n c j).
Proof. exact valid_g_trivial. Qed.
Print Assumptions audited_clauses_are_all.

Theorem binary_clause_sound :
  forall (vr : variant) (w sp : world) pok rc rp ro allow interop v pv hc n,
    vr_b64_strict vr = true ->
    clean_kind vr w rc rp ro KBinary allow interop v = Ok (pv, hc) ->
    hc = false /\ valid_kind_x sp pok (S n) KBinary (encode false pv) = true.
Proof. exact binary_clause_sound_pf. Qed.
Print Assumptions binary_clause_sound.

Theorem audited_validator_strengthens :
  forall (sw : world) pok n c j, valid_obj_x sw pok n c j = true -> valid_obj sw pok n c j = true.
Proof. exact valid_obj_x_sub. Qed.
Print Assumptions audited_validator_strengthens.

(* lenient base64 decoding (vr_b64_strict = false): payload_bin "aGVs bG8=" is accepted and emitted *)
Theorem strict_sound_refuted_binary_not_base64 : refuted_x_by vr_b64_lenient lib req_b64.
Proof. exact refuted_b64. Qed.
Print Assumptions strict_sound_refuted_binary_not_base64.

(* DictionaryProperty does not look at the values, in the pinned and in the fully repaired variant of the model
   alike (no repair is proposed): {"PATH": null} is emitted *)
Theorem strict_sound_refuted_dictionary_null_value :
  refuted_x_by variant_repaired lib req_dict_null /\ refuted_x_by variant_pinned lib req_dict_null.
Proof. exact refuted_dict_values. Qed.
Print Assumptions strict_sound_refuted_dictionary_null_value.

(* class tables without the created <= modified rule (the regenerated tables minus that one constraint: the
   identity on a tree that does not check it): an identity modified before it was created is emitted *)
Theorem strict_sound_refuted_modified_before_created : refuted_tables_by (strip_time_order lib) req_modified.
Proof. exact refuted_modified. Qed.
Print Assumptions strict_sound_refuted_modified_before_created.

(* the hypotheses are satisfiable *)
Example variant_sound_repaired : variant_sound variant_repaired = true. Proof. reflexivity. Qed.
Example env_ok_sentinel : env_ok sentinel_env = true. Proof. vm_compute. reflexivity. Qed.
Example covered_nonempty : lib_covered <> []. Proof. discriminate. Qed.
Example repaired_refuses_lenient_base64 :
  run variant_repaired sentinel_env lib witness_pok witness_sok 6 req_b64 = Err EInvalidValue.
Proof. exact repaired_b64. Qed.
Example tables_with_rule_refuse_modified_before_created :
  run variant_repaired sentinel_env spec witness_pok witness_sok 6 req_modified = Err EInvalidValue.
Proof. exact repaired_modified. Qed.


(* positive witnesses: every hypothesis of strict_sound_partial_wide_generated_tables holds of a non-trivial request,
   and its conclusion is checked by the kernel (the reviewer's witnesses: a 2.1 identity with object_marking_refs
   through strict parse; a 2.1 process through the strict constructor, valid even for the audited validator) *)
Definition ex_identity_req : request :=
  RParse false false None
    [ (u "type", JStr (u "identity")); (u "spec_version", JStr (u "2.1"));
      (u "id", JStr (u "identity--8d1c5bdf-5a0e-4b8e-9a3c-1f2e3d4c5b6a"));
      (u "created", JStr (u "2016-01-01T00:00:00.000Z")); (u "modified", JStr (u "2016-01-02T00:00:00.123Z"));
      (u "name", JStr (u "John Smith")); (u "confidence", JInt 100%Z);
      (u "object_marking_refs", JArr [JStr (u "marking-definition--613f2e26-407d-48c7-9eca-b8e91df99dc9")]) ].
Definition ex_identity_out : result pval :=
  Eval vm_compute in run variant_repaired sentinel_env lib witness_pok witness_sok 8 ex_identity_req.

Example hypotheses_satisfiable_identity :
  variant_sound variant_repaired = true /\ env_ok sentinel_env = true /\
  req_strict ex_identity_req = true /\ req_scope ex_identity_req = true /\
  mem_ustr (u "2.1/Identity") lib_covered2 = true /\
  run variant_repaired sentinel_env lib witness_pok witness_sok 8 ex_identity_req = ex_identity_out /\
  match ex_identity_out with
  | Ok (PObject oc inner dfl hc) =>
    ustr_eqb oc (u "2.1/Identity") && negb hc &&
    valid_obj spec_relaxed witness_pok 8 oc (encode false (PObject oc inner dfl hc)) &&
    valid_obj_x spec witness_pok 8 oc (encode false (PObject oc inner dfl hc))
  | _ => false
  end = true.
Proof. repeat split; vm_compute; reflexivity. Qed.

Definition ex_process_req : request :=
  RConstruct (u "2.1/Process") false false
             [(u "pid", JInt 1%Z); (u "environment_variables", JObj [(u "PATH", JStr (u "/bin"))])] None.
Definition ex_process_out : result pval :=
  Eval vm_compute in run variant_repaired sentinel_env lib witness_pok witness_sok 6 ex_process_req.

Example process_output_valid_for_audited_validator :
  req_strict ex_process_req = true /\ req_scope ex_process_req = true /\
  run variant_repaired sentinel_env lib witness_pok witness_sok 6 ex_process_req = ex_process_out /\
  match ex_process_out with
  | Ok (PObject oc inner dfl hc) =>
    negb hc && valid_obj_x spec witness_pok 8 oc (encode false (PObject oc inner dfl hc))
  | _ => false
  end = true.
Proof. repeat split; vm_compute; reflexivity. Qed.

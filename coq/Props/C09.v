(* Props/C09.v -- temporary stub while the proofs are being built *)
From Coq Require Import ZArith List String.
From V Require Import Base.UString Model.PatternEq.

Theorem settle_no_fuel : forall (A : Type) (f : A -> res (A * bool)) (a : A), settle 0 f a = Err EFuel.
Proof. reflexivity. Qed.
Print Assumptions settle_no_fuel.

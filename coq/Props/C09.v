(* Props/C09.v -- pattern equivalence is a total, sound equivalence relation
   (DESIGN.md 6/C09, Appendix A.5).  Model: Model/PatternEq.v; specification:
   Spec/PatternSemantics.v, Spec/PatternRules.v; proofs: Proofs/PatternEq*.v. *)
From Coq Require Import NArith ZArith List Bool String.
From V Require Import Base.UString Model.PatternEq Spec.PatternSemantics Spec.PatternRules
     Proofs.PatternEqCmp Proofs.PatternEqLists Proofs.PatternEqC Proofs.PatternEqDnf Proofs.PatternEqNorm
     Proofs.PatternEqTop Proofs.PatternEqO Proofs.PatternEqWitness Proofs.PatternEqSort Proofs.PatternEqRecog Proofs.PatternEqErr Proofs.PatternEqIp4 Proofs.PatternEqValid Proofs.PatternEqTerm Proofs.PatternEqTermDnf Proofs.PatternEqRulesTop.
Import ListNotations.

(* ---- the comparators are lawful (reflexive, antisymmetric, transitive as a total preorder) ---- *)

Theorem constant_cmp_lawful : lawful const_cmp.
Proof. exact const_cmp_lawful. Qed.
Print Assumptions constant_cmp_lawful.

Theorem comparison_expression_cmp_lawful : lawful ccmp.
Proof. exact ccmp_lawful. Qed.
Print Assumptions comparison_expression_cmp_lawful.

Theorem observation_expression_cmp_lawful : lawful ocmp.
Proof. exact ocmp_lawful. Qed.
Print Assumptions observation_expression_cmp_lawful.

(* ---- hence the reported relation is an equivalence relation on the patterns that normalise ---- *)

Theorem equiv_refl : forall v fuel p n, onormalize v fuel p = Ok n -> equiv v fuel p p = Ok true.
Proof. exact PatternEqTop.equiv_refl. Qed.
Print Assumptions equiv_refl.

Theorem equiv_sym : forall v fuel p q b, equiv v fuel p q = Ok b -> equiv v fuel q p = Ok b.
Proof. exact PatternEqTop.equiv_sym. Qed.
Print Assumptions equiv_sym.

Theorem equiv_trans : forall v fuel p q r,
    equiv v fuel p q = Ok true -> equiv v fuel q r = Ok true -> equiv v fuel p r = Ok true.
Proof. exact PatternEqTop.equiv_trans. Qed.
Print Assumptions equiv_trans.

Theorem equiv_trans_false : forall v fuel p q r,
    equiv v fuel p q = Ok true -> equiv v fuel q r = Ok false -> equiv v fuel p r = Ok false.
Proof. exact PatternEqTop.equiv_trans_false. Qed.
Print Assumptions equiv_trans_false.

(* totality relative to normalisation (and to fuel: see equiv_never_raises below) *)
Theorem equiv_total : forall v fuel p q,
    (exists b, equiv v fuel p q = Ok b) <-> (exists n1 n2, onormalize v fuel p = Ok n1 /\ onormalize v fuel q = Ok n2).
Proof. exact PatternEqTop.equiv_total. Qed.
Print Assumptions equiv_total.

(* ---- searching a collection returns exactly the members pairwise equivalent to the query ---- *)

Theorem find_is_filter : forall v fuel p ps l,
    find_equiv v fuel p ps = Ok l ->
    l = map fst (filter (fun iq => reported v fuel p (snd iq)) (combine (seq 0 (List.length ps)) ps)).
Proof. exact PatternEqTop.find_is_filter. Qed.
Print Assumptions find_is_filter.

Theorem find_total : forall v fuel p ps n,
    onormalize v fuel p = Ok n -> Forall (fun q => exists nq, onormalize v fuel q = Ok nq) ps ->
    exists l, find_equiv v fuel p ps = Ok l.
Proof. exact PatternEqTop.find_total. Qed.
Print Assumptions find_total.

(* ---- soundness, comparison expressions: for EVERY interpretation H of the atoms that sees a
        constant through its value, comparator-equal expressions mean the same and every pass of
        the normaliser preserves the meaning ---- *)

Theorem cmp_eq_sound : forall obj otype H, respects_denotation obj H ->
    forall a b, ccmp a b = Eq -> forall x, csem obj otype H a x = csem obj otype H b x.
Proof. exact ccmp_sem. Qed.
Print Assumptions cmp_eq_sound.

Theorem flatten_sound : forall obj otype H e x, csem obj otype H (fst (cflatten e)) x = csem obj otype H e x.
Proof. exact cflatten_sound. Qed.
Print Assumptions flatten_sound.

Theorem order_dedupe_sound : forall obj otype H, respects_denotation obj H ->
    forall e x, csem obj otype H (fst (corder e)) x = csem obj otype H e x.
Proof. exact corder_sound. Qed.
Print Assumptions order_dedupe_sound.

Theorem absorb_sound : forall obj otype H, respects_denotation obj H ->
    forall e x, csem obj otype H (fst (cabsorb e)) x = csem obj otype H e x.
Proof. exact cabsorb_sound. Qed.
Print Assumptions absorb_sound.

(* DNF with the no-common-root-type pruning, on what the settle loop hands to it
   (no OR directly under an OR) and on validated nodes (what its recursive calls see) *)
Theorem dnf_sound : forall obj otype H fuel e e' ch,
    flatb e = true -> cdnf fuel e = Ok (e', ch) -> forall x, csem obj otype H e' x = csem obj otype H e x.
Proof. intros obj otype H fuel e e' ch F E. exact (proj1 (cdnf_flat obj otype H fuel e e' ch F E)). Qed.
Print Assumptions dnf_sound.

Theorem dnf_sound_validated : forall obj otype H fuel e e' ch,
    cleanb e = true -> cdnf fuel e = Ok (e', ch) -> forall x, csem obj otype H e' x = csem obj otype H e x.
Proof. intros obj otype H fuel e e' ch C E. exact (proj2 (cdnf_clean obj otype H fuel e e' ch C E)). Qed.
Print Assumptions dnf_sound_validated.

Theorem settle_establishes_flat : forall fuel e e' ch, csettle fuel e = Ok (e', ch) -> flatb e' = true.
Proof. exact flat_csettle. Qed.
Print Assumptions settle_establishes_flat.

(* special values: registry-key strings up to case, hex text up to the case of its digits, IPv4
   address / CIDR strings as the network they denote (ipv4_canon_preserves_network below), never the
   regular expression of MATCHES; IPv6 strings under the hypothesis respects_cidr6 (see Spec) *)
Theorem special_sound : forall obj otype H, respects_cidr6 obj H ->
    forall v a a' x, safe_atom v a = true -> special_atom v a = Ok a' -> asem obj otype H a' x = asem obj otype H a x.
Proof. exact special_atom_sound. Qed.
Print Assumptions special_sound.

(* the canonical text of an IPv4 address / CIDR string (inet_aton, _mask_bytes, inet_ntoa, str(prefix))
   denotes the same network as the original text: same 32-bit address after clearing the host bits
   arithmetically, same prefix length *)
Theorem ipv4_canon_preserves_network : forall s s', ip_canon false s = CanonTo s' -> ipv4_net_of s' = ipv4_net_of s.
Proof. exact ip4_canon_preserves_net. Qed.
Print Assumptions ipv4_canon_preserves_network.

Theorem ipv4_roundtrip : forall b0 b1 b2 b3,
    (b0 < 256)%N -> (b1 < 256)%N -> (b2 < 256)%N -> (b3 < 256)%N ->
    inet_aton (inet_ntoa [b0; b1; b2; b3]) = AtonOk [b0; b1; b2; b3].
Proof. exact aton_ntoa. Qed.
Print Assumptions ipv4_roundtrip.

Theorem ipv4_mask_is_arithmetic : forall n b0 b1 b2 b3,
    (0 <= n < 32)%Z -> (b0 < 256)%N -> (b1 < 256)%N -> (b2 < 256)%N -> (b3 < 256)%N ->
    addr4 (mask_bytes [b0; b1; b2; b3] n) = (addr4 [b0; b1; b2; b3] / 2 ^ Z.to_N (32 - n) * 2 ^ Z.to_N (32 - n))%N.
Proof. exact mask_addr. Qed.
Print Assumptions ipv4_mask_is_arithmetic.

Theorem repaired_variant_is_safe : forall p, safe_o repaired p = true.
Proof. exact safe_o_repaired. Qed.
Print Assumptions repaired_variant_is_safe.

(* the whole comparison-level normaliser *)
Theorem comparison_normalize_sound : forall obj otype H, respects_denotation obj H -> respects_cidr6 obj H ->
    forall v fuel e0 e ch, safe_c v e0 = true -> cnormalize v fuel e0 = Ok (e, ch) ->
                           forall x, csem obj otype H e x = csem0 obj otype H e0 x.
Proof. exact cnormalize_sound. Qed.
Print Assumptions comparison_normalize_sound.

(* ---- soundness, observation expressions (binding semantics of Appendix A.5): for every
        interpretation H and EVERY sequence of observations O ---- *)

(* comparator-equal observation expressions produce exactly the same bindings *)
Theorem cmp_eq_sound_obs : forall obj otype H, respects_denotation obj H ->
    forall O a b, ocmp a b = Eq -> forall bb, B obj otype H O a bb <-> B obj otype H O b bb.
Proof. intros obj otype H Hd O a b E. exact (ocmp_Beq obj otype H Hd O a b E). Qed.
Print Assumptions cmp_eq_sound_obs.

(* mutual refinement implies the same matches *)
Theorem refinement_preserves_matches : forall obj otype H O a b,
    oequiv obj otype H O a b -> (matches obj otype H O a <-> matches obj otype H O b).
Proof. exact oequiv_matches. Qed.
Print Assumptions refinement_preserves_matches.

Theorem flatten_sound_obs : forall obj otype H O e bb,
    B obj otype H O (fst (oflatten e)) bb <-> B obj otype H O e bb.
Proof. intros obj otype H O e. exact (oflatten_sound obj otype H O e). Qed.
Print Assumptions flatten_sound_obs.

Theorem order_dedupe_sound_obs : forall obj otype H, respects_denotation obj H ->
    forall O e, oequiv obj otype H O (fst (oorder e)) e.
Proof. exact oorder_sound. Qed.
Print Assumptions order_dedupe_sound_obs.

(* absorption: A or (A and B), A or (A followedby B), A or (B followedby A), and their flattened forms
   (distinct operands for AND, a sub-sequence for FOLLOWEDBY); an absorbing operand may itself be absorbed *)
Theorem absorb_sound_obs : forall obj otype H, respects_denotation obj H ->
    forall O e, oequiv obj otype H O (fst (oabsorb e)) e.
Proof. exact oabsorb_sound. Qed.
Print Assumptions absorb_sound_obs.

(* distribution of AND and FOLLOWEDBY over OR keeps the bindings exactly *)
Theorem dnf_sound_obs : forall obj otype H O f e e' ch,
    odnf f e = Ok (e', ch) -> forall bb, B obj otype H O e' bb <-> B obj otype H O e bb.
Proof. intros obj otype H O f e e' ch E. exact (odnf_sound obj otype H O f e e' ch E). Qed.
Print Assumptions dnf_sound_obs.

Theorem normalize_sound : forall obj otype H, respects_denotation obj H -> respects_cidr6 obj H ->
    forall O v fuel p n, safe_o v p = true -> onormalize v fuel p = Ok n ->
                         oequiv obj otype H O n (unparen_o p).
Proof. exact onormalize_sound. Qed.
Print Assumptions normalize_sound.

(* THE soundness theorem: patterns reported equivalent match exactly the same observation sequences *)
Theorem equiv_sound : forall obj otype H, respects_denotation obj H -> respects_cidr6 obj H ->
    forall O v fuel p q, safe_o v p = true -> safe_o v q = true -> equiv v fuel p q = Ok true ->
                         (matches0 obj otype H O p <-> matches0 obj otype H O q).
Proof. exact PatternEqO.equiv_sound. Qed.
Print Assumptions equiv_sound.

(* for the repaired special-value pass there is no side condition on the patterns *)
Theorem equiv_sound_repaired : forall obj otype H, respects_denotation obj H -> respects_cidr6 obj H ->
    forall O fuel p q, equiv repaired fuel p q = Ok true -> (matches0 obj otype H O p <-> matches0 obj otype H O q).
Proof.
  intros obj otype H Hd Hc O fuel p q E.
  exact (PatternEqO.equiv_sound obj otype H Hd Hc O repaired fuel p q (safe_o_repaired p) (safe_o_repaired q) E).
Qed.
Print Assumptions equiv_sound_repaired.

(* ---- the documented rewrites are recognised.

   (a) THROUGH THE WHOLE PIPELINE, for arbitrary sub-expressions as operands: commutativity, associativity and
       idempotence (and parentheses), at both levels.  The rule instances are the relations crule / orule of
       Spec/PatternRules.v, on the parsed pattern; whenever `equiv` answers on an instance the answer is true, and
       for constructor-valid patterns it does answer.  Proof: one round of flatten/order/absorb maps the two
       sides to comparator-equal trees (sort-and-dedupe is canonical for a set of operands, PatternEqSort.
       sortdedupe_set), a settle loop may be entered one round later, and every later pass respects
       comparator-equality including its `changed` flag (PatternEqCong.v, PatternEqCongO.v).  Instances are at
       the root of an expression (a comparison-level instance: at the root of a comparison expression, inside
       any observation context); chains of instances follow by equiv_trans, the converse direction by
       equiv_sym.  An instance strictly inside a larger expression of the same level is checked per run by the
       oracle `recognise` only.

   (b) PER PASS, plus the per-run oracle: absorption and distribution.  The whole-pipeline statement for
       absorption,

         forall v fuel a b r,  equiv v fuel a (OOr0 [a; OAnd0 [a; b]]) = Ok r  ->  r = true
         (and the same with OFby0 [a; b], OFby0 [b; a]),

       is FALSE on the current code: AbsorptionTransformer skips a qualified first operand (known finding
       C09-absorption-qualified-operand), e.g. a = [a:x = 1] REPEATS 2 TIMES, b = [c:z = 3] is answered False
       (absorption_not_recognised_full below; with a unqualified the same pair is answered True).  For
       distribution,

         forall v fuel a b c r,  equiv v fuel (OAnd0 [a; OOr0 [b; c]]) (OOr0 [OAnd0 [a; b]; OAnd0 [a; c]]) = Ok r  ->  r = true,

       no counterexample is known, but a proof needs the DNF pass to commute with the settle loops up to
       comparator-equality (absorption inside the distributed operands happens before the DNF on one side and
       after it on the other, and is itself not uniform, see above); it is not claimed.  Both are stated for the
       pass responsible (recognises_absorption_*, recognises_distribution) and checked on generated instances
       in every run.

   For patterns made of one comparison the remaining rewrites (set order, numeric equality) are stated through
   the whole pipeline as well (recognises_*_full at the end of this section). ---- *)

Theorem recognises_rules_comparison_full : forall v fuel c c' n n' ch ch',
    crule c c' -> cnormalize v fuel c = Ok (n, ch) -> cnormalize v fuel c' = Ok (n', ch') -> ccmp n n' = Eq.
Proof. intros v fuel c c' n n' ch ch' HR. exact (crule_sound v fuel c c' HR n n' ch ch'). Qed.
Print Assumptions recognises_rules_comparison_full.

Theorem recognises_rules_full : forall v fuel p q b, orule p q -> equiv v fuel p q = Ok b -> b = true.
Proof. exact orule_recognised. Qed.
Print Assumptions recognises_rules_full.

Theorem recognises_rules_full_total : forall p q,
    orule p q -> valid_o p = true -> valid_o q = true -> exists fuel, forall k, equiv repaired (fuel + k) p q = Ok true.
Proof. exact orule_recognised_total. Qed.
Print Assumptions recognises_rules_full_total.

(* the relations are inhabited at every constructor; two instances computed outright *)
Example recognises_rules_instance_commutativity :
  orule (OAnd0 [w_abs_A; w_abs_B]) (OAnd0 [w_abs_B; w_abs_A]) /\ equiv repaired 8 (OAnd0 [w_abs_A; w_abs_B]) (OAnd0 [w_abs_B; w_abs_A]) = Ok true.
Proof. split; [apply or_and_comm; apply Permutation.perm_swap | vm_compute; reflexivity]. Qed.

Theorem absorption_not_recognised_full :
  exists a b, equiv repaired 8 a (OOr0 [a; OAnd0 [a; b]]) = Ok false.
Proof. exists w_abs_A, w_abs_B. exact absorption_qualified_whole_pipeline. Qed.
Print Assumptions absorption_not_recognised_full.

Theorem recognises_commutativity_comparison : forall o l l',
    Permutation.Permutation l l' -> ccmp (fst (corder_node o l)) (fst (corder_node o l')) = Eq.
Proof. exact recognises_commute_c. Qed.
Print Assumptions recognises_commutativity_comparison.

Theorem recognises_commutativity_and : forall l l',
    Permutation.Permutation l l' -> ocmp (fst (oorder_node OpAnd l)) (fst (oorder_node OpAnd l')) = Eq.
Proof. exact recognises_commute_o_and. Qed.
Print Assumptions recognises_commutativity_and.

Theorem recognises_commutativity_or : forall l l',
    Permutation.Permutation l l' -> ocmp (fst (oorder_node OpOr l)) (fst (oorder_node OpOr l')) = Eq.
Proof. exact recognises_commute_o_or. Qed.
Print Assumptions recognises_commutativity_or.

Theorem recognises_associativity_comparison : forall o xs r,
    fst (cflatten_ops o (mkb o xs :: r)) = (xs ++ fst (cflatten_ops o r))%list.
Proof. exact recognises_associate_c. Qed.
Print Assumptions recognises_associativity_comparison.

Theorem recognises_associativity_observation : forall o xs r,
    fst (oflatten_ops o (mko o xs :: r)) = (xs ++ fst (oflatten_ops o r))%list.
Proof. exact recognises_associate_o. Qed.
Print Assumptions recognises_associativity_observation.

Theorem recognises_idempotence_comparison : forall o a a', ccmp a a' = Eq -> fst (corder_node o [a; a']) = mkb o [a].
Proof. exact recognises_idempotent_c. Qed.
Print Assumptions recognises_idempotence_comparison.

Theorem recognises_idempotence_or : forall a a', ocmp a a' = Eq -> fst (oorder_node OpOr [a; a']) = OOr [a].
Proof. exact recognises_idempotent_o_or. Qed.
Print Assumptions recognises_idempotence_or.

Theorem recognises_absorption_comparison : forall o a b,
    cabsorb_node o [a; mkb (other_op o) [a; b]] = (mkb o [a], true).
Proof. exact recognises_absorb_c. Qed.
Print Assumptions recognises_absorption_comparison.

Theorem recognises_absorption_and : forall a b, is_oqual a = false -> oabsorb_node [a; OAnd [a; b]] = (OOr [a], true).
Proof. exact recognises_absorb_o_and. Qed.
Print Assumptions recognises_absorption_and.

Theorem recognises_absorption_followedby : forall a b, is_oqual a = false ->
    oabsorb_node [a; OFby [a; b]] = (OOr [a], true) /\ oabsorb_node [a; OFby [b; a]] = (OOr [a], true).
Proof. intros a b Hq. split; [apply recognises_absorb_o_fby_left | apply recognises_absorb_o_fby_right]; exact Hq. Qed.
Print Assumptions recognises_absorption_followedby.

(* the code's restriction (known finding C09-absorption-qualified-operand) *)
Theorem absorption_qualified_not_recognised : forall e q b,
    oabsorb_node [OQual e q; OAnd [OQual e q; b]] = (OOr [OQual e q; OAnd [OQual e q; b]], false).
Proof. exact absorption_skips_qualified. Qed.
Print Assumptions absorption_qualified_not_recognised.

Theorem recognises_distribution : forall f a b c,
    odnf (S (S (S f))) (OAnd [Obs a; OOr [Obs b; Obs c]]) = Ok (OOr [OAnd [Obs a; Obs b]; OAnd [Obs a; Obs c]], true) /\
    odnf (S (S (S f))) (OFby [Obs a; OOr [Obs b; Obs c]]) = Ok (OOr [OFby [Obs a; Obs b]; OFby [Obs a; Obs c]], true) /\
    odnf (S (S (S f))) (OFby [OOr [Obs a; Obs b]; Obs c]) = Ok (OOr [OFby [Obs a; Obs c]; OFby [Obs b; Obs c]], true).
Proof. intros. repeat split. Qed.
Print Assumptions recognises_distribution.

Theorem recognises_set_order : forall l1 l2, Permutation.Permutation l1 l2 -> const_cmp (KList l1) (KList l2) = Eq.
Proof. exact PatternEqRecog.recognises_set_order. Qed.
Print Assumptions recognises_set_order.

Theorem recognises_numeric_equality : forall z e,
    prim_cmp (PInt z) (PFloat (z * 10 ^ Z.of_N e) e) = Eq /\ forall m, prim_cmp (PFloat m e) (PFloat (m * 10) (e + 1)) = Eq.
Proof. intros z e. split; [apply recognises_int_float | intro m; apply recognises_trailing_zero]. Qed.
Print Assumptions recognises_numeric_equality.

Theorem recognises_set_order_full : forall v fuel t p o n l1 l2,
    special_kind t p = SpNone -> Permutation.Permutation l1 l2 ->
    equiv v (S fuel) (Obs0 (Atom0 (mkAtom t p o n (KList l1)))) (Obs0 (Atom0 (mkAtom t p o n (KList l2)))) = Ok true.
Proof. exact PatternEqRecog.recognises_set_order_full. Qed.
Print Assumptions recognises_set_order_full.

Theorem recognises_numeric_full : forall v fuel t p o n z e,
    special_kind t p = SpNone ->
    equiv v (S fuel) (Obs0 (Atom0 (mkAtom t p o n (KP (PInt z)))))
          (Obs0 (Atom0 (mkAtom t p o n (KP (PFloat (z * 10 ^ Z.of_N e) e))))) = Ok true.
Proof. exact PatternEqRecog.recognises_numeric_full. Qed.
Print Assumptions recognises_numeric_full.

(* ---- the defective variants of the special-value pass (what /repo does at the pinned commit) ---- *)

(* never fails: refuted for the pinned variant on [ipv4-addr:value = 5], holds there for the repaired one *)
Theorem never_raises_pinned_refuted : exists p, equiv pinned 8 p p = Err EAttribute.
Proof. exists w_ip_int. exact pinned_raises. Qed.
Print Assumptions never_raises_pinned_refuted.

Theorem never_raises_repaired_witness : equiv repaired 8 w_ip_int w_ip_int = Ok true.
Proof. exact repaired_answers. Qed.
Print Assumptions never_raises_repaired_witness.

(* never fails, repaired variant, ARBITRARY object models (also ones the constructors would reject):
   the only failures of the repaired model are fuel exhaustion and the
   AttributeError of DNF on an AND all of whose distributed sets were pruned (never ValueError /
   TypeError / the AttributeErrors of the special-value pass); the harness counts fuel exhaustions
   (none at fuel 64 on any generated pattern). *)
Theorem equiv_never_raises_partial : forall fuel p q e,
    equiv repaired fuel p q = Err e -> e = EFuel \/ e = EAttribute.
Proof. exact equiv_repaired_err. Qed.
Print Assumptions equiv_never_raises_partial.

(* never fails, repaired variant, on patterns the object model's constructors accept (valid_o: every
   [ ... ] holds a comparison expression whose duplication succeeds with a non-empty set of root types,
   which is what the parser builds since 749b4c8 maintains root_types).
   (a) "If the original AND node was legal, it is guaranteed that there will be at least one legal
       distributed AND node" (DNFTransformer.transform_and): proved, so the AttributeError is excluded.
   (b) Termination: a settle round never grows the expression, a round that changes it either shrinks it
       or only reorders operands, and a sorted tree is a fixed point of flatten/order/absorb
       (<= 2*size+2 rounds); the comparison-level DNF recursion decreases the OR-nesting depth, the
       observation-level one the OR-nesting depth between qualifiers; results other than fuel
       exhaustion do not depend on the amount of fuel.
   Together: equiv_never_raises, with no proviso left. *)
Theorem dnf_never_fails_on_valid : forall fuel e,
    valid e -> match cdnf fuel e with Ok (e', _) => valid e' | Err x => x = EFuel end.
Proof. exact cdnf_valid. Qed.
Print Assumptions dnf_never_fails_on_valid.

Theorem equiv_never_raises_up_to_fuel : forall fuel p q e,
    valid_o p = true -> valid_o q = true -> equiv repaired fuel p q = Err e -> e = EFuel.
Proof. exact equiv_valid_err. Qed.
Print Assumptions equiv_never_raises_up_to_fuel.

Theorem settle_terminates_comparison : forall e, exists fuel r, csettle fuel e = Ok r.
Proof. exact csettle_terminates. Qed.
Print Assumptions settle_terminates_comparison.

Theorem settle_terminates_observation : forall e, exists fuel r, osettle fuel e = Ok r.
Proof. exact osettle_terminates. Qed.
Print Assumptions settle_terminates_observation.

Theorem dnf_terminates_comparison : forall e, exists fuel, cdnf fuel e <> Err EFuel.
Proof. exact cdnf_terminates. Qed.
Print Assumptions dnf_terminates_comparison.

Theorem dnf_terminates_observation : forall e, exists fuel r, odnf fuel e = Ok r.
Proof. exact odnf_terminates. Qed.
Print Assumptions dnf_terminates_observation.

Theorem equiv_fuel_independent : forall v fuel k p q b, equiv v fuel p q = Ok b -> equiv v (fuel + k) p q = Ok b.
Proof. exact PatternEqTermDnf.equiv_fuel_independent. Qed.
Print Assumptions equiv_fuel_independent.

(* THE totality theorem *)
Theorem equiv_never_raises : forall p q,
    valid_o p = true -> valid_o q = true -> exists fuel b, forall k, equiv repaired (fuel + k) p q = Ok b.
Proof. exact equiv_never_raises_valid. Qed.
Print Assumptions equiv_never_raises.

Example valid_o_satisfiable : valid_o w_bin_upper = true.
Proof. vm_compute. reflexivity. Qed.

(* sound: refuted for the pinned variant (the side condition safe_o of equiv_sound cannot be dropped):
   base64 text lower-cased on a registry-key path, regular expression lower-cased *)
Theorem equiv_sound_pinned_refuted_binary :
  exists p q obj otype H O,
    respects_denotation obj H /\ respects_cidr6 obj H /\ equiv pinned 8 p q = Ok true /\
    matches0 obj otype H O p /\ ~ matches0 obj otype H O q.
Proof.
  exists w_bin_upper, w_bin_lower, unit, regkey_type, (H_bin [65; 66; 67]%N), one_key_object.
  split; [apply H_bin_respects | split; [apply H_bin_cidr | split; [exact pinned_bin_equiv | exact bin_patterns_differ]]].
Qed.
Print Assumptions equiv_sound_pinned_refuted_binary.

Theorem equiv_sound_pinned_refuted_regex :
  exists p q obj otype H O,
    respects_denotation obj H /\ respects_cidr6 obj H /\ equiv pinned 8 p q = Ok true /\
    matches0 obj otype H O p /\ ~ matches0 obj otype H O q.
Proof.
  exists w_re_upper, w_re_lower, unit, regkey_type, (H_str (u "\\D")), one_key_object.
  split; [apply H_str_respects | split; [apply H_str_cidr | split; [exact pinned_regex_equiv | exact regex_patterns_differ]]].
Qed.
Print Assumptions equiv_sound_pinned_refuted_regex.

Theorem equiv_sound_pinned_refuted_ip_regex :
  exists p q obj otype H O,
    respects_denotation obj H /\ respects_cidr6 obj H /\ equiv pinned 8 p q = Ok true /\
    matches0 obj otype H O p /\ ~ matches0 obj otype H O q.
Proof.
  exists w_ipre_a, w_ipre_b, unit, ip4_type, (H_str (u "10.0.0.1/8")), one_key_object.
  split; [apply H_str_respects | split; [apply H_str_cidr | split; [exact pinned_ipregex_equiv | exact ipregex_patterns_differ]]].
Qed.
Print Assumptions equiv_sound_pinned_refuted_ip_regex.

(* the hypotheses of the soundness theorems are satisfiable by interpretations that do look at the constant *)
Example respects_denotation_satisfiable : respects_denotation unit (H_bin [65; 66; 67]%N).
Proof. apply H_bin_respects. Qed.
Example respects_cidr6_satisfiable : respects_cidr6 unit (H_bin [65; 66; 67]%N).
Proof. apply H_bin_cidr. Qed.
(* ... and by one that looks at STRING constants (the kind respects_cidr6 is about) *)
Example respects_denotation_satisfiable_str : respects_denotation unit (H_str (u "10.0.0.0/8")).
Proof. apply H_str_respects. Qed.
Example respects_cidr6_satisfiable_str : respects_cidr6 unit (H_str (u "2001:db8::/32")).
Proof. apply H_str_cidr. Qed.

(* ---- the SHARED TRUSTED BASE of Spec/PatternSemantics.v and Model/PatternEq.v: the helper functions from which
        the denotation of a constant is built are defined in the model file and used on both sides, so the soundness
        theorems cannot see an error in them.  Anchors on known vectors (kernel-evaluated): RFC 4648 section 10 for
        base64; hex; the address forms glibc inet_aton accepts (decimal, octal, hexadecimal parts, 1-4 parts, trailing
        white space) and rejects; inet_ntoa; int(); CIDR masking and the canonical IPv4 / IPv6 texts; the special
        paths.  The correspondence run exercises the same helpers against the running implementation. ---- *)
Example anchor_base64_rfc4648 :
  map b64_decode [u ""; u "Zg=="; u "Zm8="; u "Zm9v"; u "Zm9vYg=="; u "Zm9vYmE="; u "Zm9vYmFy"] =
  map u [""; "f"; "fo"; "foo"; "foob"; "fooba"; "foobar"]%string.
Proof. vm_compute. reflexivity. Qed.
Example anchor_hex :
  hex_decode (u "deadBEEF") = [222; 173; 190; 239]%N /\ hex_decode (u "00ff") = [0; 255]%N /\ hex_decode (u "") = [].
Proof. vm_compute. repeat split. Qed.
Example anchor_inet_aton :
  inet_aton (u "10.0.0.1") = AtonOk [10; 0; 0; 1]%N /\ inet_aton (u "1.2.3.004") = AtonOk [1; 2; 3; 4]%N /\
  inet_aton (u "010.0.0.1") = AtonOk [8; 0; 0; 1]%N /\ inet_aton (u "0x7f.1") = AtonOk [127; 0; 0; 1]%N /\
  inet_aton (u "127.1") = AtonOk [127; 0; 0; 1]%N /\ inet_aton (u "1.2.3.4 x") = AtonOk [1; 2; 3; 4]%N /\
  inet_aton (u "1.2.3.4x") = AtonFail /\ inet_aton (u "1.2.3.4.5") = AtonFail /\ inet_aton (u "256.1.1.1") = AtonFail.
Proof. vm_compute. repeat split. Qed.
Example anchor_inet_ntoa_int : inet_ntoa [10; 0; 0; 1]%N = u "10.0.0.1" /\
  py_int (u " 24 ") = Some 24%Z /\ py_int (u "+8") = Some 8%Z /\ py_int (u "1_0") = Some 10%Z /\ py_int (u "2 4") = None /\ py_int (u "0x10") = None /\
  find_cp 47%N (u "a/b/c") = Some (u "a", u "b/c").
Proof. vm_compute. repeat split. Qed.
Example anchor_ipv4_canonical :
  ip_canon false (u "10.9.9.9/8") = CanonTo (u "10.0.0.0/8") /\ ip_canon false (u "10.1.2.3/12") = CanonTo (u "10.0.0.0/12") /\
  ip_canon false (u "1.2.3.4/32") = CanonTo (u "1.2.3.4") /\ ip_canon false (u "1.2.3.004") = CanonTo (u "1.2.3.4") /\
  ip_canon false (u "1.2.3.4/33") = CanonKeep.
Proof. vm_compute. repeat split. Qed.
Example anchor_ipv6_canonical :
  inet_pton6 (u "2001:db8::1") = PtonOk [32; 1; 13; 184; 0; 0; 0; 0; 0; 0; 0; 0; 0; 0; 0; 1]%N /\
  inet_pton6 (u "1::2::3") = PtonFail /\
  ip_canon true (u "2001:DB8:0:0::1/32") = CanonTo (u "2001:db8::/32") /\
  ip_canon true (u "::FFFF:1.2.3.4") = CanonTo (u "::ffff:1.2.3.4") /\
  ip_canon true (u "1:0:0:2:0:0:0:3") = CanonTo (u "1:0:0:2::3").
Proof. vm_compute. repeat split. Qed.
Example anchor_special_paths :
  special_kind (u "ipv4-addr") [SKey (u "value")] = SpIp false /\ special_kind (u "ipv6-addr") [SKey (u "value")] = SpIp true /\
  special_kind (u "windows-registry-key") [SKey (u "key")] = SpReg /\
  special_kind (u "windows-registry-key") [SKey (u "values"); SIdx 0; SKey (u "name")] = SpReg /\
  special_kind (u "file") [SKey (u "name")] = SpNone /\ special_kind (u "ipv4-addr") [SKey (u "value"); SKey (u "x")] = SpNone /\
  is_matches OpMatches = true /\ is_matches OpLike = false.
Proof. vm_compute. repeat split. Qed.

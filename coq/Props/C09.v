(* Props/C09.v -- pattern equivalence is a total, sound equivalence relation
   (DESIGN.md 6/C09, Appendix A.5).  Model: Model/PatternEq.v; specification:
   Spec/PatternSemantics.v; proofs: Proofs/PatternEq*.v.                   *)
From Coq Require Import NArith ZArith List Bool String.
From V Require Import Base.UString Model.PatternEq Spec.PatternSemantics
     Proofs.PatternEqCmp Proofs.PatternEqLists Proofs.PatternEqC Proofs.PatternEqDnf Proofs.PatternEqNorm
     Proofs.PatternEqTop.
Import ListNotations.

(* ---- the comparators are lawful (reflexive, antisymmetric, transitive as a total preorder) ---- *)

Theorem constant_cmp_lawful : lawful const_cmp.
Proof. exact const_cmp_lawful. Qed.
Print Assumptions constant_cmp_lawful.

Theorem comparison_expression_cmp_lawful : lawful ccmp.
Proof. exact ccmp_lawful. Qed.
Print Assumptions comparison_expression_cmp_lawful.

Theorem observation_expression_cmp_lawful : lawful ocmp.
Proof. exact ocmp_lawful. Qed.
Print Assumptions observation_expression_cmp_lawful.

(* ---- hence the reported relation is an equivalence relation on the patterns that normalise ---- *)

Theorem equiv_refl : forall v fuel p n, onormalize v fuel p = Ok n -> equiv v fuel p p = Ok true.
Proof. exact PatternEqTop.equiv_refl. Qed.
Print Assumptions equiv_refl.

Theorem equiv_sym : forall v fuel p q b, equiv v fuel p q = Ok b -> equiv v fuel q p = Ok b.
Proof. exact PatternEqTop.equiv_sym. Qed.
Print Assumptions equiv_sym.

Theorem equiv_trans : forall v fuel p q r,
    equiv v fuel p q = Ok true -> equiv v fuel q r = Ok true -> equiv v fuel p r = Ok true.
Proof. exact PatternEqTop.equiv_trans. Qed.
Print Assumptions equiv_trans.

Theorem equiv_trans_false : forall v fuel p q r,
    equiv v fuel p q = Ok true -> equiv v fuel q r = Ok false -> equiv v fuel p r = Ok false.
Proof. exact PatternEqTop.equiv_trans_false. Qed.
Print Assumptions equiv_trans_false.

(* totality relative to normalisation (and to fuel: see equiv_never_raises below) *)
Theorem equiv_total : forall v fuel p q,
    (exists b, equiv v fuel p q = Ok b) <-> (exists n1 n2, onormalize v fuel p = Ok n1 /\ onormalize v fuel q = Ok n2).
Proof. exact PatternEqTop.equiv_total. Qed.
Print Assumptions equiv_total.

(* ---- searching a collection returns exactly the members pairwise equivalent to the query ---- *)

Theorem find_is_filter : forall v fuel p ps l,
    find_equiv v fuel p ps = Ok l ->
    l = map fst (filter (fun iq => reported v fuel p (snd iq)) (combine (seq 0 (List.length ps)) ps)).
Proof. exact PatternEqTop.find_is_filter. Qed.
Print Assumptions find_is_filter.

Theorem find_total : forall v fuel p ps n,
    onormalize v fuel p = Ok n -> Forall (fun q => exists nq, onormalize v fuel q = Ok nq) ps ->
    exists l, find_equiv v fuel p ps = Ok l.
Proof. exact PatternEqTop.find_total. Qed.
Print Assumptions find_total.

(* ---- soundness, comparison expressions: for EVERY interpretation H of the atoms that sees a
        constant through its value, comparator-equal expressions mean the same and every pass of
        the normaliser preserves the meaning ---- *)

Theorem cmp_eq_sound : forall obj otype H, respects_denotation obj H ->
    forall a b, ccmp a b = Eq -> forall x, csem obj otype H a x = csem obj otype H b x.
Proof. exact ccmp_sem. Qed.
Print Assumptions cmp_eq_sound.

Theorem flatten_sound : forall obj otype H e x, csem obj otype H (fst (cflatten e)) x = csem obj otype H e x.
Proof. exact cflatten_sound. Qed.
Print Assumptions flatten_sound.

Theorem order_dedupe_sound : forall obj otype H, respects_denotation obj H ->
    forall e x, csem obj otype H (fst (corder e)) x = csem obj otype H e x.
Proof. exact corder_sound. Qed.
Print Assumptions order_dedupe_sound.

Theorem absorb_sound : forall obj otype H, respects_denotation obj H ->
    forall e x, csem obj otype H (fst (cabsorb e)) x = csem obj otype H e x.
Proof. exact cabsorb_sound. Qed.
Print Assumptions absorb_sound.

(* DNF with the no-common-root-type pruning, on what the settle loop hands to it
   (no OR directly under an OR) and on validated nodes (what its recursive calls see) *)
Theorem dnf_sound : forall obj otype H fuel e e' ch,
    flatb e = true -> cdnf fuel e = Ok (e', ch) -> forall x, csem obj otype H e' x = csem obj otype H e x.
Proof. intros obj otype H fuel e e' ch F E. exact (proj1 (cdnf_flat obj otype H fuel e e' ch F E)). Qed.
Print Assumptions dnf_sound.

Theorem dnf_sound_validated : forall obj otype H fuel e e' ch,
    cleanb e = true -> cdnf fuel e = Ok (e', ch) -> forall x, csem obj otype H e' x = csem obj otype H e x.
Proof. intros obj otype H fuel e e' ch C E. exact (proj2 (cdnf_clean obj otype H fuel e e' ch C E)). Qed.
Print Assumptions dnf_sound_validated.

Theorem settle_establishes_flat : forall fuel e e' ch, csettle fuel e = Ok (e', ch) -> flatb e' = true.
Proof. exact flat_csettle. Qed.
Print Assumptions settle_establishes_flat.

(* special values: registry-key strings up to case (not the regular expression of MATCHES), hex text
   up to the case of its digits; address strings under respects_cidr (see Spec) *)
Theorem special_sound : forall obj otype H, respects_cidr obj H ->
    forall v a a' x, safe_atom v a = true -> special_atom v a = Ok a' -> asem obj otype H a' x = asem obj otype H a x.
Proof. exact special_atom_sound. Qed.
Print Assumptions special_sound.

Theorem repaired_variant_is_safe : forall p, safe_o repaired p = true.
Proof. exact safe_o_repaired. Qed.
Print Assumptions repaired_variant_is_safe.

(* the whole comparison-level normaliser *)
Theorem comparison_normalize_sound : forall obj otype H, respects_denotation obj H -> respects_cidr obj H ->
    forall v fuel e0 e ch, safe_c v e0 = true -> cnormalize v fuel e0 = Ok (e, ch) ->
                           forall x, csem obj otype H e x = csem0 obj otype H e0 x.
Proof. exact cnormalize_sound. Qed.
Print Assumptions comparison_normalize_sound.

(* Proofs/SchemaCompCons.v -- C03, the co-constraints in the reverse direction: when the specification's
   constraints hold of the given members, the library's constraint methods accept the stored
   properties.  Stored and given values are related by Proofs/SchemaCompObject.v:ent_ok; a property
   named by a constraint must have no default (so that it is stored exactly when it is given).      *)
From Coq Require Import NArith ZArith List String Bool Lia.
From V Require Import Base.UString Base.Json Model.SchemaTypes Model.PyBase Model.Schema
     Spec.StixValid Spec.SchemaRefine Proofs.SchemaBasics Proofs.SchemaScope Proofs.SchemaObject Proofs.SchemaProved
     Proofs.SchemaConstr Proofs.SchemaComplete Proofs.SchemaCompKinds Proofs.SchemaCompObject
     Proofs.SchemaCovProved Proofs.SchemaCovInv Proofs.SchemaCovInv2.
Import ListNotations.

Local Arguments u : simpl never.

(* ---------- table conditions ---------- *)
Definition nodefault (c : cls) (p : ustring) : bool :=
  match find_slot c p with Some s => match sdef s with DNone => true | _ => false end | None => true end.

Definition truthy_kind_ok (k : pkind) : bool :=
  match k with
  | KTime _ _ | KList _ => true
  | KFloat _ _ => false
  | _ => pj_kind k
  end.

Fixpoint cond_complete_ok (c : cls) (q : ccond) : bool :=
  match q with
  | QTruthy p => nodefault c p && match find_slot c p with Some s => truthy_kind_ok (skind s) | None => true end
  | QIsTrue p | QIsNotFalse p | QIsNotNone p | QHas p => nodefault c p
  | QLt a b | QLe a b => nodefault c a && nodefault c b && time_slot c a && time_slot c b
  | QAnd a b | QOr a b => cond_complete_ok c a && cond_complete_ok c b
  | QNot a => cond_complete_ok c a
  end.

Fixpoint constr_complete_ok (c sc : cls) (k : constr) {struct k} : bool :=
  match k with
  | CSkipBaseCheck | CAtLeastOne _ => true
  | CAtLeastOneDefault => match s_default_checked sc with [] => match default_checked c with [] => true | _ => false end | _ => true end
  | CMutEx ps => forallb (nodefault c) ps
  | CDepends ps ds => forallb (nodefault c) ps && forallb (nodefault c) ds
  | CRaiseIf q _ => cond_complete_ok c q
  | CWhen q body =>
    cond_complete_ok c q &&
    (fix go (l : list constr) : bool := match l with [] => true | x :: r => constr_complete_ok c sc x && go r end) body
  (* 2.0 Indicator: the pattern is a plain string property *)
  | CPatternValidator V20 => match find_slot c (u "pattern") with Some s => is_stringy (skind s) | None => false end
  (* `hashes` is of a kind the theorem's inputs do not give (nested dictionary of hashes): never stored *)
  | CLegalHashes _ => nodefault c (u "hashes") &&
                      match find_slot c (u "hashes") with Some s => negb (kind_complete2 (skind s)) | None => true end
  | CSocketOptions => nodefault c (u "options") &&
                      match find_slot c (u "options") with Some s => match skind s with KDict _ => true | _ => false end | None => true end
  | CProcessExt => true
  | _ => false
  end.

Lemma cco_when c sc q body :
  constr_complete_ok c sc (CWhen q body) = true ->
  cond_complete_ok c q = true /\ forall x, In x body -> constr_complete_ok c sc x = true.
Proof.
  simpl. intros H. apply andb_true_iff in H. destruct H as [Hq Hb]. split; auto.
  induction body as [|y body IH]; intros x Hx; [destruct Hx|].
  apply andb_true_iff in Hb. destruct Hb as [Hy Hr]. destruct Hx as [<- | Hx]; auto.
Qed.

(* ---------- values ---------- *)
Lemma encode_true_JBool_inv x b : encode true x = JBool b -> x = PJ (JBool b).
Proof. destruct x; simpl; intros H; try discriminate. subst; auto. Qed.

Lemma jsame_bool k v x b : jsame k v (encode true x) -> (v = JBool b <-> x = PJ (JBool b)).
Proof.
  intros H. destruct k; cbn [jsame] in H;
    try (split; [intros ->; symmetry in H; apply encode_true_JBool_inv; exact H | intros ->; exact H]).
  - (* KFloat *) split; intros ->; simpl in H; try contradiction. destruct (jnum v); contradiction.
  - (* KTime *) split; intros ->; simpl in H; try contradiction. destruct v; contradiction.
  - (* KList *) split; intros ->; simpl in H; try contradiction. destruct v; contradiction.
Qed.

Lemma instant_nonempty s : instant_of_text s <> None -> s <> [].
Proof. intros H ->. apply H. reflexivity. Qed.

Lemma Forall2_nil_iff {A B} (R : A -> B -> Prop) l l' : Forall2 R l l' -> (l = [] <-> l' = []).
Proof. intros H. inversion H; subst; split; intros; auto; discriminate. Qed.

Section CompCons.
  Variable vr : variant.
  Variable ev : env.
  Variable pok : ver -> ustring -> bool.
  Variables c sc : cls.
  Variable mem : list (ustring * jvalue).
  Variable setting : list (ustring * pval).

  Hypothesis Hfam : cfamily c = cfamily sc.
  (* every specification property is a library property *)
  Hypothesis Hsub : forall s', In s' (cslots sc) -> exists s, find_slot c (sname s') = Some s.
  Hypothesis Hent : forall k x, alookup k setting = Some x -> ent_ok vr ev c sc mem k x.
  Hypothesis Hin : forall k v, alookup k mem = Some v -> amem k setting = true.
  Hypothesis HT : Itime c setting.
  (* every given member is a property of a covered kind *)
  Hypothesis Hcomp : forall k v, alookup k mem = Some v -> exists s, find_slot c k = Some s /\ kind_complete2 (skind s) = true.

  Lemma has_eq p : nodefault c p = true -> amem p setting = match alookup p mem with Some _ => true | None => false end.
  Proof.
    intros Hn. destruct (alookup p mem) as [v|] eqn:E; [eapply Hin; eauto|].
    destruct (amem p setting) eqn:Ea; auto. apply amem_alookup in Ea. destruct Ea as [x Hx].
    pose proof (Hent p x Hx) as He. unfold ent_ok in He. rewrite E in He. destruct He as [s [Hf [Hd _]]].
    unfold nodefault in Hn. rewrite Hf in Hn. destruct (sdef s); try discriminate. contradiction.
  Qed.

  Lemma jhas_alookup p : jhas p mem = match alookup p mem with Some _ => true | None => false end.
  Proof. unfold jhas, jget. rewrite jlookup_alookup. reflexivity. Qed.

  (* a given property and what is stored for it *)
  Lemma stored p v :
    alookup p mem = Some v ->
    exists x s s', alookup p setting = Some x /\ find_slot c p = Some s /\ find_slot sc p = Some s' /\
                   kind_accepts (skind s) (skind s') = true /\ jin_ok (skind s') v = true /\
                   jsame (skind s') v (encode true x) /\ shape_ok (skind s) x.
  Proof.
    intros Hv. pose proof (Hin p v Hv) as Ha. apply amem_alookup in Ha. destruct Ha as [x Hx].
    pose proof (Hent p x Hx) as He. unfold ent_ok in He. rewrite Hv in He.
    destruct He as (s & s' & A & B & C & D & E & F). exists x, s, s'. auto 10.
  Qed.

  Lemma absent p : nodefault c p = true -> alookup p mem = None -> alookup p setting = None.
  Proof.
    intros Hn E. pose proof (has_eq p Hn) as H. rewrite E in H. apply amem_false. exact H.
  Qed.

  Lemma truthy_same p v x s s' :
    find_slot c p = Some s -> truthy_kind_ok (skind s) = true ->
    kind_accepts (skind s) (skind s') = true -> jin_ok (skind s') v = true ->
    jsame (skind s') v (encode true x) -> shape_ok (skind s) x -> ptruthy x = truthy v.
  Proof.
    intros Hf Hk Ha Hi Hs Hsh.
    destruct (skind s) eqn:Ek; try discriminate Hk; destruct (skind s') eqn:Ek'; simpl in Ha; try discriminate Ha;
      cbn [jsame] in Hs; unfold shape_ok in Hsh;
      try (destruct (Hsh eq_refl) as [j ->]; simpl in Hs; subst; reflexivity).
    - (* KTime *)
      destruct Hsh as (us & txt & ->). simpl in Hs. destruct v; try contradiction. destruct Hs as [Hne _].
      simpl. destruct s0; [exfalso; apply Hne; reflexivity | reflexivity].
    - (* KList *)
      destruct Hsh as (res & ->). rewrite encode_PArr in Hs. destruct v; try contradiction.
      pose proof (Forall2_nil_iff _ _ _ Hs) as Hn. simpl. destruct l; destruct res; simpl in *; auto.
      + destruct Hn as [Hn _]. specialize (Hn eq_refl). discriminate.
      + destruct Hn as [_ Hn]. specialize (Hn eq_refl). discriminate.
  Qed.

  Lemma time_same p v i :
    time_slot c p = true -> alookup p mem = Some (JStr v) -> instant_of_text v = Some i ->
    time_of (pget p setting) = Some i.
  Proof.
    intros Ht Hv Hi. destruct (stored p _ Hv) as (x & s & s' & Hx & Hf & Hf' & Ha & Hj & Hs & Hsh).
    unfold time_slot in Ht. rewrite Hf in Ht. destruct (skind s) eqn:Ek; try discriminate Ht.
    destruct (skind s') eqn:Ek'; simpl in Ha; try discriminate Ha.
    destruct Hsh as (us & txt & ->). cbn [jsame encode] in Hs. destruct Hs as [_ Hs].
    destruct (find_slot_spec _ _ _ Hf) as [Hins Hname].
    assert (Htn : instant_of_text txt = Some us).
    { apply (HT s (PTime us txt) Hins); [rewrite Ek; reflexivity | rewrite Hname; exact Hx]. }
    unfold pget. rewrite Hx. simpl. rewrite Hi, Htn in Hs. injection Hs as ->. reflexivity.
  Qed.

  Lemma cond_complete : forall q r,
    cond_complete_ok c q = true -> jcond q mem = Some r -> eval_ccond q setting = Ok r.
  Proof.
    induction q; intros r Hc H; cbn [jcond] in H; cbn [eval_ccond cond_complete_ok] in *; unfold jget, pget in *;
      rewrite ?jlookup_alookup in H.
    - (* QTruthy *)
      apply andb_true_iff in Hc. destruct Hc as [Hn Hk]. injection H as <-. f_equal.
      destruct (alookup p mem) as [v|] eqn:Ev.
      + destruct (stored p v Ev) as (x & s & s' & Hx & Hf & Hf' & Ha & Hj & Hs & Hsh). rewrite Hx.
        rewrite Hf in Hk. eapply truthy_same; eauto.
      + rewrite (absent p Hn Ev). reflexivity.
    - (* QIsTrue *)
      injection H as <-. f_equal. destruct (alookup p mem) as [v|] eqn:Ev.
      + destruct (stored p v Ev) as (x & s & s' & Hx & _ & _ & _ & _ & Hs & _). rewrite Hx.
        pose proof (jsame_bool _ _ _ true Hs) as B.
        destruct x as [[| [|] | | | | |]| | | |]; destruct v as [| [|] | | | | |]; auto;
          try (destruct B as [B1 B2]; try (specialize (B1 eq_refl); discriminate); try (specialize (B2 eq_refl); discriminate)).
      + rewrite (absent p Hc Ev). reflexivity.
    - (* QIsNotFalse *)
      injection H as <-. f_equal. destruct (alookup p mem) as [v|] eqn:Ev.
      + destruct (stored p v Ev) as (x & s & s' & Hx & _ & _ & _ & _ & Hs & _). rewrite Hx.
        pose proof (jsame_bool _ _ _ false Hs) as B.
        destruct x as [[| [|] | | | | |]| | | |]; destruct v as [| [|] | | | | |]; auto;
          try (destruct B as [B1 B2]; try (specialize (B1 eq_refl); discriminate); try (specialize (B2 eq_refl); discriminate)).
      + rewrite (absent p Hc Ev). reflexivity.
    - (* QIsNotNone *) injection H as <-. f_equal. rewrite jhas_alookup. apply has_eq. auto.
    - (* QHas *) injection H as <-. f_equal. rewrite jhas_alookup. apply has_eq. auto.
    - (* QLt *)
      repeat (apply andb_true_iff in Hc; let X := fresh "T" in destruct Hc as [Hc X]).
      destruct (alookup a mem) as [[| | | |x| |]|] eqn:Ea; try discriminate. rewrite ?jlookup_alookup in H.
      destruct (alookup b mem) as [[| | | |y| |]|] eqn:Eb; try discriminate.
      destruct (instant_of_text x) as [i|] eqn:Ei; try discriminate.
      destruct (instant_of_text y) as [k|] eqn:Ek; try discriminate.
      fold (pget a setting). fold (pget b setting).
      rewrite (time_same a x i T0 Ea Ei), (time_same b y k T Eb Ek). injection H as <-. reflexivity.
    - (* QLe *)
      repeat (apply andb_true_iff in Hc; let X := fresh "T" in destruct Hc as [Hc X]).
      destruct (alookup a mem) as [[| | | |x| |]|] eqn:Ea; try discriminate. rewrite ?jlookup_alookup in H.
      destruct (alookup b mem) as [[| | | |y| |]|] eqn:Eb; try discriminate.
      destruct (instant_of_text x) as [i|] eqn:Ei; try discriminate.
      destruct (instant_of_text y) as [k|] eqn:Ek; try discriminate.
      fold (pget a setting). fold (pget b setting).
      rewrite (time_same a x i T0 Ea Ei), (time_same b y k T Eb Ek). injection H as <-. reflexivity.
    - (* QAnd *)
      apply andb_true_iff in Hc. destruct Hc as [Hc1 Hc2].
      destruct (jcond q1 mem) as [[|]|] eqn:E1; try discriminate.
      + rewrite (IHq1 true Hc1 eq_refl). cbn [bind]. apply IHq2; auto.
      + injection H as <-. rewrite (IHq1 false Hc1 eq_refl). reflexivity.
    - (* QOr *)
      apply andb_true_iff in Hc. destruct Hc as [Hc1 Hc2].
      destruct (jcond q1 mem) as [[|]|] eqn:E1; try discriminate.
      + injection H as <-. rewrite (IHq1 true Hc1 eq_refl). reflexivity.
      + rewrite (IHq1 false Hc1 eq_refl). cbn [bind]. apply IHq2; auto.
    - (* QNot *)
      destruct (jcond q mem) as [b|] eqn:E1; try discriminate. injection H as <-.
      rewrite (IHq b Hc eq_refl). reflexivity.
  Qed.

  Lemma sdc_sub p : In p (s_default_checked sc) -> In p (default_checked c).
  Proof.
    unfold default_checked, s_default_checked. rewrite Hfam. intros H. apply filter_In in H. destruct H as [H1 H2].
    apply filter_In. split; auto. apply in_map_iff in H1. destruct H1 as [s' [<- Hs']].
    destruct (Hsub s' Hs') as [s Hf]. destruct (find_slot_spec _ _ _ Hf) as [Hs Hn]. rewrite <- Hn. apply in_map. auto.
  Qed.

  Lemma constr_complete : forall n k,
    constr_complete_ok c sc k = true -> jconstr pok n sc mem k = true -> eval_constr vr pok n c setting k = Ok tt.
  Proof.
    induction n as [|n IH]; intros k Hok H; [discriminate|].
    change (jconstr_body pok (jconstr pok n sc mem) sc mem k = true) in H.
    destruct k; try discriminate Hok; cbn [jconstr_body] in H; cbn [eval_constr].
    - (* CAtLeastOne *)
      unfold at_least_one. destruct ps as [|p0 ps]; auto.
      assert (E : existsb (fun p => amem p setting) (p0 :: ps) = true).
      { apply existsb_exists in H. destruct H as [p [Hp Hh]]. apply existsb_exists. exists p. split; auto.
        rewrite jhas_alookup in Hh. destruct (alookup p mem) eqn:Ev; try discriminate. eapply Hin; eauto. }
      rewrite E. reflexivity.
    - (* CAtLeastOneDefault *)
      unfold at_least_one. simpl in Hok. destruct (default_checked c) as [|p0 ps] eqn:Ed; auto.
      destruct (s_default_checked sc) as [|q0 qs] eqn:Es; [discriminate|].
      assert (E : existsb (fun p => amem p setting) (p0 :: ps) = true).
      { apply existsb_exists in H. destruct H as [p [Hp Hh]]. apply existsb_exists. exists p. split.
        - rewrite <- Ed. apply sdc_sub. rewrite Es. exact Hp.
        - rewrite jhas_alookup in Hh. destruct (alookup p mem) eqn:Ev; try discriminate. eapply Hin; eauto. }
      rewrite E. reflexivity.
    - (* CMutEx *)
      simpl in Hok. rewrite s_dedup_udedup in H.
      rewrite (filter_ext_in' _ (fun p => jhas p mem)).
      + apply Nat.eqb_eq in H. rewrite H. reflexivity.
      + intros p Hp. rewrite jhas_alookup. apply has_eq. rewrite forallb_forall in Hok. apply Hok. apply udedup_In. auto.
    - (* CDepends *)
      simpl in Hok. apply andb_true_iff in Hok. destruct Hok as [Hps Hds].
      rewrite forallb_forall in Hps, Hds.
      assert (E : depends_ok ps ds setting = true).
      { unfold depends_ok. rewrite forallb_forall in *. intros p Hp. specialize (H p Hp).
        rewrite forallb_forall in *. intros dp Hdp. specialize (H dp Hdp).
        rewrite (has_eq p (Hps p Hp)), (has_eq dp (Hds dp Hdp)). rewrite !jhas_alookup in H.
        destruct (negb (match alookup p mem with Some _ => true | None => false end) &&
                  match alookup dp mem with Some _ => true | None => false end); auto.
        unfold jget, pget in *. rewrite jlookup_alookup in H.
        destruct (alookup p mem) as [v|] eqn:Ev.
        - destruct (stored p v Ev) as (x & s & s' & Hx & _ & _ & _ & _ & Hs & _). rewrite Hx.
          pose proof (jsame_bool _ _ _ false Hs) as B.
          destruct x as [[| [|] | | | | |]| | | |]; auto.
          destruct B as [_ B2]. rewrite (B2 eq_refl) in H. exact H.
        - rewrite (absent p (Hps p Hp) Ev). reflexivity. }
      rewrite E. reflexivity.
    - (* CRaiseIf *)
      simpl in Hok. destruct (jcond c0 mem) as [b|] eqn:Ej; try discriminate. destruct b; try discriminate.
      rewrite (cond_complete c0 false Hok Ej). reflexivity.
    - (* CWhen *)
      destruct (cco_when _ _ _ _ Hok) as [Hq Hbody].
      destruct (jcond c0 mem) as [b|] eqn:Ej; try discriminate.
      rewrite (cond_complete c0 b Hq Ej). cbn [bind]. destruct b; auto.
      rewrite forallb_forall in H. clear Hok. induction body as [|y body IHb]; [reflexivity|].
      cbn [constr_all]. rewrite (IH y); [|apply Hbody; left; auto | apply H; left; auto]. cbn [bind].
      apply IHb; intros; [apply H | apply Hbody]; right; auto.
    - (* CPatternValidator (2.0) *)
      destruct v; try discriminate Hok. simpl in Hok.
      destruct (find_slot c (u "pattern")) as [s|] eqn:Es; try discriminate Hok.
      unfold jget, pget in *. rewrite jlookup_alookup in H.
      destruct (alookup (u "pattern") mem) as [[| | | |p| |]|] eqn:Ev; try discriminate H.
      destruct (stored _ _ Ev) as (x & s0 & s' & Hx & Hf & Hf' & Ha & Hj & Hs & Hsh). rewrite Hx.
      rewrite Es in Hf. injection Hf as <-.
      assert (Hpj : is_pj x).
      { destruct (skind s); try discriminate Hok; apply Hsh; reflexivity. }
      destruct Hpj as [j ->].
      assert (Ej : j = JStr p).
      { destruct (skind s); try discriminate Hok; destruct (skind s'); simpl in Ha; try discriminate Ha;
          cbn [jsame encode] in Hs; congruence. }
      subst j. rewrite H. reflexivity.
    - (* CLegalHashes: not given, so not stored *)
      simpl in Hok. apply andb_true_iff in Hok. destruct Hok as [Hn Hk].
      assert (Ev : alookup (u "hashes") mem = None).
      { destruct (alookup (u "hashes") mem) as [v|] eqn:Ev; auto. destruct (Hcomp _ _ Ev) as [s [Hf Hc]].
        rewrite Hf in Hk. rewrite Hc in Hk. discriminate. }
      unfold pget. rewrite (absent _ Hn Ev). reflexivity.
    - (* CSocketOptions *)
      simpl in Hok. apply andb_true_iff in Hok. destruct Hok as [Hn Hk].
      unfold jget, pget in *. rewrite jlookup_alookup in H.
      destruct (alookup (u "options") mem) as [v|] eqn:Ev; [|rewrite (absent _ Hn Ev); reflexivity].
      destruct (stored _ _ Ev) as (x & s0 & s' & Hx & Hf & Hf' & Ha & Hj & Hs & Hsh). rewrite Hx.
      rewrite Hf in Hk. destruct (skind s0) eqn:Ek; try discriminate Hk.
      destruct (Hsh eq_refl) as [j ->].
      destruct (skind s'); simpl in Ha; try discriminate Ha. cbn [jsame encode] in Hs. subst j.
      destruct v as [| | | | | |om]; try discriminate H.
      assert (E : forallb (fun kv => mem_ustr (match ufind [95%N] (fst kv) 0 with Some i => utake (S i) (fst kv) | None => [] end) socket_prefixes &&
                                     match snd kv with JInt _ => true | JBool _ => negb (vr_sock_int vr) | _ => false end) om = true).
      { rewrite forallb_forall in *. intros kv Hkv. specialize (H kv Hkv). unfold socket_prefixes.
        apply andb_true_iff in H. destruct H as [H1 H2]. rewrite H1. destruct (snd kv); try discriminate H2. reflexivity. }
      rewrite E. reflexivity.
    - (* CProcessExt *)
      apply orb_true_iff in H.
      destruct (at_least_one (default_checked c) setting) as [[]| |] eqn:Ea; auto.
      + destruct H as [H | H].
        * exfalso. unfold at_least_one in Ea. apply existsb_exists in H. destruct H as [p [Hp Hh]].
          pose proof (sdc_sub p Hp) as Hpc. destruct (default_checked c) as [|p0 ps] eqn:Ed; [destruct Hpc|].
          assert (X : existsb (fun q => amem q setting) (p0 :: ps) = true).
          { apply existsb_exists. exists p. split; auto. rewrite jhas_alookup in Hh.
            destruct (alookup p mem) eqn:Ev; try discriminate. eapply Hin; eauto. }
          rewrite X in Ea. discriminate.
        * rewrite jhas_alookup in H. destruct (alookup (u "extensions") mem) eqn:Ev; try discriminate.
          change (amem (u "extensions") setting) with (amem (u "extensions") setting). rewrite (Hin _ _ Ev). reflexivity.
      + exfalso. unfold at_least_one in Ea. destruct (default_checked c) as [|q0 qs]; [discriminate|].
        destruct (existsb (fun p => amem p setting) (q0 :: qs)); discriminate.
    - (* CSkipBaseCheck *) reflexivity.
  Qed.
End CompCons.

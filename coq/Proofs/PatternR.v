(* Proofs/PatternR.v -- C10: the proofs are about the repaired variant of the
   model.  Inside the proof files the functions of Model/PatternSyntax.v that
   take the variant record are abbreviated to their `repaired` instance; the
   flag tests they contain evaluate by the lemmas below.                      *)
From Coq Require Import NArith List Bool.
From V Require Import Model.PatternSyntax.
Import ListNotations.
Open Scope N_scope.

Notation mk_hex_from_tree := (PatternSyntax.mk_hex_from_tree repaired).
Notation visit_terminal := (PatternSyntax.visit_terminal repaired).
Notation quote_if_needed := (PatternSyntax.quote_if_needed repaired).
Notation print_float := (PatternSyntax.print_float repaired).
Notation pr_const := (PatternSyntax.pr_const repaired).
Notation str_const := (PatternSyntax.str_const repaired).
Notation name_tok := (PatternSyntax.name_tok repaired).
Notation pr_comp := (PatternSyntax.pr_comp repaired).
Notation pr_path := (PatternSyntax.pr_path repaired).
Notation pr_qual := (PatternSyntax.pr_qual repaired).
Notation pr := (PatternSyntax.pr repaired).
Notation print := (PatternSyntax.print repaired).
Notation print_text := (PatternSyntax.print_text repaired).
Notation append_operand := (PatternSyntax.append_operand repaired).
Notation m_cmp_or := (PatternSyntax.m_cmp_or repaired).
Notation m_cmp_and := (PatternSyntax.m_cmp_and repaired).
Notation py_str := (PatternSyntax.py_str repaired).
Notation path_loop := (PatternSyntax.path_loop repaired).
Notation m_object_path := (PatternSyntax.m_object_path repaired).
Notation m_first_component := (PatternSyntax.m_first_component repaired).
Notation v_literal := (PatternSyntax.v_literal repaired).
Notation v_orderable := (PatternSyntax.v_orderable repaired).
Notation v_pstep := (PatternSyntax.v_pstep repaired).
Notation v_opc := (PatternSyntax.v_opc repaired).
Notation v_path := (PatternSyntax.v_path repaired).
Notation v_set_children := (PatternSyntax.v_set_children repaired).
Notation v_set := (PatternSyntax.v_set repaired).
Notation tok_of_const := (PatternSyntax.tok_of_const repaired).
Notation toks_of_consts := (PatternSyntax.toks_of_consts repaired).
Notation psteps_of_comp := (PatternSyntax.psteps_of_comp repaired).
Notation unv_path := (PatternSyntax.unv_path repaired).
Notation unv_cmp := (PatternSyntax.unv_cmp repaired).
Notation unv_qual := (PatternSyntax.unv_qual repaired).
Notation unv := (PatternSyntax.unv repaired).
Notation unvisit := (PatternSyntax.unvisit repaired).
Notation ma_name := (PatternSyntax.ma_name repaired).
Notation ma_comp := (PatternSyntax.ma_comp repaired).
Notation ma_path := (PatternSyntax.ma_path repaired).
Notation ma := (PatternSyntax.ma repaired).
Notation meaning_ast := (PatternSyntax.meaning_ast repaired).

(* ---- the repaired variant, with its flags evaluated ---- *)

Lemma print_float_rep : forall f,
  print_float f = (if f_neg f then [45] else []) ++ or0 (f_ip f) ++ [46] ++ or0 (f_fp f).
Proof. reflexivity. Qed.

Lemma quote_if_needed_rep : forall x,
  quote_if_needed x = if negb (starts_with_quote x) && negb (ident_ok x) then [c_quote] ++ x ++ [c_quote] else x.
Proof. reflexivity. Qed.

Lemma mk_hex_rep : forall s,
  mk_hex_from_tree s = match prefixed_body 104 s with
                       | Some body => if hex_pairs body then Ok (CHex body) else Raise ValueError
                       | None => Raise ValueError
                       end.
Proof. reflexivity. Qed.

Lemma append_operand_rep : forall newop isand ops rt b,
  append_operand newop isand ops rt b =
  (y <- expr_of b ;; r <- bool_rts_e newop None (ops ++ [y]) ;; Ok (VExpr (EBool newop (ops ++ [y])) (Some r))).
Proof. reflexivity. Qed.

(* Proofs/C19InheritC02.v -- `custom types inherit`, end to end for C02: the generic
   soundness theorem of the schema family (Proofs/SchemaC02.strict_sound_partial_gen, stated for an
   arbitrary class table) instantiated at the library world EXTENDED by a registered custom type.
   Its side condition world_refines is Proofs/C19InheritTables.extended_world_refines_lemma; the
   coverage premise class_proved is the schema family's own (Proofs/SchemaProved.v) and grows as
   that family's per-kind lemmas are proved -- it is shown non-vacuous on a custom marking.       *)
From Coq Require Import NArith ZArith List String Bool.
From V Require Import Base.UString Base.Json Model.SchemaTypes Model.PyBase Model.Schema
     Spec.StixValid Spec.SchemaRefine Proofs.SchemaScope Proofs.SchemaProved Proofs.SchemaKnot Proofs.SchemaC02 Proofs.SchemaTables
     Proofs.SchemaCovProved Proofs.SchemaCovKnot Proofs.SchemaCovC02
     Gen.Tables Gen.SpecTables Model.RegistryBuilder Proofs.C19Inherit Proofs.C19InheritRefine Proofs.C19InheritTables.
From V Require Model.Registry.
Import ListNotations.

Lemma custom_type_strict_sound_lemma :
  forall (vr : variant) (ev : env) bv k V n xt user cn
         (pattern_ok : ver -> ustring -> bool) (selectors_ok : list (ustring * pval) -> pval -> result bool)
         (fuel m : nat) (req : request) oc inner dfl hc,
    variant_sound vr = true -> env_ok ev = true ->
    forallb slot_kind_ok user = true -> name_ok_for k n = true ->
    req_strict req = true -> req_scope req = true ->
    run vr ev (world_add lib k V n (custom_cls bv k V n xt user cn)) pattern_ok selectors_ok fuel req
      = Ok (PObject oc inner dfl hc) ->
    class_proved m (world_add lib k V n (custom_cls bv k V n xt user cn)) oc = true ->
    hc = false /\
    exists f, valid_obj (world_add spec_relaxed k V n (custom_cls bv k V n xt user cn)) pattern_ok f oc
                        (encode false (PObject oc inner dfl hc)) = true.
Proof.
  intros vr ev bv k V n xt user cn pok sok fuel m req oc inner dfl hc Hvr Hev HK HN Hst Hsc Hrun Hcp.
  eapply strict_sound_partial_gen; eauto.
  apply extended_world_refines_lemma; [exact HK | apply custom_cid_fresh_lemma | exact HN].
Qed.

(* the coverage premise is satisfiable at a custom type: a custom marking with two string-like properties *)
Definition ex_marking : cls :=
  custom_cls {| b_conf_range := true |} CMarking V21 (u "x-ex-marking") None
             [mk_slot (u "prop1") KString true DNone; mk_slot (u "level") (KEnum [u "low"; u "high"]) false DNone] (u "ExMarking").

Lemma ex_marking_covered_lemma :
  class_proved 1 (world_add lib CMarking V21 (u "x-ex-marking") ex_marking) (cid ex_marking) = true.
Proof. vm_compute. reflexivity. Qed.

(* built-in classes stay covered in the extended world *)
Lemma ex_builtin_still_covered_lemma :
  forallb (fun c => class_proved cover_depth (world_add lib CMarking V21 (u "x-ex-marking") ex_marking) c) lib_covered = true.
Proof. vm_compute. reflexivity. Qed.

(* ---------------- with the schema family's larger coverage predicate (class_proved2) ---------------- *)

Lemma custom_type_strict_sound_wide_lemma :
  forall (vr : variant) (ev : env) bv k V n xt user cn
         (pattern_ok : ver -> ustring -> bool) (selectors_ok : list (ustring * pval) -> pval -> result bool)
         (fuel m : nat) (req : request) oc inner dfl hc,
    variant_sound vr = true -> env_ok ev = true ->
    forallb slot_kind_ok user = true -> name_ok_for k n = true ->
    req_strict req = true -> req_scope req = true ->
    run vr ev (world_add lib k V n (custom_cls bv k V n xt user cn)) pattern_ok selectors_ok fuel req
      = Ok (PObject oc inner dfl hc) ->
    class_proved2 m (world_add lib k V n (custom_cls bv k V n xt user cn)) oc = true ->
    hc = false /\
    exists f, valid_obj (world_add spec_relaxed k V n (custom_cls bv k V n xt user cn)) pattern_ok f oc
                        (encode false (PObject oc inner dfl hc)) = true.
Proof.
  intros vr ev bv k V n xt user cn pok sok fuel m req oc inner dfl hc Hvr Hev HK HN Hst Hsc Hrun Hcp.
  eapply strict_sound_partial2_gen; eauto.
  apply extended_world_refines_lemma; [exact HK | apply custom_cid_fresh_lemma | exact HN].
Qed.

(* the premise is satisfiable at custom types of every kind *)
Definition bv1 : bvar := {| b_conf_range := true |}.
Definition ex_user : list slot :=
  [mk_slot (u "prop1") KString true DNone; mk_slot (u "count_it") (KInt (Some 0%Z) None) false DNone;
   mk_slot (u "seen_ref") (KRef true [] [u "identity"] V21) false DNone;
   mk_slot (u "x_tags") (KList KString) false DNone].
Definition ex_user20 : list slot :=
  [mk_slot (u "prop1") KString true DNone; mk_slot (u "count_it") (KInt (Some 0%Z) None) false DNone;
   mk_slot (u "x_tags") (KList KString) false DNone].

Definition ex_object21 : cls := custom_cls bv1 CObject V21 (u "x-ex-object") None ex_user (u "ExObject").
Definition ex_object20 : cls := custom_cls bv1 CObject V20 (u "x-ex-object") None ex_user20 (u "ExObject20").
Definition ex_observable21 : cls := custom_cls bv1 CObservable V21 (u "x-ex-observable") None ex_user (u "ExObservable").
Definition ex_observable20 : cls := custom_cls bv1 CObservable V20 (u "x-ex-observable") None ex_user20 (u "ExObservable20").
Definition ex_extension21 : cls :=
  custom_cls bv1 CExtension V21 (u "x-ex-ext") (Some Registry.XPropertyExt) ex_user20 (u "ExExtension").

Definition covered_in_extended (k : ckind) (V : ver) (n : ustring) (c : cls) : bool :=
  class_proved2 cover2_depth (world_add lib k V n c) (cid c).

Lemma ex_custom_types_covered_lemma :
  covered_in_extended CObject V21 (u "x-ex-object") ex_object21 = true /\
  covered_in_extended CObject V20 (u "x-ex-object") ex_object20 = true /\
  covered_in_extended CObservable V21 (u "x-ex-observable") ex_observable21 = true /\
  covered_in_extended CObservable V20 (u "x-ex-observable") ex_observable20 = true /\
  covered_in_extended CExtension V21 (u "x-ex-ext") ex_extension21 = true /\
  covered_in_extended CMarking V21 (u "x-ex-marking") ex_marking = true.
Proof. repeat split; vm_compute; reflexivity. Qed.

(* the built-in classes the wide theorem covers stay covered when a custom object type is added *)
Lemma ex_builtins_still_covered_wide_lemma :
  forallb (fun c => class_proved2 cover2_depth (world_add lib CObject V21 (u "x-ex-object") ex_object21) c) lib_covered2 = true.
Proof. vm_compute. reflexivity. Qed.
